module verif

go 1.21

require (
	github.com/anishathalye/porcupine v1.3.0
	github.com/bradenaw/juniper v0.0.0
)

replace github.com/bradenaw/juniper => /repo
