#!/usr/bin/env bash
# The one entry point of the runtime monitors.
#
#   ./check.sh <Cxx> quick|thorough        decide property Cxx on /repo's current working tree
#   ./check.sh <Cxx> --replay <file>       re-run the single case recorded in a replay file
#   ./check.sh --build-all                 build every monitor (setup; warms the build cache)
#
# Exit 0: held on everything explored (KNOWN-FINDING / INCONCLUSIVE lines may be printed).
# Exit 1: "VIOLATION property=<id> replay=<path>" printed.
# Exit 2: the machinery itself failed (build error, coverage floor not met, watchdog).
set -u
cd "$(dirname "$0")"
export VERIF_DIR="$PWD"
export GOFLAGS=-mod=mod GOPROXY=off GOSUMDB=off GOTOOLCHAIN=local
export GOMAXPROCS_DEFAULT="${GOMAXPROCS:-}"

ALL="C01 C02 C03 C04 C05 C06 C07 C08 C09 C10 C11 C12 C13 C14 C15 C16 C17 C18 C19 C20"

# Variants per property and tier. A variant is a colon-separated list of words:
#   race        run the binary built with -race (reports are counted from the race log)
#   gmpN        GOMAXPROCS=N
#   atc0|atc1   GODEBUG=asynctimerchan=0|1 (Go 1.23 timer semantics on/off; the monitors' module
#               says go 1.21, so atc1 is the default)
#   anything else is interpreted by the monitor itself (which part of its workload to run)
# Properties whose monitor also builds and runs as a 32-bit (GOARCH=386) binary: one more variant
# in the thorough tier (and in the quick tier where it is cheap and the code is full of atomics).
ARCH386_THOROUGH="C01 C02 C03 C04 C05 C06 C07 C08 C09 C10 C11 C12 C13 C14 C15 C16 C17 C18 C19 C20"
ARCH386_QUICK="C06 C13 C18"
variants() {
  local base; base=$(variants_base "$1" "$2")
  case " $ARCH386_THOROUGH " in *" $1 "*) [ "$2" = thorough ] && base="$base 386" ;; esac
  case " $ARCH386_QUICK " in *" $1 "*) [ "$2" = quick ] && base="$base 386" ;; esac
  echo "$base"
}
variants_base() {
  local prop=$1 tier=$2
  case "$prop:$tier" in
    C01:quick)     echo "seq race:conc" ;;
    C01:thorough)  echo "seq race:conc race:conc:gmp4 conc:gmp2" ;;
    C02:*|C03:*|C04:*|C05:*|C07:*|C15:*|C19:*) echo "seq" ;;
    C06:*)         echo "seq race:owner" ;;
    C08:quick|C09:quick)       echo "seq race:conc" ;;
    C08:thorough|C09:thorough) echo "seq race:conc race:conc:gmp2 conc:gmp4" ;;
    C11:quick)    echo "race aim" ;;      # aim: only the timer-expiry aiming sweep, uninstrumented so that it reaches ~10^6 cycles
    C11:thorough) echo "race aim race:atc0 norace:gmp4 race:gmp2" ;;
    C17:quick)    echo "race sweep" ;;    # sweep: only the concurrent-trigger-callers phase sweep, uninstrumented (~10^6 rounds)
    C17:thorough) echo "race sweep race:atc0 norace:gmp4 race:gmp2" ;;
    C20:quick)    echo "race" ;;
    C20:thorough) echo "race race:atc0 norace:gmp4 race:gmp2" ;;
    C13:quick) echo "race race:gmp3" ;;   # gmp3: GOMAXPROCS below the CPU count (what 'parallelism <= 0' must follow)
    *:quick)       echo "race" ;;
    *:thorough)    echo "race norace race:gmp2 norace:gmp4 race:gmp1" ;;
  esac
}

# VERIF_REPO (default /repo) lets the monitors be run against a scratch copy of juniper (used when
# validating the monitors against seeded breakage); registered commands never set it.
MODFLAG=""
if [ -n "${VERIF_REPO:-}" ] && [ "$VERIF_REPO" != /repo ]; then
  mkdir -p .build/alt
  ALT=".build/alt/$(echo "$VERIF_REPO" | tr -c 'A-Za-z0-9\n' '_')"
  sed "s#=> /repo#=> $VERIF_REPO#" go.mod >"$ALT.mod"
  cp go.sum "$ALT.sum"
  MODFLAG="-modfile=$ALT.mod"
  export VERIF_ALT=1   # evidence and replay files of such runs go under .build/, never to evidence/
  BINTAG=".$(basename "$ALT")"
else
  BINTAG=""
fi

build() { # build <prop> <race|norace>
  local prop=$1 kind=$2
  local pkg="./mon/$(echo "$prop" | tr 'A-Z' 'a-z')"
  local out=".build/bin/mon$prop$BINTAG.$kind"
  mkdir -p .build/bin
  if [ "$kind" = race ]; then
    go build $MODFLAG -tags verif -race -o "$out" "$pkg"
  elif [ "$kind" = 386 ]; then
    # 32-bit build of the library and the monitor (int is 32 bits, 64-bit atomics need alignment);
    # the race detector does not exist for this target
    GOARCH=386 go build $MODFLAG -tags verif -o "$out" "$pkg"
  else
    go build $MODFLAG -tags verif -o "$out" "$pkg"
  fi
}

if [ "${1:-}" = "--build-all" ]; then
  rc=0
  for p in $ALL; do
    [ -d "mon/$(echo "$p" | tr 'A-Z' 'a-z')" ] || continue
    kinds=$( (variants "$p" quick; echo; variants "$p" thorough) | tr ' ' '\n' | awk '/(^|:)race(:|$)/{print "race"; next} /(^|:)386(:|$)/{print "386"; next} NF{print "norace"}' | sort -u)
    for k in $kinds; do
      build "$p" "$k" || { echo "build of $p ($k) failed"; rc=2; }
    done
  done
  exit $rc
fi

PROP=${1:?usage: check.sh <Cxx> quick|thorough|--replay file}
MODE=${2:-quick}
[ -d "mon/$(echo "$PROP" | tr 'A-Z' 'a-z')" ] || { echo "no monitor for $PROP"; exit 2; }

REPLAY_CASE=""
if [ "$MODE" = "--replay" ]; then
  FILE=${3:?--replay needs a file}
  export VERIF_SEED=$(jq -r .seed "$FILE")
  MODE=$(jq -r .tier "$FILE")
  VARS=$(jq -r '.variant // ""' "$FILE")
  [ -n "$VARS" ] || VARS="seq"
  REPLAY_CASE=$(jq -r '.case // ""' "$FILE")
  [ -n "$REPLAY_CASE" ] || REPLAY_CASE="__all__"
else
  VARS=$(variants "$PROP" "$MODE")
fi
case "$MODE" in quick|thorough) ;; *) echo "bad tier $MODE"; exit 2 ;; esac
export VERIF_TIER=$MODE
export VERIF_SEED=${VERIF_SEED:-1}

LIMIT=1500
[ "$MODE" = thorough ] && LIMIT=7200

RUN=".build/run/$PROP.$$"
REPLAYDIR=replay
[ -n "${VERIF_ALT:-}" ] && REPLAYDIR=.build/alt-replay
rm -rf "$RUN"; mkdir -p "$RUN" "$REPLAYDIR" evidence
trap 'rm -rf "$RUN"' EXIT

# Build what is needed, from /repo's current working tree.
need_race=0; need_norace=0; need_386=0
for v in $VARS; do
  case ":$v:" in *:race:*) need_race=1 ;; *:386:*) need_386=1 ;; *) need_norace=1 ;; esac
done
if [ $need_386 = 1 ]; then build "$PROP" 386 || { echo "MACHINERY-ERROR property=$PROP build failed (386)"; exit 2; }; fi
if [ $need_race = 1 ]; then build "$PROP" race || { echo "MACHINERY-ERROR property=$PROP build failed (race)"; exit 2; }; fi
if [ $need_norace = 1 ]; then build "$PROP" norace || { echo "MACHINERY-ERROR property=$PROP build failed"; exit 2; }; fi

crashed=0
watchdog=0
i=0
parts=""
for v in $VARS; do
  i=$((i+1))
  kind=norace
  case ":$v:" in *:race:*) kind=race ;; *:386:*) kind=386 ;; esac
  gmp=""; godebug=""
  for w in $(echo "$v" | tr ':' ' '); do
    case "$w" in
      gmp*) gmp=${w#gmp} ;;
      atc0) godebug="asynctimerchan=0" ;;
      atc1) godebug="asynctimerchan=1" ;;
    esac
  done
  part="$RUN/part.$i.json"
  (
    export VERIF_VARIANT="$v" VERIF_PART_OUT="$part"
    [ -n "$gmp" ] && export GOMAXPROCS="$gmp"
    [ -n "$godebug" ] && export GODEBUG="$godebug"
    if [ -n "$REPLAY_CASE" ] && [ "$REPLAY_CASE" != "__all__" ]; then export VERIF_CASE="$REPLAY_CASE"; fi
    if [ "$kind" = race ]; then
      export VERIF_RACE_LOG="$PWD/$RUN/race.$i"
      export GORACE="halt_on_error=0 exitcode=0 log_path=$PWD/$RUN/race.$i"
    fi
    exec timeout -s QUIT -k 20 "$LIMIT" ".build/bin/mon$PROP$BINTAG.$kind" >"$RUN/out.$i" 2>"$RUN/err.$i"
  )
  rc=$?
  cat "$RUN/out.$i"
  if [ $rc -eq 0 ] && [ -s "$part" ]; then
    parts="$parts $part"
  elif [ $rc -eq 124 ] || [ $rc -eq 137 ]; then
    watchdog=1
    keep="$REPLAYDIR/$PROP-watchdog-$(echo "$v" | tr -c 'A-Za-z0-9\n' '_')-s$VERIF_SEED.log"
    tail -c 400000 "$RUN/err.$i" >"$keep"
    echo "INCONCLUSIVE property=$PROP variant=$v wall-clock watchdog (${LIMIT}s) fired; goroutine dump in $PWD/$keep"
  else
    crashed=1
    keep="$REPLAYDIR/$PROP-crash-$(echo "$v" | tr -c 'A-Za-z0-9\n' '_')-s$VERIF_SEED.log"
    { echo "monitor process for $PROP variant=$v seed=$VERIF_SEED tier=$MODE died with exit code $rc"; tail -c 400000 "$RUN/err.$i"; } >"$keep"
    echo "VIOLATION property=$PROP replay=$PWD/$keep"
    echo "  [crash] monitor process died (exit $rc): $(grep -m1 -E '^(fatal error|panic):' "$RUN/err.$i" || tail -n 1 "$RUN/err.$i")"
  fi
  # Keep stderr of failed parts visible.
  if [ $rc -ne 0 ]; then tail -n 30 "$RUN/err.$i" >&2; fi
done

final=0
if [ -n "$parts" ]; then
  bin=".build/bin/mon$PROP$BINTAG.norace"; [ $need_norace = 1 ] || bin=".build/bin/mon$PROP$BINTAG.race"
  "$bin" --merge $parts
  final=$?
else
  final=2
fi
if [ $crashed = 1 ]; then exit 1; fi
if [ $final -ne 0 ]; then exit $final; fi
if [ $watchdog = 1 ]; then exit 2; fi
exit 0
