#!/usr/bin/env python3
"""Generates /verif/MANIFEST.json. A property is claimed iff its monitor directory mon/cXX exists
and it is listed in BUILT; everything else goes under not_applicable with the reason."""
import json, os, subprocess, sys

ROOT = os.path.dirname(os.path.dirname(os.path.abspath(__file__)))

BUILT = set(os.environ.get("VERIF_BUILT", "").split()) or None

P = {
 "C01": dict(level="exploration", tech="reference-model monitor (sorted-slice model) over seeded hostile histories; Go race detector for the concurrent-Put clause",
   text="Runtime reference-model monitoring: every return value of tree.Map/Set (Put/Delete/Get/Contains/Len/First/Last/Iterate/Range/RangeReverse, through copies of the value too) is compared on the spot with an independent sorted-slice model over thousands of seeded histories from five generators (small-universe churn; ascending/descending/sawtooth/random fills to node-capacity boundaries; six targeted drain orders), thirteen key/value/comparator configurations (less- and compare-constructed, three-way compares returning arbitrary magnitudes, reversed and coarse orders, struct / string / nil-intolerant pointer keys, one-byte and string values, Map and Set), all 9 bound-kind pairs. The concurrent clause runs writers on disjoint present keys against readers of other keys under the race detector and checks that every Put took effect. Held = no disagreement and no race report on the executions produced.",
   note="Trusted: Go toolchain and race detector; the sorted-slice model (tk/tk.go, ~80 lines, written from the documentation); comparators are strict weak orders. Explored, not exhaustive: histories are sampled, schedules are whatever the runtime plus seeded perturbation produce."),
 "C02": dict(level="exploration", tech="reference-model monitor with per-iterator obligation tracker; comparator-call and CPU budgets for 'never spins'",
   text="Runtime monitoring of live iterators under mutation: up to four simultaneously live forward/reverse bounded iterators per history; between Next calls the driver mutates keys chosen relative to each iterator's parked position (the parked key itself, neighbours, runs that split/merge/rotate the parked node, drain to empty, refill). An online obligation tracker (must / candidate sets per iterator) decides skipped keys, stale values, non-monotone or out-of-bounds yields, yields after exhaustion; every Next runs under panic capture and a comparator-call budget; configurations include nil-intolerant pointer keys, a dedicated group makes exactly 2^8 and 2^16 structural modifications between a reseek and the next call, and a twin group builds other collections of the same type between two Next calls (shared state between collections). The tree hook is used only to count structural events around the parked node. Thorough tier only: exactly 2^32 modifications between two Next calls for Iterate/Range/RangeReverse of Map and Set.",
   note="Trusted: the model and the obligation rule (DESIGN.md C02), which was derived from the statement and checked against the cursor design so that legitimately missed insertions (between the last yielded key and the parked key) are not demanded. Sampled histories."),
 "C03": dict(level="exploration", tech="invariant monitor at a build-tagged hook (raw node walk) after every operation + comparator-call counting",
   text="Runtime invariant monitoring: after every single operation of scripted and random fills/drains the monitor walks the raw nodes (verif hook) and judges occupancy (7..15 keys except the root), equal leaf depth, child/parent links, strict in-order keys, single reachability, key count == Len, the depth bound 1+floor(log8((n+1)/2)), zeroed vacated slots and absence of any token the model does not hold (retained garbage; additionally a reflection-based reachability scan from the Map/Set value finds tokens parked in ANY field, e.g. a recycled spare node), and counts comparator calls of Get/Contains against 15 per level. Structural events (steal-left/right, merge, cascades, root split/collapse) are classified by diffing consecutive walks and each class has a coverage floor. Comparator calls are attributed to the node whose keys they touch (more than 15 per node is a violation) and every internal node that has just become full is probed at once.",
   note="Trusted: the hook copies fields faithfully (container/tree/verif_export.go, read-only); the bounds are restated in the monitor, not taken from the code. 'Can be garbage collected' is decided as 'not referenced from any slot of a reachable node' (exact for the live structure), not through finalizers."),
 "C04": dict(level="exploration", tech="reference-model monitor (slice model) + raw-ring invariant at a build-tagged hook; novelty-guided abstract-state cover",
   text="Runtime reference-model monitoring of deque.Deque: every operation outcome (value or panic) is compared with a slice model, with a full read-back (Len, Front, Back, every Item, periodically Iterate) after every operation; the raw ring (verif hook) must hold zero values outside the live window. Eight element types (pointer, int, string, uint8, struct{}, interface, 608-byte and >4 KiB structs). Workloads: biased random walks plus a novelty-guided cover of abstract states (capacity, front offset, length, allocated?) for small capacities, applying every operation class from every newly reached state.",
   note="Trusted: slice model; hook copies the ring faithfully. Panics are compared as 'panicked or not' (any panic value accepted)."),
 "C05": dict(level="exploration", tech="reference-model monitor (multiset / map model) with full observation after every step",
   text="Runtime reference-model monitoring of xheap.Heap and PriorityQueue: heap elements carry unique ids so the multiset is exact; after every PriorityQueue step the whole mapping is read back (Len, Contains and Priority of every key of the universe, Peek in argmin). Histories mix all operations at all ratios with heavy priority ties, less- and compare-constructed, initial slices with duplicate keys, and targets chosen by heap position class (first / last / leaf / inner); heaps and queues up to 70000 items with new minima/maxima at every plateau, and a sweep of every size 2^k-1, 2^k, 2^k+1 (k <= 16).",
   note="Trusted: the multiset/map model. Where the statement leaves a choice (which of several minimal items, which duplicate's priority) every allowed outcome is accepted."),
 "C06": dict(level="exploration", tech="reference-model monitor (slice of handles) with double walk after every operation; complete enumeration of handle pairs for short lists; Go race detector as the oracle for 'Value is never touched'",
   text="Runtime reference-model monitoring of xlist.List: after every operation the forward walk (Front/Next) and the backward walk (Back/Prev) are compared by pointer identity with a slice-of-handles model, plus Len, end links, untouched Values and unlinked removed nodes; walks are step-bounded so a cycle is a verdict. For list lengths 1..6 every (node, mark) pair of every operation is enumerated from several permutation states; random histories with Clear and regrowth on top. A second, race-built variant lets owner goroutines write node.Value outside the list's lock while all ten operations run: any access of the library to Value is a race report, a lost owner update a violation.",
   note="Trusted: the slice model. Nodes dropped by Clear are not required to be unlinked (the statement's 'removed node' is read as Remove)."),
 "C07": dict(level="exploration", tech="reference functions + reference lazy evaluator (pull-count oracle) over complete small scopes and random inputs",
   text="Runtime monitoring of every iterator/stream/xslices combinator, constructor and reducer against reference functions written from the documentation, on instrumented sources that count pulls: outputs must equal the reference prefix after every Next, pulls must be 0 after construction and never exceed what the minimal lazy strategy needs for the outputs requested so far, the end must stick, and the three flavours must agree. Complete small scope (all sequences over {0,1,2} up to length 6, all predicate masks, all n / chunk sizes, all nestings for Flatten/Join) plus random larger inputs, random pipelines, and 20-30 million item skip stretches (a recursion in place of a loop overflows the stack). Source-position oracle: run directly over the library's own sources, after j requests the rest of the same source object must equal source[need(j):], also for named idioms such as Join(First(it,k), it) and paging loops.",
   note="Trusted: the reference functions and need(j) evaluators (a few lines each). same/eq arguments are equivalence relations."),
 "C08": dict(level="fault_enumeration", tech="fault enumeration (every fault position x kind x combinator) against the fault-free reference; race detector for goroutine-backed combinators",
   text="Fault enumeration at runtime: for every stream combinator, reducer, parallel.MapStream and pipelines of them, every input length 0..6, every fault position p and kind (fatal source error, callback error at its p-th call, expired per-call context, transient source error followed by recovery, sequences of faults; the injected error VALUE is a sentinel, context.Canceled, a wrapped context.Canceled, context.DeadlineExceeded or a wrapped stream.End) is injected through instrumented sources and callbacks; outputs before a fatal error must be a prefix of the fault-free output for the first p items and then exactly E; after transient faults the concatenated output must equal the fault-free output. Goroutine-backed combinators are repeated with seeded perturbation under the race detector, including Merge with one input blocked in a context-ignoring Next while another input fails.",
   note="Trusted: fault-free reference functions; probes fail before consuming. Timing of faults relative to the consumer is explored, not enumerated."),
 "C09": dict(level="fault_enumeration", tech="history checker over the probes' own Next/Close log (close-exactly-once, no use after close, no Next||Close overlap) across enumerated stop and fault points",
   text="Runtime monitoring of stream ownership: every stream handed to the library (sources, Flatten's inner streams, Join's arguments, Merge's inputs) is an instrumented probe; at the moment the owning reducer returns / the returned stream's Close returns the probe must have been closed exactly once, and it must never see Next after Close, a second Close, or Next overlapping Close (Dekker-style atomics). Enumerated over every owner x input length x consumer stop point x fault position x context state at construction / at the call (live, already cancelled, already expired), with perturbed timing for goroutine-backed owners under the race detector.",
   note="Trusted: the probe's atomics. Counters are read at the return of the owning call with no grace period."),
 "C10": dict(level="exploration", tech="offline history checker over unique-value event logs (integrity, per-sender FIFO, no-loss-before-close, stickiness) + goroutine-dump quiescence verdict for 'no stuck call'; race detector",
   text="Runtime monitoring of stream.Pipe under stress: thousands of short concurrent histories (1..8 senders mixing Send/TrySend, buffer sizes 0/1/2/8, Close(nil)/Close(err), receiver reading to the end or closing early, expiring per-call contexts, seeded perturbation) are logged with a logical clock at the client boundary and checked offline: only sent values received, at most once, per-sender FIFO, every value acknowledged before Close was called is received before End/err, End/err sticks. Blocked calls are decided by a goroutine-dump quiescence test, never by a wall-clock deadline. Phase sweeps aim a spinning sender at the two polls of Next; crowd rounds release more senders than the buffer has slots (some with dead contexts) against an idle and then closing receiver. Built with -race.",
   note="Trusted: the logical clock (atomic counter) and the checker; schedules explored by repetition, the evidence counts distinct interleaving signatures and how often data and close were both ready."),
 "C11": dict(level="exploration", tech="offline history checker (conservation, batch bounds, age lower bound from arrival/receipt timestamps, error ordering) + quiescence verdict for Close; race detector",
   text="Runtime monitoring of stream.Batch/BatchFunc: instrumented sources stamp each item just before handing it over and the consumer stamps after Next returns, so the measured age of an under-filled batch bounds its true age from above and 'age >= maxWait' is sound under any load. Checked per run: concatenation == source prefix, no empty batch, size <= batchSize (BatchFunc: full() not already true on a proper prefix), under-filled-before-end only after maxWait, error after preceding items, Close returns (quiescence verdict), no surviving goroutine, source closed once. Arrival patterns x consumer patterns x maxWait (1 ms .. 1 h and MaxInt64) x batchSize x source error values x Close moments, under -race. A second, uninstrumented variant aims the item that fills a batch at the instant the flush timer expires (about 10^6 cycles) and then judges the age of the next under-filled batch; a poison group lets one generation of streams end with an armed, unobserved timer and judges fresh streams afterwards.",
   note="Trusted: monotonic clock readings used only as lower bounds. 'Handed to a waiting consumer rather than held back' is decided in a bounded form (>= 1000 x maxWait and >= 10 s) or as inconclusive."),
 "C12": dict(level="exploration", tech="offline history checker over unique values (multiset, per-input order, termination) + goroutine-dump leak check; race detector",
   text="Runtime monitoring of chans.Merge, chans.Replicate and stream.Merge with unique (input, seq) values: output multiset == union of inputs, each input's order preserved, the call finishes exactly when all inputs are closed and delivered (arity 0,1,2,3,4,7 so each code path of chans.Merge runs), stream.Merge ends only after all inputs, reports an input's own error, terminates with zero inputs, and after Close no goroutine of it survives even when inputs block (goroutine-dump parser); input error values incl. context.Canceled; consumer per-call context expiry followed by further reading; error values that wrap stream.End; endless inputs that ignore their context (a goroutine that keeps pulling after Close is decided by CPU time plus goroutine dumps). Under -race.",
   note="Trusted: checker; termination decided by quiescence verdict."),
 "C13": dict(level="exploration", tech="history checker over per-index invocation counts, concurrency gauge, context state at entry; race detector for the barrier clause",
   text="Runtime monitoring of parallel.Do/DoContext/Map/MapContext: per-index invocation counters, a concurrency gauge with high-water mark, out[i] == f(in[i]), no invocation running or starting after the call returned, plain (unsynchronised) writes in f read by the caller after return under the race detector (barrier clause), returned error is one a call returned or the caller's ctx error, other in-flight calls see their ctx cancelled, at most parallelism-1 calls start with an already-cancelled ctx while the caller's ctx is live. Grid of n x parallelism x latency patterns x failing sets x caller-context states, plus n up to 70000 and GOMAXPROCS changed inside the process (and a second variant run with GOMAXPROCS=3).",
   note="Trusted: atomics of the probes. Schedules explored."),
 "C14": dict(level="exploration", tech="online monitor (in-flight bound at every source pull) + offline order/exactly-once/error checks + quiescence verdict; race detector",
   text="Runtime monitoring of parallel.MapIterator/MapStream: outputs == map f of the source in order, exactly once; at every source pull the number of items taken minus consumer Next calls begun never exceeds bufferSize + parallelism + 1 (online); no deadlock (quiescence verdict); MapStream errors are ones the source or f returned (never a library-caused cancellation), never after a result beyond the failed item; Close at any moment returns with all workers stopped and the source closed once. Latency patterns force reordering up to the buffer limit; sources that block in Next or only produce after the consumer has received earlier results. GOMAXPROCS changed in-process with parallelism <= 0. Under -race.",
   note="Trusted: probes; the in-flight check uses an upper bound on yielded items so it can only under-report."),
 "C15": dict(level="exploration", tech="reference-model monitor: snapshot-or-panic automaton over a systematic (state x position x mid-iteration operation) enumeration",
   text="Runtime monitoring of Deque/Heap/PriorityQueue iterators: for every small container state (deque: every abstract (capacity, front, length) state with capacity <= 8 reached through the public API), every iterator position and every mid-iteration operation (pushes, pops incl. the one that empties, Set, Grow, Shrink, Update lower/higher/equal/new, Remove present/absent) the continued iteration is judged by a snapshot-or-panic automaton: yields must continue the snapshot, exhaustion only after the whole snapshot, and after an element was added or removed the next call must panic.",
   note="Trusted: the automaton (DESIGN.md C15): panic is accepted after any call to a mutating method; snapshot taken at Iterate() or at the first Next."),
 "C16": dict(level="exploration", tech="deterministic schedule controller (gated sync.Locker + pause point between unlock and select) with wake-up accounting; stress mode under the race detector",
   text="Runtime monitoring of xsync.ContextCond with a controlled scheduler: each waiter is held exactly between releasing the lock and parking (pause-point hook / gated Locker) or confirmed parked through the goroutine dump; every combination of k <= 4 waiters, their stages, m <= 4 Signals / Broadcast / cancellations is executed and the wake-ups counted after quiescence (>= min(k,m) woken, Broadcast wakes all, nil => lock held, error => ctx.Err() without the lock). Plus scenarios after an earlier Broadcast, cause-carrying contexts, lock-less Broadcasts racing a waiter's entry into Wait, an ungated stress mode, later entrants into Wait after the Signals, two overlapping Broadcasts around a waiter's entry, multi-phase histories of successive waiter generations on one cond (tokens overtaken by a Broadcast, stray Signals, cancelled waiters must not spoil a later lone Signal) and shared Lockers (RWMutex.RLocker(), no-op) with concurrent Wait entries. Under -race.",
   note="Known finding D11 (coalesced Signals) is listed in KNOWN_FINDINGS.txt with a narrow signature; any other shortfall is a violation."),
 "C17": dict(level="exploration", tech="offline history checker over run intervals vs trigger calls vs StopAndWait return (logical clock) with pause-point widening; race detector",
   text="Runtime monitoring of xsync.Group: every run of every registered f logs start/end ticks, every trigger call logs a tick before invoking, StopAndWait logs its return tick. Checked: no run open at or starting after StopAndWait returned (including registrations and Do racing the stop), every trigger call followed by a complete run that began after it (checked while the group runs), runs of one f never overlap, periodic functions keep running (bounded restatement). Several concurrent stoppers; the pause point between spawn's context check and wg.Add is widened on a seeded subset; parent contexts that end by a deadline or carry a cause. Under -race; a second, uninstrumented variant sweeps 2-3 goroutines calling one trigger function at the same instant against an idle group (about 6*10^5 rounds), each call needing a run that began after it.",
   note="Trusted: logical clock. 'Keep being invoked' is decided as >= 3 runs within >= 10000 intervals."),
 "C18": dict(level="exploration", tech="linearizability checking of recorded Set/Value histories with porcupine + channel-closure rules; differential monitor xsync.Map vs sync.Map; race detector",
   text="Runtime monitoring of Watchable (porcupine register model over short concurrent histories with unique values; a channel seen closed implies a later Set; at quiescence exactly the last channel is open; observers end on the final value; pause points widen Value's load/CAS window and Set's swap/close window), Future (one value to all earlier/later waiters, WaitContext gives up), Lazy (f once, same result to all; interface-typed results incl. nil, zero values, panicking f) and xsync.Map (same random operation sequence on sync.Map, every method, absent and present keys, interface and non-interface value types, outcome = results or panic); a three-party sweep (two Values and a Set, or a Value and two Sets, persistent goroutines, swept offsets) judges channel closure on the spot. Under -race.",
   note="Trusted: porcupine v1.3.0, sync.Map as the reference. Checker timeout => inconclusive."),
 "C19": dict(level="exploration", tech="reference-function monitor over complete small scopes + random inputs; chi-square frequency monitor for sampling uniformity",
   text="Runtime monitoring of the pure helpers: one reference (or post-condition oracle where the result is under-specified) per exported function of xslices, xsort, xmaps, xmath, xerrors and xrand, including documented aliasing and panics, over all slices on {0,1,2} up to length 6 x all index/count arguments plus random large inputs, extreme integers and astronomic lengths/counts (zero-size element slices of length MaxInt, counts near MaxInt, sampling ranges up to MaxInt); aliasing arguments (Insert with values from s itself, overlapping windows, the same set passed twice) against a copy-first reference, and independence of returned slices/sets from their inputs; xrand uniformity by Pearson chi-square over all subsets for every (n,k) with C(n,k) <= 35 at a false-alarm bound of about 1e-9 per table.",
   note="Trusted: reference functions. 'Equally likely' is decided only statistically: a bias of a few percent is below what 200000 draws can see."),
 "C20": dict(level="exploration", tech="timestamp-based history checker using only lower bounds (elapsed >= d, tick spacing >= d - jitter from the ticks' own timestamps, no tick stamped after Stop returned) with pause-point widening; race detector",
   text="Runtime monitoring of xtime: SleepContext across d <= 0, no deadline, far deadline, deadline well inside d, cancelled before/mid-sleep, cause-carrying contexts, extreme d and deadlines (MaxInt64, zero time.Time) (nil only after >= d; DeadlineTooSoonError decided from stamps taken around the call, also for deadlines within nanoseconds of d; context ended before start+d => ctx error, for every d > 0); JitterTicker over a grid of (d, jitter) including jitter = 0, 1ns, d-1ns with Reset/Stop fired at seeded offsets around firing time on many concurrent tickers: no panic, consecutive tick timestamps >= d - jitter apart, no tick stamped after Stop returned; back-to-back control sequences (Stop, Reset, double Stop) aimed at a firing, with a regime rule for every tick. The pause point at the top of the timer callback makes 'fired but not delivered' coincide with Stop. Under -race.",
   note="Trusted: monotonic clock; only lower bounds are judged, so machine load cannot cause a false alarm. Only the band dl-t1 < d <= dl-t0 (the duration of the call itself) is left unjudged."),
}

# Sentences appended to the texts above (what rounds 5 and 6 of the seeded campaign added).
EXTRA = {
 "C01": "The thorough tier repeats the run as a 32-bit (GOARCH=386) binary.",
 "C03": "Trees of 7 and 8 levels (600000 to 4.2 million keys) with insertions in the interior, judged by a walk and a lookup of every key after each phase.",
 "C04": "Element types of 64 KiB to 4 MiB on buffers of 1-4 slots (byte-size thresholds of the growth policy).",
 "C07": "Every probe source returns changing non-zero garbage alongside the end or an error; reducers documented to consume are held to the source-position oracle at every arity.",
 "C08": "Faults exactly at inner-stream boundaries of Join/Flatten/FlattenSlices with non-idempotent library streams among the inputs; sources whose Close blocks on a gate (E must arrive while it is blocked).",
 "C09": "stream.WithPeek driven directly with every Peek/Next pattern past the End.",
 "C10": "Close error values that wrap stream.End; a Next parked while another goroutine closes the receiver must return after the sender's Close.",
 "C11": "Overdue batches visited by consumers with dead or expiring contexts, then Close (must return); later batches of one stream must not be held back (5-of-5 repetition rule, the only wall-clock upper bound).",
 "C12": "Inputs parked on child contexts while another input fails (exact identity of the reported error); inputs whose Close blocks; the library's own streams (Empty ...) as inputs; shared input channels for chans.Merge.",
 "C13": "GOMAXPROCS toggled by another goroutine while the calls run; complete success must return nil; context error identity when a deadline has passed but the context was cancelled; also run as a 32-bit binary (alignment of 64-bit atomics).",
 "C14": "64000 tiny MapStream runs at parallelism 1 with busy sources; bufferSize near MaxInt; GOMAXPROCS flipped during a pipeline's life.",
 "C15": "Calls that panic (out-of-range index, pop on empty) between two Next calls must not disturb the iteration.",
 "C16": "Waits entered around the deadline of their context.",
 "C17": "GOMAXPROCS lowered during a group's life; thorough tier: exactly 2^32 trigger calls during one run, and a slow-scale group with seconds-long idle periods and intervals.",
 "C18": "Map values whose == is not identity (signed zeros, NaN) compared bit-exactly; three-party sweeps for Future and Lazy; also run as a 32-bit binary.",
 "C19": "xerrors on error trees against a reference wrapper; kept results re-read after later calls (pooled buffers); parts of one result must not alias each other.",
 "C20": "Refused (panicking) Reset calls open no regime; a second Stop must not panic.",
}

def main():
    for pid, extra in EXTRA.items():
        P[pid]["text"] += " " + extra
    built = BUILT
    if built is None:
        built = set()
        for pid in P:
            d = os.path.join(ROOT, "mon", pid.lower())
            if os.path.isdir(d) and not os.path.exists(os.path.join(d, "WIP")):
                built.add(pid)
    checks, na = [], []
    for pid in sorted(P):
        p = P[pid]
        if pid in built:
            checks.append({
                "property_id": pid,
                "quick_cmd": f"./check.sh {pid} quick",
                "thorough_cmd": f"./check.sh {pid} thorough",
                "evidence_file": f"/verif/evidence/{pid}.json",
                "replay_cmd_template": f"./check.sh {pid} --replay {{path}}",
                "engine": "vkit",
                "level_claimed": {"category": p["level"], "text": p["text"], "design_ref": f"DESIGN.md section 4, {pid}"},
                "level_note": p["note"],
                "technique": p["tech"],
            })
        else:
            na.append({"property_id": pid, "reason": "monitor designed (DESIGN.md section 4) but not built yet in this revision; runtime monitoring does apply"})
    hooks_commits = subprocess.run(["git", "-C", "/repo", "log", "--format=%h %s", "--grep=^verif hook"], capture_output=True, text=True).stdout.strip().splitlines()
    m = {
        "version": 1,
        "setup_cmd": "./check.sh --build-all",
        "hooks": {
            "guard": "verif (Go build tag)",
            "enable": "go build -tags verif [-race] ./mon/cXX with `replace github.com/bradenaw/juniper => /repo` (check.sh does this on every invocation, so /repo's current working tree is what runs)",
            "baseline_off_cmd": "cd /repo && GOFLAGS=-mod=mod GOPROXY=off GOSUMDB=off GOTOOLCHAIN=local go test -vet=off -count=1 ./...",
            "source_commits": hooks_commits,
            "add_only": True,
        },
        "engines": [{
            "name": "vkit", "path": "/verif/vkit",
            "serves_properties": sorted(built),
            "kind_free_text": "runtime monitoring kit: seeded workloads, reference models, event logs with a logical clock, goroutine-dump quiescence/leak verdicts, probes, race-log reader, evidence writer; one monitor binary per property under /verif/mon",
        }],
        "checks": checks,
        "not_applicable": na,
        "notes": "All checks go through ./check.sh <id> <tier>, which rebuilds the monitor against /repo's working tree with -tags verif (and -race for the concurrent variants), runs each variant as a child process and merges their observations into evidence/<id>.json. Known findings: KNOWN_FINDINGS.txt. Design: DESIGN.md.",
    }
    with open(os.path.join(ROOT, "MANIFEST.json"), "w") as f:
        json.dump(m, f, indent=1)
        f.write("\n")
    print("claimed:", " ".join(sorted(built)), "| not yet:", " ".join(x["property_id"] for x in na))

if __name__ == "__main__":
    main()
