#!/usr/bin/env bash
# tools/mutant.sh <name> <file-in-repo> <python-replace: OLD|||NEW> <prop> [<prop>...]
# Applies a one-place textual mutation to a scratch copy of /repo, checks that it still builds and
# passes the repo's tests, and runs the given checks against it. Prints one summary line.
set -u
name=$1; file=$2; repl=$3; shift 3
export GOFLAGS=-mod=mod GOPROXY=off GOSUMDB=off GOTOOLCHAIN=local
dir=/tmp/mut_$name
rm -rf "$dir"; cp -r /repo "$dir"; rm -rf "$dir/.git"
python3 - "$dir/$file" "$repl" <<'PY' || { echo "MUTANT $name: pattern not found"; rm -rf "$dir"; exit 3; }
import sys
p, repl = sys.argv[1], sys.argv[2]
old, new = repl.split("|||")
s = open(p).read()
if s.count(old) < 1:
    sys.exit(1)
open(p, "w").write(s.replace(old, new, 1))
PY
if ! ( cd "$dir" && go build ./... && go build -tags verif ./... ) >"$dir.testlog" 2>&1; then
  echo "MUTANT $name: BUILD-FAIL: $(head -3 "$dir.testlog" | tr '\n' ' ')"; rm -rf "$dir" "$dir.testlog"; exit 4
fi
# xtime's TestJitterTicker is timing-sensitive (listed as always_fail in the baseline): not used as a gate.
( cd "$dir" && go test -vet=off -count=1 -timeout 180s $(go list ./... | grep -v /xtime) 2>&1 | grep -v '^ok\|no test files' | tail -5 ) >"$dir.testlog" 2>&1
if [ -s "$dir.testlog" ]; then tests="TESTS-FAIL: $(head -2 "$dir.testlog" | tr '\n' ' ' | cut -c1-100)"; else tests="tests-pass"; fi
res=""
for p in "$@"; do
  out=$(cd /verif && VERIF_REPO=$dir ./check.sh "$p" quick 2>/dev/null)
  if echo "$out" | grep -q '^VIOLATION'; then
    res="$res $p:CAUGHT($(echo "$out" | grep -m1 '^  \[' | cut -c1-110))"
  else
    res="$res $p:missed"
  fi
done
echo "MUTANT $name [$tests]$res"
rm -rf "$dir" "$dir.testlog" /verif/.build/alt/*mut_$name* /verif/.build/bin/*mut_$name*
