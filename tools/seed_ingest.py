#!/usr/bin/env python3
"""Ingest one seeded change produced by an independent sub-agent.

  tools/seed_ingest.py C10 1 [--checks "C10 C08"] [--runs 5]

Confirms, in a scratch git worktree of /repo (outside /repo and /verif): the patch applies, the tree
builds with and without -tags verif, the repository's own tests still pass, the demonstration fails
with the patch and passes without it. Then copies patch + demonstration + meta.json to
/verif/seeded/<id>-<n>/ and runs the named checks (default: the property's own) against the
patched scratch tree through VERIF_REPO. The scratch worktree is removed at the end.
"""
import json, os, re, shutil, subprocess, sys, time

ENV = dict(os.environ, GOFLAGS="-mod=mod", GOPROXY="off", GOSUMDB="off", GOTOOLCHAIN="local")
PKGDIR = {"tree": "container/tree", "deque": "container/deque", "xheap": "container/xheap", "xlist": "container/xlist",
          "heap": "internal/heap", "xrand": "xmath/xrand"}


def sh(cmd, cwd=None, timeout=900):
    try:
        p = subprocess.run(cmd, shell=True, cwd=cwd, env=ENV, capture_output=True, text=True, timeout=timeout)
        return p.returncode, (p.stdout + p.stderr)
    except subprocess.TimeoutExpired as e:
        return 124, "TIMEOUT " + str(e)


def main():
    pid, n = sys.argv[1], sys.argv[2]
    checks = [pid]
    runs = 5
    args = sys.argv[3:]
    while args:
        if args[0] == "--checks":
            checks = args[1].split(); args = args[2:]
        elif args[0] == "--runs":
            runs = int(args[1]); args = args[2:]
        else:
            sys.exit("bad arg " + args[0])
    src = os.environ.get("SEED_SRC", f"/tmp/seed_{pid}/out") + f"/{n}"
    patch = os.path.join(src, "patch.diff")
    if not os.path.exists(patch):
        sys.exit(f"no {patch}")
    demos = [f for f in os.listdir(src) if f.endswith(".go")]
    if not demos:
        sys.exit("no demonstration .go file in " + src)
    wt = f"/tmp/ing_{pid}_{n}_{os.getpid()}"
    sh(f"git -C /repo worktree remove --force {wt}")
    shutil.rmtree(wt, ignore_errors=True)
    rc, out = sh(f"git -C /repo worktree add -q --detach {wt} HEAD")
    if rc:
        sys.exit("worktree add failed: " + out)
    sid = str(int(n) + int(os.environ.get("SEED_IDOFFSET", "0")))
    meta = {"id": f"{pid}-{sid}", "property": pid, "source": "independent sub-agent given only the property text and a scratch worktree",
            "ingested_at": time.strftime("%Y-%m-%dT%H:%M:%SZ", time.gmtime()), "ran": []}
    ok = True
    try:
        touched = re.findall(r"^\+\+\+ b/(\S+)", open(patch).read(), re.M)
        meta["files_touched"] = touched

        def place_demo(on):
            placed = []
            for d in demos:
                text = open(os.path.join(src, d)).read()
                m = re.search(r"^package\s+(\w+)", text, re.M)
                pkg = m.group(1) if m else "main"
                if pkg == "main":
                    dst = os.path.join(wt, "zz_seed_demo_main")
                    os.makedirs(dst, exist_ok=True)
                    shutil.copy(os.path.join(src, d), os.path.join(dst, "main.go"))
                    placed.append(("run", "./zz_seed_demo_main"))
                else:
                    base = pkg[:-5] if pkg.endswith("_test") else pkg
                    pdir = PKGDIR.get(base, base)
                    if not os.path.isdir(os.path.join(wt, pdir)):
                        # fall back to the directory of the first touched file
                        pdir = os.path.dirname(touched[0]) if touched else "."
                    name = d if d.endswith("_test.go") else d[:-3] + "_test.go"
                    shutil.copy(os.path.join(src, d), os.path.join(wt, pdir, "zz_seed_" + name))
                    placed.append(("test", "./" + pdir))
            return placed

        def run_demo(placed, label):
            fails = 0
            logs = []
            for i in range(runs):
                for kind, target in placed:
                    if kind == "run":
                        rc, out = sh(f"go run -tags verif {target}", cwd=wt, timeout=600)
                    else:
                        rc, out = sh(f"go test -vet=off -count=1 -timeout 300s -run 'Seed|seed|Demo|demo|ZZ|Zz' {target}", cwd=wt, timeout=600)
                        if "no tests to run" in out:
                            rc, out = sh(f"go test -vet=off -count=1 -timeout 300s {target}", cwd=wt, timeout=600)
                    if rc != 0:
                        fails += 1
                        logs.append(out[-600:])
                        break
            meta["ran"].append(f"demo on {label} tree x{runs}: {fails} failing runs")
            return fails, logs

        # clean tree: demo passes
        placed = place_demo(True)
        clean_fails, logs = run_demo(placed, "clean")
        meta["demo_fails_on_clean"] = clean_fails
        # patched tree
        rc, out = sh(f"git apply {patch}", cwd=wt)
        if rc:
            print("PATCH DOES NOT APPLY:", out); ok = False; return
        rc, out = sh("go build ./... && go build -tags verif ./...", cwd=wt)
        meta["ran"].append("go build ./... && go build -tags verif ./...: " + ("ok" if rc == 0 else "FAIL"))
        if rc:
            print("BUILD FAILS:", out[-800:]); ok = False; return
        # remove the demo while running the repository's own suite
        for kind, target in placed:
            pass
        demo_files = []
        for root, _, files in os.walk(wt):
            for f in files:
                if f.startswith("zz_seed_"):
                    demo_files.append(os.path.join(root, f))
        stash = {p: open(p).read() for p in demo_files}
        for p in demo_files:
            os.remove(p)
        xt = any(t.startswith("xtime/") for t in touched)
        rc, out = sh("go test -vet=off -count=1 -timeout 300s $(go list ./... | grep -v /xtime | grep -v zz_seed_demo_main)", cwd=wt, timeout=1200)
        suite = "pass" if rc == 0 else "FAIL"
        if xt:
            xf = 0
            for i in range(3):
                rc2, _ = sh("go test -vet=off -count=1 ./xtime", cwd=wt)
                xf += rc2 != 0
            meta["xtime_suite_failures_of_3"] = xf
        meta["ran"].append("repository suite (without xtime) on patched tree: " + suite)
        meta["existing_suite_on_patched_tree"] = suite
        if rc:
            print("EXISTING SUITE FAILS WITH THE PATCH:", out[-800:])
        for p, t in stash.items():
            open(p, "w").write(t)
        patched_fails, logs = run_demo(placed, "patched")
        meta["demo_fails_on_patched"] = patched_fails
        meta["demo_failure_excerpt"] = (logs[0] if logs else "")[-400:]
        # the README's own words
        rd = os.path.join(src, "README.md")
        meta["needs_to_manifest"] = open(rd).read()[:3000] if os.path.exists(rd) else ""
        # remove the demo files again before running the monitors (they build the whole module path they import only)
        for p in demo_files:
            if os.path.exists(p):
                os.remove(p)
        shutil.rmtree(os.path.join(wt, "zz_seed_demo_main"), ignore_errors=True)
        res = {}
        for c in checks:
            t0 = time.time()
            rc, out = sh(f"VERIF_REPO={wt} ./check.sh {c} quick", cwd="/verif", timeout=3000)
            viol = [l for l in out.splitlines() if l.startswith("VIOLATION")]
            first = next((l.strip() for l in out.splitlines() if l.startswith("  [")), "")
            res[c] = {"caught": bool(viol), "exit": rc, "first": first[:300], "wall_s": round(time.time() - t0, 1)}
            meta["ran"].append(f"VERIF_REPO=<patched scratch tree> ./check.sh {c} quick -> exit {rc}, {len(viol)} VIOLATION lines")
        meta["checks"] = res
        dst = f"/verif/seeded/{pid}-{sid}"
        os.makedirs(dst, exist_ok=True)
        shutil.copy(patch, os.path.join(dst, "patch.diff"))
        for d in demos:
            shutil.copy(os.path.join(src, d), os.path.join(dst, d + ".txt" if False else d.replace(".go", ".go.txt")))
        if os.path.exists(rd):
            shutil.copy(rd, os.path.join(dst, "README.md"))
        valid = clean_fails == 0 and patched_fails > 0 and suite == "pass"
        meta["confirmed"] = valid
        json.dump(meta, open(os.path.join(dst, "meta.json"), "w"), indent=1)
        caught = ", ".join(f"{c}:{'CAUGHT' if v['caught'] else 'missed'}" for c, v in res.items())
        print(f"SEED {pid}-{sid}: confirmed={valid} (clean demo fails {clean_fails}/{runs}, patched demo fails {patched_fails}/{runs}, suite {suite}) files={touched} checks: {caught}")
        for c, v in res.items():
            if v["first"]:
                print("   ", c, v["first"][:200])
    finally:
        sh(f"git -C /repo worktree remove --force {wt}")
        shutil.rmtree(wt, ignore_errors=True)
        # build leftovers of the scratch path
        tag = re.sub(r"[^A-Za-z0-9]", "_", wt)
        for d in ("/verif/.build/alt", "/verif/.build/bin"):
            if os.path.isdir(d):
                for f in os.listdir(d):
                    if tag in f:
                        os.remove(os.path.join(d, f))


if __name__ == "__main__":
    main()
