#!/usr/bin/env python3
"""Re-runs the checks against every seeded change (or those given) with the current monitors and
records the result in seeded/<id>/meta.json under "recheck". Scratch copies live under /tmp and are removed.

  tools/seed_recheck.py [--only-missed] [ids...]
"""
import json, glob, os, shutil, subprocess, sys, time, re
ENV = dict(os.environ, GOFLAGS="-mod=mod", GOPROXY="off", GOSUMDB="off", GOTOOLCHAIN="local")
args = sys.argv[1:]
only_missed = "--only-missed" in args
ids = [a for a in args if not a.startswith("--")]
root = os.path.join(os.path.dirname(os.path.abspath(__file__)), "..", "seeded")
for m in sorted(glob.glob(os.path.join(root, "*", "meta.json"))):
    j = json.load(open(m))
    sid = j["id"]
    if ids and sid not in ids:
        continue
    last = j.get("recheck", {}).get("checks") or j.get("checks", {})
    if only_missed and all(v["caught"] for v in last.values()):
        continue
    d = f"/tmp/rechk_{sid}"
    shutil.rmtree(d, ignore_errors=True)
    shutil.copytree("/repo", d, ignore=shutil.ignore_patterns(".git"))
    # patch.rebased.diff: the same change re-made by hand on top of a later fix: commit that touched the same lines
    pf = os.path.join(os.path.dirname(m), "patch.rebased.diff")
    if not os.path.exists(pf):
        pf = os.path.join(os.path.dirname(m), "patch.diff")
    p = subprocess.run(["patch", "-s", "-p1", "-i", pf], cwd=d, capture_output=True, text=True)
    if p.returncode != 0:
        # the patch no longer applies to the current /repo (a later fix touched the same lines)
        j["recheck"] = {"at": time.strftime("%Y-%m-%dT%H:%M:%SZ", time.gmtime()), "error": "patch does not apply to the current tree: " + (p.stdout + p.stderr)[-200:]}
        json.dump(j, open(m, "w"), indent=1)
        print(f"RECHECK {sid}: patch does not apply")
        shutil.rmtree(d, ignore_errors=True)
        continue
    res = {}
    names = list(j.get("checks", {j["property"]: None}).keys())
    for extra in list(j.get("recheck", {}).get("checks", {}).keys()) + j.get("also_check", []):
        if extra not in names:
            names.append(extra)
    for c in names:
        t0 = time.time()
        q = subprocess.run(f"VERIF_REPO={d} ./check.sh {c} quick", shell=True, cwd="/verif", env=ENV, capture_output=True, text=True)
        out = q.stdout
        viol = [l for l in out.splitlines() if l.startswith("VIOLATION")]
        first = next((l.strip() for l in out.splitlines() if l.startswith("  [")), "")
        res[c] = {"caught": bool(viol), "exit": q.returncode, "first": first[:300], "wall_s": round(time.time() - t0, 1)}
    j["recheck"] = {"at": time.strftime("%Y-%m-%dT%H:%M:%SZ", time.gmtime()), "verif_commit": subprocess.run(["git", "-C", "/verif", "rev-parse", "--short", "HEAD"], capture_output=True, text=True).stdout.strip(), "checks": res}
    json.dump(j, open(m, "w"), indent=1)
    print(f"RECHECK {sid}: " + ", ".join(f"{c}:{'CAUGHT' if v['caught'] else 'missed'}" for c, v in res.items()), flush=True)
    shutil.rmtree(d, ignore_errors=True)
    tag = re.sub(r"[^A-Za-z0-9]", "_", d)
    for bd in ("/verif/.build/alt", "/verif/.build/bin"):
        if os.path.isdir(bd):
            for f in os.listdir(bd):
                if tag in f:
                    os.remove(os.path.join(bd, f))
