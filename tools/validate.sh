#!/usr/bin/env bash
# Validates MANIFEST.json and every evidence file against the schemas.
cd "$(dirname "$0")/.."
python3-vt - <<'PY'
import json, glob, jsonschema, sys
ok = True
m = json.load(open('MANIFEST.json'))
jsonschema.validate(m, json.load(open('/root/.vp/MANIFEST.schema.json')))
print("MANIFEST ok:", len(m['checks']), "checks,", len(m.get('not_applicable', [])), "not applicable")
es = json.load(open('/root/.vp/EVIDENCE.schema.json'))
for c in m['checks']:
    p = c['evidence_file']
    try:
        e = json.load(open(p))
        jsonschema.validate(e, es)
        print(" ", p, "ok", e['tier'], e['coverage'].get('verdict'), "evals", e['coverage']['evaluations'], "distinct", e['coverage']['distinct_nontrivial'])
    except Exception as ex:
        ok = False
        print(" ", p, "INVALID:", str(ex)[:200])
sys.exit(0 if ok else 1)
PY
