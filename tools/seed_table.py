#!/usr/bin/env python3
"""Prints the markdown table of seeded changes (seeded/*/meta.json) for DESIGN.md section 6."""
import json, glob, os, re
rows = []
for m in sorted(glob.glob(os.path.join(os.path.dirname(__file__), "..", "seeded", "*", "meta.json"))):
    j = json.load(open(m))
    rd = j.get("needs_to_manifest", "")
    # first heading / first sentence of the README as the summary
    title = ""
    for line in rd.splitlines():
        line = line.strip().lstrip("#").strip()
        if line:
            title = line
            break
    checks = j.get("checks", {})
    re_ = j.get("recheck", {}).get("checks")
    first_res = "; ".join(f"{c}: {'caught' if v['caught'] else 'MISSED'}" for c, v in checks.items())
    if re_ is not None and any(not v["caught"] for v in checks.values()):
        after = "; ".join(f"{c}: {'caught' if v['caught'] else 'still missed'}" + (f" — `{v['first'][:80]}`" if v.get('first') else "") for c, v in re_.items())
        rows.append((j["id"], ", ".join(j.get("files_touched", [])), title[:110], "yes" if j.get("confirmed") else "no", first_res + " → after strengthening: " + after))
        continue
    res = "; ".join(f"{c}: {'caught' if v['caught'] else 'MISSED'}" + (f" — `{v['first'][:90]}`" if v.get('first') else "") for c, v in checks.items())
    rows.append((j["id"], ", ".join(j.get("files_touched", [])), title[:110], "yes" if j.get("confirmed") else "no", res))
def annotate(j, txt):
    t = j.get("thorough_only")
    if t:
        txt += f" — **thorough tier: {t['check']} caught** ({t.get('note', '')[:140]})"
    bb = j.get("beyond_budget")
    if bb:
        txt += f" — **not caught**: {bb[:220]}"
    o = j.get("outside_statement")
    if o:
        txt += f" — **judged outside the statement**: {o[:220]}"
    return txt
meta = {json.load(open(m))["id"]: json.load(open(m)) for m in glob.glob(os.path.join(os.path.dirname(__file__), "..", "seeded", "*", "meta.json"))}
rows = [r[:4] + (annotate(meta[r[0]], r[4]),) for r in rows]
print("| id | files | change (from its README) | confirmed (suite passes, demo fails only with it) | checks (quick tier, seed 1) |")
print("|---|---|---|---|---|")
for r in rows:
    print("| " + " | ".join(x.replace("|", "\\|") for x in r) + " |")
