package vkit

import (
	"fmt"
	"runtime"
	"sync"
	"syscall"
	"time"
)

// SpinWatch decides "this library call never returns although it is burning CPU" without trusting
// the wall clock: a call is declared spinning only after the process has consumed a large amount
// of CPU time (not wall time) since the call began AND the call has still not returned. The
// legitimate cost of the watched calls is microseconds, so the margin is about seven orders of
// magnitude; a loaded machine slows the wall clock, not the CPU-time account of this process.
type SpinWatch struct {
	r     *Report
	mu    sync.Mutex
	calls map[int64]*spinCall
	next  int64
	once  sync.Once
	limit time.Duration
}

type spinCall struct {
	label   func() string
	caseID  string
	cpu     time.Duration
	started time.Time
}

func processCPU() time.Duration {
	var ru syscall.Rusage
	if err := syscall.Getrusage(syscall.RUSAGE_SELF, &ru); err != nil {
		return 0
	}
	return time.Duration(ru.Utime.Nano() + ru.Stime.Nano())
}

// NewSpinWatch returns a watch that bails out of the process (reporting a violation) when a watched
// call has not returned after perCoreCPU of CPU time per available core.
func NewSpinWatch(r *Report, perCoreCPU time.Duration) *SpinWatch {
	return &SpinWatch{r: r, calls: make(map[int64]*spinCall), limit: perCoreCPU * time.Duration(runtime.GOMAXPROCS(0))}
}

// Begin registers a call; the returned function must be called when it returns.
func (s *SpinWatch) Begin(caseID string, label func() string) func() {
	s.once.Do(func() { go s.loop() })
	c := &spinCall{label: label, caseID: caseID, cpu: processCPU(), started: time.Now()}
	s.mu.Lock()
	s.next++
	id := s.next
	s.calls[id] = c
	s.mu.Unlock()
	return func() {
		s.mu.Lock()
		delete(s.calls, id)
		s.mu.Unlock()
	}
}

func (s *SpinWatch) loop() {
	for {
		time.Sleep(2 * time.Second)
		now := processCPU()
		var bad *spinCall
		s.mu.Lock()
		for _, c := range s.calls {
			if now-c.cpu > s.limit && time.Since(c.started) > 20*time.Second {
				bad = c
				break
			}
		}
		s.mu.Unlock()
		if bad != nil {
			s.r.Violation("spin", fmt.Sprintf("call has not returned after the process burned %s of CPU time since it began: %s", (now - bad.cpu).Round(time.Second), bad.label()),
				bad.caseID, map[string]any{"goroutines": truncate(dumpAll(), 20000)})
			s.r.Bail()
		}
	}
}

func dumpAll() string {
	buf := make([]byte, 1<<20)
	n := runtime.Stack(buf, true)
	return string(buf[:n])
}

func truncate(s string, n int) string {
	if len(s) > n {
		return s[:n] + "...[truncated]"
	}
	return s
}
