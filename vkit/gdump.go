package vkit

import (
	"regexp"
	"runtime"
	"strconv"
	"strings"
	"time"
)

// G is one goroutine of a runtime.Stack(all) dump.
type G struct {
	ID     int
	State  string   // e.g. "chan send", "select", "semacquire", "running", "runnable"
	Funcs  []string // function names, innermost first
	Raw    string
	Locked bool
}

var gHeader = regexp.MustCompile(`^goroutine (\d+) \[([^\]]+)\]:$`)

// Goroutines returns a parsed dump of all goroutines.
func Goroutines() []G {
	buf := make([]byte, 1<<20)
	for {
		n := runtime.Stack(buf, true)
		if n < len(buf) {
			buf = buf[:n]
			break
		}
		buf = make([]byte, 2*len(buf))
	}
	return ParseGoroutines(string(buf))
}

// ParseGoroutines parses the text format of runtime.Stack(all).
func ParseGoroutines(dump string) []G {
	var out []G
	for _, blk := range strings.Split(dump, "\n\n") {
		lines := strings.Split(strings.TrimSpace(blk), "\n")
		if len(lines) == 0 {
			continue
		}
		m := gHeader.FindStringSubmatch(lines[0])
		if m == nil {
			continue
		}
		id, _ := strconv.Atoi(m[1])
		state := m[2]
		g := G{ID: id, Raw: blk}
		// "chan receive, 2 minutes", "select, locked to thread", "sync.Cond.Wait, 3 minutes"
		parts := strings.Split(state, ", ")
		g.State = parts[0]
		for _, p := range parts[1:] {
			if strings.HasPrefix(p, "locked") {
				g.Locked = true
			}
		}
		for _, l := range lines[1:] {
			if strings.HasPrefix(l, "\t") || strings.HasPrefix(l, " ") {
				continue
			}
			if strings.HasPrefix(l, "created by ") {
				fn := strings.TrimPrefix(l, "created by ")
				if i := strings.Index(fn, " in goroutine"); i >= 0 {
					fn = fn[:i]
				}
				g.Funcs = append(g.Funcs, "created-by:"+fn)
				continue
			}
			if i := strings.LastIndex(l, "("); i > 0 {
				g.Funcs = append(g.Funcs, l[:i])
			} else {
				g.Funcs = append(g.Funcs, l)
			}
		}
		out = append(out, g)
	}
	return out
}

// Has reports whether any frame (including the created-by line) contains substr.
func (g G) Has(substr string) bool {
	for _, f := range g.Funcs {
		if strings.Contains(f, substr) {
			return true
		}
	}
	return false
}

// In reports whether any running frame (not the created-by line) contains substr.
func (g G) In(substr string) bool {
	for _, f := range g.Funcs {
		if !strings.HasPrefix(f, "created-by:") && strings.Contains(f, substr) {
			return true
		}
	}
	return false
}

// Blocked reports whether the goroutine is parked on something only another goroutine can
// release (as opposed to running, runnable, in a syscall, or sleeping on a timer).
func (g G) Blocked() bool {
	switch g.State {
	case "chan send", "chan receive", "select", "semacquire", "sync.Cond.Wait",
		"sync.Mutex.Lock", "sync.RWMutex.Lock", "sync.RWMutex.RLock", "sync.WaitGroup.Wait",
		"chan send (nil chan)", "chan receive (nil chan)", "select (no cases)":
		return true
	}
	return false
}

func (g G) stackKey() string { return g.State + "|" + strings.Join(g.Funcs, ";") }

// AwaitVerdict is the outcome of Await.
type AwaitVerdict int

const (
	AwaitDone         AwaitVerdict = iota // done fired
	AwaitStuck                            // nothing relevant can ever move again: violation
	AwaitInconclusive                     // not done, but something is still runnable: no verdict
)

func (v AwaitVerdict) String() string {
	return [...]string{"done", "stuck", "inconclusive"}[v]
}

// AwaitOpts tunes Await.
type AwaitOpts struct {
	// Goroutines that matter: the scenario's own and the library's. Default: any goroutine with a
	// juniper frame or a frame of package main.
	Relevant func(G) bool
	// Time before the first look at the goroutines (default 3 s).
	Soft time.Duration
	// Distance between the two snapshots; must exceed every timer the scenario has armed
	// (default 500 ms).
	Gap time.Duration
	// Give up (inconclusive) after this long (default 60 s).
	Hard time.Duration
}

func defaultRelevant(g G) bool {
	return g.Has("github.com/bradenaw/juniper/") || g.Has("main.")
}

// Await waits for done. It never turns slowness into a violation: the verdict Stuck needs two
// dumps, Gap apart, in which every relevant goroutine is parked on a channel / lock / wait group
// with an identical stack, i.e. a state from which no timer or scheduler delay can wake anything.
// Goroutines parked in time.Sleep or running make the verdict Inconclusive instead.
// The returned string is the witness dump for Stuck / Inconclusive.
func Await(done <-chan struct{}, o AwaitOpts) (AwaitVerdict, string) {
	if o.Relevant == nil {
		o.Relevant = defaultRelevant
	}
	if o.Soft == 0 {
		o.Soft = 3 * time.Second
	}
	if o.Gap == 0 {
		o.Gap = 500 * time.Millisecond
	}
	if o.Hard == 0 {
		o.Hard = 60 * time.Second
	}
	start := time.Now()
	select {
	case <-done:
		return AwaitDone, ""
	case <-time.After(o.Soft):
	}
	self := currentGoroutineID()
	var last string
	for {
		snap := func() (map[int]string, bool, string) {
			m := make(map[int]string)
			allBlocked := true
			var raw strings.Builder
			for _, g := range Goroutines() {
				if g.ID == self || !o.Relevant(g) {
					continue
				}
				raw.WriteString(g.Raw)
				raw.WriteString("\n\n")
				m[g.ID] = g.stackKey()
				if !g.Blocked() {
					allBlocked = false
				}
			}
			return m, allBlocked, raw.String()
		}
		a, aBlocked, _ := snap()
		select {
		case <-done:
			return AwaitDone, ""
		case <-time.After(o.Gap):
		}
		b, bBlocked, raw := snap()
		last = raw
		select {
		case <-done:
			return AwaitDone, ""
		default:
		}
		if aBlocked && bBlocked && len(a) == len(b) && len(a) > 0 {
			same := true
			for id, k := range a {
				if b[id] != k {
					same = false
					break
				}
			}
			if same {
				return AwaitStuck, raw
			}
		}
		if time.Since(start) > o.Hard {
			return AwaitInconclusive, last
		}
		select {
		case <-done:
			return AwaitDone, ""
		case <-time.After(o.Gap):
		}
	}
}

func currentGoroutineID() int {
	buf := make([]byte, 64)
	n := runtime.Stack(buf, false)
	f := strings.Fields(string(buf[:n]))
	if len(f) >= 2 {
		id, _ := strconv.Atoi(f[1])
		return id
	}
	return -1
}

// WaitNoGoroutine waits (up to limit) until no goroutine matches; it returns the matching
// goroutines that remain. With requireBlocked, a remaining goroutine only counts once it has been
// seen parked with an identical stack in two dumps gap apart (so a goroutine that is merely on its
// way out is never reported).
func WaitNoGoroutine(match func(G) bool, limit, gap time.Duration) []G {
	start := time.Now()
	var prev map[int]string
	for {
		cur := make(map[int]string)
		var curG []G
		for _, g := range Goroutines() {
			if match(g) {
				cur[g.ID] = g.stackKey()
				curG = append(curG, g)
			}
		}
		if len(cur) == 0 {
			return nil
		}
		if prev != nil {
			var stuck []G
			for _, g := range curG {
				if g.Blocked() && prev[g.ID] == cur[g.ID] {
					stuck = append(stuck, g)
				}
			}
			if len(stuck) == len(curG) && time.Since(start) > limit {
				return stuck
			}
		}
		if time.Since(start) > 20*limit+10*time.Second {
			// Still something, but never provably parked: report nothing (inconclusive is the
			// caller's business).
			return nil
		}
		prev = cur
		time.Sleep(gap)
	}
}

// CountGoroutines returns how many goroutines match.
func CountGoroutines(match func(G) bool) int {
	n := 0
	for _, g := range Goroutines() {
		if match(g) {
			n++
		}
	}
	return n
}
