// Package vkit is the shared kit of the runtime monitors: seeded PRNG, panic capture, goroutine-dump
// based quiescence verdicts, probes, and the evidence / verdict writer.
package vkit

import (
	"hash/fnv"
	"math/bits"
)

// Rand is a xoshiro256** generator. It is deliberately not safe for concurrent use: every actor
// gets its own stream (Split) or a table drawn before the run.
type Rand struct {
	s [4]uint64
}

func splitmix(x *uint64) uint64 {
	*x += 0x9e3779b97f4a7c15
	z := *x
	z = (z ^ (z >> 30)) * 0xbf58476d1ce4e5b9
	z = (z ^ (z >> 27)) * 0x94d049bb133111eb
	return z ^ (z >> 31)
}

// NewRand returns a generator seeded from seed.
func NewRand(seed uint64) *Rand {
	r := &Rand{}
	x := seed
	for i := range r.s {
		r.s[i] = splitmix(&x)
	}
	return r
}

// NewRandFor derives a generator from a seed and any number of labels, so that case i of monitor m
// always sees the same stream whatever ran before it.
func NewRandFor(seed uint64, labels ...any) *Rand {
	h := fnv.New64a()
	var b [8]byte
	put := func(v uint64) {
		for i := 0; i < 8; i++ {
			b[i] = byte(v >> (8 * i))
		}
		h.Write(b[:])
	}
	put(seed)
	for _, l := range labels {
		switch v := l.(type) {
		case int:
			put(uint64(v))
		case int64:
			put(uint64(v))
		case uint64:
			put(v)
		case string:
			h.Write([]byte(v))
			h.Write([]byte{0})
		default:
			panic("vkit.NewRandFor: unsupported label type")
		}
	}
	return NewRand(h.Sum64())
}

func (r *Rand) Uint64() uint64 {
	s := &r.s
	result := bits.RotateLeft64(s[1]*5, 7) * 9
	t := s[1] << 17
	s[2] ^= s[0]
	s[3] ^= s[1]
	s[1] ^= s[2]
	s[0] ^= s[3]
	s[2] ^= t
	s[3] = bits.RotateLeft64(s[3], 45)
	return result
}

// Split returns an independent generator derived from r.
func (r *Rand) Split() *Rand { return NewRand(r.Uint64()) }

// Intn returns a value in [0, n). n must be > 0.
func (r *Rand) Intn(n int) int {
	if n <= 0 {
		panic("vkit.Rand.Intn: n <= 0")
	}
	return int(r.Uint64() % uint64(n))
}

// Range returns a value in [lo, hi].
func (r *Rand) Range(lo, hi int) int {
	if hi < lo {
		panic("vkit.Rand.Range: hi < lo")
	}
	return lo + r.Intn(hi-lo+1)
}

func (r *Rand) Float64() float64 { return float64(r.Uint64()>>11) / (1 << 53) }

// Bool is true with probability p.
func (r *Rand) Bool(p float64) bool { return r.Float64() < p }

func (r *Rand) Perm(n int) []int {
	p := make([]int, n)
	for i := range p {
		p[i] = i
	}
	for i := n - 1; i > 0; i-- {
		j := r.Intn(i + 1)
		p[i], p[j] = p[j], p[i]
	}
	return p
}

// Pick returns a random element of xs.
func Pick[T any](r *Rand, xs []T) T { return xs[r.Intn(len(xs))] }

// Weighted returns an index drawn with the given weights.
func (r *Rand) Weighted(w []int) int {
	total := 0
	for _, x := range w {
		total += x
	}
	x := r.Intn(total)
	for i, wi := range w {
		if x < wi {
			return i
		}
		x -= wi
	}
	return len(w) - 1
}

// Hash64 hashes a string (used for op-sequence and interleaving signatures).
func Hash64(s string) uint64 {
	h := fnv.New64a()
	h.Write([]byte(s))
	return h.Sum64()
}
