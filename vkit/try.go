package vkit

import (
	"fmt"
	"runtime/debug"
	"strings"
)

// Panic describes a recovered panic.
type Panic struct {
	Value any
	Msg   string
	Stack string
}

func (p *Panic) String() string {
	if p == nil {
		return "<no panic>"
	}
	return p.Msg
}

// JuniperFrame returns the first juniper function on the panicking stack, or "".
func (p *Panic) JuniperFrame() string {
	for _, line := range strings.Split(p.Stack, "\n") {
		if strings.HasPrefix(line, "github.com/bradenaw/juniper/") {
			if i := strings.LastIndex(line, "("); i > 0 {
				return line[:i]
			}
			return line
		}
	}
	return ""
}

// Try runs f and converts a panic into a value.
func Try(f func()) (p *Panic) {
	defer func() {
		if v := recover(); v != nil {
			p = &Panic{Value: v, Msg: fmt.Sprint(v), Stack: string(debug.Stack())}
		}
	}()
	f()
	return nil
}
