package vkit

import (
	"context"
	"errors"
	"fmt"
	"runtime"
	"sync"
	"sync/atomic"
	"time"

	"github.com/bradenaw/juniper/stream"
)

// Clock is the one logical clock of a scenario.
type Clock struct{ n atomic.Int64 }

func (c *Clock) Tick() int64 { return c.n.Add(1) }
func (c *Clock) Now() int64  { return c.n.Load() }

// ProbeIter is an instrumented iterator.Iterator over a slice.
type ProbeIter[T any] struct {
	Items []T
	pos   int
	// Pulls counts Next calls that were made while items remained or that discovered the end
	// (every call counts: asking for more than needed is what laziness forbids).
	Pulls atomic.Int64
	// Yielded counts items handed out.
	Yielded atomic.Int64
	// CallsAfterEnd counts Next calls made after the end had already been reported.
	CallsAfterEnd atomic.Int64
	ended         bool
	// OnNext, if set, runs at the start of every Next (latency / perturbation hook).
	OnNext func(i int)
}

func NewProbeIter[T any](items []T) *ProbeIter[T] { return &ProbeIter[T]{Items: items} }

func (p *ProbeIter[T]) Next() (T, bool) {
	if p.OnNext != nil {
		p.OnNext(p.pos)
	}
	p.Pulls.Add(1)
	if p.pos >= len(p.Items) {
		if p.ended {
			p.CallsAfterEnd.Add(1)
		}
		p.ended = true
		return Garbage[T](p.pos), false
	}
	x := p.Items[p.pos]
	p.pos++
	p.Yielded.Add(1)
	return x, true
}

// Pos is the number of items consumed so far (only meaningful when no Next is running).
func (p *ProbeIter[T]) Pos() int { return p.pos }

// ErrTransient is the transient source error injected by ProbeStream.
var ErrTransient = errors.New("verif: transient source error")

// ProbeStream is an instrumented stream.Stream over a slice, with a fault plan.
//
// The plan is fixed before the run; the counters are atomics, so the probe may be driven from
// library goroutines without the monitor becoming the race.
type ProbeStream[T any] struct {
	Name  string
	Items []T

	// FatalAt >= 0: once FatalAt items have been handed out, Next returns Fatal (every time).
	FatalAt int
	Fatal   error
	// TransientAt lists ordinals of Next *calls* (0-based, counted over the probe's life) that
	// fail with ErrTransient without consuming anything.
	TransientAt map[int]bool
	// HonourCtx: a Next entered (or still delayed) with a done context returns ctx.Err() without
	// consuming anything.
	HonourCtx bool
	// BlockAtEnd: instead of reporting End, block until ctx is done (an input that never ends).
	BlockAtEnd bool
	// Delay(i) is slept (interruptibly if HonourCtx) before item i is handed out; i == len(Items)
	// is the delay before End / the error.
	Delay func(i int) time.Duration
	// OnDeliver runs just before item i is returned (used to stamp arrival times).
	OnDeliver func(i int)
	Clock     *Clock

	mu  sync.Mutex
	pos int

	Calls          atomic.Int64 // Next calls
	Yielded        atomic.Int64
	Closes         atomic.Int64
	NextAfterClose atomic.Int64
	NextDuringNext atomic.Int64
	Overlap        atomic.Int64 // Next and Close seen running at the same time
	EndsReported   atomic.Int64
	CtxDoneAtEntry atomic.Int64
	inNext         atomic.Int32
	inClose        atomic.Int32
	FirstCloseTick atomic.Int64
	LastNextTick   atomic.Int64
}

// NewProbeStream returns a probe with no faults.
func NewProbeStream[T any](name string, items []T) *ProbeStream[T] {
	return &ProbeStream[T]{Name: name, Items: items, FatalAt: -1}
}

func (p *ProbeStream[T]) tick() int64 {
	if p.Clock != nil {
		return p.Clock.Tick()
	}
	return 0
}

func (p *ProbeStream[T]) Next(ctx context.Context) (T, error) {
	if p.inNext.Add(1) > 1 {
		p.NextDuringNext.Add(1)
	}
	defer p.inNext.Add(-1)
	if p.inClose.Load() > 0 {
		p.Overlap.Add(1)
	} else if p.Closes.Load() > 0 {
		p.NextAfterClose.Add(1)
	}
	p.LastNextTick.Store(p.tick())
	call := int(p.Calls.Add(1) - 1)

	if p.HonourCtx && ctx.Err() != nil {
		p.CtxDoneAtEntry.Add(1)
		return Garbage[T](call), ctx.Err()
	}
	if p.TransientAt[call] {
		return Garbage[T](call), ErrTransient
	}
	p.mu.Lock()
	pos := p.pos
	p.mu.Unlock()
	if p.Delay != nil {
		if d := p.Delay(pos); d > 0 {
			if p.HonourCtx {
				t := time.NewTimer(d)
				select {
				case <-t.C:
				case <-ctx.Done():
					t.Stop()
					return Garbage[T](call), ctx.Err()
				}
			} else {
				time.Sleep(d)
			}
		} else if d < 0 {
			runtime.Gosched()
		}
	}
	if p.FatalAt >= 0 && pos >= p.FatalAt {
		return Garbage[T](call), p.Fatal
	}
	if pos >= len(p.Items) {
		if p.BlockAtEnd {
			<-ctx.Done()
			return Garbage[T](call), ctx.Err()
		}
		p.EndsReported.Add(1)
		return Garbage[T](call), stream.End
	}
	if p.OnDeliver != nil {
		p.OnDeliver(pos)
	}
	p.mu.Lock()
	p.pos = pos + 1
	p.mu.Unlock()
	p.Yielded.Add(1)
	return p.Items[pos], nil
}

func (p *ProbeStream[T]) Close() {
	p.inClose.Add(1)
	if p.inNext.Load() > 0 {
		p.Overlap.Add(1)
	}
	if p.Closes.Add(1) == 1 {
		p.FirstCloseTick.Store(p.tick())
	}
	p.inClose.Add(-1)
}

// Pos is the number of items handed out.
func (p *ProbeStream[T]) Pos() int {
	p.mu.Lock()
	defer p.mu.Unlock()
	return p.pos
}

// Misuse describes every way in which the probe was used against the Stream contract, or "".
// wantClosed: whether exactly one Close is due by now.
func (p *ProbeStream[T]) Misuse(wantClosed bool) string {
	s := ""
	add := func(f string, a ...any) {
		if s != "" {
			s += "; "
		}
		s += fmt.Sprintf(f, a...)
	}
	c := p.Closes.Load()
	if wantClosed && c != 1 {
		add("stream %s closed %d times (want exactly 1)", p.Name, c)
	}
	if !wantClosed && c > 1 {
		add("stream %s closed %d times", p.Name, c)
	}
	if n := p.NextAfterClose.Load(); n > 0 {
		add("stream %s: %d Next calls after Close", p.Name, n)
	}
	if n := p.Overlap.Load(); n > 0 {
		add("stream %s: Next and Close overlapped %d times", p.Name, n)
	}
	return s
}

// Perturber is a pre-drawn table of small scheduling perturbations, indexable from any goroutine
// without sharing a generator.
type Perturber struct {
	tab []uint8
	i   atomic.Uint64
}

// NewPerturber draws n perturbation choices. intensity in [0,1] is the share of non-trivial ones.
func NewPerturber(r *Rand, n int, intensity float64) *Perturber {
	p := &Perturber{tab: make([]uint8, n)}
	for i := range p.tab {
		if !r.Bool(intensity) {
			continue
		}
		switch r.Intn(10) {
		case 0, 1, 2, 3:
			p.tab[i] = 1 // Gosched
		case 4, 5, 6:
			p.tab[i] = uint8(2 + r.Intn(20)) // spin
		case 7, 8:
			p.tab[i] = uint8(40 + r.Intn(40)) // short sleep
		default:
			p.tab[i] = uint8(100 + r.Intn(100)) // longer sleep
		}
	}
	return p
}

// Do performs the next perturbation of the table.
func (p *Perturber) Do() {
	if p == nil || len(p.tab) == 0 {
		return
	}
	k := p.tab[int(p.i.Add(1)-1)%len(p.tab)]
	switch {
	case k == 0:
	case k == 1:
		runtime.Gosched()
	case k < 40:
		SpinFor(time.Duration(k) * 2 * time.Microsecond)
	case k < 100:
		time.Sleep(time.Duration(k-39) * 5 * time.Microsecond)
	default:
		time.Sleep(time.Duration(k-99) * 10 * time.Microsecond)
	}
}

// SpinFor busy-waits for about d.
func SpinFor(d time.Duration) {
	t := time.Now()
	for time.Since(t) < d {
	}
}

// Gauge is a concurrency gauge with a high-water mark.
type Gauge struct {
	cur atomic.Int64
	max atomic.Int64
}

func (g *Gauge) Enter() int64 {
	v := g.cur.Add(1)
	for {
		m := g.max.Load()
		if v <= m || g.max.CompareAndSwap(m, v) {
			break
		}
	}
	return v
}
func (g *Gauge) Exit()      { g.cur.Add(-1) }
func (g *Gauge) Cur() int64 { return g.cur.Load() }
func (g *Gauge) Max() int64 { return g.max.Load() }

// Garbage returns a non-zero, recognisable value of the common item types. The probes return it
// alongside the end of a sequence or an error: the contracts call the first return meaningless
// there, so no combinator may look at it, keep it or forward it as an item. Reference outputs
// never contain it (all generated items are >= 0 / non-empty in a different form). For types it
// does not know it returns the zero value.
func Garbage[T any](salt int) T {
	var z T
	switch p := any(&z).(type) {
	case *int:
		*p = -777000 - salt
	case *int64:
		*p = -777000 - int64(salt)
	case *int32:
		*p = -777000 - int32(salt%1000)
	case *uint8:
		*p = 0xEE
	case *string:
		*p = "verif-garbage-returned-alongside-end-or-error"
	case *[]int:
		*p = []int{-777001, -777002}
	case *[]int64:
		*p = []int64{-777001, -777002}
	case *float64:
		*p = -777.5
	}
	return z
}

// valueCtx is a valid context.Context passed BY VALUE whose dynamic type is not comparable (it has
// a slice field): code that compares contexts with == panics on it at run time.
type valueCtx struct {
	context.Context
	tags []string
}

// ByValue wraps ctx in a by-value context of a non-comparable dynamic type. Everything else (Done,
// Err, Deadline, Value) is ctx's.
func ByValue(ctx context.Context) context.Context {
	return valueCtx{ctx, []string{"verif: by-value context"}}
}
