//go:build race

package vkit

// RaceEnabled reports whether the binary was built with the race detector.
const RaceEnabled = true
