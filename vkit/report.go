package vkit

import (
	"bufio"
	"encoding/json"
	"fmt"
	"os"
	"path/filepath"
	"regexp"
	"sort"
	"strconv"
	"strings"
	"sync"
	"sync/atomic"
	"time"
)

// Exit codes of a monitor process.
const (
	ExitHeld      = 0
	ExitViolation = 1
	ExitMachinery = 2 // coverage floor not met, bad arguments, ...: the machinery is broken, no verdict
)

// Violation is one observed refutation of the property.
type Violation struct {
	Sig     string `json:"sig"`  // canonical signature (no spaces); looked up in KNOWN_FINDINGS.txt
	What    string `json:"what"` // one line for humans
	Case    string `json:"case,omitempty"`
	Variant string `json:"variant,omitempty"`
	Witness any    `json:"witness,omitempty"`
	Replay  string `json:"replay,omitempty"`
}

type floor struct {
	Name string `json:"name"`
	Got  int64  `json:"got"`
	Want int64  `json:"want"`
}

// part is the serialisable state of one monitor process; parts are merged into one evidence file.
type part struct {
	Prop         string                      `json:"prop"`
	Level        string                      `json:"level"`
	Tier         string                      `json:"tier"`
	Seed         uint64                      `json:"seed"`
	Variant      string                      `json:"variant"`
	Evals        int64                       `json:"evals"`
	Distinct     []uint64                    `json:"distinct"`
	Tables       map[string]map[string]int64 `json:"tables"`
	Samples      []any                       `json:"samples"`
	Violations   []Violation                 `json:"violations"`
	NViolations  int                         `json:"n_violations"`
	Known        map[string]int              `json:"known"`
	Inconclusive []string                    `json:"inconclusive"`
	Floors       []floor                     `json:"floors"`
	Assumptions  []string                    `json:"assumptions"`
	Rule         string                      `json:"rule"`
	Exhaustive   *bool                       `json:"exhaustive,omitempty"`
	Extra        map[string]any              `json:"extra"`
	WallS        float64                     `json:"wall_s"`
	Replaying    bool                        `json:"replaying"`
}

// Report collects what a monitor observed and turns it into the verdict and the evidence file.
// All methods are safe for concurrent use.
type Report struct {
	mu       sync.Mutex
	p        part
	evals    atomic.Int64
	distinct map[uint64]struct{}
	start    time.Time
	budget   time.Duration
	onlyCase string
	verifDir string
	maxKeep  int
	bailOnce sync.Once
	// set when case lists were cut short because enough violations had been found
	stoppedEarly atomic.Bool
}

// stopAfterViolations: remaining cases are skipped once this many violations were recorded.
const stopAfterViolations = 12

// KnownFinding is one line of KNOWN_FINDINGS.txt.
type KnownFinding struct {
	Kind string // "finding" or "fixed"
	Prop string
	Key  string // finding only
	Text string
}

func verifDir() string {
	if d := os.Getenv("VERIF_DIR"); d != "" {
		return d
	}
	d, err := os.Getwd()
	if err != nil {
		return "."
	}
	return d
}

var kfLine = regexp.MustCompile(`^(finding|fixed):\s+property=(C[0-9]+)\s+(.*)$`)

// LoadKnownFindings parses KNOWN_FINDINGS.txt. It is only ever read.
func LoadKnownFindings(dir string) []KnownFinding {
	f, err := os.Open(filepath.Join(dir, "KNOWN_FINDINGS.txt"))
	if err != nil {
		return nil
	}
	defer f.Close()
	var out []KnownFinding
	sc := bufio.NewScanner(f)
	sc.Buffer(make([]byte, 1<<20), 1<<20)
	for sc.Scan() {
		line := strings.TrimSpace(sc.Text())
		m := kfLine.FindStringSubmatch(line)
		if m == nil {
			continue
		}
		kf := KnownFinding{Kind: m[1], Prop: m[2], Text: m[3]}
		if kf.Kind == "finding" {
			rest := m[3]
			if strings.HasPrefix(rest, "key=") {
				fields := strings.SplitN(rest[4:], " ", 2)
				kf.Key = fields[0]
				if len(fields) > 1 {
					kf.Text = fields[1]
				}
			}
		}
		out = append(out, kf)
	}
	return out
}

func newReport(prop, level string) *Report {
	r := &Report{
		distinct: make(map[uint64]struct{}),
		start:    time.Now(),
		verifDir: verifDir(),
		maxKeep:  10,
	}
	r.p.Prop = prop
	r.p.Level = level
	r.p.Tier = os.Getenv("VERIF_TIER")
	if r.p.Tier != "thorough" {
		r.p.Tier = "quick"
	}
	r.p.Seed = 1
	if s := os.Getenv("VERIF_SEED"); s != "" {
		if v, err := strconv.ParseUint(s, 10, 64); err == nil {
			r.p.Seed = v
		} else if v, err := strconv.ParseInt(s, 10, 64); err == nil {
			r.p.Seed = uint64(v)
		}
	}
	r.p.Variant = os.Getenv("VERIF_VARIANT")
	r.p.Tables = make(map[string]map[string]int64)
	r.p.Known = make(map[string]int)
	r.p.Extra = make(map[string]any)
	r.onlyCase = os.Getenv("VERIF_CASE")
	r.p.Replaying = r.onlyCase != ""
	r.budget = 15 * time.Minute
	if r.p.Tier == "thorough" {
		r.budget = 90 * time.Minute
	}
	if s := os.Getenv("VERIF_BUDGET_S"); s != "" {
		if v, err := strconv.Atoi(s); err == nil && v > 0 {
			r.budget = time.Duration(v) * time.Second
		}
	}
	return r
}

func (r *Report) Prop() string    { return r.p.Prop }
func (r *Report) Seed() uint64    { return r.p.Seed }
func (r *Report) Tier() string    { return r.p.Tier }
func (r *Report) Variant() string { return r.p.Variant }
func (r *Report) Thorough() bool  { return r.p.Tier == "thorough" }
func (r *Report) Replaying() bool { return r.p.Replaying }

// VariantHas reports whether the variant string (colon-separated words) contains word.
func (r *Report) VariantHas(word string) bool {
	for _, w := range strings.Split(r.p.Variant, ":") {
		if w == word {
			return true
		}
	}
	return false
}

// Scale picks the quick or the thorough value.
func (r *Report) Scale(quick, thorough int) int {
	if r.Thorough() {
		return thorough
	}
	return quick
}

// Rand returns the generator for the given labels under this run's seed.
func (r *Report) Rand(labels ...any) *Rand { return NewRandFor(r.p.Seed, labels...) }

// Eval counts n oracle evaluations.
func (r *Report) Eval(n int) { r.evals.Add(int64(n)) }

// Distinct records one distinct non-trivial case, identified by key.
func (r *Report) Distinct(key string) {
	h := Hash64(key)
	r.mu.Lock()
	r.distinct[h] = struct{}{}
	r.mu.Unlock()
}

// Count adds n to cell key of the observation table.
func (r *Report) Count(table, key string, n int) {
	r.mu.Lock()
	t := r.p.Tables[table]
	if t == nil {
		t = make(map[string]int64)
		r.p.Tables[table] = t
	}
	t[key] += int64(n)
	r.mu.Unlock()
}

// Max keeps the maximum of the values given for cell key of table.
func (r *Report) Max(table, key string, v int) {
	table = "max:" + table
	r.mu.Lock()
	t := r.p.Tables[table]
	if t == nil {
		t = make(map[string]int64)
		r.p.Tables[table] = t
	}
	if cur, ok := t[key]; !ok || int64(v) > cur {
		t[key] = int64(v)
	}
	r.mu.Unlock()
}

// Table returns the current value of a cell.
func (r *Report) Table(table, key string) int64 {
	r.mu.Lock()
	defer r.mu.Unlock()
	return r.p.Tables[table][key]
}

// Sample keeps v as one of the written-out cases (the first few are kept).
func (r *Report) Sample(v any) {
	r.mu.Lock()
	if len(r.p.Samples) < 5 {
		r.p.Samples = append(r.p.Samples, v)
	}
	r.mu.Unlock()
}

// WantSample is true while more samples are wanted (lets callers avoid building them).
func (r *Report) WantSample() bool {
	r.mu.Lock()
	defer r.mu.Unlock()
	return len(r.p.Samples) < 5
}

func (r *Report) SetRule(rule string) { r.mu.Lock(); r.p.Rule = rule; r.mu.Unlock() }
func (r *Report) SetExhaustive(b bool) {
	r.mu.Lock()
	r.p.Exhaustive = &b
	r.mu.Unlock()
}
func (r *Report) Assume(s string) {
	r.mu.Lock()
	for _, a := range r.p.Assumptions {
		if a == s {
			r.mu.Unlock()
			return
		}
	}
	r.p.Assumptions = append(r.p.Assumptions, s)
	r.mu.Unlock()
}
func (r *Report) SetExtra(k string, v any) { r.mu.Lock(); r.p.Extra[k] = v; r.mu.Unlock() }

// Floor registers a coverage floor: a run that observed fewer than want is a machinery error, not
// "held". Floors are ignored when replaying a single case.
func (r *Report) Floor(name string, got, want int64) {
	r.mu.Lock()
	r.p.Floors = append(r.p.Floors, floor{name, got, want})
	r.mu.Unlock()
}

// Inconclusive records that part of the run could not decide (watchdog, checker timeout).
func (r *Report) Inconclusive(what string) {
	r.mu.Lock()
	if len(r.p.Inconclusive) < 50 {
		r.p.Inconclusive = append(r.p.Inconclusive, what)
	}
	r.mu.Unlock()
	fmt.Fprintf(os.Stderr, "inconclusive: %s\n", what)
}

// Violation records a refutation. sig is the canonical signature used for the known-findings lookup.
func (r *Report) Violation(sig, what string, caseID string, witness any) {
	sig = strings.ReplaceAll(sig, " ", "_")
	r.mu.Lock()
	defer r.mu.Unlock()
	for _, kf := range LoadKnownFindingsCached(r.verifDir) {
		if kf.Kind == "finding" && kf.Prop == r.p.Prop && kf.Key == sig {
			r.p.Known[sig]++
			return
		}
	}
	r.p.NViolations++
	if len(r.p.Violations) < r.maxKeep {
		r.p.Violations = append(r.p.Violations, Violation{
			Sig: sig, What: what, Case: caseID, Variant: r.p.Variant, Witness: witness,
		})
		fmt.Fprintf(os.Stderr, "violation[%s] case=%s: %s\n", sig, caseID, what)
	}
}

// NViolations is the number of (unlisted) violations so far.
func (r *Report) NViolations() int {
	r.mu.Lock()
	defer r.mu.Unlock()
	return r.p.NViolations
}

var (
	kfOnce  sync.Once
	kfCache []KnownFinding
)

func LoadKnownFindingsCached(dir string) []KnownFinding {
	kfOnce.Do(func() { kfCache = LoadKnownFindings(dir) })
	return kfCache
}

// OverBudget is a safety valve only: case lists are fixed by the seed, never by time. If the
// (generous) wall-clock budget is exhausted the rest of the list is skipped and the run is
// inconclusive.
func (r *Report) OverBudget() bool { return time.Since(r.start) > r.budget }

// Case is one generated case: its own PRNG stream and an id that replays it.
type Case struct {
	R     *Report
	Group string
	Index int
	Rand  *Rand
}

func (c *Case) ID() string { return fmt.Sprintf("%s#%d", c.Group, c.Index) }

// Violation records a refutation found in this case.
func (c *Case) Violation(sig, what string, witness any) {
	c.R.Violation(sig, what, c.ID(), witness)
}

// Cases runs fn for case 0..n-1 of the group on `workers` goroutines (1 = in order on the calling
// goroutine). Each case gets the PRNG stream (seed, group, index), so a case can be replayed alone
// (VERIF_CASE=group#index).
func (r *Report) Cases(group string, n int, workers int, fn func(c *Case)) {
	only := -1
	if r.onlyCase != "" {
		g, idx, ok := strings.Cut(r.onlyCase, "#")
		if !ok || g != group {
			return
		}
		v, err := strconv.Atoi(idx)
		if err != nil {
			return
		}
		only = v
	}
	run := func(i int) {
		// Once the property is clearly violated there is no point in spending minutes (stuck
		// verdicts cost seconds each) on collecting hundreds of further witnesses.
		if only < 0 && r.NViolations() >= stopAfterViolations {
			r.stoppedEarly.Store(true)
			return
		}
		c := &Case{R: r, Group: group, Index: i, Rand: NewRandFor(r.p.Seed, group, i)}
		fn(c)
	}
	if only >= 0 {
		if only < n {
			run(only)
		}
		return
	}
	if workers <= 1 {
		for i := 0; i < n; i++ {
			if i%16 == 0 && r.OverBudget() {
				r.Inconclusive(fmt.Sprintf("wall-clock budget exhausted in group %s after %d of %d cases", group, i, n))
				return
			}
			run(i)
		}
		return
	}
	var next atomic.Int64
	var wg sync.WaitGroup
	var once sync.Once
	for w := 0; w < workers; w++ {
		wg.Add(1)
		go func() {
			defer wg.Done()
			for {
				i := int(next.Add(1) - 1)
				if i >= n {
					return
				}
				if r.OverBudget() {
					once.Do(func() {
						r.Inconclusive(fmt.Sprintf("wall-clock budget exhausted in group %s near case %d of %d", group, i, n))
					})
					return
				}
				run(i)
			}
		}()
	}
	wg.Wait()
}

func (r *Report) snapshot() part {
	r.mu.Lock()
	defer r.mu.Unlock()
	p := r.p
	p.Evals = r.evals.Load()
	p.Distinct = make([]uint64, 0, len(r.distinct))
	for h := range r.distinct {
		p.Distinct = append(p.Distinct, h)
	}
	sort.Slice(p.Distinct, func(i, j int) bool { return p.Distinct[i] < p.Distinct[j] })
	p.WallS = time.Since(r.start).Seconds()
	if r.stoppedEarly.Load() {
		p.Extra["stopped_early"] = fmt.Sprintf("remaining cases skipped after %d violations", p.NViolations)
	}
	return p
}

// Main is the entry point of every monitor binary.
//
//	monXX                      run (tier, seed, variant from the environment)
//	monXX --merge a.json ...   merge part files into the evidence file and print the verdict
func Main(prop, level string, run func(r *Report)) {
	args := os.Args[1:]
	if len(args) > 0 && args[0] == "--merge" {
		os.Exit(mergeAndFinish(prop, level, args[1:]))
	}
	r := newReport(prop, level)
	run(r)
	r.finishProcess()
}

// Bail ends the process now, reporting what has been observed so far (used by watchdogs that have
// caught a library call that will never return: the goroutine cannot be killed, the process can).
func (r *Report) Bail() { r.finishProcess() }

func (r *Report) finishProcess() {
	r.bailOnce.Do(r.finishProcessOnce)
	select {} // another goroutine is finishing
}

func (r *Report) finishProcessOnce() {
	prop := r.p.Prop
	collectRaceReports(r)
	p := r.snapshot()
	if out := os.Getenv("VERIF_PART_OUT"); out != "" {
		b, err := json.Marshal(p)
		if err != nil {
			fmt.Fprintf(os.Stderr, "cannot encode part: %v\n", err)
			os.Exit(ExitMachinery)
		}
		if err := os.WriteFile(out, b, 0o644); err != nil {
			fmt.Fprintf(os.Stderr, "cannot write part: %v\n", err)
			os.Exit(ExitMachinery)
		}
		fmt.Printf("part %s variant=%q evals=%d distinct=%d violations=%d known=%d inconclusive=%d wall=%.1fs\n",
			prop, p.Variant, p.Evals, len(p.Distinct), p.NViolations, len(p.Known), len(p.Inconclusive), p.WallS)
		os.Exit(0)
	}
	os.Exit(finish(r.verifDir, []part{p}))
}

func mergeAndFinish(prop, level string, files []string) int {
	var parts []part
	for _, f := range files {
		b, err := os.ReadFile(f)
		if err != nil {
			fmt.Fprintf(os.Stderr, "cannot read part %s: %v\n", f, err)
			return ExitMachinery
		}
		var p part
		dec := json.NewDecoder(strings.NewReader(string(b)))
		dec.UseNumber()
		if err := dec.Decode(&p); err != nil {
			fmt.Fprintf(os.Stderr, "cannot decode part %s: %v\n", f, err)
			return ExitMachinery
		}
		if p.Prop != prop {
			fmt.Fprintf(os.Stderr, "part %s is for %s, not %s\n", f, p.Prop, prop)
			return ExitMachinery
		}
		parts = append(parts, p)
	}
	if len(parts) == 0 {
		fmt.Fprintln(os.Stderr, "no parts to merge")
		return ExitMachinery
	}
	return finish(verifDir(), parts)
}

// finish merges the parts, writes the evidence file and replay files, prints the verdict lines and
// returns the exit code.
func finish(dir string, parts []part) int {
	first := parts[0]
	prop := first.Prop
	var evals int64
	distinct := make(map[uint64]struct{})
	tables := make(map[string]map[string]int64)
	var samples []any
	var viols []Violation
	nviol := 0
	known := make(map[string]int)
	var inconclusive []string
	var floors []floor
	var assumptions []string
	extra := make(map[string]any)
	var variants []map[string]any
	wall := 0.0
	exhaustive := (*bool)(nil)
	replaying := false
	for _, p := range parts {
		evals += p.Evals
		for _, h := range p.Distinct {
			distinct[h] = struct{}{}
		}
		for tn, t := range p.Tables {
			mt := tables[tn]
			if mt == nil {
				mt = make(map[string]int64)
				tables[tn] = mt
			}
			for k, v := range t {
				if strings.HasPrefix(tn, "max:") {
					if v > mt[k] {
						mt[k] = v
					}
				} else {
					mt[k] += v
				}
			}
		}
		for _, s := range p.Samples {
			if len(samples) < 5 {
				samples = append(samples, s)
			}
		}
		viols = append(viols, p.Violations...)
		nviol += p.NViolations
		for k, v := range p.Known {
			known[k] += v
		}
		for _, s := range p.Inconclusive {
			inconclusive = append(inconclusive, fmt.Sprintf("[%s] %s", p.Variant, s))
		}
		floors = append(floors, p.Floors...)
		for _, a := range p.Assumptions {
			dup := false
			for _, b := range assumptions {
				if a == b {
					dup = true
				}
			}
			if !dup {
				assumptions = append(assumptions, a)
			}
		}
		for k, v := range p.Extra {
			extra[k] = v
		}
		if p.Exhaustive != nil {
			if exhaustive == nil {
				b := *p.Exhaustive
				exhaustive = &b
			} else if !*p.Exhaustive {
				*exhaustive = false
			}
		}
		variants = append(variants, map[string]any{
			"variant": p.Variant, "evaluations": p.Evals, "distinct_nontrivial": len(p.Distinct),
			"violations": p.NViolations, "wall_s": round1(p.WallS),
		})
		wall += p.WallS
		replaying = replaying || p.Replaying
	}

	// Floors: merged by name (sum of got across parts against the largest want).
	type fl struct{ got, want int64 }
	fm := make(map[string]*fl)
	var fnames []string
	for _, f := range floors {
		x := fm[f.Name]
		if x == nil {
			x = &fl{}
			fm[f.Name] = x
			fnames = append(fnames, f.Name)
		}
		x.got += f.Got
		if f.Want > x.want {
			x.want = f.Want
		}
	}
	sort.Strings(fnames)
	var unmet []string
	floorsOut := make(map[string]any)
	for _, n := range fnames {
		floorsOut[n] = map[string]int64{"observed": fm[n].got, "floor": fm[n].want}
		if fm[n].got < fm[n].want {
			unmet = append(unmet, fmt.Sprintf("%s: observed %d < floor %d", n, fm[n].got, fm[n].want))
		}
	}

	// Replay files.
	replayDir := filepath.Join(dir, "replay")
	if os.Getenv("VERIF_ALT") != "" {
		replayDir = filepath.Join(dir, ".build", "alt-replay")
	}
	_ = os.MkdirAll(replayDir, 0o755)
	for i := range viols {
		v := &viols[i]
		name := fmt.Sprintf("%s-%s-s%d-%d.json", prop, sanitize(v.Variant), first.Seed, i)
		path := filepath.Join(replayDir, name)
		b, _ := json.MarshalIndent(map[string]any{
			"property": prop, "seed": first.Seed, "tier": first.Tier, "variant": v.Variant,
			"case": v.Case, "sig": v.Sig, "what": v.What, "witness": v.Witness,
		}, "", " ")
		if err := os.WriteFile(path, b, 0o644); err == nil {
			v.Replay = path
		} else {
			v.Replay = path + " (unwritable: " + err.Error() + ")"
		}
	}

	verdict := "held"
	switch {
	case nviol > 0:
		verdict = "violated"
	case len(inconclusive) > 0:
		verdict = "inconclusive"
	case len(known) > 0:
		verdict = "held-except-known-findings"
	}

	coverage := map[string]any{
		"evaluations":         evals,
		"distinct_nontrivial": len(distinct),
		"rule":                first.Rule,
		"samples":             samples,
		"observed":            tables,
		"variants":            variants,
		"verdict":             verdict,
		"coverage_floors":     floorsOut,
	}
	if exhaustive != nil {
		coverage["exhaustive"] = *exhaustive
	}
	if len(known) > 0 {
		coverage["known_findings_observed"] = known
	}
	if len(inconclusive) > 0 {
		coverage["inconclusive"] = inconclusive
	}
	if nviol > 0 {
		var vs []map[string]any
		for _, v := range viols {
			vs = append(vs, map[string]any{"sig": v.Sig, "what": v.What, "case": v.Case, "variant": v.Variant, "replay": v.Replay})
		}
		coverage["violations_found"] = vs
	}
	for k, v := range extra {
		if _, clash := coverage[k]; !clash {
			coverage[k] = v
		}
	}
	if samples == nil {
		coverage["samples"] = []any{}
	}
	ev := map[string]any{
		"property_id": prop,
		"tier":        first.Tier,
		"seed":        first.Seed,
		"level":       first.Level,
		"coverage":    coverage,
		"assumptions": assumptions,
		"wall_s":      round1(wall),
		"violations":  nviol,
	}
	if assumptions == nil {
		ev["assumptions"] = []string{}
	}
	evPath := filepath.Join(dir, "evidence", prop+".json")
	if os.Getenv("VERIF_ALT") != "" {
		// run against a scratch copy of juniper (VERIF_REPO): never touch the real evidence
		evPath = filepath.Join(dir, ".build", "alt-evidence", prop+".json")
	}
	if replaying {
		evPath = filepath.Join(dir, ".build", prop+".replay-evidence.json")
	}
	_ = os.MkdirAll(filepath.Dir(evPath), 0o755)
	b, err := json.MarshalIndent(ev, "", " ")
	if err == nil {
		err = os.WriteFile(evPath, append(b, '\n'), 0o644)
	}
	if err != nil {
		fmt.Fprintf(os.Stderr, "cannot write evidence: %v\n", err)
		return ExitMachinery
	}

	// Verdict lines.
	kfs := LoadKnownFindingsCached(dir)
	var kkeys []string
	for k := range known {
		kkeys = append(kkeys, k)
	}
	sort.Strings(kkeys)
	for _, k := range kkeys {
		text := ""
		for _, kf := range kfs {
			if kf.Kind == "finding" && kf.Prop == prop && kf.Key == k {
				text = kf.Text
			}
		}
		fmt.Printf("KNOWN-FINDING: property=%s key=%s observed=%d %s\n", prop, k, known[k], text)
	}
	for _, s := range inconclusive {
		fmt.Printf("INCONCLUSIVE property=%s %s\n", prop, s)
	}
	for _, v := range viols {
		fmt.Printf("VIOLATION property=%s replay=%s\n", prop, v.Replay)
		fmt.Printf("  [%s] %s\n", v.Sig, v.What)
	}
	if nviol > len(viols) {
		fmt.Printf("  (%d further violations not written out)\n", nviol-len(viols))
	}
	fmt.Printf("%s %s tier=%s seed=%d: evaluations=%d distinct_nontrivial=%d violations=%d known=%d wall=%.1fs evidence=%s\n",
		prop, verdict, first.Tier, first.Seed, evals, len(distinct), nviol, len(known), wall, evPath)
	if nviol > 0 {
		return ExitViolation
	}
	if !replaying {
		if len(unmet) > 0 && len(inconclusive) == 0 {
			for _, u := range unmet {
				fmt.Printf("MACHINERY-ERROR property=%s coverage floor not met: %s\n", prop, u)
			}
			return ExitMachinery
		}
	}
	return ExitHeld
}

func round1(f float64) float64 { return float64(int64(f*10+0.5)) / 10 }

func sanitize(s string) string {
	if s == "" {
		return "default"
	}
	var b strings.Builder
	for _, c := range s {
		if (c >= 'a' && c <= 'z') || (c >= 'A' && c <= 'Z') || (c >= '0' && c <= '9') {
			b.WriteRune(c)
		} else {
			b.WriteByte('_')
		}
	}
	return b.String()
}
