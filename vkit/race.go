package vkit

import (
	"fmt"
	"os"
	"regexp"
	"strings"
)

var raceFn = regexp.MustCompile(`^\s+(github\.com/bradenaw/juniper/[^\s(]+|verif/[^\s(]+|main\.[^\s(]+)`)

// collectRaceReports reads the race detector's log of this process (GORACE=log_path=<prefix>, the
// prefix is passed in VERIF_RACE_LOG), counts the report blocks and turns each distinct one into a
// violation. Reports are counted from the log, never from the exit code (halt_on_error=0).
func collectRaceReports(r *Report) {
	prefix := os.Getenv("VERIF_RACE_LOG")
	r.SetExtra("race_detector", RaceEnabled)
	if prefix == "" || !RaceEnabled {
		return
	}
	path := fmt.Sprintf("%s.%d", prefix, os.Getpid())
	b, err := os.ReadFile(path)
	if err != nil {
		r.Count("race", "reports", 0)
		return
	}
	blocks := strings.Split(string(b), "WARNING: DATA RACE")
	n := 0
	seen := make(map[string]bool)
	for _, blk := range blocks[1:] {
		n++
		var fns []string
		for _, line := range strings.Split(blk, "\n") {
			if m := raceFn.FindStringSubmatch(line); m != nil {
				fn := m[1]
				dup := false
				for _, f := range fns {
					if f == fn {
						dup = true
					}
				}
				if !dup {
					fns = append(fns, fn)
				}
			}
		}
		// Outermost-ish identification: the first juniper frames of the two accesses.
		var jun []string
		for _, f := range fns {
			if strings.HasPrefix(f, "github.com/bradenaw/juniper/") {
				jun = append(jun, strings.TrimPrefix(f, "github.com/bradenaw/juniper/"))
			}
		}
		if len(jun) > 2 {
			jun = jun[:2]
		}
		sig := "race:" + strings.Join(jun, "+")
		if len(jun) == 0 {
			sig = "race:harness-only"
		}
		if seen[sig] {
			continue
		}
		seen[sig] = true
		if len(blk) > 6000 {
			blk = blk[:6000] + "\n...[truncated]"
		}
		r.Violation(sig, "data race reported by the race detector: "+sig, "", map[string]any{"report": "WARNING: DATA RACE" + blk})
	}
	r.Count("race", "reports", n)
}
