package tk

import (
	"github.com/bradenaw/juniper/container/tree"
	"github.com/bradenaw/juniper/iterator"
	"math"
)

// tokKeySUT presents a tree.Map[*Tok, V] as a collection keyed by int: position j is stored as
// &Tok{ID: j}. The comparator handed to the tree dereferences its arguments and returns arbitrary
// magnitudes, so (a) a library that calls the comparator with a key the caller never inserted (the
// zero value nil) panics, and (b) a library that assumes -1/0/+1 misbehaves.
type tokKeySUT[V any] struct{ m tree.Map[*Tok, V] }

func tokOf(j int) *Tok { return &Tok{ID: j} }

const nilKeyPos = math.MinInt / 4 // far below every generated id, on 32-bit targets too

func posOf(t *Tok) int {
	if t == nil {
		return nilKeyPos
	}
	return t.ID
}

func (s tokKeySUT[V]) Put(k int, v V)      { s.m.Put(tokOf(k), v) }
func (s tokKeySUT[V]) Delete(k int)        { s.m.Delete(tokOf(k)) }
func (s tokKeySUT[V]) Get(k int) V         { return s.m.Get(tokOf(k)) }
func (s tokKeySUT[V]) Contains(k int) bool { return s.m.Contains(tokOf(k)) }
func (s tokKeySUT[V]) Len() int            { return s.m.Len() }
func (s tokKeySUT[V]) Shape() (int, int)   { return s.m.VerifShape() }
func (s tokKeySUT[V]) Gen() int            { return s.m.VerifGen() }
func (s tokKeySUT[V]) IsSet() bool         { return false }
func (s tokKeySUT[V]) Raw() any            { m := s.m; return &m }
func (s tokKeySUT[V]) Copy() SUT[int, V]   { m2 := s.m; return tokKeySUT[V]{m2} }
func (s tokKeySUT[V]) First() (int, V) {
	k, v := s.m.First()
	if k == nil {
		return 0, v // zero key of the int-keyed face
	}
	return k.ID, v
}
func (s tokKeySUT[V]) Last() (int, V) {
	k, v := s.m.Last()
	if k == nil {
		return 0, v
	}
	return k.ID, v
}
func (s tokKeySUT[V]) Walk() tree.VerifTree[int, V] {
	w := s.m.VerifWalk()
	out := tree.VerifTree[int, V]{Size: w.Size, Gen: w.Gen, Root: w.Root}
	for _, n := range w.Nodes {
		c := tree.VerifNode[int, V]{Ptr: n.Ptr, ParentField: n.ParentField, ReachedFrom: n.ReachedFrom, IdxInParent: n.IdxInParent,
			Depth: n.Depth, N: n.N, Leaf: n.Leaf, Values: n.Values, Children: n.Children, Revisited: n.Revisited}
		for i := range n.Keys {
			c.Keys[i] = posOf(n.Keys[i])
		}
		out.Nodes = append(out.Nodes, c)
	}
	return out
}
func (s tokKeySUT[V]) Iter(lo, hi Bnd[int], reverse, plain bool) iterator.Iterator[KV[int, V]] {
	conv := func(b Bnd[int]) tree.Bound[*Tok] {
		switch b.Kind {
		case Included:
			return tree.Included(tokOf(b.Key))
		case Excluded:
			return tree.Excluded(tokOf(b.Key))
		}
		return tree.Unbounded[*Tok]()
	}
	var it iterator.Iterator[tree.KVPair[*Tok, V]]
	switch {
	case plain && !reverse && lo.Kind == Unbounded && hi.Kind == Unbounded:
		it = s.m.Iterate()
	case reverse:
		it = s.m.RangeReverse(conv(lo), conv(hi))
	default:
		it = s.m.Range(conv(lo), conv(hi))
	}
	return iterator.Map(it, func(p tree.KVPair[*Tok, V]) KV[int, V] { return KV[int, V]{posOf(p.Key), p.Value} })
}

// TokKeyMap: pointer keys with a nil-intolerant comparator that returns arbitrary magnitudes,
// built with NewMapCmp.
func TokKeyMap(counted bool) Config[int, int] {
	c := ctr(counted)
	cmp := counting2(func(a, b *Tok) int { return (a.ID - b.ID) * 5 }, c)
	return Config[int, int]{
		Name: "map[*Tok]int/NewMapCmp((a.ID-b.ID)*5, panics on a nil key)", KeyOf: ident, Class: ident,
		Cmp:   func(a, b int) int { return sign(a - b) },
		New:   func() SUT[int, int] { return tokKeySUT[int]{tree.NewMapCmp[*Tok, int](cmp)} },
		ValOf: intVal, ValEq: intEq, Counter: c.counter(), SetCompareHook: c.setHook(), PerCompare: 1,
	}
}

// TokKeyLessMap: pointer keys with a nil-intolerant less, built with NewMap.
func TokKeyLessMap(counted bool) Config[int, string] {
	c := ctr(counted)
	less := countingLess(func(a, b *Tok) bool { return a.ID < b.ID }, c)
	return Config[int, string]{
		Name: "map[*Tok]string/NewMap(a.ID<b.ID, panics on a nil key)", KeyOf: ident, Class: ident,
		Cmp:   func(a, b int) int { return sign(a - b) },
		New:   func() SUT[int, string] { return tokKeySUT[string]{tree.NewMap[*Tok, string](less)} },
		ValOf: strVal, ValEq: strEq, Counter: c.counter(), SetCompareHook: c.setHook(), PerCompare: 2,
	}
}
