package tk

import (
	"reflect"
	"unsafe"
)

// DeepToks walks everything reachable from *root through pointers, structs, arrays, slices,
// interfaces and maps (unexported fields included) and calls visit for every non-nil *Tok it
// finds. Function values and channels are opaque and not followed. It is how "no longer
// referenced from the live structure" is decided without knowing the structure's fields: whatever
// field a refactor adds to the tree (a free list, a spare node, a cache), tokens parked there are
// found.
func DeepToks(root any, visit func(t *Tok)) (objects int) {
	seen := make(map[unsafe.Pointer]struct{})
	tokType := reflect.TypeOf((*Tok)(nil))
	var walk func(v reflect.Value, depth int)
	walk = func(v reflect.Value, depth int) {
		if !v.IsValid() || depth > 100000 {
			return
		}
		switch v.Kind() {
		case reflect.Pointer:
			if v.IsNil() {
				return
			}
			if v.Type() == tokType {
				visit((*Tok)(v.UnsafePointer()))
				return
			}
			p := v.UnsafePointer()
			if _, ok := seen[p]; ok {
				return
			}
			seen[p] = struct{}{}
			objects++
			walk(v.Elem(), depth+1)
		case reflect.Interface:
			if v.IsNil() {
				return
			}
			walk(v.Elem(), depth+1)
		case reflect.Struct:
			for i := 0; i < v.NumField(); i++ {
				f := v.Field(i)
				if !f.CanInterface() && f.CanAddr() {
					f = reflect.NewAt(f.Type(), unsafe.Pointer(f.UnsafeAddr())).Elem()
				}
				walk(f, depth+1)
			}
		case reflect.Array:
			if !mayHoldPointers(v.Type().Elem()) {
				return
			}
			for i := 0; i < v.Len(); i++ {
				walk(v.Index(i), depth+1)
			}
		case reflect.Slice:
			if v.IsNil() || !mayHoldPointers(v.Type().Elem()) {
				return
			}
			// the whole backing array up to cap is "referenced"
			full := v.Slice3(0, v.Cap(), v.Cap())
			for i := 0; i < full.Len(); i++ {
				walk(full.Index(i), depth+1)
			}
		case reflect.Map:
			if v.IsNil() {
				return
			}
			it := v.MapRange()
			for it.Next() {
				walk(it.Key(), depth+1)
				walk(it.Value(), depth+1)
			}
		}
	}
	v := reflect.ValueOf(root)
	if v.Kind() != reflect.Pointer {
		panic("tk.DeepToks: root must be a pointer")
	}
	walk(v, 0)
	return objects
}

func mayHoldPointers(t reflect.Type) bool {
	switch t.Kind() {
	case reflect.Pointer, reflect.Interface, reflect.Slice, reflect.Map, reflect.Struct, reflect.Array, reflect.Func, reflect.Chan, reflect.UnsafePointer:
		return true
	}
	return false
}
