// Package tk is shared by the tree monitors (C01, C02, C03): an ideal sorted map written without
// looking at juniper, adapters that make tree.Map and tree.Set look alike, and key configurations.
package tk

import (
	"fmt"
	"sort"

	"github.com/bradenaw/juniper/container/tree"
	"github.com/bradenaw/juniper/iterator"
)

// BoundKind is the kind of a range endpoint.
type BoundKind int

const (
	Unbounded BoundKind = iota
	Included
	Excluded
)

func (b BoundKind) String() string { return [...]string{"Unb", "Inc", "Exc"}[b] }

// Bnd is a range endpoint in the monitors' own terms.
type Bnd[K any] struct {
	Kind BoundKind
	Key  K
}

func (b Bnd[K]) String() string {
	if b.Kind == Unbounded {
		return "Unb"
	}
	return fmt.Sprintf("%s(%v)", b.Kind, b.Key)
}

// ToTree converts to juniper's Bound.
func (b Bnd[K]) ToTree() tree.Bound[K] {
	switch b.Kind {
	case Included:
		return tree.Included(b.Key)
	case Excluded:
		return tree.Excluded(b.Key)
	}
	return tree.Unbounded[K]()
}

// KV is a key-value pair.
type KV[K, V any] struct {
	K K
	V V
}

// Model is the ideal sorted map: a sorted slice searched with the same comparator.
type Model[K, V any] struct {
	Cmp func(a, b K) int
	E   []KV[K, V]
}

func NewModel[K, V any](cmp func(a, b K) int) *Model[K, V] { return &Model[K, V]{Cmp: cmp} }

// Find returns the index of the first entry whose key is >= k, and whether it is equivalent to k.
func (m *Model[K, V]) Find(k K) (int, bool) {
	i := sort.Search(len(m.E), func(i int) bool { return m.Cmp(m.E[i].K, k) >= 0 })
	return i, i < len(m.E) && m.Cmp(m.E[i].K, k) == 0
}

// Put returns true if k was new.
func (m *Model[K, V]) Put(k K, v V) bool {
	i, ok := m.Find(k)
	if ok {
		m.E[i].V = v // the stored key representative stays
		return false
	}
	m.E = append(m.E, KV[K, V]{})
	copy(m.E[i+1:], m.E[i:])
	m.E[i] = KV[K, V]{k, v}
	return true
}

// Delete returns true if k was present.
func (m *Model[K, V]) Delete(k K) bool {
	i, ok := m.Find(k)
	if !ok {
		return false
	}
	m.E = append(m.E[:i], m.E[i+1:]...)
	return true
}

func (m *Model[K, V]) Get(k K) (V, bool) {
	i, ok := m.Find(k)
	if !ok {
		var zero V
		return zero, false
	}
	return m.E[i].V, true
}

func (m *Model[K, V]) Len() int { return len(m.E) }

// In reports whether k lies inside the bounds.
func (m *Model[K, V]) In(k K, lo, hi Bnd[K]) bool {
	switch lo.Kind {
	case Included:
		if m.Cmp(k, lo.Key) < 0 {
			return false
		}
	case Excluded:
		if m.Cmp(k, lo.Key) <= 0 {
			return false
		}
	}
	switch hi.Kind {
	case Included:
		if m.Cmp(k, hi.Key) > 0 {
			return false
		}
	case Excluded:
		if m.Cmp(k, hi.Key) >= 0 {
			return false
		}
	}
	return true
}

// Range returns the entries inside the bounds in ascending order (a copy).
func (m *Model[K, V]) Range(lo, hi Bnd[K]) []KV[K, V] {
	var out []KV[K, V]
	for _, e := range m.E {
		if m.In(e.K, lo, hi) {
			out = append(out, e)
		}
	}
	return out
}

// SUT is what the monitors drive: tree.Map or tree.Set behind one face.
type SUT[K, V any] interface {
	Put(k K, v V)
	Delete(k K)
	Get(k K) V
	Contains(k K) bool
	Len() int
	First() (K, V)
	Last() (K, V)
	// Iter returns Iterate() when both bounds are unbounded and plainIterate is set, else
	// Range / RangeReverse.
	Iter(lo, hi Bnd[K], reverse bool, plainIterate bool) iterator.Iterator[KV[K, V]]
	// Copy returns the adapter around a *copy of the Map/Set value*.
	Copy() SUT[K, V]
	Shape() (depth, nodes int)
	Gen() int
	Walk() tree.VerifTree[K, V]
	IsSet() bool
	// Raw returns a pointer to the underlying tree.Map / tree.Set value (for reachability scans).
	Raw() any
}

type mapSUT[K, V any] struct{ m tree.Map[K, V] }

// NewMapSUT wraps a tree.Map.
func NewMapSUT[K, V any](m tree.Map[K, V]) SUT[K, V] { return mapSUT[K, V]{m} }

func (s mapSUT[K, V]) Put(k K, v V)               { s.m.Put(k, v) }
func (s mapSUT[K, V]) Delete(k K)                 { s.m.Delete(k) }
func (s mapSUT[K, V]) Get(k K) V                  { return s.m.Get(k) }
func (s mapSUT[K, V]) Contains(k K) bool          { return s.m.Contains(k) }
func (s mapSUT[K, V]) Len() int                   { return s.m.Len() }
func (s mapSUT[K, V]) First() (K, V)              { return s.m.First() }
func (s mapSUT[K, V]) Last() (K, V)               { return s.m.Last() }
func (s mapSUT[K, V]) Shape() (int, int)          { return s.m.VerifShape() }
func (s mapSUT[K, V]) Gen() int                   { return s.m.VerifGen() }
func (s mapSUT[K, V]) IsSet() bool                { return false }
func (s mapSUT[K, V]) Raw() any                   { m := s.m; return &m }
func (s mapSUT[K, V]) Walk() tree.VerifTree[K, V] { return s.m.VerifWalk() }
func (s mapSUT[K, V]) Copy() SUT[K, V] {
	m2 := s.m // a copy of the Map value
	return mapSUT[K, V]{m2}
}
func (s mapSUT[K, V]) Iter(lo, hi Bnd[K], reverse, plain bool) iterator.Iterator[KV[K, V]] {
	var it iterator.Iterator[tree.KVPair[K, V]]
	switch {
	case plain && !reverse && lo.Kind == Unbounded && hi.Kind == Unbounded:
		it = s.m.Iterate()
	case reverse:
		it = s.m.RangeReverse(lo.ToTree(), hi.ToTree())
	default:
		it = s.m.Range(lo.ToTree(), hi.ToTree())
	}
	return iterator.Map(it, func(p tree.KVPair[K, V]) KV[K, V] { return KV[K, V]{p.Key, p.Value} })
}

type setSUT[K any] struct{ s tree.Set[K] }

// NewSetSUT wraps a tree.Set (values are struct{}).
func NewSetSUT[K any](s tree.Set[K]) SUT[K, struct{}] { return setSUT[K]{s} }

func (s setSUT[K]) Put(k K, _ struct{})               { s.s.Add(k) }
func (s setSUT[K]) Delete(k K)                        { s.s.Remove(k) }
func (s setSUT[K]) Get(k K) struct{}                  { return struct{}{} }
func (s setSUT[K]) Contains(k K) bool                 { return s.s.Contains(k) }
func (s setSUT[K]) Len() int                          { return s.s.Len() }
func (s setSUT[K]) First() (K, struct{})              { return s.s.First(), struct{}{} }
func (s setSUT[K]) Last() (K, struct{})               { return s.s.Last(), struct{}{} }
func (s setSUT[K]) Shape() (int, int)                 { return s.s.VerifShape() }
func (s setSUT[K]) Gen() int                          { return s.s.VerifGen() }
func (s setSUT[K]) IsSet() bool                       { return true }
func (s setSUT[K]) Raw() any                          { x := s.s; return &x }
func (s setSUT[K]) Walk() tree.VerifTree[K, struct{}] { return s.s.VerifWalk() }
func (s setSUT[K]) Copy() SUT[K, struct{}] {
	s2 := s.s
	return setSUT[K]{s2}
}
func (s setSUT[K]) Iter(lo, hi Bnd[K], reverse, plain bool) iterator.Iterator[KV[K, struct{}]] {
	var it iterator.Iterator[K]
	switch {
	case plain && !reverse && lo.Kind == Unbounded && hi.Kind == Unbounded:
		it = s.s.Iterate()
	case reverse:
		it = s.s.RangeReverse(lo.ToTree(), hi.ToTree())
	default:
		it = s.s.Range(lo.ToTree(), hi.ToTree())
	}
	return iterator.Map(it, func(k K) KV[K, struct{}] { return KV[K, struct{}]{K: k} })
}

// Config describes one key/value/comparator configuration. Keys are addressed by an integer
// position j (the monitors generate positions; KeyOf turns them into keys, order-preserving
// with respect to Cmp up to equivalence).
type Config[K, V any] struct {
	Name string
	// KeyOf maps a position to a key. Positions may be negative.
	KeyOf func(j int) K
	// Class maps a position to its equivalence class under the order (== j unless the order is
	// coarse); Cmp(KeyOf(a), KeyOf(b)) has the sign of Class(a) - Class(b) (reversed orders: the
	// opposite sign, see Reversed).
	Class    func(j int) int
	Reversed bool
	Cmp      func(a, b K) int
	// New builds an empty collection with this configuration's constructor.
	New func() SUT[K, V]
	// ValOf makes the value with the given id (ids are unique per Put); ValEq compares values.
	ValOf func(id int) V
	ValEq func(a, b V) bool
	// Counter, if non-nil, is incremented by the comparator the collection was built with.
	Counter *int64
	// SetCompareHook installs a function that runs on every call of the counted comparator (only
	// effective for counted configurations).
	SetCompareHook func(func())
	// PerCompare is how many times the counted function is called per key comparison of the
	// tree (1 for a compare function, 2 at most for a less function).
	PerCompare int
}

// CountedCalls returns the comparator call count so far.
func (c *Config[K, V]) CountedCalls() int64 {
	if c.Counter == nil {
		return 0
	}
	return *c.Counter
}
