package tk

import (
	"fmt"

	"github.com/bradenaw/juniper/container/tree"
)

// The structural bounds the property states for the shipped fan-out of 16. They are restated here
// on purpose (not taken from the code): a change of the constants in the code is then visible.
const (
	SpecMaxKeys = 15
	SpecMinKeys = 7
	SpecFanout  = 16
)

// MaxLevels returns the largest number of levels a tree with n >= 1 keys may have:
// 1 + floor(log8((n+1)/2)), i.e. the largest h with 2*8^(h-1) - 1 <= n.
func MaxLevels(n int) int {
	h := 1
	p := 1 // 8^(h-1)
	for 2*p*8-1 <= n {
		p *= 8
		h++
	}
	return h
}

// Tok is a pointer-like token with a unique id (keys and values of the invariant monitor).
type Tok struct{ ID int }

func (t *Tok) String() string {
	if t == nil {
		return "nil"
	}
	return fmt.Sprintf("#%d", t.ID)
}

// WalkView indexes a raw walk.
type WalkView[K, V any] struct {
	T     tree.VerifTree[K, V]
	Index map[any]int // Ptr -> index in T.Nodes (first visit)
	Depth int         // number of levels
	Keys  int         // keys found in slots < N of reachable nodes
}

func NewWalkView[K, V any](t tree.VerifTree[K, V]) *WalkView[K, V] {
	w := &WalkView[K, V]{T: t, Index: make(map[any]int, len(t.Nodes))}
	for i, n := range t.Nodes {
		if n.Revisited {
			continue
		}
		w.Index[n.Ptr] = i
		if n.Depth+1 > w.Depth {
			w.Depth = n.Depth + 1
		}
		if n.N > 0 && n.N <= SpecMaxKeys {
			w.Keys += n.N
		}
	}
	return w
}

// Judge holds what the invariant check needs to know about the configuration.
type Judge[K, V any] struct {
	Cmp     func(a, b K) int
	IsZeroK func(K) bool
	IsZeroV func(V) bool
	// Lookup returns the value the ideal map holds for k.
	Lookup func(k K) (V, bool)
	ValEq  func(a, b V) bool
	// WantLen is the ideal map's length.
	WantLen int
}

// Check judges one raw walk. It returns a list of (signature, description) problems; empty = ok.
func (j *Judge[K, V]) Check(w *WalkView[K, V]) [][2]string {
	var out [][2]string
	bad := func(sig, f string, a ...any) {
		if len(out) < 8 {
			out = append(out, [2]string{sig, fmt.Sprintf(f, a...)})
		}
	}
	t := w.T
	if t.Root == nil {
		bad("nil-root", "root pointer is nil")
		return out
	}
	if t.Size != j.WantLen {
		bad("size", "size field is %d, ideal map holds %d keys", t.Size, j.WantLen)
	}
	leafDepth := -1
	for i, n := range t.Nodes {
		if n.Revisited {
			bad("reachable-twice", "node %d is reachable by two paths (second time as child %d at depth %d)", i, n.IdxInParent, n.Depth)
			continue
		}
		isRoot := n.ReachedFrom == nil
		if n.N < 0 || n.N > SpecMaxKeys {
			bad("node-count-range", "node %d at depth %d has n = %d", i, n.Depth, n.N)
			continue
		}
		if isRoot {
			if n.N == 0 && j.WantLen != 0 {
				bad("empty-root", "root is empty but the collection holds %d keys", j.WantLen)
			}
			if n.ParentField != nil {
				bad("root-parent", "root has a non-nil parent link")
			}
		} else {
			if n.N < SpecMinKeys {
				bad("underfull", "non-root node %d at depth %d (child %d of its parent) holds %d keys (< %d)", i, n.Depth, n.IdxInParent, n.N, SpecMinKeys)
			}
			if n.ParentField != n.ReachedFrom {
				bad("parent-link", "node %d at depth %d: parent link does not point to the node it is a child of", i, n.Depth)
			}
		}
		if n.Leaf {
			if leafDepth == -1 {
				leafDepth = n.Depth
			} else if leafDepth != n.Depth {
				bad("leaf-depth", "leaves at depths %d and %d", leafDepth, n.Depth)
			}
			for c := 0; c < SpecFanout; c++ {
				if n.Children[c] != nil {
					bad("leaf-child", "leaf %d at depth %d has a non-nil child in slot %d", i, n.Depth, c)
					break
				}
			}
		} else {
			for c := 0; c <= n.N; c++ {
				if n.Children[c] == nil {
					bad("nil-child", "internal node %d at depth %d (n=%d) has a nil child in slot %d", i, n.Depth, n.N, c)
				}
			}
			for c := n.N + 1; c < SpecFanout; c++ {
				if n.Children[c] != nil {
					bad("stale-child", "internal node %d at depth %d (n=%d) still references a child in slot %d", i, n.Depth, n.N, c)
				}
			}
		}
		// slots
		for s := 0; s < SpecMaxKeys; s++ {
			if s < n.N {
				k := n.Keys[s]
				if j.IsZeroK(k) {
					bad("zero-key-live", "node %d slot %d < n=%d holds the zero key", i, s, n.N)
					continue
				}
				want, ok := j.Lookup(k)
				if !ok {
					bad("ghost-key", "node %d slot %d holds key %v which the ideal map does not contain", i, s, k)
				} else if !j.ValEq(n.Values[s], want) {
					bad("stale-value", "node %d slot %d: key %v is stored with value %v, ideal map has %v", i, s, k, n.Values[s], want)
				}
			} else {
				if !j.IsZeroK(n.Keys[s]) {
					bad("retained-key", "node %d at depth %d (n=%d): vacated key slot %d still references %v", i, n.Depth, n.N, s, n.Keys[s])
				}
				if !j.IsZeroV(n.Values[s]) {
					bad("retained-value", "node %d at depth %d (n=%d): vacated value slot %d still references %v", i, n.Depth, n.N, s, n.Values[s])
				}
			}
		}
	}
	// In-order traversal: strictly ascending, count.
	count := 0
	var prev K
	havePrev := false
	steps := 0
	var inorder func(p any)
	inorder = func(p any) {
		steps++
		if steps > 4*len(t.Nodes)+16 {
			return
		}
		idx, ok := w.Index[p]
		if !ok {
			return
		}
		n := t.Nodes[idx]
		nn := n.N
		if nn < 0 || nn > SpecMaxKeys {
			return
		}
		for s := 0; s <= nn; s++ {
			if !n.Leaf && n.Children[s] != nil {
				inorder(n.Children[s])
			}
			if s < nn {
				k := n.Keys[s]
				if !j.IsZeroK(k) {
					if havePrev && j.Cmp(prev, k) >= 0 {
						bad("order", "in-order key sequence not strictly ascending: %v then %v", prev, k)
					}
					prev, havePrev = k, true
				}
				count++
			}
		}
	}
	inorder(t.Root)
	if count != j.WantLen {
		bad("key-count", "the tree stores %d keys on search paths, ideal map holds %d (Len reports %d)", count, j.WantLen, t.Size)
	}
	if j.WantLen > 0 {
		if max := MaxLevels(j.WantLen); w.Depth > max {
			bad("too-deep", "tree with %d keys has %d levels, bound is %d", j.WantLen, w.Depth, max)
		}
	}
	return out
}

// Event describes the structural difference between two consecutive walks.
type Event struct {
	Class    string // see Classify
	Depth    int    // depth of the shallowest node that appeared / disappeared / changed its children
	Position string // first / middle / last / root: position of that node among its siblings
	Added    int
	Removed  int
}

func sibPos[K, V any](w *WalkView[K, V], n tree.VerifNode[K, V]) string {
	if n.ReachedFrom == nil {
		return "root"
	}
	pi, ok := w.Index[n.ReachedFrom]
	if !ok {
		return "?"
	}
	p := w.T.Nodes[pi]
	switch n.IdxInParent {
	case 0:
		return "first"
	case p.N:
		return "last"
	}
	return "middle"
}

// Classify diffs two walks (before and after one operation).
//
// Classes: "none" (no structural change: in-place insert / delete / overwrite / miss),
// "split" (nodes appeared), "root-split", "merge" (nodes disappeared), "root-collapse",
// "steal-left" / "steal-right" (a key moved from the left / right sibling through the parent, no
// node appeared or disappeared), with suffix "@internal" when the moving nodes are internal
// (a child changed parents), and combinations joined by "+" for cascades, e.g.
// "merge+steal-left@internal", "split x3+root-split".
func Classify[K, V any](before, after *WalkView[K, V]) Event {
	ev := Event{Class: "none", Depth: -1, Position: ""}
	var added, removed []tree.VerifNode[K, V]
	for p, i := range after.Index {
		if _, ok := before.Index[p]; !ok {
			added = append(added, after.T.Nodes[i])
		}
	}
	for p, i := range before.Index {
		if _, ok := after.Index[p]; !ok {
			removed = append(removed, before.T.Nodes[i])
		}
	}
	ev.Added, ev.Removed = len(added), len(removed)
	rootChanged := before.T.Root != after.T.Root
	var parts []string
	setDepth := func(d int, pos string) {
		if ev.Depth == -1 || d < ev.Depth {
			ev.Depth, ev.Position = d, pos
		}
	}
	if len(added) > 0 {
		nsplit := len(added)
		if rootChanged {
			nsplit--
			parts = append(parts, "root-split")
			setDepth(0, "root")
		}
		if nsplit > 0 {
			if nsplit == 1 {
				parts = append([]string{"split"}, parts...)
			} else {
				parts = append([]string{fmt.Sprintf("split x%d", nsplit)}, parts...)
			}
		}
		for _, n := range added {
			if n.ReachedFrom != nil {
				setDepth(n.Depth, sibPos(after, n))
			}
		}
	}
	if len(removed) > 0 {
		nmerge := len(removed)
		if rootChanged {
			nmerge--
		}
		if nmerge == 1 {
			parts = append(parts, "merge")
		} else if nmerge > 1 {
			parts = append(parts, fmt.Sprintf("merge x%d", nmerge))
		}
		if rootChanged {
			parts = append(parts, "root-collapse")
		}
		for _, n := range removed {
			setDepth(n.Depth, sibPos(before, n))
		}
	}
	// Steals: among nodes present in both walks, a node whose key count went down by one while a
	// sibling's went up (or stayed, after having lost one to the deletion). Detected through the
	// moved key/child: a persisting node whose N decreased although the operation's key was not
	// in it is a donor. Without the operation's key we use the weaker, still sound, signal: two
	// persisting siblings under the same persisting parent where the parent's separator between
	// them changed.
	for p, ai := range after.Index {
		bi, ok := before.Index[p]
		if !ok {
			continue
		}
		an, bn := after.T.Nodes[ai], before.T.Nodes[bi]
		if an.Leaf || bn.Leaf || an.N != bn.N {
			continue
		}
		// same parent node, same number of keys: compare which children it has
		for c := 0; c+1 <= an.N; c++ {
			l, r := an.Children[c], an.Children[c+1]
			if l == nil || r == nil || bn.Children[c] != l || bn.Children[c+1] != r {
				continue
			}
			li, lok := after.Index[l]
			ri, rok := after.Index[r]
			bli, blok := before.Index[l]
			bri, brok := before.Index[r]
			if !lok || !rok || !blok || !brok {
				continue
			}
			dl := after.T.Nodes[li].N - before.T.Nodes[bli].N
			dr := after.T.Nodes[ri].N - before.T.Nodes[bri].N
			internal := ""
			if !after.T.Nodes[li].Leaf {
				internal = "@internal"
			}
			// A rotation moves one key from one sibling to the other through the parent. Together
			// with the deletion that triggered it the donor shows -1 and the receiver 0 (leaf
			// level) or, after a merge below it, the receiver +1-1 = 0 as well.
			oldSep := fmt.Sprint(bn.Keys[c])
			ln, rn := after.T.Nodes[li], after.T.Nodes[ri]
			if dl == -1 && dr == 0 && sepChanged(an, bn, c) {
				if rn.N > 0 && fmt.Sprint(rn.Keys[0]) == oldSep {
					// the old separator moved down into the right node: a rotation
					parts = append(parts, "steal-left"+internal) // right node took from its left sibling
					setDepth(rn.Depth, sibPos(after, rn))
				} else {
					// the separator itself was deleted and replaced by its predecessor
					parts = append(parts, "replace-separator")
					setDepth(an.Depth, sibPos(after, an))
				}
			} else if dr == -1 && dl == 0 && sepChanged(an, bn, c) {
				if ln.N > 0 && fmt.Sprint(ln.Keys[ln.N-1]) == oldSep {
					parts = append(parts, "steal-right"+internal) // left node took from its right sibling
					setDepth(ln.Depth, sibPos(after, ln))
				}
			}
		}
	}
	if len(parts) > 0 {
		ev.Class = ""
		for i, p := range parts {
			if i > 0 {
				ev.Class += "+"
			}
			ev.Class += p
		}
	}
	return ev
}

func sepChanged[K, V any](an, bn tree.VerifNode[K, V], c int) bool {
	// Keys are compared through fmt because K need not be comparable; tokens print their id.
	return fmt.Sprint(an.Keys[c]) != fmt.Sprint(bn.Keys[c])
}
