package tk

import (
	"fmt"
	"math"
	"strconv"
	"strings"

	"github.com/bradenaw/juniper/container/tree"
)

func sign(x int) int {
	switch {
	case x < 0:
		return -1
	case x > 0:
		return 1
	}
	return 0
}

func floorDiv(a, b int) int {
	q := a / b
	if (a%b != 0) && ((a < 0) != (b < 0)) {
		q--
	}
	return q
}

func ident(j int) int { return j }

func intVal(id int) int         { return id + 1 } // never the zero value
func intEq(a, b int) bool       { return a == b }
func strVal(id int) string      { return fmt.Sprintf("v%d", id) }
func strEq(a, b string) bool    { return a == b }
func byteVal(id int) uint8      { return uint8(id%255 + 1) }
func byteEq(a, b uint8) bool    { return a == b }
func unitVal(int) struct{}      { return struct{}{} }
func unitEq(a, b struct{}) bool { return true }

// cprobe is what a counted comparator reports to: a call counter and an optional callback (used by
// monitors to enforce a per-call comparison budget from inside the comparator).
type cprobe struct {
	n    int64
	hook func()
}

func counting2[K any](f func(a, b K) int, c *cprobe) func(a, b K) int {
	if c == nil {
		return f
	}
	return func(a, b K) int {
		c.n++
		if c.hook != nil {
			c.hook()
		}
		return f(a, b)
	}
}
func countingLess[K any](f func(a, b K) bool, c *cprobe) func(a, b K) bool {
	if c == nil {
		return f
	}
	return func(a, b K) bool {
		c.n++
		if c.hook != nil {
			c.hook()
		}
		return f(a, b)
	}
}

func ctr(counted bool) *cprobe {
	if counted {
		return new(cprobe)
	}
	return nil
}

func (c *cprobe) counter() *int64 {
	if c == nil {
		return nil
	}
	return &c.n
}

func (c *cprobe) setHook() func(func()) {
	if c == nil {
		return func(func()) {}
	}
	return func(f func()) { c.hook = f }
}

// IntLessMap: tree.NewMap with the natural less.
func IntLessMap(counted bool) Config[int, int] {
	c := ctr(counted)
	less := countingLess(func(a, b int) bool { return a < b }, c)
	return Config[int, int]{
		Name: "map[int]int/NewMap(<)", KeyOf: ident, Class: ident,
		Cmp:   func(a, b int) int { return sign(a - b) },
		New:   func() SUT[int, int] { return NewMapSUT(tree.NewMap[int, int](less)) },
		ValOf: intVal, ValEq: intEq, Counter: c.counter(), SetCompareHook: c.setHook(), PerCompare: 2,
	}
}

// IntCmpMap: tree.NewMapCmp with a -1/0/1 compare.
func IntCmpMap(counted bool) Config[int, int] {
	c := ctr(counted)
	cmp := counting2(func(a, b int) int { return sign(a - b) }, c)
	return Config[int, int]{
		Name: "map[int]int/NewMapCmp(sign)", KeyOf: ident, Class: ident,
		Cmp:   func(a, b int) int { return sign(a - b) },
		New:   func() SUT[int, int] { return NewMapSUT(tree.NewMapCmp[int, int](cmp)) },
		ValOf: intVal, ValEq: intEq, Counter: c.counter(), SetCompareHook: c.setHook(), PerCompare: 1,
	}
}

// extremeMag is a three-way compare of ints whose results range over everything a compare function
// may return: -1/+1, scaled differences, and the extremes math.MinInt / math.MaxInt (negating
// MinInt gives MinInt again), chosen by the pair of arguments so that the function stays pure.
// magFactor scales key differences (|a-b| < 10^5 in every universe) without overflowing int on
// 32-bit targets.
const magFactor = (strconv.IntSize/32-1)*1000003 + (2-strconv.IntSize/32)*10007 // 1000003 with 64-bit ints, 10007 with 32-bit ints

func extremeMag(a, b int) int {
	if a == b {
		return 0
	}
	k := (a*31 + b*17) % 4
	if k < 0 {
		k = -k
	}
	if a < b {
		switch k {
		case 0:
			return math.MinInt
		case 1:
			return -1
		case 2:
			return math.MinInt + 1
		}
		return (a - b) * magFactor
	}
	switch k {
	case 0:
		return math.MaxInt
	case 1:
		return 1
	}
	return (a - b) * magFactor
}

// IntMagCmpMap: a compare function returning arbitrary magnitudes (a-b scaled).
func IntMagCmpMap(counted bool) Config[int, string] {
	c := ctr(counted)
	cmp := counting2(func(a, b int) int { return extremeMag(a, b) }, c)
	return Config[int, string]{
		Name: "map[int]string/NewMapCmp(a-b magnitudes)", KeyOf: ident, Class: ident,
		Cmp:   func(a, b int) int { return sign(a - b) },
		New:   func() SUT[int, string] { return NewMapSUT(tree.NewMapCmp[int, string](cmp)) },
		ValOf: strVal, ValEq: strEq, Counter: c.counter(), SetCompareHook: c.setHook(), PerCompare: 1,
	}
}

// IntReversedMap: descending order through less.
func IntReversedMap(counted bool) Config[int, int] {
	c := ctr(counted)
	less := countingLess(func(a, b int) bool { return a > b }, c)
	return Config[int, int]{
		Name: "map[int]int/NewMap(>)", KeyOf: ident, Class: ident, Reversed: true,
		Cmp:   func(a, b int) int { return sign(b - a) },
		New:   func() SUT[int, int] { return NewMapSUT(tree.NewMap[int, int](less)) },
		ValOf: intVal, ValEq: intEq, Counter: c.counter(), SetCompareHook: c.setHook(), PerCompare: 2,
	}
}

// IntCoarseCmpMap: keys k and k' are equivalent when floor(k/4) == floor(k'/4).
func IntCoarseCmpMap(counted bool) Config[int, int] {
	c := ctr(counted)
	base := func(a, b int) int { return sign(floorDiv(a, 4) - floorDiv(b, 4)) }
	cmp := counting2(base, c)
	return Config[int, int]{
		Name: "map[int]int/NewMapCmp(k/4 coarse)", KeyOf: ident,
		Class: func(j int) int { return floorDiv(j, 4) },
		Cmp:   base,
		New:   func() SUT[int, int] { return NewMapSUT(tree.NewMapCmp[int, int](cmp)) },
		ValOf: intVal, ValEq: intEq, Counter: c.counter(), SetCompareHook: c.setHook(), PerCompare: 1,
	}
}

// IntCoarseLessMap: the same coarse order through less.
func IntCoarseLessMap(counted bool) Config[int, string] {
	c := ctr(counted)
	base := func(a, b int) int { return sign(floorDiv(a, 3) - floorDiv(b, 3)) }
	less := countingLess(func(a, b int) bool { return floorDiv(a, 3) < floorDiv(b, 3) }, c)
	return Config[int, string]{
		Name: "map[int]string/NewMap(k/3 coarse)", KeyOf: ident,
		Class: func(j int) int { return floorDiv(j, 3) },
		Cmp:   base,
		New:   func() SUT[int, string] { return NewMapSUT(tree.NewMap[int, string](less)) },
		ValOf: strVal, ValEq: strEq, Counter: c.counter(), SetCompareHook: c.setHook(), PerCompare: 2,
	}
}

// Pair is a two-field key.
type Pair struct{ A, B int }

// PairMap: lexicographic order on a struct key.
func PairMap(counted bool) Config[Pair, string] {
	c := ctr(counted)
	base := func(a, b Pair) int {
		if a.A != b.A {
			return sign(a.A - b.A)
		}
		return sign(a.B - b.B)
	}
	less := countingLess(func(a, b Pair) bool { return base(a, b) < 0 }, c)
	return Config[Pair, string]{
		Name:  "map[Pair]string/NewMap(lexicographic)",
		KeyOf: func(j int) Pair { return Pair{floorDiv(j, 7), j - 7*floorDiv(j, 7)} }, Class: ident,
		Cmp:   base,
		New:   func() SUT[Pair, string] { return NewMapSUT(tree.NewMap[Pair, string](less)) },
		ValOf: strVal, ValEq: strEq, Counter: c.counter(), SetCompareHook: c.setHook(), PerCompare: 2,
	}
}

func strKey(j int) string {
	// Order-preserving for all int positions used (|j| < 5e8).
	return fmt.Sprintf("k%010d", j+1_000_000_000)
}

// StringByteMap: string keys, one-byte values (adjacent slots in the node's value array).
func StringByteMap(counted bool) Config[string, uint8] {
	c := ctr(counted)
	cmp := counting2(strings.Compare, c)
	return Config[string, uint8]{
		Name: "map[string]uint8/NewMapCmp(strings.Compare)", KeyOf: strKey, Class: ident,
		Cmp:   strings.Compare,
		New:   func() SUT[string, uint8] { return NewMapSUT(tree.NewMapCmp[string, uint8](cmp)) },
		ValOf: byteVal, ValEq: byteEq, Counter: c.counter(), SetCompareHook: c.setHook(), PerCompare: 1,
	}
}

// IntLessSet: tree.NewSet with natural less.
func IntLessSet(counted bool) Config[int, struct{}] {
	c := ctr(counted)
	less := countingLess(func(a, b int) bool { return a < b }, c)
	return Config[int, struct{}]{
		Name: "set[int]/NewSet(<)", KeyOf: ident, Class: ident,
		Cmp:   func(a, b int) int { return sign(a - b) },
		New:   func() SUT[int, struct{}] { return NewSetSUT(tree.NewSet[int](less)) },
		ValOf: unitVal, ValEq: unitEq, Counter: c.counter(), SetCompareHook: c.setHook(), PerCompare: 2,
	}
}

// IntCmpSet: tree.NewSetCmp with magnitudes, reversed.
func IntCmpSetReversed(counted bool) Config[int, struct{}] {
	c := ctr(counted)
	cmp := counting2(func(a, b int) int { return extremeMag(b, a) }, c)
	return Config[int, struct{}]{
		Name: "set[int]/NewSetCmp(reversed magnitudes)", KeyOf: ident, Class: ident, Reversed: true,
		Cmp:   func(a, b int) int { return sign(b - a) },
		New:   func() SUT[int, struct{}] { return NewSetSUT(tree.NewSetCmp[int](cmp)) },
		ValOf: unitVal, ValEq: unitEq, Counter: c.counter(), SetCompareHook: c.setHook(), PerCompare: 1,
	}
}

// StringCoarseSet: strings compared by their first 10 characters of an 11+ character key: the
// last digit is ignored, so 10 consecutive positions are equivalent.
func StringCoarseSet(counted bool) Config[string, struct{}] {
	c := ctr(counted)
	base := func(a, b string) int { return strings.Compare(a[:len(a)-1], b[:len(b)-1]) }
	less := countingLess(func(a, b string) bool { return base(a, b) < 0 }, c)
	return Config[string, struct{}]{
		Name: "set[string]/NewSet(coarse: last digit ignored)", KeyOf: strKey,
		Class: func(j int) int { return floorDiv(j+1_000_000_000, 10) },
		Cmp:   base,
		New:   func() SUT[string, struct{}] { return NewSetSUT(tree.NewSet[string](less)) },
		ValOf: unitVal, ValEq: unitEq, Counter: c.counter(), SetCompareHook: c.setHook(), PerCompare: 2,
	}
}

// NConfigs is the number of configurations ForConfig dispatches over.
const NConfigs = 13

// Visitor is called with one configuration; the methods exist because Go has no generic closures.
type Visitor interface {
	IntInt(Config[int, int])
	IntString(Config[int, string])
	PairString(Config[Pair, string])
	StringByte(Config[string, uint8])
	IntSet(Config[int, struct{}])
	StringSet(Config[string, struct{}])
}

// ForConfig calls the visitor with configuration i (0 <= i < NConfigs).
func ForConfig(i int, counted bool, v Visitor) {
	switch i {
	case 0:
		v.IntInt(IntLessMap(counted))
	case 1:
		v.IntInt(IntCmpMap(counted))
	case 2:
		v.IntString(IntMagCmpMap(counted))
	case 3:
		v.IntInt(IntReversedMap(counted))
	case 4:
		v.IntInt(IntCoarseCmpMap(counted))
	case 5:
		v.IntString(IntCoarseLessMap(counted))
	case 6:
		v.PairString(PairMap(counted))
	case 7:
		v.StringByte(StringByteMap(counted))
	case 8:
		v.IntSet(IntLessSet(counted))
	case 9:
		v.IntSet(IntCmpSetReversed(counted))
	case 10:
		v.StringSet(StringCoarseSet(counted))
	case 11:
		v.IntInt(TokKeyMap(counted))
	case 12:
		v.IntString(TokKeyLessMap(counted))
	default:
		panic("tk.ForConfig: bad index")
	}
}
