// C01 — tree.Map / tree.Set answer every call exactly like an ideal sorted map.
//
// Oracle: reference-model monitor (tk.Model, a sorted slice searched with the same comparator).
// Every return value of the real collection is compared on the spot. The concurrent clause
// (variant word "conc", built with -race) checks in-place Puts to distinct present keys against
// concurrent reads of other keys: zero race reports, and every Put took effect.
package main

import (
	"fmt"
	"runtime"
	"sync"

	"github.com/bradenaw/juniper/container/tree"
	"github.com/bradenaw/juniper/iterator"

	"verif/tk"
	"verif/vkit"
)

func main() {
	vkit.Main("C01", "exploration", func(r *vkit.Report) {
		r.SetRule("case = one operation history on one (key type, value type, comparator, Map|Set) configuration, " +
			"generated from the seed by one of five generators (uniform small universe; ascending / descending / sawtooth / random fills " +
			"to node-capacity boundaries followed by targeted drains); every return value is compared with a sorted-slice model. " +
			"non-trivial = the history changed the tree's number of levels or nodes at least once AND compared at least one non-empty range; " +
			"distinct = by hash of (configuration, operation sequence). The concurrent clause adds one case per round " +
			"(non-trivial when >= 2 writers and >= 1 reader really overlapped).")
		r.Assume("the comparator given to the tree is a strict weak order (all generated ones are)")
		r.Assume("keys are compared by the order's equivalence: which of several equivalent key representatives is stored is recorded, not judged")
		if r.VariantHas("conc") {
			concurrent(r)
			return
		}
		sequential(r)
	})
}

// ---------------------------------------------------------------------------------------------
// Sequential part

type seqRunner struct {
	c *vkit.Case
}

func (s seqRunner) IntInt(cfg tk.Config[int, int])            { runHistory(s.c, cfg) }
func (s seqRunner) IntString(cfg tk.Config[int, string])      { runHistory(s.c, cfg) }
func (s seqRunner) PairString(cfg tk.Config[tk.Pair, string]) { runHistory(s.c, cfg) }
func (s seqRunner) StringByte(cfg tk.Config[string, uint8])   { runHistory(s.c, cfg) }
func (s seqRunner) IntSet(cfg tk.Config[int, struct{}])       { runHistory(s.c, cfg) }
func (s seqRunner) StringSet(cfg tk.Config[string, struct{}]) { runHistory(s.c, cfg) }

func sequential(r *vkit.Report) {
	n := r.Scale(5000, 36000)
	r.Cases("hist", n, runtime.GOMAXPROCS(0), func(c *vkit.Case) {
		tk.ForConfig(c.Index%tk.NConfigs, false, seqRunner{c})
	})
	if r.Thorough() {
		// A few deep trees (four levels need >= 1023 keys, five >= 8191; three-level cascades).
		r.Cases("deep", 6, 6, func(c *vkit.Case) {
			tk.ForConfig([]int{0, 1, 3, 7, 8, 4}[c.Index%6], false, seqRunner{c})
		})
	}
	r.Floor("histories that changed the tree shape and compared a non-empty range", int64(r.Table("histories", "non-trivial")), int64(n/4))
	for _, k := range []string{"Unb/Unb", "Unb/Inc", "Unb/Exc", "Inc/Unb", "Inc/Inc", "Inc/Exc", "Exc/Unb", "Exc/Inc", "Exc/Exc"} {
		r.Floor("range bound pair "+k+" with a non-empty result", r.Table("range fwd non-empty", k)+r.Table("range rev non-empty", k), 5)
	}
}

var boundariesQuick = []int{15, 16, 17, 31, 127, 128, 129, 255, 256, 257, 1023, 2047, 2048, 2049}
var boundariesThorough = []int{15, 16, 17, 127, 128, 129, 255, 256, 257, 2047, 2048, 2049, 4095, 4096, 4097, 8191, 16384, 32767}

type driver[K, V any] struct {
	c     *vkit.Case
	r     *vkit.Report
	rnd   *vkit.Rand
	cfg   tk.Config[K, V]
	model *tk.Model[K, V]
	suts  []tk.SUT[K, V] // the collection and copies of its value
	// positions currently stored (first representative per class), for choosing operands only
	pos      []int
	posIdx   map[int]int // class -> index in pos
	universe int
	valID    int
	hash     uint64
	nops     int
	ops      []string // first ops, for samples / witnesses
	failed   bool
	// non-triviality
	shapeChanged  bool
	nonEmptyRange bool
	lastDepth     int
	lastNodes     int
	maxDepth      int
}

func (d *driver[K, V]) note(op string, a, b int) {
	d.nops++
	d.hash = d.hash*1099511628211 ^ vkit.Hash64(op) ^ uint64(a)*0x9e3779b97f4a7c15 ^ uint64(b)*0xc2b2ae3d27d4eb4f
	if len(d.ops) < 40 {
		d.ops = append(d.ops, fmt.Sprintf("%s(%d,%d)", op, a, b))
	}
	d.r.Count("ops", op, 1)
}

func (d *driver[K, V]) fail(sig, what string) {
	if d.failed {
		return
	}
	d.failed = true
	d.c.Violation(sig, what, map[string]any{
		"config": d.cfg.Name, "ops_before": d.nops, "first_ops": d.ops, "model_len": d.model.Len(),
	})
}

func (d *driver[K, V]) sut() tk.SUT[K, V] {
	// Mostly the original, sometimes a copy of the Map/Set value.
	if len(d.suts) > 1 && d.rnd.Bool(0.3) {
		return d.suts[1+d.rnd.Intn(len(d.suts)-1)]
	}
	return d.suts[0]
}

func (d *driver[K, V]) trackPut(j int) {
	cl := d.cfg.Class(j)
	if _, ok := d.posIdx[cl]; !ok {
		d.posIdx[cl] = len(d.pos)
		d.pos = append(d.pos, j)
	}
}
func (d *driver[K, V]) trackDelete(j int) {
	cl := d.cfg.Class(j)
	i, ok := d.posIdx[cl]
	if !ok {
		return
	}
	last := len(d.pos) - 1
	d.pos[i] = d.pos[last]
	d.posIdx[d.cfg.Class(d.pos[i])] = i
	d.pos = d.pos[:last]
	delete(d.posIdx, cl)
}

func (d *driver[K, V]) checkLen(after string) {
	d.r.Eval(1)
	if got, want := d.sut().Len(), d.model.Len(); got != want {
		d.fail("len", fmt.Sprintf("%s: Len() = %d after %s, ideal map has %d", d.cfg.Name, got, after, want))
	}
}

func (d *driver[K, V]) shape() {
	if d.model.Len() > 3000 && d.nops%64 != 0 {
		return
	}
	depth, nodes := d.suts[0].Shape()
	if d.lastDepth != 0 {
		if depth != d.lastDepth {
			d.shapeChanged = true
			if depth > d.lastDepth {
				d.r.Count("shape events", "levels+", 1)
			} else {
				d.r.Count("shape events", "levels-", 1)
			}
		}
		if nodes != d.lastNodes {
			d.shapeChanged = true
			if nodes > d.lastNodes {
				d.r.Count("shape events", "nodes+", 1)
			} else {
				d.r.Count("shape events", "nodes-", 1)
			}
		}
	}
	d.lastDepth, d.lastNodes = depth, nodes
	if depth > d.maxDepth {
		d.maxDepth = depth
	}
}

func (d *driver[K, V]) put(j int) {
	k := d.cfg.KeyOf(j)
	d.valID++
	v := d.cfg.ValOf(d.valID)
	d.note("Put", j, d.valID)
	if p := vkit.Try(func() { d.sut().Put(k, v) }); p != nil {
		d.fail("panic", fmt.Sprintf("%s: Put(%v) panicked: %s (%s)", d.cfg.Name, k, p.Msg, p.JuniperFrame()))
		return
	}
	d.model.Put(k, v)
	d.trackPut(j)
	d.checkLen("Put")
	d.shape()
}

func (d *driver[K, V]) del(j int) {
	k := d.cfg.KeyOf(j)
	d.note("Delete", j, 0)
	if p := vkit.Try(func() { d.sut().Delete(k) }); p != nil {
		d.fail("panic", fmt.Sprintf("%s: Delete(%v) panicked: %s (%s)", d.cfg.Name, k, p.Msg, p.JuniperFrame()))
		return
	}
	d.model.Delete(k)
	d.trackDelete(j)
	d.checkLen("Delete")
	d.shape()
}

func (d *driver[K, V]) get(j int) {
	k := d.cfg.KeyOf(j)
	d.note("Get", j, 0)
	want, present := d.model.Get(k)
	s := d.sut()
	d.r.Eval(2)
	var got0 bool
	if p := vkit.Try(func() { got0 = s.Contains(k) }); p != nil {
		d.fail("panic", fmt.Sprintf("%s: Contains(%v) panicked: %s (%s)", d.cfg.Name, k, p.Msg, p.JuniperFrame()))
		return
	}
	if got := got0; got != present {
		d.fail("contains", fmt.Sprintf("%s: Contains(%v) = %v, ideal map says %v", d.cfg.Name, k, got, present))
	}
	if !s.IsSet() {
		got := s.Get(k)
		if !d.cfg.ValEq(got, want) {
			d.fail("get", fmt.Sprintf("%s: Get(%v) = %v, ideal map has %v (present=%v)", d.cfg.Name, k, got, want, present))
		}
	}
}

func (d *driver[K, V]) firstLast() {
	d.note("FirstLast", 0, 0)
	s := d.sut()
	var fk, lk K
	var fv, lv V
	if p := vkit.Try(func() {
		fk, fv = s.First()
		lk, lv = s.Last()
	}); p != nil {
		d.fail("panic", fmt.Sprintf("%s: First/Last panicked: %s (%s)", d.cfg.Name, p.Msg, p.JuniperFrame()))
		return
	}
	d.r.Eval(2)
	if d.model.Len() == 0 {
		var zk K
		var zv V
		// zero values when empty: compare through fmt since K need not be comparable with ==
		if fmt.Sprint(fk) != fmt.Sprint(zk) || !d.cfg.ValEq(fv, zv) || fmt.Sprint(lk) != fmt.Sprint(zk) || !d.cfg.ValEq(lv, zv) {
			d.fail("firstlast-empty", fmt.Sprintf("%s: First/Last on an empty collection returned (%v,%v)/(%v,%v), want zero values", d.cfg.Name, fk, fv, lk, lv))
		}
		return
	}
	wf := d.model.E[0]
	wl := d.model.E[len(d.model.E)-1]
	if d.cfg.Cmp(fk, wf.K) != 0 || !d.cfg.ValEq(fv, wf.V) {
		d.fail("first", fmt.Sprintf("%s: First() = (%v,%v), ideal map has (%v,%v)", d.cfg.Name, fk, fv, wf.K, wf.V))
	}
	if d.cfg.Cmp(lk, wl.K) != 0 || !d.cfg.ValEq(lv, wl.V) {
		d.fail("last", fmt.Sprintf("%s: Last() = (%v,%v), ideal map has (%v,%v)", d.cfg.Name, lk, lv, wl.K, wl.V))
	}
}

// probePos draws a position for a lookup or a bound: an existing key, next to one, a uniform one,
// below the minimum or above the maximum.
func (d *driver[K, V]) probePos() int {
	switch x := d.rnd.Intn(10); {
	case x < 4 && len(d.pos) > 0:
		return vkit.Pick(d.rnd, d.pos)
	case x < 6 && len(d.pos) > 0:
		return vkit.Pick(d.rnd, d.pos) + d.rnd.Range(-3, 3)
	case x < 8:
		return d.rnd.Range(-2, d.universe+2)
	case x == 8:
		return -5 - d.rnd.Intn(3)
	default:
		return d.universe + 5 + d.rnd.Intn(3)
	}
}

func (d *driver[K, V]) rangeProbe(narrow bool) {
	var lo, hi tk.Bnd[K]
	lo.Kind = tk.BoundKind(d.rnd.Intn(3))
	hi.Kind = tk.BoundKind(d.rnd.Intn(3))
	a, b := d.probePos(), d.probePos()
	switch d.rnd.Intn(8) {
	case 0:
		b = a // equal bounds
	case 1:
		// crossed more often than chance gives
		if d.cfg.Cmp(d.cfg.KeyOf(a), d.cfg.KeyOf(b)) < 0 {
			a, b = b, a
		}
	default:
		if d.cfg.Cmp(d.cfg.KeyOf(a), d.cfg.KeyOf(b)) > 0 {
			a, b = b, a
		}
	}
	if narrow && len(d.pos) > 0 {
		// keep the compared range short on big trees: both bounds near one stored key
		a = vkit.Pick(d.rnd, d.pos) + d.rnd.Range(-2, 2)
		b = a + d.rnd.Range(-3, 40)
		if d.cfg.Cmp(d.cfg.KeyOf(a), d.cfg.KeyOf(b)) > 0 && d.rnd.Bool(0.8) {
			a, b = b, a
		}
		if lo.Kind == tk.Unbounded && d.rnd.Bool(0.9) {
			lo.Kind = tk.Included
		}
		if hi.Kind == tk.Unbounded && d.rnd.Bool(0.9) {
			hi.Kind = tk.Excluded
		}
	}
	lo.Key, hi.Key = d.cfg.KeyOf(a), d.cfg.KeyOf(b)
	reverse := d.rnd.Bool(0.5)
	plain := d.rnd.Bool(0.5)
	d.note("Range", a, b)
	want := d.model.Range(lo, hi)
	limit := len(want) + 3
	var got []tk.KV[K, V]
	ended := false
	var it iterator.Iterator[tk.KV[K, V]]
	if p := vkit.Try(func() {
		it = d.sut().Iter(lo, hi, reverse, plain)
		for i := 0; i < limit; i++ {
			kv, ok := it.Next()
			if !ok {
				ended = true
				break
			}
			got = append(got, kv)
		}
	}); p != nil {
		d.fail("panic", fmt.Sprintf("%s: range [%v, %v] reverse=%v panicked: %s (%s)", d.cfg.Name, lo, hi, reverse, p.Msg, p.JuniperFrame()))
		return
	}
	if reverse {
		for i, j := 0, len(want)-1; i < j; i, j = i+1, j-1 {
			want[i], want[j] = want[j], want[i]
		}
	}
	d.r.Eval(1)
	pair := lo.Kind.String() + "/" + hi.Kind.String()
	dir := "fwd"
	if reverse {
		dir = "rev"
	}
	if len(want) > 0 {
		d.nonEmptyRange = true
		d.r.Count("range "+dir+" non-empty", pair, 1)
	} else {
		d.r.Count("range "+dir+" empty", pair, 1)
	}
	ok := len(got) == len(want)
	if ok {
		for i := range want {
			if d.cfg.Cmp(got[i].K, want[i].K) != 0 || !d.cfg.ValEq(got[i].V, want[i].V) {
				ok = false
				break
			}
		}
	}
	if !ok {
		show := func(x []tk.KV[K, V]) string {
			if len(x) > 12 {
				return fmt.Sprintf("%v ... (%d entries)", x[:12], len(x))
			}
			return fmt.Sprint(x)
		}
		d.fail("range", fmt.Sprintf("%s: %s range [%v, %v] yielded %s, ideal map yields %s",
			d.cfg.Name, dir, lo, hi, show(got), show(want)))
		return
	}
	// exhaustion must stick
	if ended {
		for i := 0; i < 2; i++ {
			if kv, more := it.Next(); more {
				d.fail("range-after-end", fmt.Sprintf("%s: iterator yielded %v after reporting exhaustion", d.cfg.Name, kv))
				return
			}
		}
	}
}

func (d *driver[K, V]) maybeCopy() {
	if len(d.suts) < 3 && d.rnd.Bool(0.5) {
		d.suts = append(d.suts, d.suts[0].Copy())
		d.r.Count("ops", "copy-of-value", 1)
	}
}

func (d *driver[K, V]) mixedOp() {
	switch x := d.rnd.Intn(100); {
	case x < 40:
		d.put(d.probePosIn())
	case x < 65:
		if len(d.pos) > 0 && d.rnd.Bool(0.8) {
			d.del(vkit.Pick(d.rnd, d.pos) + d.cfg0())
		} else {
			d.del(d.probePos())
		}
	case x < 78:
		d.get(d.probePos())
	case x < 83:
		d.firstLast()
	default:
		d.rangeProbe(d.model.Len() > 300)
	}
}

// cfg0: mostly the stored representative itself, sometimes an equivalent-or-adjacent position.
func (d *driver[K, V]) cfg0() int {
	if d.rnd.Bool(0.85) {
		return 0
	}
	return d.rnd.Range(-1, 1)
}

func (d *driver[K, V]) probePosIn() int {
	if d.rnd.Bool(0.15) && len(d.pos) > 0 {
		return vkit.Pick(d.rnd, d.pos) + d.cfg0() // overwrite (or an equivalent key)
	}
	return d.rnd.Intn(d.universe)
}

func (d *driver[K, V]) probes(n int) {
	for i := 0; i < n && !d.failed; i++ {
		switch d.rnd.Intn(4) {
		case 0:
			d.get(d.probePos())
		case 1:
			d.firstLast()
		default:
			d.rangeProbe(d.model.Len() > 300)
		}
	}
}

func runHistory[K, V any](c *vkit.Case, cfg tk.Config[K, V]) {
	r := c.R
	d := &driver[K, V]{
		c: c, r: r, rnd: c.Rand, cfg: cfg,
		model:  tk.NewModel[K, V](cfg.Cmp),
		suts:   []tk.SUT[K, V]{cfg.New()},
		posIdx: make(map[int]int),
	}
	if d.rnd.Bool(0.3) {
		d.maybeCopy() // a copy taken while the collection is still empty
	}
	deep := c.Group == "deep"
	gen := d.rnd.Intn(5)
	if deep {
		gen = 1 + c.Index%4
	}
	genName := [...]string{"uniform", "ascending-fill", "descending-fill", "sawtooth-fill", "random-fill"}[gen]
	r.Count("generators", genName, 1)
	d.firstLast() // empty collection

	if gen == 0 {
		d.universe = []int{8, 64, 1024}[d.rnd.Intn(3)]
		n := d.rnd.Range(50, r.Scale(600, 5000))
		for i := 0; i < n && !d.failed; i++ {
			d.mixedOp()
			if i%50 == 7 {
				d.maybeCopy()
			}
		}
	} else {
		bs := boundariesQuick
		if r.Thorough() {
			bs = boundariesThorough
		}
		n := vkit.Pick(d.rnd, bs) + d.rnd.Range(-1, 1)*d.rnd.Intn(2)
		if deep {
			n = []int{150000, 70000, 40000, 200000}[c.Index%4]
		}
		d.universe = n
		var order []int
		switch gen {
		case 1:
			for i := 0; i < n; i++ {
				order = append(order, i)
			}
		case 2:
			for i := n - 1; i >= 0; i-- {
				order = append(order, i)
			}
		case 3:
			for lo, hi := 0, n-1; lo <= hi; lo, hi = lo+1, hi-1 {
				order = append(order, lo)
				if hi != lo {
					order = append(order, hi)
				}
			}
		default:
			order = d.rnd.Perm(n)
		}
		probeEvery := 1 + n/12
		for i, j := range order {
			if d.failed {
				break
			}
			d.put(j)
			if i%probeEvery == probeEvery-1 {
				d.probes(3)
			}
		}
		d.maybeCopy()
		d.probes(6)
		// Targeted drain.
		var drain []int
		kind := d.rnd.Intn(6)
		drainName := [...]string{"ascending", "descending", "middle-out", "every-other", "separators-first", "random"}[kind]
		r.Count("drains", drainName, 1)
		switch kind {
		case 0:
			for i := 0; i < n; i++ {
				drain = append(drain, i)
			}
		case 1:
			for i := n - 1; i >= 0; i-- {
				drain = append(drain, i)
			}
		case 2:
			for a, b := n/2, n/2+1; a >= 0 || b < n; a, b = a-1, b+1 {
				if a >= 0 {
					drain = append(drain, a)
				}
				if b < n {
					drain = append(drain, b)
				}
			}
		case 3:
			for i := 0; i < n; i += 2 {
				drain = append(drain, i)
			}
			for i := 1; i < n; i += 2 {
				drain = append(drain, i)
			}
		case 4:
			if !deep {
				// keys that sit in internal nodes, found through the walk hook
				w := d.suts[0].Walk()
				sepClass := make(map[int]bool)
				for _, nd := range w.Nodes {
					if nd.Leaf || nd.Revisited {
						continue
					}
					for i := 0; i < nd.N && i < len(nd.Keys); i++ {
						// find the position of this key: binary search over positions by Cmp
						lo, hi := 0, n
						for lo < hi {
							mid := (lo + hi) / 2
							cmp := d.cfg.Cmp(d.cfg.KeyOf(mid), nd.Keys[i])
							if d.cfg.Reversed {
								cmp = -cmp
							}
							if cmp < 0 {
								lo = mid + 1
							} else {
								hi = mid
							}
						}
						if lo < n && !sepClass[lo] {
							sepClass[lo] = true
							drain = append(drain, lo)
						}
					}
				}
			}
			for _, j := range d.rnd.Perm(n) {
				drain = append(drain, j)
			}
		default:
			drain = d.rnd.Perm(n)
		}
		stopAt := len(drain)
		if d.rnd.Bool(0.3) {
			stopAt = d.rnd.Intn(len(drain) + 1) // partial drain, then mixed ops
		}
		for i, j := range drain[:stopAt] {
			if d.failed {
				break
			}
			d.del(j)
			if i%probeEvery == probeEvery-1 {
				d.probes(2)
			}
			if d.rnd.Bool(0.02) {
				d.put(d.rnd.Intn(n)) // re-insert during the drain
			}
		}
		d.probes(4)
		tail := d.rnd.Range(0, 200)
		for i := 0; i < tail && !d.failed; i++ {
			d.mixedOp()
		}
	}
	d.firstLast()
	// Final full comparison through every handle.
	for _, s := range d.suts {
		if d.failed {
			break
		}
		if d.model.Len() <= 5000 {
			i := 0
			if p := vkit.Try(func() {
				it := s.Iter(tk.Bnd[K]{}, tk.Bnd[K]{}, false, true)
				for {
					kv, ok := it.Next()
					if !ok {
						break
					}
					if i >= d.model.Len() || d.cfg.Cmp(kv.K, d.model.E[i].K) != 0 || !d.cfg.ValEq(kv.V, d.model.E[i].V) {
						d.fail("final-iterate", fmt.Sprintf("%s: final Iterate() item %d = %v differs from the ideal map", cfg.Name, i, kv))
						break
					}
					i++
				}
			}); p != nil {
				d.fail("panic", fmt.Sprintf("%s: final Iterate() panicked after %d items: %s (%s)", cfg.Name, i, p.Msg, p.JuniperFrame()))
			}
			d.r.Eval(1)
			if !d.failed && i != d.model.Len() {
				d.fail("final-iterate", fmt.Sprintf("%s: final Iterate() yielded %d items, ideal map has %d", cfg.Name, i, d.model.Len()))
			}
		}
	}
	r.Max("tree", "levels", d.maxDepth)
	r.Count("configs", cfg.Name, 1)
	r.Count("histories", "total", 1)
	if d.shapeChanged && d.nonEmptyRange {
		r.Count("histories", "non-trivial", 1)
		r.Distinct(fmt.Sprintf("%s|%x|%d", cfg.Name, d.hash, d.nops))
	}
	if r.WantSample() && d.nops > 20 {
		r.Sample(map[string]any{"config": cfg.Name, "generator": genName, "ops": d.nops, "first_ops(op(position,valueid))": d.ops})
	}
}

// ---------------------------------------------------------------------------------------------
// Concurrent clause

func concurrent(r *vkit.Report) {
	rounds := r.Scale(40, 600)
	r.Cases("conc", rounds, 1, func(c *vkit.Case) {
		rnd := c.Rand
		size := []int{16, 200, 5000}[c.Index%3]
		var m tree.Map[int, int]
		if c.Index%2 == 0 {
			m = tree.NewMap[int, int](func(a, b int) bool { return a < b })
		} else {
			m = tree.NewMapCmp[int, int](func(a, b int) int { return a - b })
		}
		for _, k := range rnd.Perm(size) {
			m.Put(k, -1-k)
		}
		writers := rnd.Range(2, 8)
		readers := rnd.Range(1, 4)
		puts := r.Scale(1500, 6000)
		// key k belongs to the readers if k%3 == 0, else to writer (k/3*2 + k%3 - 1) % writers
		owner := func(k int) int {
			if k%3 == 0 {
				return -1
			}
			return (k/3*2 + k%3 - 1) % writers
		}
		wkeys := make([][]int, writers)
		var rkeys []int
		for k := 0; k < size; k++ {
			if o := owner(k); o < 0 {
				rkeys = append(rkeys, k)
			} else {
				wkeys[o] = append(wkeys[o], k)
			}
		}
		last := make([]map[int]int, writers)
		start := make(chan struct{})
		var wg sync.WaitGroup
		var active vkit.Gauge
		var badRead sync.Map
		for w := 0; w < writers; w++ {
			w := w
			last[w] = make(map[int]int)
			wr := rnd.Split()
			pert := vkit.NewPerturber(rnd.Split(), 257, 0.05)
			copyOfValue := m // writers go through a copy of the Map value half of the time
			wg.Add(1)
			go func() {
				defer wg.Done()
				<-start
				active.Enter()
				defer active.Exit()
				if len(wkeys[w]) == 0 {
					return
				}
				for i := 0; i < puts; i++ {
					k := wkeys[w][wr.Intn(len(wkeys[w]))]
					v := (w+1)<<24 | i
					if i%2 == 0 {
						m.Put(k, v)
					} else {
						copyOfValue.Put(k, v)
					}
					last[w][k] = v
					pert.Do()
				}
			}()
		}
		for rd := 0; rd < readers; rd++ {
			rr := rnd.Split()
			pert := vkit.NewPerturber(rnd.Split(), 263, 0.05)
			wg.Add(1)
			go func() {
				defer wg.Done()
				<-start
				active.Enter()
				defer active.Exit()
				for i := 0; i < puts; i++ {
					k := rkeys[rr.Intn(len(rkeys))]
					if i%3 == 0 {
						if !m.Contains(k) {
							badRead.Store(k, "Contains=false")
						}
					} else if v := m.Get(k); v != -1-k {
						badRead.Store(k, fmt.Sprintf("Get=%d", v))
					}
					pert.Do()
				}
			}()
		}
		close(start)
		wg.Wait()
		r.Eval(1)
		r.Count("concurrent", "rounds", 1)
		r.Count("concurrent", "puts", writers*puts)
		r.Count("concurrent", "reads", readers*puts)
		r.Max("concurrent", "goroutines overlapping", int(active.Max()))
		if active.Max() >= 3 {
			r.Distinct(fmt.Sprintf("conc|%d|%d|%d|%d", c.Index, size, writers, readers))
		}
		// All Puts took effect, nothing else changed.
		bad := ""
		badRead.Range(func(k, v any) bool {
			bad = fmt.Sprintf("reader saw key %v: %v during concurrent Puts to other keys", k, v)
			return false
		})
		if bad == "" && m.Len() != size {
			bad = fmt.Sprintf("Len() = %d after concurrent in-place Puts, want %d", m.Len(), size)
		}
		if bad == "" {
			for k := 0; k < size; k++ {
				want := -1 - k
				if o := owner(k); o >= 0 {
					if v, ok := last[o][k]; ok {
						want = v
					}
				}
				r.Eval(1)
				if got := m.Get(k); got != want {
					bad = fmt.Sprintf("after the writers joined, Get(%d) = %d, want the last value put %d", k, got, want)
					break
				}
			}
		}
		if bad != "" {
			c.Violation("concurrent-put", bad, map[string]any{"size": size, "writers": writers, "readers": readers})
		}
		if r.WantSample() {
			r.Sample(map[string]any{"concurrent_round": c.Index, "prefilled_keys": size, "writers": writers, "readers": readers, "puts_per_writer": puts})
		}
	})
	r.Floor("concurrent rounds with >= 3 goroutines overlapping", int64(r.Table("max:concurrent", "goroutines overlapping")), 3)
}
