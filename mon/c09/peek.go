package main

import (
	"context"
	"fmt"
	"strings"

	"github.com/bradenaw/juniper/stream"

	"verif/vkit"
)

// Direct use of the Peekable API (the only interface in package stream that offers more than
// Next/Close): p := stream.WithPeek(src); every call pattern over {Peek, Next} of length <= 6, also
// with one of the calls carrying an already finished context, for input lengths 0..4 and every
// fault (fatal source error at each position, transient source error at each source call). The
// consumer does NOT stop at End or at an error (polling after End and retrying after an error are
// legal); after the pattern it calls Close once. Oracle as everywhere: the source is closed exactly
// once at the return of Close, never sees Next after Close, no Next || Close overlap.

type peekPattern struct {
	ops  string // 'P' Peek, 'N' Next
	dead int    // index of the call made with a finished context, -1 none
}

func (p peekPattern) String() string {
	var b strings.Builder
	for i := 0; i < len(p.ops); i++ {
		if i > 0 {
			b.WriteByte(' ')
		}
		if p.ops[i] == 'P' {
			b.WriteString("Peek")
		} else {
			b.WriteString("Next")
		}
		if i == p.dead {
			b.WriteString("(dead ctx)")
		}
	}
	return b.String()
}

func peekPatterns(maxLen int) []peekPattern {
	var out []peekPattern
	for l := 0; l <= maxLen; l++ {
		for bits := 0; bits < 1<<l; bits++ {
			ops := make([]byte, l)
			for i := range ops {
				ops[i] = "PN"[bits>>i&1]
			}
			out = append(out, peekPattern{ops: string(ops), dead: -1})
			for d := 0; d < l; d++ {
				out = append(out, peekPattern{ops: string(ops), dead: d})
			}
		}
	}
	return out
}

func peekAPI(r *vkit.Report, workers int) {
	pats := peekPatterns(6)
	maxN := r.Scale(4, 5)
	type pc struct {
		n int
		f fault
	}
	var list []pc
	for n := 0; n <= maxN; n++ {
		list = append(list, pc{n, fault{Kind: fNone}})
		for p := 0; p <= n; p++ {
			list = append(list, pc{n, fault{Kind: fSrc, P: p}})
		}
		for t := 0; t < 6; t++ {
			list = append(list, pc{n, fault{Kind: fTransient, P: t}})
		}
	}
	// one case = (n, fault); inside, every pattern
	r.Cases("peek-api", len(list), workers, func(c *vkit.Case) {
		t := list[c.Index]
		for pi, pat := range pats {
			s := newScen(false, c.Rand)
			src := s.one(t.n, t.f)
			if t.f.Kind == fTransient {
				src.TransientAt = map[int]bool{t.f.P: true}
			}
			pk := stream.WithPeek[int](src)
			var o outcome
			sawEnd, pastEnd, sawErr := false, 0, false
			var trace []string
			o.Panic = vkit.Try(func() {
				for i := 0; i < len(pat.ops); i++ {
					ctx := context.Background()
					if i == pat.dead {
						ctx = deadCtx(i % 2)
					}
					if sawEnd {
						pastEnd++
					}
					var err error
					if pat.ops[i] == 'P' {
						_, err = pk.Peek(ctx)
					} else {
						_, err = pk.Next(ctx)
					}
					switch {
					case err == nil:
						o.Outputs++
						trace = append(trace, "ok")
					case err == stream.End:
						sawEnd = true
						trace = append(trace, "End")
					default:
						sawErr = true
						trace = append(trace, err.Error())
					}
				}
				o.CloseCall = s.clock.Tick()
				pk.Close()
				o.CloseRet = s.clock.Tick()
			})
			o.Items = o.Outputs
			switch {
			case pastEnd > 0:
				o.StopClass = "api-calls-past-end"
			case sawEnd:
				o.StopClass = "api-end"
			case sawErr:
				o.StopClass = "api-error"
			case len(pat.ops) == 0:
				o.StopClass = "never"
			default:
				o.StopClass = "api-mid"
			}
			o.LastErr = strings.Join(trace, ",")
			fcl := t.f.class(t.n)
			if pat.dead >= 0 {
				fcl += "+dead-ctx-call"
			}
			m := meta{Owner: "WithPeek[api: " + pat.String() + "]", Family: "WithPeek (Peekable API driven directly)", N: t.n,
				Fault: t.f.String(), fclass: fcl, Stop: pi, f: t.f}
			r.Count("peekable api", "scenarios", 1)
			r.Count("peekable api", "calls made after End had been returned", pastEnd)
			if pat.dead >= 0 {
				r.Count("peekable api", "scenarios with a call under a finished context", 1)
			}
			x := ran{s: s, o: o, v: s.judge(false), m: m}
			if x.v != nil {
				x.v.What = fmt.Sprintf("calls [%s] returned [%s], then Close: %s", pat.String(), o.LastErr, x.v.What)
			}
			if record(c, x) {
				return
			}
		}
	})
	if !r.Replaying() {
		r.Floor("direct Peekable API scenarios", r.Table("peekable api", "scenarios"), int64(len(list)*len(pats)))
		r.Floor("direct Peekable API calls made after End", r.Table("peekable api", "calls made after End had been returned"), 100)
	}
}
