package main

import (
	"context"
	"errors"
	"fmt"
	"sort"
	"strings"
	"sync/atomic"
	"time"

	"github.com/bradenaw/juniper/stream"

	"verif/vkit"
)

var (
	errSrc = errors.New("verif: injected source error")
	errCb  = errors.New("verif: injected callback error")
)

// ---------------------------------------------------------------------------------------------
// Faults

type fkind int

const (
	fNone  fkind = iota
	fSrc         // the source fails instead of handing out its P-th item (global position, 0..n)
	fSrc2        // the secondary source (Flatten's outer stream) fails instead of handing out its P-th item
	fCb          // the callback of stage Stage fails when it is invoked with item value P
	fBlock       // goroutine-backed only: sources never end (block until their context is done)
	// fCtxCtor: the context given at construction (parallel.MapStream) is already over:
	// P == 0 cancelled, P == 1 deadline in the past.
	fCtxCtor
	// fCtxCall: the context the consumer passes to Next is already over from its P-th Next call on
	// (reducers: the context of the reducer call itself); Stage == 0 cancelled, 1 deadline in the past.
	fCtxCall
	// fTransient (direct Peekable API group only): the source's P-th Next call (counted over its
	// life) fails with vkit.ErrTransient without consuming anything; later calls succeed.
	fTransient
)

var deadCancelled, deadExpired = func() (context.Context, context.Context) {
	a, ca := context.WithCancel(context.Background())
	ca()
	b, cb := context.WithDeadline(context.Background(), time.Now().Add(-time.Hour))
	cb() // already expired: Err() stays DeadlineExceeded
	return a, b
}()

func deadCtx(kind int) context.Context {
	if kind == 1 {
		return deadExpired
	}
	return deadCancelled
}

// ctorCtx is the context handed to owners that take one at construction.
func ctorCtx(f fault) context.Context {
	if f.Kind == fCtxCtor {
		return deadCtx(f.P)
	}
	return context.Background()
}

func ctxWord(kind int) string {
	if kind == 1 {
		return "expired"
	}
	return "cancelled"
}

type fault struct {
	Kind  fkind
	P     int
	Stage int
}

func (f fault) String() string {
	switch f.Kind {
	case fSrc:
		return fmt.Sprintf("source-error@%d", f.P)
	case fSrc2:
		return fmt.Sprintf("outer-source-error@%d", f.P)
	case fCb:
		return fmt.Sprintf("callback-error@item%d(stage%d)", f.P, f.Stage)
	case fBlock:
		return "sources-block-at-end"
	case fTransient:
		return fmt.Sprintf("transient-source-error@call%d", f.P)
	case fCtxCtor:
		return "construction-ctx-already-" + ctxWord(f.P)
	case fCtxCall:
		return fmt.Sprintf("consumer-ctx-already-%s-from-call%d", ctxWord(f.Stage), f.P)
	}
	return "none"
}

func (f fault) class(n int) string {
	switch f.Kind {
	case fSrc:
		switch {
		case f.P == 0:
			return "src-first"
		case f.P >= n:
			return "src-at-end"
		}
		return "src-middle"
	case fSrc2:
		return "outer-src"
	case fCb:
		return "callback"
	case fBlock:
		return "block-at-end"
	case fTransient:
		return "transient"
	case fCtxCtor:
		return "ctx-at-construction"
	case fCtxCall:
		return "ctx-at-call"
	}
	return "none"
}

// ---------------------------------------------------------------------------------------------
// Scenario: the set of probes handed to the library in one owner run

type pstats struct {
	Calls, Yielded, Closes, NextAfterClose, Overlap, FirstCloseTick, LastNextTick int64
}

type tracked struct {
	name string
	// obtained == nil: the stream was given to the library directly (must be closed once).
	// Otherwise the flag is set at the moment the library obtains the stream.
	obtained *atomic.Bool
	misuse   func(bool) string
	stats    func() pstats
}

func (t *tracked) due() bool { return t.obtained == nil || t.obtained.Load() }

type scen struct {
	conc    bool
	clock   vkit.Clock
	probes  []*tracked // filled at build time only (on the case goroutine)
	rnd     *vkit.Rand // build time only
	profile int
	ids     []int // item ids handed out by the sources created so far
	cbDelay []time.Duration
	cbCalls atomic.Int64
	primary *vkit.ProbeStream[int]
	// cleanup: streams the library never obtained stay the caller's: closed by the harness after the
	// outermost Close / the reducer has returned.
	cleanup []func()
}

func newScen(conc bool, rnd *vkit.Rand) *scen {
	s := &scen{conc: conc, rnd: rnd}
	if conc {
		s.profile = rnd.Intn(5)
		s.cbDelay = make([]time.Duration, 16)
		mode := rnd.Intn(3)
		for i := range s.cbDelay {
			switch mode {
			case 1:
				if rnd.Bool(0.5) {
					s.cbDelay[i] = time.Duration(rnd.Range(10, 200)) * time.Microsecond
				}
			case 2:
				if rnd.Bool(0.2) {
					s.cbDelay[i] = time.Duration(rnd.Range(300, 1200)) * time.Microsecond
				}
			}
		}
	}
	return s
}

// delays draws the latency table of one probe (goroutine-backed scenarios only). <0 = Gosched.
func (s *scen) delays(n int) []time.Duration {
	tab := make([]time.Duration, n)
	prof := s.profile
	if s.rnd.Bool(0.4) {
		prof = s.rnd.Intn(5)
	}
	switch prof {
	case 0: // as fast as possible
	case 1:
		for i := range tab {
			tab[i] = -1
		}
	case 2:
		for i := range tab {
			if s.rnd.Bool(0.5) {
				tab[i] = time.Duration(s.rnd.Range(5, 150)) * time.Microsecond
			}
		}
	case 3:
		for i := range tab {
			tab[i] = time.Duration(s.rnd.Range(100, 400)) * time.Microsecond
		}
	case 4:
		tab[s.rnd.Intn(n)] = time.Duration(s.rnd.Range(800, 2500)) * time.Microsecond
	}
	return tab
}

func addProbe[T any](s *scen, name string, items []T, fatalAt int, block bool, obtained *atomic.Bool) *vkit.ProbeStream[T] {
	p := vkit.NewProbeStream(name, items)
	p.Clock = &s.clock
	if fatalAt >= 0 {
		p.FatalAt, p.Fatal = fatalAt, errSrc
	}
	p.HonourCtx = true
	if s.conc {
		p.BlockAtEnd = block
		tab := s.delays(len(items) + 1)
		p.Delay = func(i int) time.Duration {
			if i >= 0 && i < len(tab) {
				return tab[i]
			}
			return 0
		}
	}
	s.probes = append(s.probes, &tracked{
		name:     name,
		obtained: obtained,
		misuse:   p.Misuse,
		stats: func() pstats {
			return pstats{
				Calls: p.Calls.Load(), Yielded: p.Yielded.Load(), Closes: p.Closes.Load(),
				NextAfterClose: p.NextAfterClose.Load(), Overlap: p.Overlap.Load(),
				FirstCloseTick: p.FirstCloseTick.Load(), LastNextTick: p.LastNextTick.Load(),
			}
		},
	})
	return p
}

// src makes an int source with items lo..lo+n-1.
func (s *scen) src(name string, lo, n, fatalAt int, block bool) *vkit.ProbeStream[int] {
	items := make([]int, n)
	for i := range items {
		items[i] = lo + i
		s.ids = append(s.ids, lo+i)
	}
	p := addProbe(s, name, items, fatalAt, block, nil)
	if s.primary == nil {
		s.primary = p
	}
	return p
}

// srcItems makes an int source over the given items.
func (s *scen) srcItems(name string, items []int, fatalAt int, block bool) *vkit.ProbeStream[int] {
	s.ids = append(s.ids, items...)
	p := addProbe(s, name, items, fatalAt, block, nil)
	if s.primary == nil {
		s.primary = p
	}
	return p
}

// one is the single source of n items 0..n-1 carrying the fault.
func (s *scen) one(n int, f fault) *vkit.ProbeStream[int] {
	fa := -1
	if f.Kind == fSrc {
		fa = f.P
	}
	return s.src("src", 0, n, fa, f.Kind == fBlock)
}

// partFaults maps the global fault position onto the part that would hand out that item.
func partFaults(ls []int, f fault) []int {
	out := make([]int, len(ls))
	for i := range out {
		out[i] = -1
	}
	if f.Kind != fSrc || len(ls) == 0 {
		return out
	}
	start := 0
	for j, l := range ls {
		if f.P < start+l || j == len(ls)-1 {
			fa := f.P - start
			if fa > l {
				fa = l
			}
			if fa < 0 {
				fa = 0
			}
			out[j] = fa
			return out
		}
		start += l
	}
	return out
}

// parts makes len(ls) sources whose items are 0..n-1 in order.
func (s *scen) parts(prefix string, ls []int, f fault) []*vkit.ProbeStream[int] {
	fa := partFaults(ls, f)
	out := make([]*vkit.ProbeStream[int], len(ls))
	start := 0
	for j, l := range ls {
		out[j] = s.src(fmt.Sprintf("%s%d", prefix, j), start, l, fa[j], f.Kind == fBlock)
		start += l
	}
	return out
}

func asStreams(ps []*vkit.ProbeStream[int]) []stream.Stream[int] {
	out := make([]stream.Stream[int], len(ps))
	for i, p := range ps {
		out[i] = p
	}
	return out
}

func shape(name string, n int) []int {
	switch name {
	case "none":
		return nil
	case "one":
		return []int{n}
	case "even2":
		return []int{n / 2, n - n/2}
	case "even3":
		a := n / 3
		b := (n - a) / 2
		return []int{a, b, n - a - b}
	case "0n0":
		return []int{0, n, 0}
	case "n00":
		return []int{n, 0, 0}
	case "ones":
		out := make([]int, n)
		for i := range out {
			out[i] = 1
		}
		return out
	}
	panic("unknown shape " + name)
}

func (s *scen) cbSleep(x int) {
	s.cbCalls.Add(1)
	if s.conc {
		if x < 0 {
			x = -x
		}
		if d := s.cbDelay[x%len(s.cbDelay)]; d > 0 {
			time.Sleep(d)
		}
	}
}

func (s *scen) cbInt(idx int, f fault) func(context.Context, int) (int, error) {
	fails := f.Kind == fCb && f.Stage == idx
	return func(_ context.Context, x int) (int, error) {
		s.cbSleep(x)
		if fails && x == f.P {
			return 0, errCb
		}
		return x, nil
	}
}

func (s *scen) cbBool(idx int, f fault, pred func(int) bool) func(context.Context, int) (bool, error) {
	fails := f.Kind == fCb && f.Stage == idx
	return func(_ context.Context, x int) (bool, error) {
		s.cbSleep(x)
		if fails && x == f.P {
			return false, errCb
		}
		return pred(x), nil
	}
}

// ---------------------------------------------------------------------------------------------
// The owner as the consumer sees it

type built struct {
	// next pulls one output: (weight in source items, nil) / stream.End / another error.
	next func(ctx context.Context) (int, error)
	// abandon, if set, runs just before close (e.g. a last Peek).
	abandon func(ctx context.Context)
	close   func()
	// reduce is set instead for reducers: they close by themselves.
	reduce func(ctx context.Context) error
}

func wrap[T any](st stream.Stream[T], weight func(T) int) built {
	return built{
		next: func(ctx context.Context) (int, error) {
			x, err := st.Next(ctx)
			if err != nil {
				return 0, err
			}
			return weight(x), nil
		},
		close: st.Close,
	}
}

func wOne(int) int     { return 1 }
func wLen(b []int) int { return len(b) }

func reducer(f func(ctx context.Context) error) built { return built{reduce: f} }

// wrapRuns consumes a stream of runs the documented way: each inner run is drained (and closed)
// before the outer stream is advanced; one output = one item of a run. On abandon the current run
// is closed, then the outer stream.
func wrapRuns(st stream.Stream[stream.Stream[int]]) built {
	var cur stream.Stream[int]
	return built{
		next: func(ctx context.Context) (int, error) {
			for {
				if cur == nil {
					r, err := st.Next(ctx)
					if err != nil {
						return 0, err
					}
					cur = r
				}
				_, err := cur.Next(ctx)
				if err == stream.End {
					cur.Close()
					cur = nil
					continue
				}
				if err != nil {
					return 0, err
				}
				return 1, nil
			}
		},
		close: func() {
			if cur != nil {
				cur.Close()
				cur = nil
			}
			st.Close()
		},
	}
}

// ---------------------------------------------------------------------------------------------
// Running one scenario and judging it

type outcome struct {
	Outputs   int
	Items     int
	StopClass string // never | mid | end | error | ctx | reducer-ok | reducer-error | reducer-ctx
	LastErr   string
	Panic     *vkit.Panic
	// ticks around the consumer's Close (or the reducer call)
	CloseCall, CloseRet int64
	// state of the primary source when the consumer called Close
	PrimaryPosAtClose int
	PrimaryEndedAt    bool
}

// drive plays the consumer: pull until `stop` outputs (items when byItems) have been received,
// or until End / an error when stop < 0; then Close exactly once. Reducers are simply called.
// From its deadFrom-th Next call on (deadFrom >= 0) the consumer passes the already finished context
// dead instead of ctx.
func drive(s *scen, b built, ctx context.Context, dead context.Context, deadFrom int, stop int, byItems bool, pert *vkit.Perturber) outcome {
	var o outcome
	var last error
	o.Panic = vkit.Try(func() {
		if b.reduce != nil {
			pert.Do()
			o.CloseCall = s.clock.Tick()
			if deadFrom >= 0 {
				ctx = dead
			}
			last = b.reduce(ctx)
			o.CloseRet = s.clock.Tick()
			for _, f := range s.cleanup {
				f()
			}
			return
		}
		count := 0
		for call := 0; stop < 0 || count < stop; call++ {
			pert.Do()
			if deadFrom >= 0 && call >= deadFrom {
				ctx = dead
			}
			w, err := b.next(ctx)
			if err != nil {
				last = err
				break
			}
			o.Outputs++
			o.Items += w
			if byItems {
				count = o.Items
			} else {
				count = o.Outputs
			}
		}
		pert.Do()
		if b.abandon != nil {
			b.abandon(ctx)
		}
		if s.primary != nil {
			o.PrimaryPosAtClose = s.primary.Pos()
			o.PrimaryEndedAt = s.primary.EndsReported.Load() > 0
		}
		o.CloseCall = s.clock.Tick()
		b.close()
		o.CloseRet = s.clock.Tick()
		for _, f := range s.cleanup {
			f()
		}
	})
	pre := ""
	if b.reduce != nil {
		pre = "reducer-"
	}
	switch {
	case last == nil && b.reduce != nil:
		o.StopClass = "reducer-ok"
	case last == nil && o.Outputs == 0:
		o.StopClass = "never"
	case last == nil:
		o.StopClass = "mid"
	case last == stream.End:
		o.StopClass = "end"
	case errors.Is(last, context.DeadlineExceeded) || errors.Is(last, context.Canceled):
		o.StopClass = pre + "ctx"
	default:
		o.StopClass = pre + "error"
	}
	if last != nil {
		o.LastErr = last.Error()
	}
	return o
}

type verdict struct {
	Sig  string
	What string
}

// judge reads the probes' own counters. It is called at the moment the reducer / the outermost
// Close has returned (late == false), and once more after all repetitions of a case (late == true:
// nothing may have been closed again or pulled from in the meantime).
func (s *scen) judge(late bool) *verdict {
	var sigs []string
	var whats []string
	for _, t := range s.probes {
		due := t.due()
		m := t.misuse(due)
		if m == "" {
			continue
		}
		st := t.stats()
		sig := ""
		switch {
		case due && st.Closes == 0:
			sig = "not-closed"
		case st.Closes > 1:
			sig = "closed-twice"
		case st.NextAfterClose > 0:
			sig = "next-after-close"
		case st.Overlap > 0:
			sig = "next-close-overlap"
		default:
			sig = "misuse"
		}
		if !due {
			sig = "unobtained-" + sig
		}
		sigs = append(sigs, sig)
		whats = append(whats, m)
	}
	if len(sigs) == 0 {
		return nil
	}
	sort.Strings(sigs)
	sig := sigs[0]
	if late {
		sig = "late-" + sig
	}
	return &verdict{Sig: sig, What: strings.Join(whats, "; ")}
}

func (s *scen) probeDump() []map[string]any {
	var out []map[string]any
	for _, t := range s.probes {
		st := t.stats()
		out = append(out, map[string]any{
			"stream": t.name, "due": t.due(), "next_calls": st.Calls, "yielded": st.Yielded, "closes": st.Closes,
			"next_after_close": st.NextAfterClose, "overlap": st.Overlap,
			"first_close_tick": st.FirstCloseTick, "last_next_tick": st.LastNextTick,
		})
	}
	return out
}

// timingSig describes when each probe saw its last Next and its first Close relative to the
// consumer's Close call and return (schedule diversity evidence for goroutine-backed owners).
func (s *scen) timingSig(o outcome) (primary string, all string) {
	var b strings.Builder
	for i, t := range s.probes {
		st := t.stats()
		n := "n-" // never pulled
		if st.LastNextTick > 0 {
			switch {
			case st.LastNextTick < o.CloseCall:
				n = "n<"
			case st.LastNextTick < o.CloseRet:
				n = "n="
			default:
				n = "n>"
			}
		}
		c := "c-"
		if st.FirstCloseTick > 0 {
			switch {
			case st.FirstCloseTick < o.CloseCall:
				c = "c<"
			case st.FirstCloseTick < o.CloseRet:
				c = "c="
			default:
				c = "c>"
			}
		}
		if i == 0 {
			primary = n + c
		}
		b.WriteString(n + c + " ")
	}
	return primary, b.String()
}

func (s *scen) totals() (calls, closes, yielded int64, nprobes int) {
	for _, t := range s.probes {
		st := t.stats()
		calls += st.Calls
		closes += st.Closes
		yielded += st.Yielded
	}
	return calls, closes, yielded, len(s.probes)
}
