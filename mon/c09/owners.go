package main

import (
	"context"
	"fmt"
	"math/rand"
	"sync/atomic"
	"time"

	"github.com/bradenaw/juniper/parallel"
	"github.com/bradenaw/juniper/stream"
	"github.com/bradenaw/juniper/xmath/xrand"

	"verif/vkit"
)

// ownerDef is one function that takes ownership of streams, in one configuration.
type ownerDef struct {
	Name   string
	Family string // the library function (for tables)
	Conc   bool   // goroutine-backed
	Cb     bool   // has an error-returning callback
	Red    bool   // a reducer (closes by itself; no stop points)
	Ctor   bool   // takes a context at construction
	Triv   bool   // can never consume an item (zero streams, First 0): exercised, but never non-trivial
	Src2   func(n int) int
	Ns     []int // nil: 0..maxN
	Build  func(s *scen, n int, f fault) built
}

func same2(a, b int) bool { return a/2 == b/2 }

const batchWait = 300 * time.Microsecond

// flattenBuild builds stream.Flatten over an outer probe that hands out inner probes.
func flattenBuild(shp string) func(s *scen, n int, f fault) built {
	return func(s *scen, n int, f fault) built {
		ls := shape(shp, n)
		fa := partFaults(ls, f)
		obt := make([]*atomic.Bool, len(ls))
		items := make([]stream.Stream[int], len(ls))
		q := -1
		if f.Kind == fSrc2 {
			q = f.P
		}
		// The outer probe is created first so that it is the scenario's first probe.
		outer := addProbe[stream.Stream[int]](s, "outer", items, q, false, nil)
		start := 0
		for j, l := range ls {
			obt[j] = new(atomic.Bool)
			its := make([]int, l)
			for i := range its {
				its[i] = start + i
			}
			start += l
			p := addProbe(s, fmt.Sprintf("inner%d", j), its, fa[j], false, obt[j])
			if s.primary == nil && l > 0 {
				s.primary = p
			}
			items[j] = p
		}
		outer.OnDeliver = func(i int) { obt[i].Store(true) }
		return wrap(stream.Flatten[int](outer), wOne)
	}
}

func owners() []ownerDef {
	var out []ownerDef
	add := func(o ownerDef) { out = append(out, o) }

	// --- caller-goroutine combinators -------------------------------------------------------
	for _, sz := range []int{1, 2, 3} {
		sz := sz
		add(ownerDef{Name: fmt.Sprintf("Chunk[%d]", sz), Family: "Chunk", Build: func(s *scen, n int, f fault) built {
			return wrap(stream.Chunk[int](s.one(n, f), sz), wLen)
		}})
	}
	add(ownerDef{Name: "Compact", Family: "Compact", Build: func(s *scen, n int, f fault) built {
		items := make([]int, n)
		for i := range items {
			items[i] = i / 2
		}
		fa := -1
		if f.Kind == fSrc {
			fa = f.P
		}
		return wrap(stream.Compact[int](s.srcItems("src", items, fa, false)), wOne)
	}})
	add(ownerDef{Name: "CompactFunc", Family: "CompactFunc", Build: func(s *scen, n int, f fault) built {
		return wrap(stream.CompactFunc[int](s.one(n, f), same2), wOne)
	}})
	add(ownerDef{Name: "Filter", Family: "Filter", Cb: true, Build: func(s *scen, n int, f fault) built {
		return wrap(stream.Filter[int](s.one(n, f), s.cbBool(0, f, func(x int) bool { return x%2 == 1 })), wOne)
	}})
	for _, k := range []string{"0", "2", "n", "n+1"} {
		k := k
		add(ownerDef{Triv: k == "0", Name: "First[" + k + "]", Family: "First", Build: func(s *scen, n int, f fault) built {
			kk := map[string]int{"0": 0, "2": 2, "n": n, "n+1": n + 1}[k]
			return wrap(stream.First[int](s.one(n, f), kk), wOne)
		}})
	}
	for _, shp := range []string{"even3", "0n0", "ones", "one"} {
		shp := shp
		add(ownerDef{Name: "Flatten[" + shp + "]", Family: "Flatten",
			Src2: func(n int) int { return len(shape(shp, n)) }, Build: flattenBuild(shp)})
	}
	add(ownerDef{Triv: true, Name: "Flatten[none]", Family: "Flatten", Ns: []int{0},
		Src2: func(n int) int { return 0 }, Build: flattenBuild("none")})
	add(ownerDef{Name: "FlattenSlices", Family: "FlattenSlices", Build: func(s *scen, n int, f fault) built {
		// n slices of lengths 0,1,2,0,1,2...
		items := make([][]int, n)
		id := 0
		for i := range items {
			items[i] = make([]int, i%3)
			for j := range items[i] {
				items[i][j] = id
				id++
			}
		}
		fa := -1
		if f.Kind == fSrc {
			fa = f.P
		}
		return wrap(stream.FlattenSlices[int](addProbe(s, "src", items, fa, false, nil)), wOne)
	}})
	for _, shp := range []string{"even3", "0n0", "n00", "one"} {
		shp := shp
		add(ownerDef{Name: "Join[" + shp + "]", Family: "Join", Build: func(s *scen, n int, f fault) built {
			return wrap(stream.Join[int](asStreams(s.parts("arg", shape(shp, n), f))...), wOne)
		}})
	}
	add(ownerDef{Triv: true, Name: "Join[none]", Family: "Join", Ns: []int{0}, Build: func(s *scen, n int, f fault) built {
		return wrap(stream.Join[int](), wOne)
	}})
	add(ownerDef{Name: "Map", Family: "Map", Cb: true, Build: func(s *scen, n int, f fault) built {
		return wrap(stream.Map[int, int](s.one(n, f), s.cbInt(0, f)), wOne)
	}})
	add(ownerDef{Name: "Runs", Family: "Runs", Build: func(s *scen, n int, f fault) built {
		return wrapRuns(stream.Runs[int](s.one(n, f), same2))
	}})
	add(ownerDef{Name: "While", Family: "While", Cb: true, Build: func(s *scen, n int, f fault) built {
		return wrap(stream.While[int](s.one(n, f), s.cbBool(0, f, func(x int) bool { return x < 3 })), wOne)
	}})
	add(ownerDef{Name: "WithPeek[next]", Family: "WithPeek", Build: func(s *scen, n int, f fault) built {
		return wrap[int](stream.WithPeek[int](s.one(n, f)), wOne)
	}})
	add(ownerDef{Name: "WithPeek[peek+next]", Family: "WithPeek", Build: func(s *scen, n int, f fault) built {
		pk := stream.WithPeek[int](s.one(n, f))
		return built{
			next: func(ctx context.Context) (int, error) {
				if _, err := pk.Peek(ctx); err != nil {
					return 0, err
				}
				_, err := pk.Next(ctx)
				if err != nil {
					return 0, err
				}
				return 1, nil
			},
			close: pk.Close,
		}
	}})
	add(ownerDef{Name: "WithPeek[peek-then-close]", Family: "WithPeek", Build: func(s *scen, n int, f fault) built {
		pk := stream.WithPeek[int](s.one(n, f))
		b := wrap[int](pk, wOne)
		b.abandon = func(ctx context.Context) { _, _ = pk.Peek(ctx) }
		return b
	}})

	// --- reducers ---------------------------------------------------------------------------
	add(ownerDef{Red: true, Name: "Collect", Family: "Collect", Build: func(s *scen, n int, f fault) built {
		src := s.one(n, f)
		return reducer(func(ctx context.Context) error { _, err := stream.Collect[int](ctx, src); return err })
	}})
	for _, k := range []int{0, 2} {
		k := k
		add(ownerDef{Red: true, Name: fmt.Sprintf("Last[%d]", k), Family: "Last", Build: func(s *scen, n int, f fault) built {
			src := s.one(n, f)
			return reducer(func(ctx context.Context) error { _, err := stream.Last[int](ctx, src, k); return err })
		}})
	}
	add(ownerDef{Red: true, Name: "One", Family: "One", Build: func(s *scen, n int, f fault) built {
		src := s.one(n, f)
		return reducer(func(ctx context.Context) error { _, err := stream.One[int](ctx, src); return err })
	}})
	add(ownerDef{Red: true, Name: "Reduce", Family: "Reduce", Cb: true, Build: func(s *scen, n int, f fault) built {
		src := s.one(n, f)
		cb := s.cbInt(0, f)
		return reducer(func(ctx context.Context) error {
			_, err := stream.Reduce[int, int](ctx, src, 0, func(acc, x int) (int, error) {
				y, err := cb(ctx, x)
				return acc + y, err
			})
			return err
		})
	}})
	for _, k := range []int{1, 3} {
		k := k
		add(ownerDef{Red: true, Name: fmt.Sprintf("xrand.SampleStream[%d]", k), Family: "xrand.SampleStream", Build: func(s *scen, n int, f fault) built {
			src := s.one(n, f)
			return reducer(func(ctx context.Context) error { _, err := xrand.SampleStream[int](ctx, src, k); return err })
		}})
	}
	add(ownerDef{Red: true, Name: "xrand.RSampleStream[2]", Family: "xrand.RSampleStream", Build: func(s *scen, n int, f fault) built {
		src := s.one(n, f)
		rr := rand.New(rand.NewSource(int64(s.rnd.Uint64() >> 1)))
		return reducer(func(ctx context.Context) error { _, err := xrand.RSampleStream[int](ctx, rr, src, 2); return err })
	}})

	// --- goroutine-backed owners ------------------------------------------------------------
	for _, sz := range []int{1, 2, 3} {
		sz := sz
		add(ownerDef{Name: fmt.Sprintf("Batch[%d]", sz), Family: "Batch", Conc: true, Build: func(s *scen, n int, f fault) built {
			return wrap(stream.Batch[int](s.one(n, f), batchWait, sz), wLen)
		}})
	}
	add(ownerDef{Name: "BatchFunc[sum>=3]", Family: "BatchFunc", Conc: true, Build: func(s *scen, n int, f fault) built {
		return wrap(stream.BatchFunc[int](s.one(n, f), batchWait, func(b []int) bool {
			t := 0
			for _, x := range b {
				t += x
			}
			return t >= 3
		}), wLen)
	}})
	for _, shp := range []string{"one", "even2", "even3", "0n0"} {
		shp := shp
		add(ownerDef{Name: "Merge[" + shp + "]", Family: "Merge", Conc: true, Build: func(s *scen, n int, f fault) built {
			return wrap(stream.Merge[int](asStreams(s.parts("in", shape(shp, n), f))...), wOne)
		}})
	}
	add(ownerDef{Triv: true, Name: "Merge[none]", Family: "Merge", Conc: true, Ns: []int{0}, Build: func(s *scen, n int, f fault) built {
		return wrap(stream.Merge[int](), wOne)
	}})
	for _, pb := range [][2]int{{1, 0}, {3, 2}, {2, 8}} {
		pb := pb
		add(ownerDef{Name: fmt.Sprintf("parallel.MapStream[par%d,buf%d]", pb[0], pb[1]), Family: "parallel.MapStream", Conc: true, Cb: true, Ctor: true,
			Build: func(s *scen, n int, f fault) built {
				return wrap(parallel.MapStream[int, int](ctorCtx(f), s.one(n, f), pb[0], pb[1], s.cbInt(0, f)), wOne)
			}})
	}
	// goroutine-backed streams handed to another owner (later Join arguments that may never be reached;
	// Merge inputs that are themselves background streams)
	add(ownerDef{Name: "Join[src,Merge[a,x],FlattenSlices(Batch[2])]", Family: "tree-pipeline", Conc: true, Build: func(s *scen, n int, f fault) built {
		ps := s.parts("leaf", shape("even3", n), f)
		x := s.src("leaf.x", 300, 2, -1, f.Kind == fBlock)
		return wrap(stream.Join[int](ps[0], stream.Merge[int](ps[1], x), stream.FlattenSlices(stream.Batch[int](ps[2], batchWait, 2))), wOne)
	}})
	add(ownerDef{Name: "Merge[FlattenSlices(Batch[2]),parallel.MapStream,src]", Family: "tree-pipeline", Conc: true, Cb: true, Ctor: true, Build: func(s *scen, n int, f fault) built {
		ps := s.parts("leaf", shape("even3", n), f)
		return wrap(stream.Merge[int](
			stream.FlattenSlices(stream.Batch[int](ps[0], batchWait, 2)),
			parallel.MapStream[int, int](ctorCtx(f), ps[1], 2, 2, s.cbInt(0, f)),
			ps[2]), wOne)
	}})
	// Inner streams that DEPEND on the outer stream's source: each run handed out by Runs is wrapped
	// and flattened again. Closing mid-run is only correct if Flatten closes the current inner stream
	// (which stops and waits for its background reader) before the outer one.
	add(ownerDef{Name: "Flatten(Map(Runs(src),run->run))", Family: "dependent-inner", Build: func(s *scen, n int, f fault) built {
		return wrap(stream.Flatten(stream.Map(stream.Runs[int](s.one(n, f), same2),
			func(_ context.Context, run stream.Stream[int]) (stream.Stream[int], error) { return run, nil })), wOne)
	}})
	for _, sz := range []int{1, 3} {
		sz := sz
		add(ownerDef{Name: fmt.Sprintf("Flatten(Map(Runs(src),run->Batch[%d](run)))", sz), Family: "dependent-inner", Conc: true, Ns: []int{0, 1, 2, 3, 5}, Build: func(s *scen, n int, f fault) built {
			return wrap(stream.Flatten(stream.Map(stream.Runs[int](s.one(n, f), same2),
				func(_ context.Context, run stream.Stream[int]) (stream.Stream[[]int], error) {
					return stream.Batch(run, batchWait, sz), nil
				})), wLen)
		}})
	}
	add(ownerDef{Name: "Flatten(Map(Runs(src),run->parallel.MapStream(run)))", Family: "dependent-inner", Conc: true, Ns: []int{0, 1, 2, 3, 5}, Cb: true, Build: func(s *scen, n int, f fault) built {
		cb := s.cbInt(0, f)
		return wrap(stream.Flatten(stream.Map(stream.Runs[int](s.one(n, f), same2),
			func(_ context.Context, run stream.Stream[int]) (stream.Stream[int], error) {
				return parallel.MapStream(context.Background(), run, 2, 2, cb), nil
			})), wOne)
	}})
	add(ownerDef{Name: "Flatten(Map(Runs(src),run->Merge[run]))", Family: "dependent-inner", Conc: true, Ns: []int{0, 1, 2, 3, 5}, Build: func(s *scen, n int, f fault) built {
		return wrap(stream.Flatten(stream.Map(stream.Runs[int](s.one(n, f), same2),
			func(_ context.Context, run stream.Stream[int]) (stream.Stream[int], error) {
				return stream.Merge(run), nil
			})), wOne)
	}})
	add(ownerDef{Name: "Flatten(Map(Runs(src),run->pipe-forwarder(run)))", Family: "dependent-inner", Conc: true, Ns: []int{0, 1, 2, 3, 5}, Build: func(s *scen, n int, f fault) built {
		return wrap(stream.Flatten(stream.Map(stream.Runs[int](s.one(n, f), same2),
			func(_ context.Context, run stream.Stream[int]) (stream.Stream[int], error) {
				return forward(run), nil
			})), wOne)
	}})
	// reducers that own a goroutine-backed stream (the reducer's return is the moment of truth)
	add(ownerDef{Red: true, Name: "Collect(Batch[2])", Family: "Batch", Conc: true, Build: func(s *scen, n int, f fault) built {
		st := stream.Batch[int](s.one(n, f), batchWait, 2)
		return reducer(func(ctx context.Context) error { _, err := stream.Collect(ctx, st); return err })
	}})
	add(ownerDef{Red: true, Name: "One(Merge[even2])", Family: "Merge", Conc: true, Build: func(s *scen, n int, f fault) built {
		st := stream.Merge[int](asStreams(s.parts("in", shape("even2", n), f))...)
		return reducer(func(ctx context.Context) error { _, err := stream.One(ctx, st); return err })
	}})
	add(ownerDef{Red: true, Name: "Collect(Merge[even3])", Family: "Merge", Conc: true, Build: func(s *scen, n int, f fault) built {
		st := stream.Merge[int](asStreams(s.parts("in", shape("even3", n), f))...)
		return reducer(func(ctx context.Context) error { _, err := stream.Collect(ctx, st); return err })
	}})
	add(ownerDef{Red: true, Ctor: true, Name: "Last[1](parallel.MapStream[par2,buf2])", Family: "parallel.MapStream", Conc: true, Cb: true, Build: func(s *scen, n int, f fault) built {
		st := parallel.MapStream[int, int](ctorCtx(f), s.one(n, f), 2, 2, s.cbInt(0, f))
		return reducer(func(ctx context.Context) error { _, err := stream.Last(ctx, st, 1); return err })
	}})
	add(ownerDef{Red: true, Name: "xrand.SampleStream[2](Merge[even2])", Family: "Merge", Conc: true, Build: func(s *scen, n int, f fault) built {
		st := stream.Merge[int](asStreams(s.parts("in", shape("even2", n), f))...)
		return reducer(func(ctx context.Context) error { _, err := xrand.SampleStream(ctx, st, 2); return err })
	}})
	return out
}

// ---------------------------------------------------------------------------------------------
// Pipelines: source -> 2..3 int->int stages -> terminal

type stageDef struct {
	Name  string
	Conc  bool
	Cb    bool
	Ctor  bool
	Apply func(s *scen, in stream.Stream[int], idx int, f fault) stream.Stream[int]
}

func stages() []stageDef {
	return []stageDef{
		{Name: "Map", Cb: true, Apply: func(s *scen, in stream.Stream[int], idx int, f fault) stream.Stream[int] {
			return stream.Map(in, s.cbInt(idx, f))
		}},
		{Name: "Filter", Cb: true, Apply: func(s *scen, in stream.Stream[int], idx int, f fault) stream.Stream[int] {
			return stream.Filter(in, s.cbBool(idx, f, func(x int) bool { return x%3 != 1 }))
		}},
		{Name: "First[2]", Apply: func(s *scen, in stream.Stream[int], idx int, f fault) stream.Stream[int] {
			return stream.First(in, 2)
		}},
		{Name: "First[100]", Apply: func(s *scen, in stream.Stream[int], idx int, f fault) stream.Stream[int] {
			return stream.First(in, 100)
		}},
		{Name: "While", Cb: true, Apply: func(s *scen, in stream.Stream[int], idx int, f fault) stream.Stream[int] {
			return stream.While(in, s.cbBool(idx, f, func(x int) bool { return x%100 < 4 }))
		}},
		{Name: "Compact", Apply: func(s *scen, in stream.Stream[int], idx int, f fault) stream.Stream[int] {
			return stream.Compact(in)
		}},
		{Name: "CompactFunc", Apply: func(s *scen, in stream.Stream[int], idx int, f fault) stream.Stream[int] {
			return stream.CompactFunc(in, same2)
		}},
		{Name: "WithPeek", Apply: func(s *scen, in stream.Stream[int], idx int, f fault) stream.Stream[int] {
			return stream.WithPeek(in)
		}},
		{Name: "FlattenSlices(Chunk[2])", Apply: func(s *scen, in stream.Stream[int], idx int, f fault) stream.Stream[int] {
			return stream.FlattenSlices(stream.Chunk(in, 2))
		}},
		{Name: "Join[x,in,y]", Apply: func(s *scen, in stream.Stream[int], idx int, f fault) stream.Stream[int] {
			a := s.src(fmt.Sprintf("join%d.before", idx), 100+idx*20, 1, -1, false)
			b := s.src(fmt.Sprintf("join%d.after", idx), 110+idx*20, 2, -1, false)
			return stream.Join[int](a, in, b)
		}},
		{Name: "Join[in,empty]", Apply: func(s *scen, in stream.Stream[int], idx int, f fault) stream.Stream[int] {
			b := s.src(fmt.Sprintf("join%d.empty", idx), 0, 0, -1, false)
			return stream.Join[int](in, b)
		}},
		{Name: "Flatten(Runs)", Apply: func(s *scen, in stream.Stream[int], idx int, f fault) stream.Stream[int] {
			return stream.Flatten(stream.Runs(in, same2))
		}},
		{Name: "Flatten(Map->inner)", Cb: true, Apply: func(s *scen, in stream.Stream[int], idx int, f fault) stream.Stream[int] {
			// Every item x becomes an inner probe; the probes are made now (build time) for every
			// item id that can arrive, and count as obtained once the callback hands them out.
			inner := make(map[int]stream.Stream[int])
			obt := make(map[int]*atomic.Bool)
			for _, x := range s.ids {
				if _, dup := inner[x]; dup {
					continue
				}
				var its []int
				switch x % 3 {
				case 1:
					its = []int{x}
				case 2:
					its = []int{x, x + 50}
				}
				o := new(atomic.Bool)
				obt[x] = o
				inner[x] = addProbe(s, fmt.Sprintf("flat%d.inner(%d)", idx, x), its, -1, false, o)
			}
			fails := f.Kind == fCb && f.Stage == idx
			return stream.Flatten(stream.Map(in, func(_ context.Context, x int) (stream.Stream[int], error) {
				s.cbSleep(x)
				if fails && x == f.P {
					return nil, errCb
				}
				p, ok := inner[x]
				if !ok {
					// an id made by a transforming stage upstream (x+50): hand out an empty stream
					return stream.Empty[int](), nil
				}
				if !obt[x].CompareAndSwap(false, true) {
					// never hand the same stream to the library twice
					return stream.Empty[int](), nil
				}
				return p, nil
			}))
		}},
		{Name: "Join[in,y]", Apply: func(s *scen, in stream.Stream[int], idx int, f fault) stream.Stream[int] {
			b := s.src(fmt.Sprintf("join%d.after", idx), 130+idx*20, 2, -1, false)
			return stream.Join[int](in, b)
		}},
		{Name: "Flatten[outer:[in,y]]", Apply: func(s *scen, in stream.Stream[int], idx int, f fault) stream.Stream[int] {
			// `in` is handed out by a Flatten source. If Flatten never pulls it, it still belongs to
			// the caller, who closes it after the outermost Close.
			inObt, yObt := new(atomic.Bool), new(atomic.Bool)
			items := make([]stream.Stream[int], 2)
			outer := addProbe[stream.Stream[int]](s, fmt.Sprintf("flat%d.outer", idx), items, -1, false, nil)
			its := []int{140 + idx*20, 141 + idx*20}
			s.ids = append(s.ids, its...)
			items[0] = in
			items[1] = addProbe(s, fmt.Sprintf("flat%d.y", idx), its, -1, false, yObt)
			outer.OnDeliver = func(i int) {
				if i == 0 {
					inObt.Store(true)
				} else {
					yObt.Store(true)
				}
			}
			s.cleanup = append(s.cleanup, func() {
				if !inObt.Load() {
					in.Close()
				}
			})
			return stream.Flatten[int](outer)
		}},
		// goroutine-backed stages
		{Name: "FlattenSlices(Batch[2])", Conc: true, Apply: func(s *scen, in stream.Stream[int], idx int, f fault) stream.Stream[int] {
			return stream.FlattenSlices(stream.Batch(in, batchWait, 2))
		}},
		{Name: "Merge[in,x]", Conc: true, Apply: func(s *scen, in stream.Stream[int], idx int, f fault) stream.Stream[int] {
			x := s.src(fmt.Sprintf("merge%d.other", idx), 300+idx*20, 2, -1, f.Kind == fBlock)
			return stream.Merge[int](in, x)
		}},
		{Name: "Merge[in]", Conc: true, Apply: func(s *scen, in stream.Stream[int], idx int, f fault) stream.Stream[int] {
			return stream.Merge[int](in)
		}},
		{Name: "parallel.MapStream", Conc: true, Cb: true, Ctor: true, Apply: func(s *scen, in stream.Stream[int], idx int, f fault) stream.Stream[int] {
			return parallel.MapStream(ctorCtx(f), in, 2, 2, s.cbInt(idx, f))
		}},
	}
}

var terminals = []string{"consume", "consume", "consume", "Collect", "Last[2]", "One", "Reduce", "xrand.RSampleStream[2]"}

type pspec struct {
	Stages []int // indices into stages()
	Term   string
	N      int
	Fault  fault
	// Hand on after use: after stage Pre-1 has been built (Pre == 0: never) the harness itself reads
	// PreK outputs from it (PreK < 0: until End / an error) and only then passes it on.
	Pre  int
	PreK int
}

func (p pspec) name(st []stageDef) string {
	s := "src"
	for n, i := range p.Stages {
		s += " | " + st[i].Name
		if p.Pre == n+1 {
			if p.PreK < 0 {
				s += " | <read to End, then hand on>"
			} else {
				s += fmt.Sprintf(" | <read %d, then hand on>", p.PreK)
			}
		}
	}
	return s + " | " + p.Term
}

func drawPipeline(rnd *vkit.Rand, st []stageDef, conc bool, maxN int) (ps pspec) {
	k := rnd.Range(2, 3)
	for {
		ps.Stages = ps.Stages[:0]
		hasConc := false
		for i := 0; i < k; i++ {
			j := rnd.Intn(len(st))
			if st[j].Conc && !conc {
				i--
				continue
			}
			hasConc = hasConc || st[j].Conc
			ps.Stages = append(ps.Stages, j)
		}
		if hasConc == conc {
			break
		}
	}
	ps.Term = vkit.Pick(rnd, terminals)
	ps.N = rnd.Intn(maxN + 1)
	pre, preK := 0, 0
	if rnd.Bool(0.3) {
		pre, preK = rnd.Range(1, k-1), rnd.Range(-1, ps.N+2)
	}
	defer func() {
		// never pre-read from sources that park at their end (the harness would wait for ever)
		if ps.Fault.Kind != fBlock && preK != 0 {
			ps.Pre, ps.PreK = pre, preK
		}
	}()
	var cbStages []int
	for i, j := range ps.Stages {
		if st[j].Cb {
			cbStages = append(cbStages, i)
		}
	}
	if ps.Term == "Reduce" {
		cbStages = append(cbStages, len(ps.Stages))
	}
	hasCtor := false
	for _, j := range ps.Stages {
		hasCtor = hasCtor || st[j].Ctor
	}
	x := rnd.Intn(12)
	switch {
	case x == 10 || x == 11 && !hasCtor:
		ps.Fault = fault{Kind: fCtxCall, P: rnd.Intn(ps.N + 1), Stage: rnd.Intn(2)}
	case x == 11:
		ps.Fault = fault{Kind: fCtxCtor, P: rnd.Intn(2)}
	case x < 3:
	case x < 7:
		ps.Fault = fault{Kind: fSrc, P: rnd.Intn(ps.N + 1)}
	case x < 9 && len(cbStages) > 0 && ps.N > 0:
		ps.Fault = fault{Kind: fCb, P: rnd.Intn(ps.N), Stage: vkit.Pick(rnd, cbStages)}
	case conc:
		ps.Fault = fault{Kind: fBlock}
	default:
		ps.Fault = fault{Kind: fSrc, P: rnd.Intn(ps.N + 1)}
	}
	return ps
}

func buildPipeline(s *scen, st []stageDef, ps pspec) built {
	var cur stream.Stream[int] = s.one(ps.N, ps.Fault)
	for i, j := range ps.Stages {
		cur = st[j].Apply(s, cur, i, ps.Fault)
		if ps.Pre == i+1 {
			for k := 0; ps.PreK < 0 || k < ps.PreK; k++ {
				if _, err := cur.Next(context.Background()); err != nil {
					break
				}
			}
		}
	}
	final := cur
	switch ps.Term {
	case "consume":
		return wrap(final, wOne)
	case "Collect":
		return reducer(func(ctx context.Context) error { _, err := stream.Collect(ctx, final); return err })
	case "Last[2]":
		return reducer(func(ctx context.Context) error { _, err := stream.Last(ctx, final, 2); return err })
	case "One":
		return reducer(func(ctx context.Context) error { _, err := stream.One(ctx, final); return err })
	case "Reduce":
		cb := s.cbInt(len(ps.Stages), ps.Fault)
		return reducer(func(ctx context.Context) error {
			_, err := stream.Reduce(ctx, final, 0, func(acc, x int) (int, error) {
				y, err := cb(ctx, x)
				return acc + y, err
			})
			return err
		})
	case "xrand.RSampleStream[2]":
		rr := rand.New(rand.NewSource(int64(s.rnd.Uint64() >> 1)))
		return reducer(func(ctx context.Context) error { _, err := xrand.RSampleStream(ctx, rr, final, 2); return err })
	}
	panic("unknown terminal " + ps.Term)
}

// forward is a user-written combinator: a goroutine copies `in` into a stream.Pipe; Close stops the
// goroutine, waits for it, and the goroutine closes `in` (the same discipline as the library's own
// background owners).
type forwarder struct {
	recv   stream.Stream[int]
	cancel context.CancelFunc
	done   chan struct{}
}

func forward(in stream.Stream[int]) stream.Stream[int] {
	sender, recv := stream.Pipe[int](0)
	ctx, cancel := context.WithCancel(context.Background())
	f := &forwarder{recv: recv, cancel: cancel, done: make(chan struct{})}
	go func() {
		defer close(f.done)
		defer in.Close()
		for {
			x, err := in.Next(ctx)
			if err == stream.End {
				sender.Close(nil)
				return
			} else if err != nil {
				sender.Close(err)
				return
			}
			if sender.Send(ctx, x) != nil {
				sender.Close(nil)
				return
			}
		}
	}()
	return f
}

func (f *forwarder) Next(ctx context.Context) (int, error) { return f.recv.Next(ctx) }
func (f *forwarder) Close() {
	f.recv.Close()
	f.cancel()
	<-f.done
}
