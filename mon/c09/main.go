// C09 — every stream handed to the library is closed exactly once and never used after.
//
// Every stream the library is given (sources, Join arguments, Merge inputs, the stream under
// WithPeek / Runs / ...) or obtains on the way (inner streams handed out by a Flatten source) is a
// vkit.ProbeStream. The oracle reads the probes' own counters AT the moment the owning reducer
// returns / the outermost returned stream's Close returns, with no grace period:
//
//	Closes == 1 (for every stream given or obtained), NextAfterClose == 0, Overlap == 0.
//
// Variant "seq": owners that run in the caller's goroutine, enumerated over
// owner x input length x fault x consumer stop point, plus seeded pipelines of 2-3 owners.
// Variant word "conc" (built with -race): the goroutine-backed owners (stream.Batch/BatchFunc,
// stream.Merge, parallel.MapStream) and pipelines containing them, each configuration repeated
// with seeded latency tables in the probes and a seeded Perturber in the consumer, so that Close
// arrives before / while / after the background work.
package main

import (
	"context"
	"fmt"
	"runtime"
	"strings"
	"sync"
	"time"

	"verif/vkit"
)

func main() {
	vkit.Main("C09", "fault_enumeration", func(r *vkit.Report) {
		r.SetRule("evaluation = one owner scenario: (owner or pipeline, input length, fault, consumer stop point[, repetition with its own latency/perturbation tables]) " +
			"executed against the real library with every stream a ProbeStream, judged from the probes' counters at the moment the reducer / the outermost Close returned. " +
			"non-trivial = the library consumed at least one item from the probes; distinct = by (owner or pipeline, stop class {never, mid, end, error, ctx, reducer-ok, reducer-error, reducer-ctx}, " +
			"fault class {none, src-first, src-middle, src-at-end, outer-src, callback, block-at-end, ctx-at-construction (parallel.MapStream built with an already cancelled / expired context), " +
			"ctx-at-call (the reducer call's context, or the consumer's per-call context from its j-th Next on, already cancelled / expired)}).")
		r.Assume("the consumer calls Close exactly once on the outermost returned stream and does not call Next afterwards (reducers close by themselves)")
		r.Assume("stream.Runs is used as documented: each inner run is drained (or the whole stream abandoned) before the outer stream is advanced")
		r.Assume("stream-valued items only flow through stages that forward every item they pull (probe, Map, First, Join) into Flatten; a combinator that may drop an item is not blamed for not closing a stream it treats as an opaque value")
		r.Assume("sources of goroutine-backed owners honour their context (a cancelled background context unblocks them)")
		r.SetExhaustive(false)
		if r.VariantHas("conc") {
			concurrent(r)
			return
		}
		sequential(r)
	})
}

// ---------------------------------------------------------------------------------------------
// Shared: run one scenario, judge, record

type meta struct {
	Owner  string `json:"owner"`
	Family string `json:"family"`
	N      int    `json:"n"`
	Fault  string `json:"fault"`
	fclass string
	Stop   int    `json:"stop"` // -1: until End / error; k: Close after k outputs (seq) or >= k items (conc)
	Rep    int    `json:"rep"`
	Term   string `json:"-"`
	f      fault
}

type ran struct {
	s *scen
	o outcome
	v *verdict
	m meta
}

// execute builds and drives one scenario on the calling goroutine and judges it right there.
func execute(s *scen, build func(s *scen) built, ctx context.Context, m meta, pert *vkit.Perturber) ran {
	b := build(s)
	var dead context.Context
	deadFrom := -1
	if m.f.Kind == fCtxCall {
		dead, deadFrom = deadCtx(m.f.Stage), m.f.P
	}
	o := drive(s, b, ctx, dead, deadFrom, m.Stop, s.conc, pert)
	v := s.judge(false)
	return ran{s: s, o: o, v: v, m: m}
}

var (
	sigMu   sync.Mutex
	sigSets = map[string]map[uint64]struct{}{}
)

// record writes the evidence of one executed scenario and reports a violation; it returns true if
// the case should stop.
func record(c *vkit.Case, x ran) bool {
	r := c.R
	r.Eval(1)
	calls, closes, yielded, np := x.s.totals()
	r.Count("scenarios by owner function", x.m.Family, 1)
	r.Count("scenarios by stop class", x.o.StopClass, 1)
	r.Count("scenarios by fault class", x.m.fclass, 1)
	r.Count("probe events", "Next", int(calls))
	r.Count("probe events", "Close", int(closes))
	r.Count("probe events", "items handed out", int(yielded))
	r.Count("probe events", "callback invocations", int(x.s.cbCalls.Load()))
	r.Count("probe events", "streams watched", np)
	r.Max("streams per scenario", "max", np)
	single := x.m.Family != "pipeline" && !strings.HasPrefix(x.m.Owner, "WithPeek[api")
	if single {
		r.Count("scenarios by owner configuration", x.m.Owner, 1)
	}
	if yielded >= 1 {
		r.Distinct(x.m.Owner + "|" + x.o.StopClass + "|" + x.m.fclass)
		if single {
			r.Count("non-trivial scenarios by owner configuration", x.m.Owner, 1)
		} else {
			r.Count("non-trivial pipeline scenarios by terminal", x.m.Term, 1)
		}
	}
	if x.s.conc {
		prim, all := x.s.timingSig(x.o)
		r.Count("conc: primary source's last Next / first Close relative to the consumer's Close (< before, = during, > after, - never)", x.m.Family+" "+prim, 1)
		ahead := x.o.PrimaryPosAtClose - x.o.Items
		if ahead > 3 {
			ahead = 3
		}
		if ahead < 0 {
			ahead = 0
		}
		r.Count("conc: items the primary source was ahead of the consumer when Close was called", fmt.Sprintf("%s ahead=%d ended=%v", x.m.Family, ahead, x.o.PrimaryEndedAt), 1)
		h := vkit.Hash64(x.m.Owner + "|" + all)
		sigMu.Lock()
		set := sigSets[x.m.Family]
		if set == nil {
			set = map[uint64]struct{}{}
			sigSets[x.m.Family] = set
		}
		set[h] = struct{}{}
		sigMu.Unlock()
	}
	if x.m.Family == "Flatten" {
		// order of Close calls (evidence only; judged through the probes' own rules)
		outer := x.s.probes[0].stats().FirstCloseTick
		for _, t := range x.s.probes[1:] {
			if in := t.stats().FirstCloseTick; in > 0 && outer > 0 {
				if in < outer {
					r.Count("close order (Flatten)", "inner stream closed before the outer stream", 1)
				} else {
					r.Count("close order (Flatten)", "outer stream closed before an inner stream", 1)
				}
			}
		}
	}
	if r.WantSample() && yielded >= 2 && np >= 2 && (c.Index%97 == 3 || x.m.fclass == "callback" && c.Index%13 == 1) {
		r.Sample(map[string]any{"case": c.ID(), "scenario": x.m, "outcome": x.o, "probes": x.s.probeDump()})
	}
	if x.o.Panic != nil {
		c.Violation("unexpected-panic:"+x.o.Panic.JuniperFrame(),
			fmt.Sprintf("%s n=%d fault=%s stop=%d: panic %s", x.m.Owner, x.m.N, x.m.Fault, x.m.Stop, x.o.Panic.Msg),
			map[string]any{"scenario": x.m, "outcome": x.o, "stack": x.o.Panic.Stack, "probes": x.s.probeDump()})
		return true
	}
	if x.v != nil {
		c.Violation(x.v.Sig+":"+x.m.Family,
			fmt.Sprintf("%s n=%d fault=%s stop=%d (%s after %d outputs): at the return of %s: %s",
				x.m.Owner, x.m.N, x.m.Fault, x.m.Stop, x.o.StopClass, x.o.Outputs, closeWord(x.o), x.v.What),
			map[string]any{"scenario": x.m, "outcome": x.o, "probes": x.s.probeDump()})
		return true
	}
	return false
}

func closeWord(o outcome) string {
	if len(o.StopClass) >= 7 && o.StopClass[:7] == "reducer" {
		return "the reducer"
	}
	return "Close"
}

func faultsFor(o ownerDef, n int, conc bool) []fault {
	fs := []fault{{Kind: fNone}}
	for p := 0; p <= n; p++ {
		fs = append(fs, fault{Kind: fSrc, P: p})
	}
	if o.Cb {
		for p := 0; p < n; p++ {
			fs = append(fs, fault{Kind: fCb, P: p})
		}
	}
	if o.Src2 != nil {
		for q := 0; q <= o.Src2(n); q++ {
			fs = append(fs, fault{Kind: fSrc2, P: q})
		}
	}
	if conc {
		fs = append(fs, fault{Kind: fBlock})
	}
	// context already over: at construction (owners that take one), at the reducer call, or in the
	// consumer's per-call context from its j-th Next on
	if o.Ctor {
		fs = append(fs, fault{Kind: fCtxCtor, P: 0}, fault{Kind: fCtxCtor, P: 1})
	}
	for j := 0; j <= n; j++ {
		fs = append(fs, fault{Kind: fCtxCall, P: j, Stage: 0})
		if j == 0 {
			fs = append(fs, fault{Kind: fCtxCall, P: 0, Stage: 1})
		}
		if o.Red {
			break
		}
	}
	return fs
}

func nsFor(o ownerDef, maxN int) []int {
	if o.Ns != nil {
		return o.Ns
	}
	out := make([]int, maxN+1)
	for i := range out {
		out[i] = i
	}
	return out
}

// ---------------------------------------------------------------------------------------------
// Sequential part (variant "seq")

type tuple struct {
	o    ownerDef
	n    int
	f    fault
	stop int
}

func sequential(r *vkit.Report) {
	maxN := r.Scale(6, 8)
	workers := runtime.GOMAXPROCS(0)
	var os []ownerDef
	for _, o := range owners() {
		if !o.Conc {
			os = append(os, o)
		}
	}
	var list []tuple
	for _, o := range os {
		for _, n := range nsFor(o, maxN) {
			for _, f := range faultsFor(o, n, false) {
				list = append(list, tuple{o: o, n: n, f: f})
			}
		}
	}
	// One case = (owner, n, fault); inside, every consumer stop point.
	r.Cases("single", len(list), workers, func(c *vkit.Case) {
		t := list[c.Index]
		seqAllStops(c, ownerMeta(t.o, t.n, t.f), func(s *scen) built { return t.o.Build(s, t.n, t.f) })
	})

	// Regression for D3 (fixed by a076832): stream.One closes its stream on every path.
	var one ownerDef
	for _, o := range os {
		if o.Name == "One" {
			one = o
		}
	}
	st := stages()
	var seqStages []int
	for i, sd := range st {
		if !sd.Conc {
			seqStages = append(seqStages, i)
		}
	}
	d3 := []func(c *vkit.Case){}
	for n := 0; n <= 3; n++ {
		for _, f := range faultsFor(one, n, false) {
			n, f := n, f
			d3 = append(d3, func(c *vkit.Case) {
				seqAllStops(c, ownerMeta(one, n, f), func(s *scen) built { return one.Build(s, n, f) })
			})
		}
		for _, stg := range [][]int{{0}, {9}, {7, 8}} { // One(Map(src)), One(Join[x,src,y]), One(FlattenSlices(Chunk(WithPeek(src))))
			ps := pspec{Stages: stg, Term: "One", N: n}
			d3 = append(d3, func(c *vkit.Case) {
				seqAllStops(c, pipeMeta(st, ps), func(s *scen) built { return buildPipeline(s, st, ps) })
			})
		}
	}
	r.Cases("regress-D3-One", len(d3), 1, func(c *vkit.Case) {
		d3[c.Index](c)
		r.Count("regression scenarios", "D3 stream.One closes", 1)
	})

	// Every ordered pair of caller-goroutine stages x every terminal x n x every fault position.
	var pairs []pspec
	terms := []string{"consume", "Collect", "Last[2]", "One", "Reduce", "xrand.RSampleStream[2]"}
	pairN := r.Scale(4, 6)
	for _, a := range seqStages {
		for _, b := range seqStages {
			for _, term := range terms {
				for n := 0; n <= pairN; n++ {
					base := pspec{Stages: []int{a, b}, Term: term, N: n}
					pairs = append(pairs, base)
					for p := 0; p <= n; p++ {
						ps := base
						ps.Fault = fault{Kind: fSrc, P: p}
						pairs = append(pairs, ps)
					}
					for j := 0; j <= n; j++ {
						ps := base
						ps.Fault = fault{Kind: fCtxCall, P: j, Stage: j % 2}
						pairs = append(pairs, ps)
					}
					var cbs []int
					if st[a].Cb {
						cbs = append(cbs, 0)
					}
					if st[b].Cb {
						cbs = append(cbs, 1)
					}
					if term == "Reduce" {
						cbs = append(cbs, 2)
					}
					for _, stage := range cbs {
						for p := 0; p < n; p++ {
							ps := base
							ps.Fault = fault{Kind: fCb, P: p, Stage: stage}
							pairs = append(pairs, ps)
						}
					}
				}
			}
		}
	}
	r.Cases("pipe2", len(pairs), workers, func(c *vkit.Case) {
		ps := pairs[c.Index]
		seqAllStops(c, pipeMeta(st, ps), func(s *scen) built { return buildPipeline(s, st, ps) })
	})

	// Hand on after use: stage a is built, the harness reads k outputs from it (k crossing the
	// boundaries between a's inputs, also up to a's End), and only then a is given to stage b.
	var hand []pspec
	for _, a := range seqStages {
		for _, b := range seqStages {
			for n := 0; n <= pairN; n++ {
				for k := -1; k <= n+3; k++ {
					if k == 0 {
						continue
					}
					base := pspec{Stages: []int{a, b}, Term: "consume", N: n, Pre: 1, PreK: k}
					hand = append(hand, base)
					for p := 0; p <= n; p++ {
						ps := base
						ps.Fault = fault{Kind: fSrc, P: p}
						hand = append(hand, ps)
					}
				}
			}
		}
	}
	r.Cases("hand-on", len(hand), workers, func(c *vkit.Case) {
		ps := hand[c.Index]
		seqAllStops(c, pipeMeta(st, ps), func(s *scen) built { return buildPipeline(s, st, ps) })
		r.Count("hand on after use", "configurations", 1)
	})
	if !r.Replaying() {
		r.Floor("hand-on-after-use configurations", r.Table("hand on after use", "configurations"), int64(len(hand)))
	}

	// Pipelines of 2-3 owners plus a terminal, drawn from the seed.
	np := r.Scale(30000, 1000000)
	r.Cases("pipe", np, workers, func(c *vkit.Case) {
		ps := drawPipeline(c.Rand, st, false, maxN)
		seqAllStops(c, pipeMeta(st, ps), func(s *scen) built { return buildPipeline(s, st, ps) })
	})

	peekAPI(r, workers)

	floors(r, os, false)
	r.Floor("regression scenarios for D3 (stream.One closes)", r.Table("regression scenarios", "D3 stream.One closes"), int64(len(d3)))
	r.Floor("ordered pairs of caller-goroutine stages enumerated", int64(len(pairs)), int64(len(seqStages)*len(seqStages)*len(terms)))
}

func ownerMeta(o ownerDef, n int, f fault) meta {
	return meta{Owner: o.Name, Family: o.Family, N: n, Fault: f.String(), fclass: f.class(n), Stop: -1, f: f}
}

func pipeMeta(st []stageDef, ps pspec) meta {
	return meta{Owner: ps.name(st), Family: "pipeline", N: ps.N, Fault: ps.Fault.String(), fclass: ps.Fault.class(ps.N), Stop: -1, Term: ps.Term, f: ps.Fault}
}

// seqAllStops runs the configuration to End / error and then once per earlier stop point.
func seqAllStops(c *vkit.Case, m meta, build func(s *scen) built) {
	m.Stop = -1
	full := execute(newScen(false, c.Rand), build, context.Background(), m, nil)
	if record(c, full) {
		return
	}
	if len(full.o.StopClass) >= 7 && full.o.StopClass[:7] == "reducer" {
		return
	}
	if m.f.Kind == fCtxCall {
		return // the earlier stop points are those of the fault-free configuration
	}
	for k := 0; k <= full.o.Outputs; k++ {
		m.Stop = k
		x := execute(newScen(false, c.Rand), build, context.Background(), m, nil)
		if record(c, x) {
			return
		}
	}
}

func floors(r *vkit.Report, os []ownerDef, conc bool) {
	if r.Replaying() {
		return
	}
	got, want, ran := 0, 0, 0
	for _, o := range os {
		if r.Table("scenarios by owner configuration", o.Name) > 0 {
			ran++
		}
		if o.Triv {
			continue
		}
		want++
		if r.Table("non-trivial scenarios by owner configuration", o.Name) > 0 {
			got++
		}
	}
	part := "caller-goroutine"
	classes := []string{"never", "mid", "end", "error", "reducer-ok", "reducer-error"}
	classes = append(classes, "ctx", "reducer-ctx")
	fclasses := []string{"none", "src-first", "src-middle", "src-at-end", "callback", "ctx-at-call"}
	if conc {
		part = "goroutine-backed"
		fclasses = append(fclasses, "ctx-at-construction", "block-at-end")
	}
	r.Floor(part+" owner configurations exercised", int64(ran), int64(len(os)))
	r.Floor(part+" owner configurations with a non-trivial scenario", int64(got), int64(want))
	for _, cl := range classes {
		r.Floor(part+" scenarios with stop class "+cl, r.Table("scenarios by stop class", cl), 10)
	}
	for _, cl := range fclasses {
		r.Floor(part+" scenarios with fault class "+cl, r.Table("scenarios by fault class", cl), 10)
	}
}

// ---------------------------------------------------------------------------------------------
// Goroutine-backed part (variant word "conc")

// concReps runs one configuration reps times, each repetition with fresh latency tables and a
// fresh consumer perturbation table, and judges each at the return of Close; afterwards every
// probe of the case is read once more (a late second Close or a late Next is still a refutation).
func concReps(c *vkit.Case, m meta, f fault, reps int, build func(s *scen) built) {
	r := c.R
	var done []ran
	for rep := 0; rep < reps; rep++ {
		m.Rep = rep
		s := newScen(true, c.Rand.Split())
		pert := vkit.NewPerturber(c.Rand.Split(), 37, []float64{0, 0.2, 0.6, 1}[c.Rand.Intn(4)])
		ctx, cancel := context.Background(), context.CancelFunc(func() {})
		if f.Kind == fBlock {
			ctx, cancel = context.WithTimeout(ctx, time.Duration(c.Rand.Range(500, 4000))*time.Microsecond)
		}
		var x ran
		fin := make(chan struct{})
		go func() {
			defer close(fin)
			x = execute(s, build, ctx, m, pert)
		}()
		v, dump := vkit.Await(fin, vkit.AwaitOpts{})
		cancel()
		if v != vkit.AwaitDone {
			// A consumer call that never returns is not for this property to judge (C11/C12/C14 do);
			// without the return there is no moment at which the counters are due.
			r.Inconclusive(fmt.Sprintf("%s: %s n=%d fault=%s stop=%d rep=%d did not return (%s)", c.ID(), m.Owner, m.N, m.Fault, m.Stop, rep, v))
			r.SetExtra("stuck_dump_"+c.ID(), dump)
			return
		}
		if record(c, x) {
			return
		}
		done = append(done, x)
	}
	for _, x := range done {
		r.Eval(1)
		if v := x.s.judge(true); v != nil {
			c.Violation(v.Sig+":"+x.m.Family,
				fmt.Sprintf("%s n=%d fault=%s stop=%d rep=%d: after the run: %s", x.m.Owner, x.m.N, x.m.Fault, x.m.Stop, x.m.Rep, v.What),
				map[string]any{"scenario": x.m, "outcome": x.o, "probes": x.s.probeDump()})
			return
		}
	}
}

func concurrent(r *vkit.Report) {
	maxN := r.Scale(6, 7)
	reps := r.Scale(20, 120)
	workers := 16
	var os []ownerDef
	for _, o := range owners() {
		if o.Conc {
			os = append(os, o)
		}
	}
	byName := map[string]ownerDef{}
	var list []tuple
	for _, o := range os {
		byName[o.Name] = o
		for _, n := range nsFor(o, maxN) {
			for _, f := range faultsFor(o, n, true) {
				list = append(list, tuple{o: o, n: n, f: f, stop: -1})
				if o.Red || f.Kind == fCtxCall {
					continue
				}
				for k := 0; k <= n; k++ {
					list = append(list, tuple{o: o, n: n, f: f, stop: k})
				}
			}
		}
	}
	r.Cases("conc-single", len(list), workers, func(c *vkit.Case) {
		t := list[c.Index]
		m := ownerMeta(t.o, t.n, t.f)
		m.Stop = t.stop
		concReps(c, m, t.f, reps, func(s *scen) built { return t.o.Build(s, t.n, t.f) })
	})

	// Regression for D4/D8 (fixed by 7191528): Merge closes every input exactly once, and Close
	// returns only after that, also while the inputs are parked in Next.
	var d48 []tuple
	for _, name := range []string{"Merge[even2]", "Merge[even3]", "Merge[0n0]", "One(Merge[even2])", "Collect(Merge[even3])"} {
		o := byName[name]
		for _, n := range []int{0, 1, 2, 5} {
			for _, f := range []fault{{Kind: fNone}, {Kind: fBlock}, {Kind: fSrc, P: 0}, {Kind: fSrc, P: n}} {
				for _, stop := range []int{-1, 0, 1} {
					if stop > n {
						continue
					}
					d48 = append(d48, tuple{o: o, n: n, f: f, stop: stop})
				}
			}
		}
	}
	r.Cases("regress-D4D8-Merge", len(d48), workers, func(c *vkit.Case) {
		t := d48[c.Index]
		m := ownerMeta(t.o, t.n, t.f)
		m.Stop = t.stop
		concReps(c, m, t.f, reps, func(s *scen) built { return t.o.Build(s, t.n, t.f) })
		r.Count("regression scenarios", "D4/D8 stream.Merge closes its inputs and Close waits", 1)
	})

	// Pipelines that contain at least one goroutine-backed owner.
	st := stages()
	np := r.Scale(800, 4000)
	r.Cases("conc-pipe", np, workers, func(c *vkit.Case) {
		ps := drawPipeline(c.Rand, st, true, maxN)
		stop := c.Rand.Range(-1, ps.N+1)
		if c.Rand.Bool(0.3) {
			stop = -1
		}
		m := pipeMeta(st, ps)
		m.Stop = stop
		concReps(c, m, ps.Fault, reps, func(s *scen) built { return buildPipeline(s, st, ps) })
	})

	sigMu.Lock()
	for fam, set := range sigSets {
		r.Count("conc: distinct close-timing signatures (per probe: last Next and first Close before/during/after the consumer's Close)", fam, len(set))
	}
	sigMu.Unlock()
	floors(r, os, true)
	r.Floor("regression scenarios for D4/D8 (stream.Merge closes its inputs, Close waits)",
		r.Table("regression scenarios", "D4/D8 stream.Merge closes its inputs and Close waits"), int64(len(d48)))
}
