package main

// Group "spine": position-targeted Remove / Update on BIG queues (and size-parity sweeps on big
// heaps), above every power of two up to 2^18 (quick: 2^17+3, 140000, 270000 and a few small ones).
//
// A PriorityQueue is filled to n keys (all constructors; unsorted or sorted initial slice, or by
// Updates), then a long phase keeps the size within n .. n+~130 while it hits keys chosen by their
// HEAP POSITION: the parent of the last slot (with the last index even, so that the slot keeps a
// single LEFT child), an ancestor whose smaller-child path leads there, every index 2^d-1 (left
// spine) and 2^d-2 (right spine), the last slot, the root. Operations: Remove, Update to a NEW
// GLOBAL MINIMUM, Update to a new maximum, each followed by the per-step observation of large.go
// (Len, Peek against the model's minimum, read-back of the touched key). A key's index is learned
// from the order Iterate() yields (index order) - used only to CHOOSE, never to judge.
//
// A misplacement near the bottom of the array is invisible to Peek and is silently repaired when a
// Pop takes the slot as its filler; therefore the phase never shrinks the queue, and before the
// final drain as many new maxima as there are keys are inserted, so that nothing near the old
// bottom is used as a filler before its turn has come.
//
// Heap: Push / Pop have position classes only through the size parity: pops and pushes at the
// sizes n-2 .. n+3, then the same growth and drain.

import (
	"fmt"
	"math/bits"

	"verif/vkit"
)

type spineCase struct {
	what string
	n    int
	sel  int
}

func spineCases(thorough bool) []spineCase {
	var out []spineCase
	sizes := []int{270000, 140000, 1<<17 + 3}
	small := []int{1<<16 + 3, 1<<14 + 3, 1<<12 + 3, 1<<10 + 3}
	if thorough {
		sizes = []int{400000, 1<<18 + 3, 270000, 200000, 140000, 1<<17 + 64, 1<<17 + 3, 1<<17 + 2}
		small = nil
		for k := 16; k >= 6; k-- {
			small = append(small, 1<<k+3, 1<<k+2)
		}
	}
	i := 0
	for _, n := range sizes {
		reps := 2
		if thorough {
			reps = 6
		}
		for x := 0; x < reps; x++ {
			out = append(out, spineCase{"PQ", n, i}) // sel: constructor alternates, order rotates
			i++
		}
		out = append(out, spineCase{"Heap", n, i})
		i++
	}
	for _, n := range small {
		out = append(out, spineCase{"PQ", n, i}, spineCase{"Heap", n, i + 1})
		i += 3
	}
	return out
}

// snapshot returns the keys in heap index order as yielded by Iterate(), or nil if that is not
// usable (never judged).
func (d *largePQ) snapshot() []int {
	out := make([]int, 0, d.count)
	p := vkit.Try(func() {
		it := d.q.Iterate()
		for {
			k, ok := it.Next()
			if !ok {
				return
			}
			out = append(out, k)
		}
	})
	if p != nil || len(out) != d.count {
		d.loc.count("spine: index snapshots through Iterate()", "not usable")
		return nil
	}
	for _, k := range out {
		if k < 0 || k >= d.U || !d.present[k] {
			d.loc.count("spine: index snapshots through Iterate()", "not usable")
			return nil
		}
	}
	d.loc.count("spine: index snapshots through Iterate()", "usable")
	return out
}

func runSpine(c *vkit.Case, cases []spineCase) {
	sc := cases[c.Index%len(cases)]
	if sc.what == "Heap" {
		runSpineHeap(c, sc)
		return
	}
	n := sc.n
	d := &largePQ{largeBase: newLargeBase(c, "PQ", sc.sel), U: 2*n + 1500}
	d.rbEvery = d.U / 2
	b := &d.largeBase
	defer b.flush()
	b.what = "PQ position-targeted"
	b.mode = "random"
	b.loc.count("histories", "spine PQ")
	b.loc.count("spine: queue sizes", fmt.Sprint(n))
	rnd := b.rnd

	// fill: unsorted initial slice / sorted initial slice (already a heap: key j at index j) / Updates
	pris := make([]int, n)
	how := []string{"unsorted initial slice", "sorted initial slice", "unsorted initial slice", "Updates"}[(c.Index/2)%4]
	if how == "Updates" && n >= 200000 && !c.R.Thorough() {
		how = "unsorted initial slice"
	}
	for i := range pris {
		pris[i] = b.nextPri(true)
	}
	if how == "sorted initial slice" {
		b.mode = "ascending"
		for i := range pris {
			pris[i] = b.nextPri(true)
		}
		b.mode = "random"
		b.ctrLo, b.ctrHi = 0, n
	}
	b.loc.count("spine: filled by", how)
	b.plan = append(b.plan, fmt.Sprintf("fill to %d by %s", n, how))
	d.build(pris, how != "Updates")
	if b.failed {
		return
	}

	type action struct {
		op  string // remove | min | max
		cls string
		idx int // for spine classes
	}
	var acts []action
	for dd := 1; 1<<dd-1 < n; dd++ {
		l, r := 1<<dd-1, 1<<dd-2
		acts = append(acts, action{"min", "index 2^d-1", l}, action{"remove", "index 2^d-1", l}, action{"max", "index 2^d-1", l})
		if r > 0 {
			acts = append(acts, action{"min", "index 2^d-2", r}, action{"remove", "index 2^d-2", r})
		}
	}
	for i := 0; i < 24; i++ {
		acts = append(acts, action{"remove", "parent of the last slot (single left child)", -1})
	}
	for i := 0; i < 8; i++ {
		acts = append(acts, action{"remove", "ancestor whose smaller-child path leads to the parent of the last slot", -1})
	}
	for _, op := range []string{"min", "max", "remove"} {
		acts = append(acts, action{op, "last slot", -1}, action{op, "root", -1}, action{op, "parent of the last slot", -1})
	}
	acts = append(acts, action{"min", "last slot", -1}, action{"min", "last slot", -1})
	for i := len(acts) - 1; i > 0; i-- {
		j := rnd.Intn(i + 1)
		acts[i], acts[j] = acts[j], acts[i]
	}
	b.plan = append(b.plan, fmt.Sprintf("%d position-targeted Remove/Update steps, size kept in %d..%d", len(acts), n, n+130))

	for _, a := range acts {
		if b.failed {
			return
		}
		single := a.cls == "parent of the last slot (single left child)" || a.op == "remove" && a.cls[0] == 'a'
		if single {
			for d.count%2 == 0 && !b.failed { // last index even: after the removal its parent has a single (left) child
				d.insert(b.nextPri(false))
			}
		}
		snap := d.snapshot()
		if b.failed {
			return
		}
		var k int
		if snap == nil {
			k = d.perm[rnd.Intn(d.count)]
		} else {
			last := len(snap) - 1
			i := 0
			switch {
			case a.idx >= 0:
				i = a.idx
			case a.cls == "last slot":
				i = last
			case a.cls == "root":
				i = 0
			default:
				i = (last - 1) / 2
				if a.cls[0] == 'a' {
					// climb while the node is the child the sift would pick (left unless right is less)
					for i > 0 && rnd.Bool(0.8) {
						p := (i - 1) / 2
						l, r := 2*p+1, 2*p+2
						pick := l
						if r <= last && b.ord.less(d.pri[snap[r]], d.pri[snap[l]]) {
							pick = r
						}
						if pick != i {
							break
						}
						i = p
					}
				}
			}
			if i > last {
				i = last
			}
			if i < 0 {
				i = 0
			}
			k = snap[i]
		}
		b.loc.count("spine: targeted operations (n > 2^17: "+fmt.Sprint(n > 1<<17)+")", a.op+" @ "+a.cls)
		switch a.op {
		case "remove":
			d.removeKey(k)
			d.insert(b.nextPri(false)) // never shrink
		case "min":
			d.updateKey(k, b.newMin())
		default:
			d.updateKey(k, b.newMax())
		}
		if rnd.Bool(0.3) {
			d.insert(b.nextPri(false))
			d.popMinKeepSize()
		}
	}
	b.loc.max("sizes", "spine PQ keys held", d.count)
	exposeAndDrain(b, d)
}

// popMinKeepSize: a Pop directly followed by an insert (the filler of the Pop is the key that was
// just inserted, never an older slot).
func (d *largePQ) popMinKeepSize() {
	if _, ok := d.popMin(); ok {
		d.insert(d.nextPri(false))
	}
}

// exposeAndDrain inserts as many new maxima as there are items, then drains.
func exposeAndDrain(b *largeBase, s sut) {
	grow := s.size() + 200
	if s.size() > 200000 && !b.r.Thorough() {
		// quick: half as many are enough to keep every slot near the old bottom from being used as a
		// filler before the turn of any item below the median has come
		grow = s.size()/2 + 200
	}
	b.plan = append(b.plan, fmt.Sprintf("insert %d new maxima", grow))
	for i := 0; i < grow && !b.failed; i++ {
		s.insert(b.newMax())
	}
	if !b.failed {
		b.drain(s)
	}
}

func runSpineHeap(c *vkit.Case, sc spineCase) {
	n := sc.n
	d := &largeHeap{largeBase: newLargeBase(c, "Heap", sc.sel)}
	b := &d.largeBase
	defer b.flush()
	b.what = "Heap size-parity sweep"
	b.mode = "random"
	b.loc.count("histories", "spine Heap")
	b.loc.count("spine: heap sizes", fmt.Sprint(n))
	pris := make([]int, n)
	for i := range pris {
		pris[i] = b.nextPri(true)
	}
	b.plan = append(b.plan, fmt.Sprintf("construct from %d unsorted items; pops and pushes at the sizes %d..%d", n, n-2, n+3))
	d.build(pris, c.Index%4 != 3)
	steps := 200 + 8*bits.Len(uint(n))
	for i := 0; i < steps && !b.failed; i++ {
		sz := d.size()
		x := b.rnd.Intn(100)
		switch {
		case sz <= n-2:
			x = 99
		case sz >= n+3:
			x = 0
		}
		switch {
		case x < 45:
			d.popMin()
			b.loc.count("spine: heap Pop at size", fmt.Sprintf("n%+d", sz-n))
		case x < 50:
			b.minMax(d)
		default:
			d.insert(b.nextPri(false))
			b.loc.count("spine: heap Push at size", fmt.Sprintf("n%+d", sz-n))
		}
	}
	b.loc.max("sizes", "spine Heap items held", d.size())
	exposeAndDrain(b, d)
}
