package main

import (
	"bytes"
	"fmt"

	"github.com/bradenaw/juniper/container/xheap"

	"verif/vkit"
)

// ---------------------------------------------------------------------------------------------
// Key / priority type configurations

type pqCfg[K comparable, P any] struct {
	name  string
	keyOf func(j int) K // j = index in the universe
	priOf func(raw int) P
	rawOf func(p P) int
	// eq is the deep equality the model uses to compare priorities (P need not be comparable
	// with ==: slices, structs holding slices, interfaces holding slices).
	eq func(a, b P) bool
	// nativeCmp, if set, is handed to the queue as it is when the order is "asc" (it must then
	// agree with the ascending order of the raw priorities), e.g. bytes.Compare.
	nativeCmp func(a, b P) int
}

func eqOf[P comparable](a, b P) bool { return a == b }

// wprio is an uncomparable priority: a struct holding a slice, ordered by n.
type wprio struct {
	w []int
	n int
}

func intsEq(a, b []int) bool {
	if len(a) != len(b) {
		return false
	}
	for i := range a {
		if a[i] != b[i] {
			return false
		}
	}
	return true
}

// anyRank / anyEq: priorities of dynamic type int or []int inside an interface, ordered by a rank.
func anyRank(p any) int {
	switch v := p.(type) {
	case int:
		return v
	case []int:
		if len(v) > 0 {
			return v[0]
		}
	}
	return 0
}

func anyEq(a, b any) bool {
	switch x := a.(type) {
	case nil:
		return b == nil
	case int:
		y, ok := b.(int)
		return ok && x == y
	case []int:
		y, ok := b.([]int)
		return ok && intsEq(x, y)
	}
	return false
}

func bytesOf(raw int) []byte { v := raw + 20000; return []byte{byte(v >> 8), byte(v)} }
func rawOfBytes(p []byte) int {
	if len(p) != 2 {
		return 0
	}
	return (int(p[0])<<8 | int(p[1])) - 20000
}

type kpair struct {
	A int
	B string
}

type prio struct {
	V   int
	Tag string
}

func runPQCase(c *vkit.Case, s *posScript) {
	// configuration: order x constructor x key/priority types (rotated by index; drawn for the
	// scripted group, whose index already encodes the script)
	sel := c.Index % 70
	if s != nil {
		sel = c.Rand.Intn(70)
	}
	switch sel / 10 {
	case 0:
		runPQ(c, s, sel, pqCfg[int, int]{"K=int,P=int",
			func(j int) int { return j*7 - 21 },
			func(raw int) int { return raw },
			func(p int) int { return p }, eqOf[int], nil})
	case 1:
		runPQ(c, s, sel, pqCfg[string, int]{"K=string,P=int",
			func(j int) string { return fmt.Sprintf("key-%02d", j) },
			func(raw int) int { return raw },
			func(p int) int { return p }, eqOf[int], nil})
	case 2:
		runPQ(c, s, sel, pqCfg[kpair, prio]{"K=struct,P=struct",
			func(j int) kpair { return kpair{j % 3, fmt.Sprint("b", j/3)} },
			func(raw int) prio { return prio{raw, fmt.Sprint("p", raw)} },
			func(p prio) int { return p.V }, eqOf[prio], nil})
	case 3:
		runPQ(c, s, sel, pqCfg[int, float64]{"K=int,P=float64",
			func(j int) int { return -j },
			func(raw int) float64 { return float64(raw) * 0.5 },
			func(p float64) int { return int(p * 2) }, eqOf[float64], nil})
	case 4: // uncomparable P: a slice, ordered by bytes.Compare itself when the order is ascending
		runPQ(c, s, sel, pqCfg[string, []byte]{"K=string,P=[]byte",
			func(j int) string { return fmt.Sprint("s", j) },
			bytesOf, rawOfBytes, bytes.Equal, bytes.Compare})
	case 5: // uncomparable P: a struct holding a slice, ordered by n
		runPQ(c, s, sel, pqCfg[int, wprio]{"K=int,P=struct{w []int; n int}",
			func(j int) int { return j + 1 },
			func(raw int) wprio { return wprio{[]int{raw, 2 * raw}, raw} },
			func(p wprio) int { return p.n },
			func(a, b wprio) bool { return a.n == b.n && intsEq(a.w, b.w) }, nil})
	default: // P = any holding ints and (uncomparable) slices, ordered by a rank function
		runPQ(c, s, sel, pqCfg[kpair, any]{"K=struct,P=any(int|[]int)",
			func(j int) kpair { return kpair{j, "x"} },
			func(raw int) any {
				if raw%3 == 0 {
					return raw
				}
				return []int{raw, -raw}
			},
			anyRank, anyEq, nil})
	}
}

// ---------------------------------------------------------------------------------------------
// Scripts of the "pos" group: build a queue of n keys, then hit the key at heap index i.

type posScript struct {
	n, i   int
	action string // remove | lower | higher | equivalent | same
	build  string // initial | updates
}

var posScripts = func() []posScript {
	var out []posScript
	for n := 1; n <= 16; n++ {
		for i := 0; i < n; i++ {
			for _, a := range []string{"remove", "lower", "higher", "equivalent", "same"} {
				for _, b := range []string{"initial", "updates"} {
					out = append(out, posScript{n, i, a, b})
				}
			}
		}
	}
	return out
}()

// ---------------------------------------------------------------------------------------------

type pqDriver[K comparable, P any] struct {
	c     *vkit.Case
	r     *vkit.Report
	rnd   *vkit.Rand
	loc   *local
	cfg   pqCfg[K, P]
	ord   order
	ctor  string
	pool  []int
	pname string

	q [2]xheap.PriorityQueue[K, P] // the queue and a copy of its value

	U       int
	keys    []K // universe, plus keys[U]: a key that is never inserted
	idxOf   map[K]int
	present []bool // the model: key index -> present, raw priority
	pri     []int
	count   int
	zero    P

	sh *shadow

	initial []opRec
	ops     []opRec
	failed  bool
	maxSize int
}

func (d *pqDriver[K, P]) name() string {
	return fmt.Sprintf("PriorityQueue[%s, order %s given as %s]", d.cfg.name, d.ord.name, d.ctor)
}

func (d *pqDriver[K, P]) fail(sig, what string) {
	if d.failed {
		return
	}
	d.failed = true
	noteViolation(d.c)
	model := map[string]int{}
	for j := 0; j < d.U; j++ {
		if d.present[j] {
			model[fmt.Sprint(j)] = d.pri[j]
		}
	}
	d.c.Violation(sig, d.name()+": "+what, map[string]any{
		"structure": "PriorityQueue", "types": d.cfg.name, "order": d.ord.name, "constructor": d.ctor, "pool": d.pname,
		"universe": d.U, "initial(key index,raw priority)": d.initial, "ops(op,key index,raw priority|arg)": capOps(d.ops),
		"n_ops": len(d.ops), "model(key index -> raw priority)": model,
		"key_of_index": fmt.Sprintf("%v", d.keys),
	})
}

func (d *pqDriver[K, P]) handle() xheap.PriorityQueue[K, P] { return d.q[d.rnd.Intn(2)] }

func (d *pqDriver[K, P]) try(f func(), format string, args ...any) bool {
	if p := vkit.Try(f); p != nil {
		d.fail("pq-panic", fmt.Sprintf("%s panicked with %d keys held: %s (in %s)", fmt.Sprintf(format, args...), d.count, p.Msg, p.JuniperFrame()))
		return false
	}
	return true
}

// lessWitness returns a present key index whose priority is less than that of j, or -1.
func (d *pqDriver[K, P]) lessWitness(j int) int {
	for j2 := 0; j2 < d.U; j2++ {
		if d.present[j2] && d.ord.less(d.pri[j2], d.pri[j]) {
			return j2
		}
	}
	return -1
}

// observe is the full observation that follows every step.
func (d *pqDriver[K, P]) observe(after string) {
	if d.failed {
		return
	}
	if d.count > d.maxSize {
		d.maxSize = d.count
	}
	q := d.handle()
	stage, at := "Len()", -1
	var sig, what string
	evals := 0
	p := vkit.Try(func() {
		evals++
		if n := q.Len(); n != d.count {
			sig, what = "pq-len", fmt.Sprintf("Len() = %d after %s, the map holds %d keys", n, after, d.count)
			return
		}
		for j, k := range d.keys {
			stage, at = "Contains", j
			evals++
			if got := q.Contains(k); got != d.present[j] {
				sig, what = "pq-contains", fmt.Sprintf("Contains(%v) = %v after %s, the map says %v", k, got, after, d.present[j])
				return
			}
			stage = "Priority"
			evals++
			got := q.Priority(k)
			if d.present[j] {
				if want := d.cfg.priOf(d.pri[j]); !d.cfg.eq(got, want) {
					sig, what = "pq-priority", fmt.Sprintf("Priority(%v) = %v after %s, the map has %v", k, got, after, want)
					return
				}
			} else if !d.cfg.eq(got, d.zero) {
				sig, what = "pq-priority-absent", fmt.Sprintf("Priority(%v) = %v after %s for an absent key, want the zero value", k, got, after)
				return
			}
		}
		if d.count > 0 {
			stage, at = "Peek()", -1
			evals++
			k := q.Peek()
			j, known := d.idxOf[k]
			if !known || !d.present[j] {
				sig, what = "pq-peek-not-held", fmt.Sprintf("Peek() = %v after %s, which is not a key of the map", k, after)
				return
			}
			if w := d.lessWitness(j); w >= 0 {
				sig, what = "pq-peek-not-min", fmt.Sprintf("Peek() = %v (priority %v) after %s, but key %v has the lesser priority %v",
					k, d.cfg.priOf(d.pri[j]), after, d.keys[w], d.cfg.priOf(d.pri[w]))
			}
		}
	})
	d.loc.evals += evals
	if p != nil {
		call := stage
		if at >= 0 {
			call = fmt.Sprintf("%s(%v)", stage, d.keys[at])
		}
		d.fail("pq-panic", fmt.Sprintf("%s panicked after %s with %d keys held: %s (in %s)", call, after, d.count, p.Msg, p.JuniperFrame()))
		return
	}
	if sig != "" {
		d.fail(sig, what)
		return
	}
	if d.count == 0 && d.rnd.Bool(0.04) {
		d.emptyPanics("Peek", q)
	}
}

func (d *pqDriver[K, P]) emptyPanics(op string, q xheap.PriorityQueue[K, P]) bool {
	var got K
	p := vkit.Try(func() {
		if op == "Pop" {
			got = q.Pop()
		} else {
			got = q.Peek()
		}
	})
	d.loc.evals++
	if p == nil {
		d.fail("pq-empty-no-panic", fmt.Sprintf("%s() on an empty queue returned %v instead of panicking", op, got))
		return false
	}
	d.loc.count("expected panics", "PQ."+op+" on empty")
	return true
}

func (d *pqDriver[K, P]) emptyMustPanic(op string) {
	d.ops = append(d.ops, opRec{op + "-on-empty", -1, 0})
	if d.emptyPanics(op, d.handle()) {
		d.loc.op("PQ."+op+"-on-empty", 0, clsNone, mvNone)
		d.observe(op + "() on empty (panicked)")
	}
}

func (d *pqDriver[K, P]) relation(newRaw, cur int) string {
	switch {
	case newRaw == cur:
		return "same"
	case d.ord.less(newRaw, cur):
		return "lower"
	case d.ord.less(cur, newRaw):
		return "higher"
	}
	return "equivalent"
}

func (d *pqDriver[K, P]) update(j, raw int) {
	d.ops = append(d.ops, opRec{"Update", j, raw})
	n := d.count
	q := d.handle()
	if !d.try(func() { q.Update(d.keys[j], d.cfg.priOf(raw)) }, "Update(%v, %v)", d.keys[j], d.cfg.priOf(raw)) {
		return
	}
	if d.present[j] {
		rel := d.relation(raw, d.pri[j])
		i := d.sh.pos[j]
		cls := posClass(i, n)
		d.pri[j] = raw
		d.loc.count("queue Update of a present key by types", d.cfg.name)
		d.loc.op("PQ.Update-present-"+rel, n, cls, d.sh.updateAt(i, raw))
	} else {
		d.present[j], d.pri[j] = true, raw
		d.count++
		d.loc.op("PQ.Update-new", n, clsNew, d.sh.push(j, raw))
	}
	d.observe(fmt.Sprintf("Update(%v, %v)", d.keys[j], d.cfg.priOf(raw)))
}

func (d *pqDriver[K, P]) remove(j int) {
	d.ops = append(d.ops, opRec{"Remove", j, 0})
	n := d.count
	q := d.handle()
	if !d.try(func() { q.Remove(d.keys[j]) }, "Remove(%v)", d.keys[j]) {
		return
	}
	if d.present[j] {
		i := d.sh.pos[j]
		cls := posClass(i, n)
		d.present[j] = false
		d.count--
		d.loc.op("PQ.Remove-present", n, cls, d.sh.removeAt(i))
	} else {
		d.loc.op("PQ.Remove-absent", n, clsNone, mvNone)
	}
	d.observe(fmt.Sprintf("Remove(%v)", d.keys[j]))
}

// pop pops from a non-empty queue.
func (d *pqDriver[K, P]) pop() {
	d.ops = append(d.ops, opRec{"Pop", -1, 0})
	n := d.count
	q := d.handle()
	var k K
	if !d.try(func() { k = q.Pop() }, "Pop()") {
		return
	}
	d.loc.evals++
	j, known := d.idxOf[k]
	if !known || !d.present[j] {
		d.fail("pq-pop-not-held", fmt.Sprintf("Pop() = %v, which is not a key of the map (%d keys held)", k, n))
		return
	}
	if w := d.lessWitness(j); w >= 0 {
		d.fail("pq-pop-not-min", fmt.Sprintf("Pop() = %v (priority %v), but key %v has the lesser priority %v",
			k, d.cfg.priOf(d.pri[j]), d.keys[w], d.cfg.priOf(d.pri[w])))
		return
	}
	d.ops[len(d.ops)-1].K, d.ops[len(d.ops)-1].P = j, d.pri[j] // what it handed out
	i := d.sh.pos[j]
	if i != 0 {
		d.loc.count("shadow", "queue: real Pop handed out another (equally minimal) key than the shadow root")
	}
	d.present[j] = false
	d.count--
	d.loc.op("PQ.Pop", n, posClass(0, n), d.sh.removeAt(i))
	d.observe(fmt.Sprintf("Pop() = %v", k))
}

func (d *pqDriver[K, P]) grow(n int) {
	d.ops = append(d.ops, opRec{"Grow", -1, n})
	q := d.handle()
	if !d.try(func() { q.Grow(n) }, "Grow(%d)", n) {
		return
	}
	d.loc.op("PQ.Grow", d.count, clsNone, mvNone)
	d.observe(fmt.Sprintf("Grow(%d)", n))
}

// ---- choosing operands (shadow and PRNG only)

func (d *pqDriver[K, P]) absentKey(withGhost bool) (int, bool) {
	var cand []int
	for j := 0; j < d.U; j++ {
		if !d.present[j] {
			cand = append(cand, j)
		}
	}
	if withGhost {
		cand = append(cand, d.U)
	}
	if len(cand) == 0 {
		return 0, false
	}
	return vkit.Pick(d.rnd, cand), true
}

// presentKeyAt returns the key the shadow has at a position of the wanted class (any position if the
// class does not exist at this size). count must be > 0.
func (d *pqDriver[K, P]) presentKeyAt(cls uint8) int {
	i, ok := d.sh.pickIndex(cls, d.rnd.Intn)
	if !ok {
		i = d.rnd.Intn(d.sh.len())
	}
	return d.sh.a[i].key
}

func (d *pqDriver[K, P]) synth(cur int, rel string) (int, bool) {
	for _, v := range []int{cur - 1, cur + 1, cur ^ 1, -cur, cur - 4, cur + 4, cur - 9, cur + 9} {
		if v != cur && d.relation(v, cur) == rel {
			return v, true
		}
	}
	return cur, false
}

// priFor draws a priority in the wanted relation to cur.
func (d *pqDriver[K, P]) priFor(cur int, rel string) int {
	switch rel {
	case "same":
		return cur
	case "below-all":
		return extreme(d.pool, d.ord.less, false)
	case "above-all":
		return extreme(d.pool, d.ord.less, true)
	case "lower", "higher", "equivalent":
		if c := candidates(d.pool, d.ord.less, cur, rel); len(c) > 0 {
			return vkit.Pick(d.rnd, c)
		}
		if v, ok := d.synth(cur, rel); ok {
			return v
		}
	}
	return vkit.Pick(d.rnd, d.pool)
}

func (d *pqDriver[K, P]) drawNewPri() int {
	switch x := d.rnd.Intn(100); {
	case x < 12:
		return extreme(d.pool, d.ord.less, false)
	case x < 22:
		return extreme(d.pool, d.ord.less, true)
	case x < 32 && d.sh.len() > 0:
		return d.sh.a[0].pri
	case x < 40 && d.sh.len() > 0:
		return d.sh.a[d.sh.len()-1].pri
	}
	return vkit.Pick(d.rnd, d.pool)
}

func (d *pqDriver[K, P]) updNew() bool {
	j, ok := d.absentKey(false)
	if !ok {
		return false
	}
	d.update(j, d.drawNewPri())
	return true
}

func (d *pqDriver[K, P]) updPresent() {
	cls := []uint8{clsFirst, clsLast, clsLeaf, clsInner, clsNone, clsNone}[d.rnd.Intn(6)]
	j := d.presentKeyAt(cls)
	rel := []string{"lower", "lower", "higher", "higher", "equivalent", "equivalent", "same", "below-all", "above-all", "random"}[d.rnd.Intn(10)]
	d.update(j, d.priFor(d.pri[j], rel))
}

func (d *pqDriver[K, P]) removePresent() {
	x := d.rnd.Intn(7)
	if x >= 5 {
		if i, ok := d.sh.pickReplacementMovesUp(d.rnd.Intn); ok {
			d.remove(d.sh.a[i].key)
			return
		}
	}
	d.remove(d.presentKeyAt([]uint8{clsFirst, clsLast, clsLeaf, clsInner, clsNone, clsNone, clsNone}[x]))
}

func (d *pqDriver[K, P]) randomOp(fill float64) {
	switch x := d.rnd.Intn(100); {
	case x < 3:
		d.grow([]int{0, 1, 3, 17, 100}[d.rnd.Intn(5)])
	case x < 30:
		if d.count > 0 {
			d.updPresent()
		} else {
			d.updNew()
		}
	case x < 30+int(70*fill):
		if !d.updNew() {
			d.updPresent()
		}
	default:
		y := d.rnd.Intn(100)
		switch {
		case d.count == 0 && y < 8:
			d.emptyMustPanic("Pop")
		case d.count == 0 && y < 14:
			d.emptyMustPanic("Peek")
		case d.count == 0 && y < 60:
			d.updNew()
		case d.count == 0 || y >= 88:
			j, _ := d.absentKey(true)
			d.remove(j)
		case y < 45:
			d.pop()
		default:
			d.removePresent()
		}
	}
}

// ---- construction

func (d *pqDriver[K, P]) construct(list []opRec, nilSlice bool) bool {
	d.initial = list
	var arg []xheap.KP[K, P]
	if !nilSlice {
		arg = make([]xheap.KP[K, P], 0, len(list)+d.rnd.Intn(3))
		for _, e := range list {
			arg = append(arg, xheap.KP[K, P]{K: d.keys[e.K], P: d.cfg.priOf(e.P)})
		}
	}
	ok := d.try(func() {
		var q xheap.PriorityQueue[K, P]
		if native := d.cfg.nativeCmp; native != nil && d.ord.name == "asc" {
			d.loc.count("queue construction", "order given as the library function itself (bytes.Compare)")
			if d.ctor == "less" {
				q = xheap.NewPriorityQueue(func(a, b P) bool { return native(a, b) < 0 }, arg)
			} else {
				q = xheap.NewPriorityQueueCmp(native, arg)
			}
		} else if d.ctor == "less" {
			q = xheap.NewPriorityQueue(func(a, b P) bool { return d.ord.less(d.cfg.rawOf(a), d.cfg.rawOf(b)) }, arg)
		} else {
			cmp := cmpFrom(d.ord.less)
			q = xheap.NewPriorityQueueCmp(func(a, b P) int { return cmp(d.cfg.rawOf(a), d.cfg.rawOf(b)) }, arg)
		}
		d.q[0], d.q[1] = q, q
	}, "NewPriorityQueue with %d initial entries", len(list))
	if !ok {
		return false
	}
	// Each distinct key once; its priority is one of those listed for it (the statement does not
	// say which): read it back and adopt it.
	allowed := map[int][]int{}
	var firstSeen []int
	for _, e := range list {
		if _, seen := allowed[e.K]; !seen {
			firstSeen = append(firstSeen, e.K)
		}
		allowed[e.K] = append(allowed[e.K], e.P)
	}
	dups := len(list) - len(firstSeen)
	switch {
	case len(list) == 0 && nilSlice:
		d.loc.count("queue construction", "nil initial list")
	case len(list) == 0:
		d.loc.count("queue construction", "empty initial list")
	case dups > 0:
		d.loc.count("queue construction", "initial list with duplicate keys")
	default:
		d.loc.count("queue construction", "initial list without duplicate keys")
	}
	q := d.q[0]
	var n int
	if !d.try(func() { n = q.Len() }, "Len()") {
		return false
	}
	d.loc.evals++
	if n != len(firstSeen) {
		d.fail("pq-init-len", fmt.Sprintf("built from %d entries naming %d distinct keys: Len() = %d", len(list), len(firstSeen), n))
		return false
	}
	items := make([]sEl, 0, len(firstSeen))
	for _, j := range firstSeen {
		var has bool
		var got P
		if !d.try(func() { has = q.Contains(d.keys[j]); got = q.Priority(d.keys[j]) }, "Contains/Priority(%v)", d.keys[j]) {
			return false
		}
		d.loc.evals += 2
		if !has {
			d.fail("pq-init-contains", fmt.Sprintf("built from a list naming key %v: Contains(%v) = false", d.keys[j], d.keys[j]))
			return false
		}
		which := -1
		for idx, raw := range allowed[j] {
			if d.cfg.eq(d.cfg.priOf(raw), got) {
				which = idx
				break
			}
		}
		if which < 0 {
			d.fail("pq-init-priority", fmt.Sprintf("built from a list giving key %v the priorities %v: Priority(%v) = %v is none of them", d.keys[j], allowed[j], d.keys[j], got))
			return false
		}
		if len(allowed[j]) > 1 {
			if which == 0 {
				d.loc.count("queue construction", "duplicate key kept its first listed priority")
			} else {
				d.loc.count("queue construction", "duplicate key kept a later listed priority")
			}
		}
		d.present[j], d.pri[j] = true, allowed[j][which]
		d.count++
		items = append(items, sEl{j, d.pri[j]})
	}
	d.sh.heapify(items)
	d.loc.op("PQ.New", len(list), clsNone, mvNone)
	d.observe(fmt.Sprintf("construction from %d entries", len(list)))
	return !d.failed
}

// randomList draws an initial list over the universe.
func (d *pqDriver[K, P]) randomList() []opRec {
	var list []opRec
	if d.rnd.Bool(0.3) { // no duplicates
		for _, j := range d.rnd.Perm(d.U)[:d.rnd.Range(1, d.U)] {
			list = append(list, opRec{"", j, vkit.Pick(d.rnd, d.pool)})
		}
		return list
	}
	n := d.rnd.Range(1, 2*d.U+2)
	for i := 0; i < n; i++ {
		list = append(list, opRec{"", d.rnd.Intn(d.U), vkit.Pick(d.rnd, d.pool)})
	}
	return list
}

func (d *pqDriver[K, P]) drain() {
	d.loc.count("histories", "queue: final drain")
	for d.count > 0 && !d.failed {
		d.pop()
	}
	if !d.failed {
		d.emptyMustPanic("Pop")
	}
	if !d.failed {
		d.emptyMustPanic("Peek")
	}
	if !d.failed && d.rnd.Bool(0.5) {
		// still usable after the panics
		d.updNew()
		if !d.failed && d.rnd.Bool(0.5) {
			d.updNew()
		}
		for d.count > 0 && !d.failed {
			d.pop()
		}
	}
}

func runPQ[K comparable, P any](c *vkit.Case, s *posScript, sel int, cfg pqCfg[K, P]) {
	r, rnd := c.R, c.Rand
	d := &pqDriver[K, P]{c: c, r: r, rnd: rnd, loc: newLocal(), cfg: cfg, idxOf: map[K]int{}}
	defer d.loc.flush(r)
	d.ord = orders[sel%len(orders)]
	d.ctor = ctors[(sel/len(orders))%len(ctors)]
	d.pname, d.pool = drawPool(rnd)
	if s != nil && len(d.pool) < 4 {
		d.pname, d.pool = drawPool(rnd) // scripts profit from room above and below
	}
	d.sh = newShadow(d.ord.less)
	d.loc.count("queue configurations", d.ord.name+"/"+d.ctor)
	d.loc.count("queue key/priority types", cfg.name)
	d.loc.count("priority pools", "queue: "+d.pname)
	d.loc.count("histories", "queue ("+c.Group+")")

	if s != nil {
		d.U = s.n + rnd.Intn(3)
	} else {
		us := []int{4, 5, 6, 8, 10, 12, 16, 16, 24, 32}
		if r.Thorough() {
			us = append(us, 48, 64)
		}
		d.U = vkit.Pick(rnd, us)
	}
	d.keys = make([]K, d.U+1)
	for j := range d.keys {
		d.keys[j] = cfg.keyOf(j)
		d.idxOf[d.keys[j]] = j
	}
	d.present = make([]bool, d.U+1)
	d.pri = make([]int, d.U+1)

	if s != nil {
		// Scripted: n keys, then the action on the key at heap index i.
		perm := rnd.Perm(d.U)[:s.n]
		if s.build == "initial" {
			var list []opRec
			for _, j := range perm {
				list = append(list, opRec{"", j, vkit.Pick(rnd, d.pool)})
			}
			if rnd.Bool(0.5) {
				for x := rnd.Range(1, s.n); x > 0; x-- {
					at := rnd.Intn(len(list) + 1)
					e := opRec{"", perm[rnd.Intn(s.n)], vkit.Pick(rnd, d.pool)}
					list = append(list[:at], append([]opRec{e}, list[at:]...)...)
				}
			}
			if !d.construct(list, false) {
				return
			}
		} else {
			if !d.construct(nil, rnd.Bool(0.5)) {
				return
			}
			for _, j := range perm {
				if d.failed {
					return
				}
				d.update(j, vkit.Pick(rnd, d.pool))
			}
		}
		if d.failed || d.sh.len() != s.n {
			return
		}
		j := d.sh.a[s.i].key
		if s.action == "remove" {
			d.remove(j)
		} else {
			d.update(j, d.priFor(d.pri[j], s.action))
		}
		for x := rnd.Intn(5); x > 0 && !d.failed; x-- {
			d.randomOp(0.5)
		}
	} else {
		if rnd.Bool(0.35) {
			if !d.construct(nil, rnd.Bool(0.5)) {
				return
			}
		} else if !d.construct(d.randomList(), false) {
			return
		}
		var nops int
		switch x := rnd.Intn(10); {
		case x < 4:
			nops = rnd.Range(20, 60)
		case x < 8:
			nops = rnd.Range(61, 200)
		default:
			nops = rnd.Range(201, r.Scale(400, 1500))
		}
		fills := []float64{0.1, 0.3, 0.5, 0.7, 0.9}
		fill := vkit.Pick(rnd, fills)
		phaseLeft := rnd.Range(5, nops)
		for i := 0; i < nops && !d.failed; i++ {
			if phaseLeft == 0 {
				fill = vkit.Pick(rnd, fills)
				phaseLeft = rnd.Range(5, nops)
			}
			phaseLeft--
			d.randomOp(fill)
		}
	}
	d.loc.max("sizes", "queue keys held", d.maxSize)
	d.loc.max("sizes", "queue history operations", len(d.ops))

	// How well does the shadow mirror the real array? (recorded, never judged)
	if !d.failed {
		var got []int
		p := vkit.Try(func() {
			it := d.q[0].Iterate()
			for {
				k, ok := it.Next()
				if !ok {
					return
				}
				j, known := d.idxOf[k]
				if !known {
					j = -1
				}
				got = append(got, j)
			}
		})
		d.loc.count("shadow", "queue: "+agreement(p, got, d.sh.keys()))
	}
	if !d.failed && (s != nil || rnd.Bool(0.85)) {
		d.drain()
	}
	if !d.failed && c.Index < 2 && r.WantSample() {
		first := d.ops
		if len(first) > 40 {
			first = first[:40]
		}
		r.Sample(map[string]any{"case": c.ID(), "structure": "PriorityQueue", "types": cfg.name, "order": d.ord.name, "constructor": d.ctor,
			"pool": d.pool, "universe": d.U, "initial(key index,raw priority)": d.initial, "n_ops": len(d.ops),
			"first_ops(op,key index,raw priority|arg)": first})
	}
}
