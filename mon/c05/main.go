// C05 — xheap.Heap and xheap.PriorityQueue always hand out a minimum; the key map stays exact.
//
// Oracle: reference-model monitor.
//   - Heap: elements {Pri, ID} ordered on Pri only (many ties; the IDs make the multiset exact).
//     Model = multiset. Len exact; Peek returns a held element that no held element is less than;
//     Pop likewise and removes that ID; a final drain is non-decreasing and returns exactly the
//     multiset; Pop/Peek on empty panic and leave everything intact; Grow/Shrink change nothing.
//   - PriorityQueue: model map key -> priority. After EVERY step a full observation: Len,
//     Contains(k) and Priority(k) for every key of the universe (present and absent, plus a key that is
//     never inserted), Peek in argmin (or a panic when empty). Pop in argmin and deletes; Remove of
//     present / absent keys; Update of new / present keys to lower / higher / equivalent / same
//     priority; construction from initial lists with duplicate keys (each distinct key once,
//     Priority(k) one of the priorities listed for k).
//
// Key / priority / element types include ones that are NOT comparable with == (P = []byte ordered
// by bytes.Compare itself, P = struct holding a slice, P = any holding ints and slices; T = []int
// ordered by sum, T = any); the model compares them with a deep equality supplied per type.
//
// Orders are given as less (New, NewPriorityQueue) and as compare (NewCmp, NewPriorityQueueCmp),
// ascending, descending (reversed) and coarse (many priorities equivalent).
//
// A shadow array-heap (shadow.go) chooses targets by heap position class and labels the evidence;
// it never judges.
package main

import (
	"fmt"
	"runtime"
	"sort"
	"sync"
	"time"

	"verif/vkit"
)

func main() {
	vkit.Main("C05", "exploration", func(r *vkit.Report) {
		r.SetRule("case = one operation history on one Heap or PriorityQueue (order x constructor x key/priority types x priority pool), " +
			"generated from the seed; every return value is compared with a multiset / map model, and for queues a full observation " +
			"(Len, Contains and Priority of every key of the universe, Peek) follows every step. " +
			"distinct_nontrivial = distinct (operation, heap-size bucket, heap position class of the target, re-seated element moved up/down/stayed) " +
			"tuples executed, position and movement as inferred by a shadow array-heap that replays the textbook algorithm " +
			"(used only to choose targets and to label, never to judge; its agreement with the real array order seen through Iterate() is recorded).")
		r.Assume("the order given to the heap / queue is a strict weak order (all generated ones are)")
		r.Assume("Priority(k) of an absent key is the zero value of P (package documentation; DESIGN C05)")
		r.Assume("for a key listed several times in the initial slice, any of the listed priorities is accepted")
		r.Assume("which of several minimal elements Peek/Pop hand out is not judged; Iterate() is not judged here (C15)")
		r.Assume("Grow / Shrink are called with n >= 0 only")
		r.Assume("priorities and heap elements are compared by a deep equality supplied per type (P and T need not be comparable with ==; K is)")
		run(r)
	})
}

// ---------------------------------------------------------------------------------------------
// Orders, constructors, priority pools

type order struct {
	name string
	less func(a, b int) bool // on raw int priorities
}

func iabs(a int) int {
	if a < 0 {
		return -a
	}
	return a
}

var orders = []order{
	{"asc", func(a, b int) bool { return a < b }},
	{"desc(reversed)", func(a, b int) bool { return a > b }},
	{"coarse(p>>2)", func(a, b int) bool { return a>>2 < b>>2 }},
	{"coarse-desc(p>>2)", func(a, b int) bool { return a>>2 > b>>2 }},
	{"coarse(|p|)", func(a, b int) bool { return iabs(a) < iabs(b) }},
}

var ctors = []string{"less", "cmp"}

// cmpFrom turns a less into a three-way compare with magnitudes other than 1.
func cmpFrom(less func(a, b int) bool) func(a, b int) int {
	return func(a, b int) int {
		if less(a, b) {
			return -7
		}
		if less(b, a) {
			return 3
		}
		return 0
	}
}

var poolNames = [...]string{"1 value", "2 values", "3 values", "4 values", "wide", "wide-distinct"}

// drawPool returns the priorities a history draws from.
func drawPool(rnd *vkit.Rand) (string, []int) {
	kind := rnd.Weighted([]int{1, 3, 3, 3, 5, 5})
	var pool []int
	switch kind {
	case 0, 1, 2, 3:
		seen := map[int]bool{}
		for len(pool) < kind+1 {
			v := rnd.Range(1, 12)
			if rnd.Bool(0.15) {
				v = -v
			}
			if !seen[v] {
				seen[v] = true
				pool = append(pool, v)
			}
		}
	case 4:
		for i := 0; i < 48; i++ {
			pool = append(pool, rnd.Range(-60, 60))
		}
	default:
		base := rnd.Range(-100, 1)
		for _, v := range rnd.Perm(200)[:64] {
			pool = append(pool, base+v)
		}
	}
	return poolNames[kind], pool
}

// extreme returns a pool value that no pool value is less than (min) / that is less than no pool value (max).
func extreme(pool []int, less func(a, b int) bool, max bool) int {
	best := pool[0]
	for _, v := range pool[1:] {
		if (!max && less(v, best)) || (max && less(best, v)) {
			best = v
		}
	}
	return best
}

// relation candidates of the pool relative to cur
func candidates(pool []int, less func(a, b int) bool, cur int, rel string) []int {
	var out []int
	for _, v := range pool {
		switch rel {
		case "lower":
			if less(v, cur) {
				out = append(out, v)
			}
		case "higher":
			if less(cur, v) {
				out = append(out, v)
			}
		case "equivalent":
			if v != cur && !less(v, cur) && !less(cur, v) {
				out = append(out, v)
			}
		}
	}
	return out
}

// ---------------------------------------------------------------------------------------------
// Per-case counters (flushed once per case: the Report is shared by all workers)

type opRec struct {
	Op string `json:"op"`
	K  int    `json:"k"` // key index / element id; -1 when the operation has none
	P  int    `json:"p"` // raw priority / argument
}

type tup struct {
	op      string
	bucket  uint8
	cls, mv uint8
}

var bucketName = [...]string{"0", "1", "2", "3", "4-7", "8-15", "16-31", "32-63", "64-255", "256-4095", "4096-65535", "65536+"}

func bucketOf(n int) uint8 {
	switch {
	case n <= 3:
		return uint8(n)
	case n < 8:
		return 4
	case n < 16:
		return 5
	case n < 32:
		return 6
	case n < 64:
		return 7
	case n < 256:
		return 8
	case n < 4096:
		return 9
	case n < 65536:
		return 10
	}
	return 11
}

type local struct {
	evals  int
	counts map[[2]string]int
	maxes  map[[2]string]int
	tups   map[tup]struct{}
}

func newLocal() *local {
	return &local{counts: map[[2]string]int{}, maxes: map[[2]string]int{}, tups: map[tup]struct{}{}}
}

func (l *local) count(table, key string) { l.counts[[2]string{table, key}]++ }
func (l *local) max(table, key string, v int) {
	k := [2]string{table, key}
	if v > l.maxes[k] {
		l.maxes[k] = v
	}
}

// op records one executed operation: n = size before it, cls/mv from the shadow.
func (l *local) op(name string, n int, cls, mv uint8) {
	l.tups[tup{name, bucketOf(n), cls, mv}] = struct{}{}
	l.count("ops", name)
	if cls != clsNone {
		l.count("target position class", name+" @"+clsName[cls])
	}
	if mv != mvNone {
		l.count("re-seated element moved", name+" "+mvName[mv])
	}
}

func (l *local) flush(r *vkit.Report) {
	r.Eval(l.evals)
	for k, v := range l.counts {
		r.Count(k[0], k[1], v)
	}
	for k, v := range l.maxes {
		r.Max(k[0], k[1], v)
	}
	for t := range l.tups {
		r.Distinct(fmt.Sprintf("%s|n=%s|%s|%s", t.op, bucketName[t.bucket], clsName[t.cls], mvName[t.mv]))
	}
}

// violating cases per group (so that a validation run can say after how many cases a break showed)
var violTrack struct {
	sync.Mutex
	n     map[string]int
	first map[string]int
}

func noteViolation(c *vkit.Case) {
	violTrack.Lock()
	defer violTrack.Unlock()
	if violTrack.n == nil {
		violTrack.n = map[string]int{}
		violTrack.first = map[string]int{}
	}
	violTrack.n[c.Group]++
	if f, ok := violTrack.first[c.Group]; !ok || c.Index < f {
		violTrack.first[c.Group] = c.Index
	}
}

func capOps(ops []opRec) any {
	const keep = 4000
	if len(ops) <= keep {
		return ops
	}
	return map[string]any{"dropped_leading_ops": len(ops) - keep, "ops": ops[len(ops)-keep:]}
}

// ---------------------------------------------------------------------------------------------

func run(r *vkit.Report) {
	workers := runtime.GOMAXPROCS(0)
	nHeap := r.Scale(7000, 60000)
	nPQ := r.Scale(9000, 90000)
	posReps := r.Scale(3, 20)
	nPos := len(posScripts) * posReps

	// large histories first: they are the longest cases
	nLarge := r.Scale(48, 288)
	nThr := r.Scale(thrMaxK*12, thrMaxK*12*4)
	wall := map[string]float64{} // recorded only (never judged)
	timed := func(group string, n int, fn func(c *vkit.Case)) {
		t0 := time.Now()
		r.Cases(group, n, workers, fn)
		wall[group] = float64(time.Since(t0).Milliseconds()) / 1000
	}
	ics := initCases(r.Thorough())
	nGrow := r.Scale(72, 288)
	scs := spineCases(r.Thorough())
	timed("spine", len(scs), func(c *vkit.Case) { runSpine(c, scs) })
	timed("init", len(ics), func(c *vkit.Case) { runInit(c, ics) })
	timed("large", nLarge, runLarge)
	timed("thr", nThr, runThr)
	timed("grow", nGrow, runGrow)
	timed("heap", nHeap, runHeap)
	timed("pq", nPQ, func(c *vkit.Case) { runPQCase(c, nil) })
	timed("pos", nPos, func(c *vkit.Case) {
		s := posScripts[c.Index%len(posScripts)]
		runPQCase(c, &s)
	})
	r.SetExtra("wall_s_by_group(informational)", wall)

	violTrack.Lock()
	if len(violTrack.n) > 0 {
		out := map[string]any{}
		var gs []string
		for g := range violTrack.n {
			gs = append(gs, g)
		}
		sort.Strings(gs)
		for _, g := range gs {
			out[g] = map[string]int{"violating_cases": violTrack.n[g], "first_violating_case_index": violTrack.first[g]}
		}
		r.SetExtra("violating_cases_by_group", out)
	}
	violTrack.Unlock()
	r.SetExtra("histories", map[string]int{"spine (position-targeted Remove/Update above 2^17 keys; heap size parity)": len(scs), "init (constructed from initial slices up to 300000 items)": len(ics), "grow (Grow/Shrink sweeps)": nGrow, "large (up to 70000+ items)": nLarge, "thr (size boundaries 2^k-1, 2^k, 2^k+1, k <= 16)": nThr, "heap": nHeap, "pq": nPQ, "pos (every size 1..16 x every index x action x build)": nPos})

	// Coverage floors: sums over the whole (seed-determined) case list.
	q := int64(1)
	if r.Thorough() {
		q = 10
	}
	fl := func(name, table, key string, want int64) { r.Floor(name, r.Table(table, key), want*q) }
	for _, what := range []string{"Heap", "PQ"} {
		r.Floor("largest "+what+" held in a large history", r.Table("max:sizes", "large "+what+" items held"), 70000)
		r.Floor("largest "+what+" held in the boundary sweep", r.Table("max:sizes", "thr "+what+" items held"), 2*(1<<thrMaxK))
		for _, size := range []int{1000, 4096, 8192, 20000} {
			r.Floor(fmt.Sprintf("large %s histories that reached the plateau %d", what, size), r.Table("large: plateaus reached", fmt.Sprintf("%s %d", what, size)), int64(r.Scale(20, 100)))
		}
		fl("large "+what+" histories that reached the plateau 70000", "large: plateaus reached", what+" 70000", 3)
		fl("new strict minimum inserted into a "+what+" holding >= 4095", "large: new strict minimum inserted", what+" holding >= 4095", 200)
		fl(what+" Pop directly followed by an insert while holding >= 4096", "large: Pop directly followed by an insert", what+" holding >= 4096", 50000)
	}
	big := "spine: targeted operations (n > 2^17: true)"
	for _, cls := range []string{"index 2^d-1", "index 2^d-2", "last slot", "root", "parent of the last slot"} {
		for _, op := range []string{"min", "remove"} {
			r.Floor("queue above 2^17 keys: "+op+" @ "+cls, r.Table(big, op+" @ "+cls), 6)
		}
	}
	r.Floor("queue above 2^17 keys: max @ index 2^d-1", r.Table(big, "max @ index 2^d-1"), 50)
	r.Floor("queue above 2^17 keys: remove @ parent of the last slot (single left child)", r.Table(big, "remove @ parent of the last slot (single left child)"), 100)
	r.Floor("queue above 2^17 keys: remove @ ancestor on the smaller-child path to the parent of the last slot", r.Table(big, "remove @ ancestor whose smaller-child path leads to the parent of the last slot"), 30)
	r.Floor("index snapshots through Iterate() usable", r.Table("spine: index snapshots through Iterate()", "usable"), 500)
	r.Floor("largest queue in the position-targeted group", r.Table("max:sizes", "spine PQ keys held"), 270000)
	r.Floor("largest heap in the size-parity group", r.Table("max:sizes", "spine Heap items held"), 269990)
	for _, n := range initBig {
		r.Floor(fmt.Sprintf("heaps / queues constructed from an initial slice of %d items", n), r.Table("init: constructed from an initial slice of size", fmt.Sprint(n)), 4)
	}
	for k := 1; k <= 16; k++ {
		for _, n := range []int{1<<k - 1, 1 << k, 1<<k + 1} {
			r.Floor(fmt.Sprintf("heaps / queues constructed from an initial slice of %d items", n), r.Table("init: constructed from an initial slice of size", fmt.Sprint(n)), 4)
		}
	}
	for _, what := range []string{"Heap", "PQ"} {
		for _, content := range initContents {
			r.Floor("big initial slices with contents "+content+" ("+what+")", r.Table("init: contents", what+" "+content), 8)
		}
		r.Floor(what+" Grow(n) with n at 2^k-1, 2^k, 2^k+1 (k <= 18)", r.Table("grow: "+what+".Grow(n) with n at", "2^k-1, 2^k, 2^k+1"), 57*30)
	}
	r.Floor("Heap Shrink(n) with n at 2^k-1, 2^k, 2^k+1 (k <= 18)", r.Table("grow: Heap.Shrink(n) with n at", "2^k-1, 2^k, 2^k+1"), 57*30)
	for k := 1; k <= thrMaxK; k++ {
		got := int64(1 << 62)
		for _, n := range []int{1<<k - 1, 1 << k, 1<<k + 1} {
			if v := r.Table("thr: boundary sizes", fmt.Sprint(n)); v < got {
				got = v
			}
		}
		want := int64(12) // every configuration once
		if r.Thorough() {
			want = 40
		} else if k >= 15 {
			want = 4
		}
		r.Floor(fmt.Sprintf("boundary sweep at each of the sizes 2^%d-1, 2^%d, 2^%d+1", k, k, k), got, want)
	}
	for _, cls := range []string{"only", "first", "last", "leaf", "inner"} {
		fl("queue Remove of the key at heap position "+cls, "target position class", "PQ.Remove-present @"+cls, 300)
		var upd int64
		for _, rel := range []string{"lower", "higher", "equivalent", "same"} {
			upd += r.Table("target position class", "PQ.Update-present-"+rel+" @"+cls)
		}
		r.Floor("queue Update of the key at heap position "+cls, upd, 300*q)
	}
	for _, rel := range []string{"lower", "higher", "equivalent", "same"} {
		fl("queue Update of a present key to a "+rel+" priority", "ops", "PQ.Update-present-"+rel, 500)
	}
	fl("queue Remove whose replacement moved up", "re-seated element moved", "PQ.Remove-present up", 200)
	fl("queue Remove whose replacement moved down", "re-seated element moved", "PQ.Remove-present down", 200)
	fl("queue Update that moved the key up", "re-seated element moved", "PQ.Update-present-lower up", 200)
	fl("queue Update that moved the key down", "re-seated element moved", "PQ.Update-present-higher down", 200)
	fl("queue Remove of an absent key", "ops", "PQ.Remove-absent", 500)
	fl("queue Update of a new key", "ops", "PQ.Update-new", 2000)
	fl("queue Pop", "ops", "PQ.Pop", 2000)
	fl("queue Pop on empty panicked", "expected panics", "PQ.Pop on empty", 200)
	fl("queue Peek on empty panicked", "expected panics", "PQ.Peek on empty", 200)
	fl("heap Pop on empty panicked", "expected panics", "Heap.Pop on empty", 200)
	fl("heap Peek on empty panicked", "expected panics", "Heap.Peek on empty", 200)
	fl("queues built from an initial list with duplicate keys", "queue construction", "initial list with duplicate keys", 500)
	fl("heaps built from a non-empty initial slice", "heap construction", "non-empty initial slice", 500)
	fl("heap Pop interleaved with Push (a Push after a Pop in the same history)", "histories", "heap: Push after Pop", 1000)
	fl("heap Grow", "ops", "Heap.Grow", 200)
	fl("heap Shrink", "ops", "Heap.Shrink", 200)
	fl("queue Grow", "ops", "PQ.Grow", 200)
	for _, t := range []string{"K=int,P=int", "K=string,P=int", "K=struct,P=struct", "K=int,P=float64",
		"K=string,P=[]byte", "K=int,P=struct{w []int; n int}", "K=struct,P=any(int|[]int)"} {
		fl("queue histories with types "+t, "queue key/priority types", t, 500)
		fl("queue Update of a present key with types "+t, "queue Update of a present key by types", t, 5000)
	}
	for _, t := range []string{"T=struct", "T=[]int by sum", "T=any(struct|[]int)"} {
		fl("heap histories with element type "+t, "heap element types", t, 500)
	}
	fl("queues ordered by bytes.Compare itself", "queue construction", "order given as the library function itself (bytes.Compare)", 50)
	for _, o := range orders {
		for _, ct := range ctors {
			fl("heap histories with order "+o.name+" given as "+ct, "heap configurations", o.name+"/"+ct, 100)
			fl("queue histories with order "+o.name+" given as "+ct, "queue configurations", o.name+"/"+ct, 100)
		}
	}
}
