package main

// LARGE histories and the size-boundary sweep.
//
// The "heap" / "pq" / "pos" groups keep at most a few hundred (thorough: ~1200) items. The groups in
// this file hold up to 70 000+ items in a Heap and in a PriorityQueue, so that any behaviour that
// depends on the size of the array (a different sift above some length, growth steps, ...) is
// exercised:
//
//   - "large": fill to the plateaus 1000, 4096, 8192, 20000 (a third of the cases: 70000) in
//     ascending / descending / random / tied priority order; at every plateau new strict minima and
//     maxima are inserted and a long mixed phase hovers around the size (Pop is mostly followed by
//     an insert, not by another Pop); full drains in between.
//   - "thr": for every k <= 16 and every size 2^k-1, 2^k, 2^k+1: build, Pop, insert a new maximum,
//     insert a new strict minimum, Pop, insert, grow to twice the size, drain.
//
// The model is O(log n) per step: the multiset of held priorities is a counted map plus a
// container/heap (standard library) of the distinct priorities with lazy deletion; an element /
// key is minimal iff the least held priority is not less than its priority. Len, Peek and every
// Pop are judged on EVERY step; the full read-back of a queue (Contains / Priority of every key) is
// thinned to every ~1000+ steps, with the touched key and a random key read back on every step.

import (
	"container/heap"
	"fmt"

	"github.com/bradenaw/juniper/container/xheap"

	"verif/vkit"
)

// ---- reference multiset of priorities

type rawHeap struct {
	a    []int
	less func(a, b int) bool
}

func (h *rawHeap) Len() int           { return len(h.a) }
func (h *rawHeap) Less(i, j int) bool { return h.less(h.a[i], h.a[j]) }
func (h *rawHeap) Swap(i, j int)      { h.a[i], h.a[j] = h.a[j], h.a[i] }
func (h *rawHeap) Push(x any)         { h.a = append(h.a, x.(int)) }
func (h *rawHeap) Pop() any {
	x := h.a[len(h.a)-1]
	h.a = h.a[:len(h.a)-1]
	return x
}

type prioModel struct {
	less func(a, b int) bool
	cnt  map[int]int
	in   map[int]bool
	h    rawHeap
	n    int
}

func newPrioModel(less func(a, b int) bool) *prioModel {
	return &prioModel{less: less, cnt: map[int]int{}, in: map[int]bool{}, h: rawHeap{less: less}}
}

func (m *prioModel) add(raw int) {
	m.n++
	m.cnt[raw]++
	if !m.in[raw] {
		m.in[raw] = true
		heap.Push(&m.h, raw)
	}
}

func (m *prioModel) del(raw int) {
	m.n--
	if c := m.cnt[raw] - 1; c == 0 {
		delete(m.cnt, raw)
	} else {
		m.cnt[raw] = c
	}
}

// min returns a least held priority; n must be > 0.
func (m *prioModel) min() int {
	for {
		top := m.h.a[0]
		if m.cnt[top] > 0 {
			return top
		}
		heap.Pop(&m.h)
		delete(m.in, top)
	}
}

// lessThan returns a held priority that is less than x, if any.
func (m *prioModel) lessThan(x int) (int, bool) {
	if m.n == 0 {
		return 0, false
	}
	if mn := m.min(); m.less(mn, x) {
		return mn, true
	}
	return 0, false
}

// ---- orders with strict successors

type lorder struct {
	order
	below, above func(x int) int // strictly less / greater under the order
	rank         func(i int) int // non-decreasing under the order in i
}

var lorders = []lorder{
	{orders[0], func(x int) int { return x - 1 }, func(x int) int { return x + 1 }, func(i int) int { return i }},
	{orders[1], func(x int) int { return x + 1 }, func(x int) int { return x - 1 }, func(i int) int { return -i }},
	{orders[2], func(x int) int { return x - 4 }, func(x int) int { return x + 4 }, func(i int) int { return i }}, // ties in fours
}

var fillModes = []string{"ascending", "descending", "random", "tied"}

// ---- what both structures share

type largeBase struct {
	c      *vkit.Case
	r      *vkit.Report
	rnd    *vkit.Rand
	loc    *local
	what   string // "Heap" | "PQ"
	ord    lorder
	ctor   string
	mode   string
	pm     *prioModel
	lo, hi int // least / greatest priority ever inserted (under the order)
	seen   bool
	ctr    int
	ctrLo  int
	ctrHi  int
	pool   []int
	plan   []string
	last   [48]opRec
	steps  int
	failed bool
	// pops that were directly followed by an insert while >= 4096 items were held
	justPopped bool
	opCnt      map[string]*[len(bucketName)]int
}

// op counts an executed operation by size bucket (flushed into the evidence at the end).
func (b *largeBase) op(name string, n int) {
	a := b.opCnt[name]
	if a == nil {
		a = new([len(bucketName)]int)
		b.opCnt[name] = a
	}
	a[bucketOf(n)]++
}

func (b *largeBase) flush() {
	for name, a := range b.opCnt {
		for bk, v := range a {
			if v > 0 {
				b.loc.tups[tup{name, uint8(bk), clsNone, mvNone}] = struct{}{}
				b.loc.counts[[2]string{"ops", name}] += v
				b.loc.counts[[2]string{"large: operations by held size", name + " n=" + bucketName[bk]}] += v
			}
		}
	}
	b.loc.flush(b.r)
}

func (b *largeBase) rec(op string, k, p int) {
	b.last[b.steps%len(b.last)] = opRec{op, k, p}
	b.steps++
}

func (b *largeBase) lastOps() []opRec {
	var out []opRec
	n := len(b.last)
	for i := b.steps - n; i < b.steps; i++ {
		if i >= 0 {
			out = append(out, b.last[i%n])
		}
	}
	return out
}

func (b *largeBase) fail(sig, what string) {
	if b.failed {
		return
	}
	b.failed = true
	noteViolation(b.c)
	b.c.Violation(sig, fmt.Sprintf("%s[large, order %s given as %s, %s fill]: %s", b.what, b.ord.name, b.ctor, b.mode, what), map[string]any{
		"structure": b.what, "order": b.ord.name, "constructor": b.ctor, "fill": b.mode, "plan_so_far": b.plan,
		"steps": b.steps, "held": b.pm.n, "last_ops(op,id|key,priority)": b.lastOps(),
		"replay": "the case is regenerated from (seed, case id): VERIF_CASE / check.sh --replay",
	})
}

func (b *largeBase) note(raw int) {
	if !b.seen {
		b.lo, b.hi, b.seen = raw, raw, true
		return
	}
	if b.ord.less(raw, b.lo) {
		b.lo = raw
	}
	if b.ord.less(b.hi, raw) {
		b.hi = raw
	}
}

func (b *largeBase) newMin() int {
	if !b.seen {
		return 0
	}
	return b.ord.below(b.lo)
}

func (b *largeBase) newMax() int {
	if !b.seen {
		return 0
	}
	return b.ord.above(b.hi)
}

// nextPri draws the next priority: by the fill mode while filling, anywhere in the range seen so
// far while hovering.
func (b *largeBase) nextPri(filling bool) int {
	switch b.mode {
	case "tied":
		return vkit.Pick(b.rnd, b.pool)
	case "random":
		return b.rnd.Intn(1<<20) - 1<<19
	case "ascending":
		if filling {
			b.ctrHi++
			return b.ord.rank(b.ctrHi)
		}
	default:
		if filling {
			b.ctrLo--
			return b.ord.rank(b.ctrLo)
		}
	}
	return b.ord.rank(b.rnd.Range(b.ctrLo, b.ctrHi))
}

// sut is what the plan runner drives.
type sut interface {
	size() int
	build(pris []int, viaCtor bool) // construct with these priorities
	insert(raw int)                 // Push / Update of a new key
	popMin() (raw int, ok bool)     // Pop; ok=false after a violation
	mutate()                        // queue: Update of a present key or Remove; heap: nothing
	readback(why string)            // queue: full read-back; heap: nothing
	emptyPanics()
}

func (b *largeBase) plateau(s sut, size int) {
	b.loc.count("large: plateaus reached", fmt.Sprintf("%s %d", b.what, size))
	b.loc.max("sizes", "large "+b.what+" items held", s.size())
}

func (b *largeBase) minMax(s sut) {
	if b.failed {
		return
	}
	n := s.size()
	s.insert(b.newMin())
	if n >= 4095 {
		b.loc.count("large: new strict minimum inserted", b.what+" holding >= 4095")
	} else {
		b.loc.count("large: new strict minimum inserted", b.what+" holding < 4095")
	}
	if !b.failed {
		s.insert(b.newMax())
	}
}

func (b *largeBase) fillTo(s sut, size int) {
	b.plan = append(b.plan, fmt.Sprintf("fill %s to %d", b.mode, size))
	for s.size() < size && !b.failed {
		s.insert(b.nextPri(true))
	}
	b.plateau(s, size)
	s.readback(fmt.Sprintf("the fill to %d", size))
}

func (b *largeBase) hover(s sut, size, steps int) {
	b.plan = append(b.plan, fmt.Sprintf("hover around %d for %d steps", size+120, steps))
	for i := 0; i < steps && !b.failed; i++ {
		n := s.size()
		x := b.rnd.Intn(100)
		switch {
		case n <= size+20:
			x = 50
		case n >= size+220:
			x = 0
		}
		switch {
		case x < 45:
			s.popMin()
		case x < 90:
			s.insert(b.nextPri(false))
		default:
			s.mutate()
		}
		if i%(steps/3+1) == steps/6 {
			b.minMax(s)
		}
	}
	b.loc.max("sizes", "large "+b.what+" items held", s.size())
}

func (b *largeBase) drain(s sut) {
	b.plan = append(b.plan, fmt.Sprintf("drain %d", s.size()))
	b.loc.count("large: full drains", fmt.Sprintf("%s from %s", b.what, bucketName[bucketOf(s.size())]))
	first := true
	prev := 0
	for s.size() > 0 && !b.failed {
		raw, ok := s.popMin()
		if !ok {
			return
		}
		b.loc.evals++
		if !first && b.ord.less(raw, prev) {
			b.fail("large-drain-order", fmt.Sprintf("drain handed out priority %d after %d, which is greater", raw, prev))
			return
		}
		first, prev = false, raw
	}
	if !b.failed {
		s.emptyPanics()
	}
}

func newLargeBase(c *vkit.Case, what string, sel int) largeBase {
	b := largeBase{c: c, r: c.R, rnd: c.Rand, loc: newLocal(), what: what, opCnt: map[string]*[len(bucketName)]int{}}
	b.ctor = ctors[sel%2]
	b.ord = lorders[(sel/2)%len(lorders)]
	b.mode = fillModes[(sel/6)%len(fillModes)]
	b.pm = newPrioModel(b.ord.less)
	for len(b.pool) < 3 {
		b.pool = append(b.pool, b.rnd.Range(-40, 40))
	}
	b.loc.count("large: configurations", fmt.Sprintf("%s order %s given as %s", what, b.ord.name, b.ctor))
	b.loc.count("large: fill orders", what+" "+b.mode)
	return b
}

// ---- group "large"

func runLarge(c *vkit.Case) {
	what := []string{"Heap", "PQ"}[c.Index%2]
	sel := c.Index / 2 // ctor x order x fill = 24 combinations
	top := 20000
	if m := c.Index % 12; m == 0 || m == 7 {
		top = 70000
	}
	if c.R.Thorough() && c.Index%4 == 1 {
		top = 150000
	}
	var b *largeBase
	var s sut
	if what == "Heap" {
		h := &largeHeap{largeBase: newLargeBase(c, what, sel)}
		b, s = &h.largeBase, h
	} else {
		q := &largePQ{largeBase: newLargeBase(c, what, sel), U: top + top/4 + 600}
		b, s = &q.largeBase, q
	}
	defer b.flush()
	b.loc.count("histories", "large "+what)
	rnd := b.rnd
	hov := func() int { return rnd.Range(c.R.Scale(3000, 20000), c.R.Scale(7000, 50000)) }

	s.build(nil, rnd.Bool(0.5))
	for _, size := range []int{1000, 4096, 8192, 20000, 70000, 150000} {
		if size > top || b.failed {
			break
		}
		b.fillTo(s, size)
		b.minMax(s)
		if size >= 70000 {
			b.hover(s, size, hov()/2)
		} else {
			b.hover(s, size, hov())
		}
		b.minMax(s)
	}
	if !b.failed {
		b.drain(s)
	}
	// second ascent after the drain, other sizes
	for _, size := range []int{rnd.Range(4100, 6000)} {
		if b.failed {
			break
		}
		b.fillTo(s, size)
		b.minMax(s)
		b.hover(s, size, hov())
	}
	if !b.failed {
		b.fillTo(s, 2*s.size())
		s.readback("the final fill")
		b.drain(s)
	}
	if !b.failed && c.Index < 2 && c.R.WantSample() {
		c.R.Sample(map[string]any{"case": c.ID(), "structure": what, "order": b.ord.name, "constructor": b.ctor, "fill": b.mode,
			"plan": b.plan, "steps": b.steps})
	}
}

// ---- group "thr": every size boundary 2^k-1, 2^k, 2^k+1

const thrMaxK = 16

func runThr(c *vkit.Case) {
	k := thrMaxK - c.Index%thrMaxK // biggest first
	rest := c.Index / thrMaxK
	if k >= 15 && !c.R.Thorough() && (rest/4+rest)%3 != 0 {
		// quick: the two biggest boundaries for a third of the configurations (each structure and
		// constructor still gets them); thorough: for all
		k -= 8
	}
	what := []string{"Heap", "PQ"}[rest%2]
	sel := rest / 2 // ctor x order (x fill, overridden below)
	modes := []string{"ascending", fillModes[1+(rest+k)%3]}
	if k >= 15 { // the two biggest: one fill order per case
		x := (rest/2 + rest/4) % 2
		modes = modes[x : x+1]
	}
	for _, n := range []int{1<<k - 1, 1 << k, 1<<k + 1} {
		for _, mode := range modes {
			var b *largeBase
			var s sut
			if what == "Heap" {
				h := &largeHeap{largeBase: newLargeBase(c, what, sel)}
				b, s = &h.largeBase, h
			} else {
				q := &largePQ{largeBase: newLargeBase(c, what, sel), U: 2*n + 16}
				b, s = &q.largeBase, q
			}
			b.mode = mode
			b.loc.count("histories", "thr "+what)
			b.loc.count("thr: boundary sizes", fmt.Sprint(n))
			pris := make([]int, n)
			for i := range pris {
				pris[i] = b.nextPri(true)
			}
			viaCtor := b.rnd.Bool(0.5)
			b.plan = append(b.plan, fmt.Sprintf("build %d %s (constructor=%v); Pop; insert max; insert strict min; Pop; insert; grow to %d; drain", n, mode, viaCtor, 2*n+2))
			s.build(pris, viaCtor)
			if !b.failed {
				s.popMin()
			}
			if !b.failed {
				s.insert(b.newMax())
			}
			if !b.failed {
				s.insert(b.newMin())
			}
			if !b.failed {
				s.popMin()
			}
			if !b.failed {
				s.insert(b.nextPri(false))
			}
			for i := 0; i < n && !b.failed; i++ {
				s.insert(b.nextPri(true))
			}
			s.readback("the growth")
			b.loc.max("sizes", "thr "+what+" items held", s.size())
			if !b.failed {
				b.drain(s)
			}
			b.flush()
			if b.failed {
				return
			}
		}
	}
}

// ---------------------------------------------------------------------------------------------
// Heap

type largeHeap struct {
	largeBase
	h    xheap.Heap[el]
	pri  []int  // by id
	held []bool // by id
	n    int
}

func (d *largeHeap) size() int { return d.n }

func (d *largeHeap) try(call string, f func()) bool {
	if p := vkit.Try(f); p != nil {
		d.fail("large-heap-panic", fmt.Sprintf("%s panicked with %d elements held: %s (in %s)", call, d.n, p.Msg, p.JuniperFrame()))
		return false
	}
	return true
}

func (d *largeHeap) newEl(raw int) el {
	x := el{raw, len(d.pri)}
	d.pri = append(d.pri, raw)
	d.held = append(d.held, true)
	d.n++
	d.pm.add(raw)
	d.note(raw)
	return x
}

func (d *largeHeap) isHeld(x el) bool {
	return x.ID >= 0 && x.ID < len(d.pri) && d.held[x.ID] && d.pri[x.ID] == x.Pri
}

func (d *largeHeap) build(pris []int, viaCtor bool) {
	var arg []el
	var rest []int
	if viaCtor {
		for _, raw := range pris {
			arg = append(arg, d.newEl(raw))
		}
	} else {
		rest = pris
	}
	if !d.try("New", func() {
		if d.ctor == "less" {
			d.h = xheap.New(func(a, b el) bool { return d.ord.less(a.Pri, b.Pri) }, arg)
		} else {
			cmp := cmpFrom(d.ord.less)
			d.h = xheap.NewCmp(func(a, b el) int { return cmp(a.Pri, b.Pri) }, arg)
		}
	}) {
		return
	}
	d.op("Large.Heap.New", len(arg))
	d.check("New")
	for _, raw := range rest {
		if d.failed {
			return
		}
		d.insert(raw)
	}
}

// check: Len and Peek after every step.
func (d *largeHeap) check(after string) {
	if d.failed {
		return
	}
	var n int
	var top el
	if !d.try("Len/Peek", func() {
		n = d.h.Len()
		if d.n > 0 {
			top = d.h.Peek()
		}
	}) {
		return
	}
	d.loc.evals++
	if n != d.n {
		d.fail("large-heap-len", fmt.Sprintf("Len() = %d after %s, the multiset holds %d", n, after, d.n))
		return
	}
	if d.n == 0 {
		return
	}
	d.loc.evals++
	if !d.isHeld(top) {
		d.fail("large-heap-peek-not-held", fmt.Sprintf("Peek() = %+v after %s, which is not among the %d held elements", top, after, d.n))
		return
	}
	if w, bad := d.pm.lessThan(top.Pri); bad {
		d.fail("large-heap-peek-not-min", fmt.Sprintf("Peek() = %+v after %s with %d elements held, but an element with the lesser priority %d is held", top, after, d.n, w))
	}
}

func (d *largeHeap) insert(raw int) {
	if d.failed {
		return
	}
	n := d.n
	x := d.newEl(raw)
	d.rec("Push", x.ID, raw)
	if !d.try("Push", func() { d.h.Push(x) }) {
		return
	}
	if d.justPopped && n >= 4096 {
		d.loc.count("large: Pop directly followed by an insert", "Heap holding >= 4096")
	}
	d.justPopped = false
	d.op("Large.Heap.Push", n)
	d.check("Push")
}

func (d *largeHeap) popMin() (int, bool) {
	if d.failed || d.n == 0 {
		return 0, false
	}
	n := d.n
	var x el
	if !d.try("Pop()", func() { x = d.h.Pop() }) {
		return 0, false
	}
	d.rec("Pop", x.ID, x.Pri)
	d.loc.evals++
	if !d.isHeld(x) {
		d.fail("large-heap-pop-not-held", fmt.Sprintf("Pop() = %+v, which is not among the %d held elements", x, n))
		return 0, false
	}
	if w, bad := d.pm.lessThan(x.Pri); bad {
		d.fail("large-heap-pop-not-min", fmt.Sprintf("Pop() = %+v with %d elements held, but an element with the lesser priority %d is held", x, n, w))
		return 0, false
	}
	d.held[x.ID] = false
	d.n--
	d.pm.del(x.Pri)
	d.justPopped = true
	d.op("Large.Heap.Pop", n)
	d.check("Pop()")
	return x.Pri, !d.failed
}

func (d *largeHeap) mutate() {
	// a heap has no update/remove: Grow / Shrink instead (must change nothing)
	n := d.rnd.Intn(64)
	grow := d.rnd.Bool(0.5)
	d.rec("Grow/Shrink", -1, n)
	if d.try("Grow/Shrink", func() {
		if grow {
			d.h.Grow(n)
		} else {
			d.h.Shrink(n)
		}
	}) {
		d.op("Large.Heap.Grow/Shrink", d.n)
		d.check("Grow/Shrink")
	}
}

func (d *largeHeap) readback(string) {}

func (d *largeHeap) emptyPanics() {
	for _, op := range []string{"Pop", "Peek"} {
		p := vkit.Try(func() {
			if op == "Pop" {
				d.h.Pop()
			} else {
				d.h.Peek()
			}
		})
		d.loc.evals++
		if p == nil {
			d.fail("heap-empty-no-panic", op+"() on the drained heap did not panic")
			return
		}
		d.loc.count("expected panics", "Heap."+op+" on empty")
	}
	d.check("Pop/Peek on empty")
}

// ---------------------------------------------------------------------------------------------
// PriorityQueue (K = int, P = int)

type largePQ struct {
	largeBase
	q       xheap.PriorityQueue[int, int]
	U       int
	present []bool
	pri     []int
	perm    []int // perm[:count] are the present keys, perm[count:] the absent ones
	where   []int
	count   int
	sinceRB int
	rbEvery int // steps between full read-backs (0: U/8)
}

func (d *largePQ) size() int { return d.count }

func (d *largePQ) try(call string, f func()) bool {
	if p := vkit.Try(f); p != nil {
		d.fail("large-pq-panic", fmt.Sprintf("%s panicked with %d keys held: %s (in %s)", call, d.count, p.Msg, p.JuniperFrame()))
		return false
	}
	return true
}

func (d *largePQ) swapPerm(i, j int) {
	d.perm[i], d.perm[j] = d.perm[j], d.perm[i]
	d.where[d.perm[i]] = i
	d.where[d.perm[j]] = j
}

func (d *largePQ) modelAdd(k, raw int) {
	d.swapPerm(d.where[k], d.count)
	d.count++
	d.present[k], d.pri[k] = true, raw
	d.pm.add(raw)
	d.note(raw)
}

func (d *largePQ) modelDel(k int) {
	d.count--
	d.swapPerm(d.where[k], d.count)
	d.present[k] = false
	d.pm.del(d.pri[k])
}

func (d *largePQ) absentKey() (int, bool) {
	if d.count == d.U {
		return 0, false
	}
	return d.perm[d.count+d.rnd.Intn(d.U-d.count)], true
}

func (d *largePQ) build(pris []int, viaCtor bool) {
	d.present = make([]bool, d.U)
	d.pri = make([]int, d.U)
	d.perm = d.rnd.Perm(d.U)
	d.where = make([]int, d.U)
	for i, k := range d.perm {
		d.where[k] = i
	}
	var arg []xheap.KP[int, int]
	var rest []int
	if viaCtor {
		for _, raw := range pris {
			k, _ := d.absentKey()
			d.modelAdd(k, raw)
			arg = append(arg, xheap.KP[int, int]{K: k, P: raw})
		}
	} else {
		rest = pris
	}
	if !d.try("NewPriorityQueue", func() {
		if d.ctor == "less" {
			d.q = xheap.NewPriorityQueue(func(a, b int) bool { return d.ord.less(a, b) }, arg)
		} else {
			d.q = xheap.NewPriorityQueueCmp(cmpFrom(d.ord.less), arg)
		}
	}) {
		return
	}
	d.op("Large.PQ.New", len(arg))
	d.readback("construction")
	for _, raw := range rest {
		if d.failed {
			return
		}
		d.insert(raw)
	}
}

// check after every step: Len, Peek in argmin, the touched key and a random key read back; the
// full read-back every max(1000, U/8) steps.
func (d *largePQ) check(after string, touched int) {
	if d.failed {
		return
	}
	var sig, what string
	keys := [2]int{touched, d.rnd.Intn(d.U)}
	evals := 0
	p := vkit.Try(func() {
		evals++
		if n := d.q.Len(); n != d.count {
			sig, what = "large-pq-len", fmt.Sprintf("Len() = %d after %s, the map holds %d keys", n, after, d.count)
			return
		}
		if d.count > 0 {
			evals++
			k := d.q.Peek()
			if k < 0 || k >= d.U || !d.present[k] {
				sig, what = "large-pq-peek-not-held", fmt.Sprintf("Peek() = %d after %s, which is not a key of the map", k, after)
				return
			}
			if w, bad := d.pm.lessThan(d.pri[k]); bad {
				sig, what = "large-pq-peek-not-min", fmt.Sprintf("Peek() = %d (priority %d) after %s with %d keys held, but a key with the lesser priority %d is held", k, d.pri[k], after, d.count, w)
				return
			}
		}
		for _, k := range keys {
			if k < 0 {
				continue
			}
			evals += 2
			if s, w := d.readKey(k, after); s != "" {
				sig, what = s, w
				return
			}
		}
	})
	d.loc.evals += evals
	if p != nil {
		d.fail("large-pq-panic", fmt.Sprintf("the observation after %s panicked with %d keys held: %s (in %s)", after, d.count, p.Msg, p.JuniperFrame()))
		return
	}
	if sig != "" {
		d.fail(sig, what)
		return
	}
	d.sinceRB++
	every := d.U / 8
	if d.rbEvery > 0 {
		every = d.rbEvery
	}
	if every < 1000 {
		every = 1000
	}
	if d.sinceRB >= every {
		d.readback("step " + fmt.Sprint(d.steps))
	}
}

func (d *largePQ) readKey(k int, after string) (string, string) {
	has, p := d.q.Contains(k), d.q.Priority(k)
	if has != d.present[k] {
		return "large-pq-contains", fmt.Sprintf("Contains(%d) = %v after %s, the map says %v", k, has, after, d.present[k])
	}
	want := 0
	if d.present[k] {
		want = d.pri[k]
	}
	if p != want {
		return "large-pq-priority", fmt.Sprintf("Priority(%d) = %d after %s, the map has %d (present=%v)", k, p, after, want, d.present[k])
	}
	return "", ""
}

func (d *largePQ) readback(why string) {
	if d.failed {
		return
	}
	d.sinceRB = 0
	var sig, what string
	p := vkit.Try(func() {
		for k := 0; k < d.U; k++ {
			if s, w := d.readKey(k, why+" (full read-back)"); s != "" {
				sig, what = s, w
				return
			}
		}
	})
	d.loc.evals += 2 * d.U
	d.loc.count("large: full read-backs of a queue", "universe "+bucketName[bucketOf(d.U)])
	if p != nil {
		d.fail("large-pq-panic", fmt.Sprintf("the full read-back after %s panicked: %s (in %s)", why, p.Msg, p.JuniperFrame()))
	} else if sig != "" {
		d.fail(sig, what)
	}
}

func (d *largePQ) insert(raw int) {
	if d.failed {
		return
	}
	k, ok := d.absentKey()
	if !ok {
		d.updatePresent(raw)
		return
	}
	n := d.count
	d.rec("Update-new", k, raw)
	if !d.try("Update", func() { d.q.Update(k, raw) }) {
		return
	}
	d.modelAdd(k, raw)
	if d.justPopped && n >= 4096 {
		d.loc.count("large: Pop directly followed by an insert", "PQ holding >= 4096")
	}
	d.justPopped = false
	d.op("Large.PQ.Update-new", n)
	d.check("Update of a new key", k)
}

func (d *largePQ) updatePresent(raw int) {
	if d.failed || d.count == 0 {
		return
	}
	d.updateKey(d.perm[d.rnd.Intn(d.count)], raw)
}

// updateKey updates the present key k.
func (d *largePQ) updateKey(k, raw int) {
	if d.failed {
		return
	}
	d.rec("Update-present", k, raw)
	if !d.try("Update", func() { d.q.Update(k, raw) }) {
		return
	}
	d.pm.del(d.pri[k])
	d.pri[k] = raw
	d.pm.add(raw)
	d.note(raw)
	d.justPopped = false
	d.op("Large.PQ.Update-present", d.count)
	d.check("Update of a present key", k)
}

func (d *largePQ) popMin() (int, bool) {
	if d.failed || d.count == 0 {
		return 0, false
	}
	n := d.count
	var k int
	if !d.try("Pop()", func() { k = d.q.Pop() }) {
		return 0, false
	}
	d.rec("Pop", k, 0)
	d.loc.evals++
	if k < 0 || k >= d.U || !d.present[k] {
		d.fail("large-pq-pop-not-held", fmt.Sprintf("Pop() = %d, which is not a key of the map (%d keys held)", k, n))
		return 0, false
	}
	raw := d.pri[k]
	if w, bad := d.pm.lessThan(raw); bad {
		d.fail("large-pq-pop-not-min", fmt.Sprintf("Pop() = %d (priority %d) with %d keys held, but a key with the lesser priority %d is held", k, raw, n, w))
		return 0, false
	}
	d.modelDel(k)
	d.justPopped = true
	d.op("Large.PQ.Pop", n)
	d.check("Pop()", k)
	return raw, !d.failed
}

func (d *largePQ) mutate() {
	if d.failed || d.count == 0 {
		return
	}
	switch x := d.rnd.Intn(10); {
	case x < 5:
		d.updatePresent(d.nextPri(false))
	case x < 6:
		d.updatePresent(d.newMin())
	case x < 7:
		k, ok := d.absentKey()
		if !ok {
			return
		}
		d.rec("Remove-absent", k, 0)
		if d.try("Remove", func() { d.q.Remove(k) }) {
			d.op("Large.PQ.Remove-absent", d.count)
			d.check("Remove of an absent key", k)
		}
	default:
		d.removeKey(d.perm[d.rnd.Intn(d.count)])
	}
}

// removeKey removes the present key k.
func (d *largePQ) removeKey(k int) {
	if d.failed {
		return
	}
	n := d.count
	d.rec("Remove", k, 0)
	if d.try("Remove", func() { d.q.Remove(k) }) {
		d.modelDel(k)
		d.justPopped = false
		d.op("Large.PQ.Remove-present", n)
		d.check("Remove of a present key", k)
	}
}

func (d *largePQ) emptyPanics() {
	for _, op := range []string{"Pop", "Peek"} {
		p := vkit.Try(func() {
			if op == "Pop" {
				d.q.Pop()
			} else {
				d.q.Peek()
			}
		})
		d.loc.evals++
		if p == nil {
			d.fail("pq-empty-no-panic", op+"() on the drained queue did not panic")
			return
		}
		d.loc.count("expected panics", "PQ."+op+" on empty")
	}
	d.readback("Pop/Peek on the drained queue")
}
