package main

// shadow is an array-embedded binary min-heap kept by the monitor next to the real one. It replays
// the textbook algorithm (append + sift up; move last into the hole + sift up/down; bottom-up
// heapify) with the same order, so that on a correct implementation element positions coincide.
//
// It is used ONLY to choose which key to remove / update next (the one at heap position first /
// last / a leaf / an inner node, or one whose replacement has to move up) and to label the
// executed operation for the evidence tables (position class, moved up/down/stayed). It is never
// consulted by a check: all verdicts come from the multiset / map model.
type sEl struct{ key, pri int }

type shadow struct {
	a    []sEl
	less func(a, b int) bool // on raw priorities
	pos  map[int]int         // key -> index in a
}

// movement of the focal element of an operation
const (
	mvNone   uint8 = iota // no element had to be re-seated (removed the last slot, emptied, no-op)
	mvStayed              // re-seated element stayed where it was put
	mvUp
	mvDown
)

var mvName = [...]string{"-", "stayed", "up", "down"}

// position classes
const (
	clsNone  uint8 = iota // operation has no target position
	clsOnly               // the only element
	clsFirst              // index 0 (root), n >= 2
	clsLast               // index n-1, n >= 2
	clsLeaf               // a leaf that is not the last slot
	clsInner              // has a child, is not the root
	clsNew                // a new element appended at the end
)

var clsName = [...]string{"-", "only", "first", "last", "leaf", "inner", "new"}

func posClass(i, n int) uint8 {
	switch {
	case n == 1:
		return clsOnly
	case i == 0:
		return clsFirst
	case i == n-1:
		return clsLast
	case 2*i+1 >= n:
		return clsLeaf
	default:
		return clsInner
	}
}

func newShadow(less func(a, b int) bool) *shadow {
	return &shadow{less: less, pos: make(map[int]int)}
}

func (s *shadow) len() int { return len(s.a) }

func (s *shadow) lt(i, j int) bool { return s.less(s.a[i].pri, s.a[j].pri) }

func (s *shadow) swap(i, j int) {
	s.a[i], s.a[j] = s.a[j], s.a[i]
	s.pos[s.a[i].key] = i
	s.pos[s.a[j].key] = j
}

func (s *shadow) up(i int) int {
	for i > 0 {
		p := (i - 1) / 2
		if !s.lt(i, p) {
			break
		}
		s.swap(i, p)
		i = p
	}
	return i
}

func (s *shadow) down(i int) int {
	n := len(s.a)
	for {
		l, r := 2*i+1, 2*i+2
		if l >= n {
			return i
		}
		least := l
		if r < n && s.lt(r, l) {
			least = r
		}
		if !s.lt(least, i) {
			return i
		}
		s.swap(least, i)
		i = least
	}
}

func moved(from, to int) uint8 {
	switch {
	case to < from:
		return mvUp
	case to > from:
		return mvDown
	}
	return mvStayed
}

func (s *shadow) heapify(items []sEl) {
	s.a = append(s.a[:0], items...)
	for i := range s.a {
		s.pos[s.a[i].key] = i
	}
	for i := len(s.a)/2 - 1; i >= 0; i-- {
		s.down(i)
	}
}

func (s *shadow) push(key, pri int) uint8 {
	s.a = append(s.a, sEl{key, pri})
	i := len(s.a) - 1
	s.pos[key] = i
	return moved(i, s.up(i))
}

// removeAt removes the element at index i (i == 0 is Pop) and reports how the element that took
// its place moved.
func (s *shadow) removeAt(i int) uint8 {
	last := len(s.a) - 1
	delete(s.pos, s.a[i].key)
	if i == last {
		s.a = s.a[:last]
		return mvNone
	}
	s.a[i] = s.a[last]
	s.a = s.a[:last]
	s.pos[s.a[i].key] = i
	j := s.up(i)
	if j == i {
		j = s.down(i)
	}
	return moved(i, j)
}

func (s *shadow) updateAt(i, pri int) uint8 {
	s.a[i].pri = pri
	j := s.up(i)
	if j == i {
		j = s.down(i)
	}
	return moved(i, j)
}

// pickIndex returns an index of the wanted position class, if the heap has one.
func (s *shadow) pickIndex(cls uint8, intn func(int) int) (int, bool) {
	n := len(s.a)
	if n == 0 {
		return 0, false
	}
	switch cls {
	case clsOnly:
		return 0, n == 1
	case clsFirst:
		return 0, n >= 2
	case clsLast:
		return n - 1, n >= 2
	case clsLeaf:
		lo, hi := n/2, n-2
		if n >= 3 && lo <= hi {
			return lo + intn(hi-lo+1), true
		}
	case clsInner:
		lo, hi := 1, n/2-1
		if lo <= hi {
			return lo + intn(hi-lo+1), true
		}
	}
	return 0, false
}

// pickReplacementMovesUp returns an index whose removal puts the last element below a parent it is
// less than, i.e. the replacement has to be sifted UP (the case a remove-at that only sifts down
// gets wrong).
func (s *shadow) pickReplacementMovesUp(intn func(int) int) (int, bool) {
	last := len(s.a) - 1
	var cand []int
	for i := 1; i < last; i++ {
		if s.less(s.a[last].pri, s.a[(i-1)/2].pri) {
			cand = append(cand, i)
		}
	}
	if len(cand) == 0 {
		return 0, false
	}
	return cand[intn(len(cand))], true
}

func (s *shadow) keys() []int {
	out := make([]int, len(s.a))
	for i, e := range s.a {
		out[i] = e.key
	}
	return out
}
