package main

// Group "init": Heap and PriorityQueue CONSTRUCTED from big initial slices (the "large" and "thr"
// groups reach big sizes mostly through pushes), through all four constructors that take initial
// contents (New, NewCmp, NewPriorityQueue, NewPriorityQueueCmp): sizes 2^k-1, 2^k, 2^k+1 for
// k <= 18 plus 100000, 200000, 300000; contents unsorted / ascending / descending / heavy ties /
// all equal. Then either a full drain at once, or a few pushes / pops / updates first; every Pop
// and Peek is judged against the sorted multiset of priorities (O(log n) model of large.go), the
// drain must be non-decreasing and return exactly the multiset.
//
// Group "grow": Grow(n) / Shrink(n) with n crossing every 2^k (k <= 18) on heaps and queues of
// several sizes: contents must not change.

import (
	"fmt"

	"verif/vkit"
)

var initContents = []string{"random", "descending", "tied", "equal", "ascending"}

type initCase struct {
	sizes   []int
	what    string
	sel     int // constructor x order
	content string
}

var initBig = []int{300000, 1<<18 + 1, 1 << 18, 1<<18 - 1, 200000, 1<<17 + 1, 1 << 17, 1<<17 - 1, 100000}

func initCases(thorough bool) []initCase {
	var out []initCase
	whats := []string{"Heap", "PQ"}
	// the big sizes, biggest first
	for bi, n := range initBig {
		if thorough {
			for cfg := 0; cfg < 12; cfg++ {
				for ci, content := range initContents {
					if ci > 0 && (cfg+ci+bi)%2 == 0 {
						continue // unsorted contents for every configuration, the others for half
					}
					out = append(out, initCase{[]int{n}, whats[cfg%2], cfg / 2, content})
				}
			}
			continue
		}
		for v := 0; v < 4; v++ {
			content := "random"
			if v >= 2 {
				content = initContents[1+bi%4]
			}
			out = append(out, initCase{[]int{n}, whats[v%2], bi + v/2*3 + v, content})
		}
	}
	// 2^k-1, 2^k, 2^k+1 below that
	for k := 16; k >= 1; k-- {
		for cfg := 0; cfg < 12; cfg++ {
			if !thorough && k >= 15 && cfg%3 != k%3 {
				continue
			}
			out = append(out, initCase{[]int{1<<k + 1, 1 << k, 1<<k - 1}, whats[cfg%2], cfg / 2, initContents[(cfg/2+k)%len(initContents)]})
		}
	}
	return out
}

func runInit(c *vkit.Case, cases []initCase) {
	ic := cases[c.Index%len(cases)]
	if rep := c.Index / len(cases); rep > 0 { // thorough repeats: other contents
		ic.content = initContents[(rep+c.Index)%len(initContents)]
	}
	for _, n := range ic.sizes {
		var b *largeBase
		var s sut
		if ic.what == "Heap" {
			h := &largeHeap{largeBase: newLargeBase(c, ic.what, ic.sel)}
			b, s = &h.largeBase, h
		} else {
			q := &largePQ{largeBase: newLargeBase(c, ic.what, ic.sel), U: n + 300}
			b, s = &q.largeBase, q
		}
		b.what = ic.what + " built from an initial slice"
		b.mode = ic.content
		if ic.content == "equal" {
			b.mode, b.pool = "tied", b.pool[:1]
		}
		b.loc.count("histories", "init "+ic.what)
		b.loc.count("init: constructed from an initial slice of size", fmt.Sprint(n))
		b.loc.count("init: contents", ic.what+" "+ic.content)
		b.loc.count("init: constructors", fmt.Sprintf("%s order %s given as %s", ic.what, b.ord.name, b.ctor))
		pris := make([]int, n)
		for i := range pris {
			pris[i] = b.nextPri(true)
		}
		b.plan = append(b.plan, fmt.Sprintf("construct from %d %s items", n, ic.content))
		s.build(pris, true)
		b.loc.max("sizes", "init "+ic.what+" items in the initial slice", n)
		if !b.failed && b.rnd.Bool(0.5) {
			steps := b.rnd.Range(5, 200)
			b.plan = append(b.plan, fmt.Sprintf("%d mixed steps", steps))
			b.loc.count("init: variants", ic.what+" a few pushes/pops before the drain")
			for i := 0; i < steps && !b.failed; i++ {
				switch x := b.rnd.Intn(10); {
				case x < 4:
					s.popMin()
				case x < 8:
					s.insert(b.nextPri(false))
				case x < 9:
					b.minMax(s)
				default:
					s.mutate()
				}
			}
		} else {
			b.loc.count("init: variants", ic.what+" drained at once")
		}
		if !b.failed {
			b.drain(s)
		}
		b.flush()
		if b.failed {
			return
		}
	}
}

// ---- Grow / Shrink with n crossing every power of two

func runGrow(c *vkit.Case) {
	what := []string{"Heap", "PQ"}[c.Index%2]
	sel := c.Index / 2
	held := []int{0, 1, 5, 64, 1000, 5000}[(c.Index/12)%6]
	var b *largeBase
	var s sut
	var hp *largeHeap
	var pq *largePQ
	if what == "Heap" {
		hp = &largeHeap{largeBase: newLargeBase(c, what, sel)}
		b, s = &hp.largeBase, hp
	} else {
		pq = &largePQ{largeBase: newLargeBase(c, what, sel), U: held + 400}
		b, s = &pq.largeBase, pq
	}
	defer b.flush()
	b.what = what + " Grow/Shrink sweep"
	b.mode = "random"
	b.loc.count("histories", "grow "+what)
	pris := make([]int, held)
	for i := range pris {
		pris[i] = b.nextPri(true)
	}
	s.build(pris, b.rnd.Bool(0.5))
	call := func(op string, n int) {
		if b.failed {
			return
		}
		b.rec(op, -1, n)
		p := vkit.Try(func() {
			switch {
			case hp != nil && op == "Grow":
				hp.h.Grow(n)
			case hp != nil:
				hp.h.Shrink(n)
			default:
				pq.q.Grow(n)
			}
		})
		if p != nil {
			b.fail("grow-panic", fmt.Sprintf("%s(%d) panicked with %d items held: %s", op, n, s.size(), p.Msg))
			return
		}
		b.op("Large."+what+"."+op, s.size())
		b.loc.count("grow: "+what+"."+op+"(n) with n at", "2^k-1, 2^k, 2^k+1")
		// contents unchanged: Len/Peek now, usable, and (below) the drain returns exactly the multiset
		if hp != nil {
			hp.check(fmt.Sprintf("%s(%d)", op, n))
		} else {
			pq.check(fmt.Sprintf("%s(%d)", op, n), -1)
		}
		if b.rnd.Bool(0.3) {
			s.insert(b.nextPri(false))
			if b.rnd.Bool(0.5) {
				s.popMin()
			}
		}
	}
	for k := 0; k <= 18; k++ {
		for _, n := range []int{1<<k - 1, 1 << k, 1<<k + 1} {
			call("Grow", n)
			if hp != nil && b.rnd.Bool(0.5) {
				call("Shrink", n/2)
			}
		}
	}
	if hp != nil {
		for k := 18; k >= 0; k-- {
			for _, n := range []int{1<<k + 1, 1 << k, 1<<k - 1} {
				call("Shrink", n)
			}
		}
	}
	s.readback("the Grow/Shrink sweep")
	if !b.failed {
		b.drain(s)
	}
}
