package main

import (
	"fmt"
	"math"

	"github.com/bradenaw/juniper/container/xheap"

	"verif/vkit"
)

// el is the element type of the monitored heaps: ordered on Pri only, ID makes every element unique.
type el struct {
	Pri int `json:"pri"`
	ID  int `json:"id"`
}

// heapCfg is an element type of the monitored heap: T carries an el (possibly in an uncomparable
// representation); the order is always on un(x).Pri.
type heapCfg[T any] struct {
	name string
	mk   func(e el) T
	un   func(x T) el
}

var notAnElement = el{math.MinInt / 2, -1}

// []int ordered by its sum: {id, pri-id}
func sliceOf(e el) []int { return []int{e.ID, e.Pri - e.ID} }
func elOfSlice(x []int) el {
	if len(x) != 2 {
		return notAnElement
	}
	return el{x[0] + x[1], x[0]}
}

func runHeap(c *vkit.Case) {
	switch (c.Index / (len(orders) * len(ctors))) % 4 {
	case 0, 1:
		runHeapT(c, heapCfg[el]{"T=struct", func(e el) el { return e }, func(x el) el { return x }})
	case 2: // uncomparable element type
		runHeapT(c, heapCfg[[]int]{"T=[]int by sum", sliceOf, elOfSlice})
	default: // interface elements holding structs and (uncomparable) slices
		runHeapT(c, heapCfg[any]{"T=any(struct|[]int)",
			func(e el) any {
				if e.ID%2 == 0 {
					return e
				}
				return sliceOf(e)
			},
			func(x any) el {
				switch v := x.(type) {
				case el:
					return v
				case []int:
					return elOfSlice(v)
				}
				return notAnElement
			}})
	}
}

type heapDriver[T any] struct {
	cfg    heapCfg[T]
	c      *vkit.Case
	r      *vkit.Report
	rnd    *vkit.Rand
	loc    *local
	ord    order
	ctor   string
	pool   []int
	pname  string
	lessEl func(a, b el) bool

	h [2]xheap.Heap[T] // the heap and a copy of its value (documented to behave as a reference type)

	model []el        // the multiset
	at    map[int]int // id -> index in model
	sh    *shadow

	nextID       int
	initial      []el
	ops          []opRec
	failed       bool
	popped       bool
	pushAfterPop bool
}

func (d *heapDriver[T]) name() string {
	return fmt.Sprintf("Heap[%s, order %s given as %s]", d.cfg.name, d.ord.name, d.ctor)
}

func (d *heapDriver[T]) fail(sig, what string) {
	if d.failed {
		return
	}
	d.failed = true
	noteViolation(d.c)
	d.c.Violation(sig, d.name()+": "+what, map[string]any{
		"structure": "Heap", "element type": d.cfg.name, "order": d.ord.name, "constructor": d.ctor, "pool": d.pname,
		"initial": d.initial, "ops(op,id,pri|arg)": capOps(d.ops), "n_ops": len(d.ops), "model_len": len(d.model),
	})
}

func (d *heapDriver[T]) handle() xheap.Heap[T] { return d.h[d.rnd.Intn(2)] }

// try runs a library call that must not panic.
func (d *heapDriver[T]) try(call string, f func()) bool {
	if p := vkit.Try(f); p != nil {
		d.fail("heap-panic", fmt.Sprintf("%s panicked with %d elements held: %s (in %s)", call, len(d.model), p.Msg, p.JuniperFrame()))
		return false
	}
	return true
}

// lessWitness returns a held element that is less than x, if any.
func (d *heapDriver[T]) lessWitness(x el) *el {
	for i := range d.model {
		if d.lessEl(d.model[i], x) {
			return &d.model[i]
		}
	}
	return nil
}

func (d *heapDriver[T]) held(x el) bool {
	i, ok := d.at[x.ID]
	return ok && d.model[i] == x
}

func (d *heapDriver[T]) add(x el) {
	d.at[x.ID] = len(d.model)
	d.model = append(d.model, x)
}

func (d *heapDriver[T]) del(x el) {
	i := d.at[x.ID]
	last := len(d.model) - 1
	d.model[i] = d.model[last]
	d.at[d.model[i].ID] = i
	d.model = d.model[:last]
	delete(d.at, x.ID)
}

// check is the observation after every step: Len, and Peek when something is held.
func (d *heapDriver[T]) check(after string) {
	if d.failed {
		return
	}
	h := d.handle()
	var n int
	if !d.try("Len()", func() { n = h.Len() }) {
		return
	}
	d.loc.evals++
	if n != len(d.model) {
		d.fail("heap-len", fmt.Sprintf("Len() = %d after %s, the multiset holds %d", n, after, len(d.model)))
		return
	}
	if len(d.model) == 0 {
		return
	}
	var top el
	if !d.try("Peek()", func() { top = d.cfg.un(h.Peek()) }) {
		return
	}
	d.loc.evals++
	if !d.held(top) {
		d.fail("heap-peek-not-held", fmt.Sprintf("Peek() = %+v after %s, which is not among the %d held elements", top, after, len(d.model)))
		return
	}
	if w := d.lessWitness(top); w != nil {
		d.fail("heap-peek-not-min", fmt.Sprintf("Peek() = %+v after %s, but the held element %+v is less", top, after, *w))
	}
}

func (d *heapDriver[T]) push(pri int) {
	x := el{pri, d.nextID}
	d.nextID++
	d.ops = append(d.ops, opRec{"Push", x.ID, pri})
	n := len(d.model)
	h := d.handle()
	if !d.try("Push", func() { h.Push(d.cfg.mk(x)) }) {
		return
	}
	d.add(x)
	d.loc.op("Heap.Push", n, clsNew, d.sh.push(x.ID, pri))
	if d.popped {
		d.pushAfterPop = true
	}
	d.check(fmt.Sprintf("Push(%+v)", x))
}

// pop pops from a non-empty heap.
func (d *heapDriver[T]) pop() (x el) {
	d.ops = append(d.ops, opRec{"Pop", -1, 0})
	n := len(d.model)
	h := d.handle()
	if !d.try("Pop()", func() { x = d.cfg.un(h.Pop()) }) {
		return
	}
	d.loc.evals++
	if !d.held(x) {
		d.fail("heap-pop-not-held", fmt.Sprintf("Pop() = %+v, which is not among the %d held elements", x, n))
		return
	}
	if w := d.lessWitness(x); w != nil {
		d.fail("heap-pop-not-min", fmt.Sprintf("Pop() = %+v, but the held element %+v is less", x, *w))
		return
	}
	d.del(x)
	d.ops[len(d.ops)-1].K, d.ops[len(d.ops)-1].P = x.ID, x.Pri // what it handed out
	i := d.sh.pos[x.ID]
	if i != 0 {
		d.loc.count("shadow", "heap: real Pop handed out another (equally minimal) element than the shadow root")
	}
	d.loc.op("Heap.Pop", n, posClass(0, n), d.sh.removeAt(i))
	d.popped = true
	d.check(fmt.Sprintf("Pop() = %+v", x))
	return x
}

// emptyMustPanic calls Pop or Peek on an empty heap.
func (d *heapDriver[T]) emptyMustPanic(op string) {
	d.ops = append(d.ops, opRec{op + "-on-empty", -1, 0})
	h := d.handle()
	var got T
	p := vkit.Try(func() {
		if op == "Pop" {
			got = h.Pop()
		} else {
			got = h.Peek()
		}
	})
	d.loc.evals++
	if p == nil {
		d.fail("heap-empty-no-panic", fmt.Sprintf("%s() on an empty heap returned %+v instead of panicking", op, got))
		return
	}
	d.loc.count("expected panics", "Heap."+op+" on empty")
	d.loc.op("Heap."+op+"-on-empty", 0, clsNone, mvNone)
	d.check(op + "() on empty (panicked)")
}

func (d *heapDriver[T]) growShrink(op string, n int) {
	d.ops = append(d.ops, opRec{op, -1, n})
	h := d.handle()
	if !d.try(fmt.Sprintf("%s(%d)", op, n), func() {
		if op == "Grow" {
			h.Grow(n)
		} else {
			h.Shrink(n)
		}
	}) {
		return
	}
	d.loc.op("Heap."+op, len(d.model), clsNone, mvNone)
	d.check(fmt.Sprintf("%s(%d)", op, n))
}

func (d *heapDriver[T]) drawPri() int {
	switch x := d.rnd.Intn(100); {
	case x < 12:
		return extreme(d.pool, d.ord.less, false) // nothing in the pool is less
	case x < 22:
		return extreme(d.pool, d.ord.less, true)
	case x < 32 && len(d.sh.a) > 0:
		return d.sh.a[0].pri // ties with the current minimum
	case x < 40 && len(d.sh.a) > 0:
		return d.sh.a[len(d.sh.a)-1].pri
	}
	return vkit.Pick(d.rnd, d.pool)
}

func (d *heapDriver[T]) drain() {
	d.loc.count("histories", "heap: final drain")
	first := true
	var prev el
	for len(d.model) > 0 && !d.failed {
		x := d.pop()
		if d.failed {
			return
		}
		d.loc.evals++
		if !first && d.lessEl(x, prev) {
			d.fail("heap-drain-order", fmt.Sprintf("drain handed out %+v after %+v, which is greater", x, prev))
			return
		}
		first, prev = false, x
	}
	if d.failed {
		return
	}
	d.emptyMustPanic("Pop")
	if !d.failed {
		d.emptyMustPanic("Peek")
	}
}

func runHeapT[T any](c *vkit.Case, cfg heapCfg[T]) {
	r, rnd := c.R, c.Rand
	d := &heapDriver[T]{cfg: cfg, c: c, r: r, rnd: rnd, loc: newLocal(), at: map[int]int{}}
	defer d.loc.flush(r)
	d.ord = orders[c.Index%len(orders)]
	d.ctor = ctors[(c.Index/len(orders))%2]
	d.pname, d.pool = drawPool(rnd)
	d.lessEl = func(a, b el) bool { return d.ord.less(a.Pri, b.Pri) }
	d.sh = newShadow(d.ord.less)
	d.loc.count("heap configurations", d.ord.name+"/"+d.ctor)
	d.loc.count("heap element types", cfg.name)
	d.loc.count("priority pools", "heap: "+d.pname)
	d.loc.count("histories", "heap")

	// Initial slice.
	n0 := 0
	switch x := rnd.Intn(100); {
	case x < 25:
	case x < 55:
		n0 = rnd.Range(1, 8)
	case x < 88:
		n0 = rnd.Range(9, 40)
	default:
		n0 = rnd.Range(41, r.Scale(160, 1200))
	}
	for i := 0; i < n0; i++ {
		d.initial = append(d.initial, el{vkit.Pick(rnd, d.pool), d.nextID})
		d.nextID++
	}
	var arg []T
	if n0 > 0 || rnd.Bool(0.5) {
		arg = make([]T, n0, n0+rnd.Intn(4)*rnd.Intn(8))
		for i, e := range d.initial {
			arg[i] = cfg.mk(e)
		}
	}
	if n0 > 0 {
		d.loc.count("heap construction", "non-empty initial slice")
	} else if arg == nil {
		d.loc.count("heap construction", "nil initial slice")
	} else {
		d.loc.count("heap construction", "empty initial slice")
	}
	if !d.try("New", func() {
		var h xheap.Heap[T]
		if d.ctor == "less" {
			h = xheap.New(func(a, b T) bool { return d.ord.less(cfg.un(a).Pri, cfg.un(b).Pri) }, arg)
		} else {
			cmp := cmpFrom(d.ord.less)
			h = xheap.NewCmp(func(a, b T) int { return cmp(cfg.un(a).Pri, cfg.un(b).Pri) }, arg)
		}
		d.h[0], d.h[1] = h, h
	}) {
		return
	}
	items := make([]sEl, n0)
	for i, x := range d.initial {
		d.add(x)
		items[i] = sEl{x.ID, x.Pri}
	}
	d.sh.heapify(items)
	d.loc.op("Heap.New", n0, clsNone, mvNone)
	d.check(fmt.Sprintf("New with %d initial elements", n0))

	// Phases with different push/pop ratios.
	var nops int
	switch x := rnd.Intn(10); {
	case x < 4:
		nops = rnd.Range(20, 60)
	case x < 8:
		nops = rnd.Range(61, 200)
	default:
		nops = rnd.Range(201, r.Scale(400, 2500))
	}
	ratios := []float64{0.05, 0.2, 0.35, 0.5, 0.65, 0.8, 0.95}
	pPush := vkit.Pick(rnd, ratios)
	phaseLeft := rnd.Range(5, nops)
	maxSize := 0
	for i := 0; i < nops && !d.failed; i++ {
		if phaseLeft == 0 {
			pPush = vkit.Pick(rnd, ratios)
			phaseLeft = rnd.Range(5, nops)
		}
		phaseLeft--
		switch x := rnd.Intn(100); {
		case x < 3:
			d.growShrink("Grow", []int{0, 1, 2, 7, 100}[rnd.Intn(5)])
		case x < 6:
			d.growShrink("Shrink", []int{0, 0, 1, 3, 50}[rnd.Intn(5)])
		default:
			if rnd.Bool(pPush) {
				d.push(d.drawPri())
			} else if len(d.model) > 0 {
				d.pop()
			} else if x := rnd.Intn(100); x < 8 {
				d.emptyMustPanic("Pop")
			} else if x < 14 {
				d.emptyMustPanic("Peek")
			} else if x < 60 {
				d.push(d.drawPri())
			}
		}
		if len(d.model) > maxSize {
			maxSize = len(d.model)
		}
	}
	d.loc.max("sizes", "heap elements held", maxSize)
	d.loc.max("sizes", "heap history operations", len(d.ops))
	if d.pushAfterPop {
		d.loc.count("histories", "heap: Push after Pop")
	}

	// How well does the shadow mirror the real array? (recorded, never judged)
	if !d.failed {
		var got []int
		p := vkit.Try(func() {
			it := d.h[0].Iterate()
			for {
				x, ok := it.Next()
				if !ok {
					return
				}
				got = append(got, cfg.un(x).ID)
			}
		})
		d.loc.count("shadow", "heap: "+agreement(p, got, d.sh.keys()))
	}
	if !d.failed && rnd.Bool(0.9) {
		d.drain()
	}
	if !d.failed && c.Index < 2 && r.WantSample() {
		first := d.ops
		if len(first) > 40 {
			first = first[:40]
		}
		r.Sample(map[string]any{"case": c.ID(), "structure": "Heap", "element type": d.cfg.name, "order": d.ord.name, "constructor": d.ctor, "pool": d.pool,
			"initial{pri,id}": d.initial, "n_ops": len(d.ops), "first_ops(op,id,pri|arg)": first})
	}
}

func agreement(p *vkit.Panic, got, want []int) string {
	if p != nil {
		return "Iterate() panicked"
	}
	if len(got) != len(want) {
		return "array order seen through Iterate() has another length than the shadow"
	}
	for i := range got {
		if got[i] != want[i] {
			return "array order seen through Iterate() differs from the shadow (ties placed differently)"
		}
	}
	return "array order seen through Iterate() equals the shadow"
}
