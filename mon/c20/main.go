// C20 — xtime: SleepContext honours d and the deadline; JitterTicker keeps its spacing; no tick
// after Stop.
//
// Oracle: history checks in which the wall clock is only ever used as a LOWER bound.
//   - SleepContext: the kind of the result (nil / DeadlineTooSoonError / ctx.Err()) is decided by the
//     scenario class, and the classes are chosen so far from the boundary (deadline <= d/8 with
//     d >= 4 s, or deadline >= 2000 d) that no scheduling delay can change the expected kind; a nil
//     result additionally needs elapsed >= d, measured around the call. "Never returns" is decided by
//     the goroutine-dump verdict (vkit.Await), and only where the context has already ended.
//   - JitterTicker: only the timestamps CARRIED BY the ticks are compared with each other
//     (consecutive ticks >= d - jitter apart) and with a stamp taken after Stop returned (a tick
//     stamped later than that was sent after Stop returned: the stamp is taken before the send).
//     (ticker.go)
//
// Built with -race.
package main

import (
	"context"
	"errors"
	"fmt"
	"math"
	"sync/atomic"
	"time"

	"github.com/bradenaw/juniper/xtime"

	"verif/vkit"
)

const (
	us = time.Microsecond
	ms = time.Millisecond
)

func main() {
	vkit.Main("C20", "exploration", func(r *vkit.Report) {
		r.SetRule("SleepContext: case = one call in one of nine scenario classes (plain; d <= 0; deadline <= d/8 with d >= 4 s; deadline >= 2000 d with d <= 5 ms; " +
			"d = 1 h under a 2 h deadline (or d >= 1<<62 under the farthest deadline) cancelled after <= 20 ms; already ended with d >= 1 min; already cancelled with d <= 1 ms; ended mid-sleep with d >= 10 min; " +
			"deadline already expired, from now-1ns back to time.Time{}, d from 1 ns to MaxInt64) x context shape (Background, WithCancel, WithTimeout, WithDeadline, WithCancelCause with nil / non-nil cause, WithTimeoutCause, WithDeadlineCause, " +
			"children of those through WithCancel / WithValue, deadline-hiding wrapper); evaluation = one returned call judged; " +
			"distinct = by (class, d, deadline, shape, cancel delay). " +
			"JitterTicker: case = one ticker life (NewJitterTicker(d, jitter) from the grid d in {100us..5ms} x jitter in {0, 1ns, d/2, d-1ns}; 0-2 Resets to other grid points; " +
			"one Stop; each action fired at a seeded offset around the expected firing time, or while the timer callback is held at the pause point ticker.fire), 64 lives at a time in the stress group; " +
			"evaluation = one New/Reset no-panic check, one consecutive tick pair, or one post-Stop watch / post-Stop tick judged; " +
			"non-trivial = the life produced >= 1 judged tick pair or a completed post-Stop watch; distinct = by (d, jitter, phases, offsets rounded to 50us). " +
			"Group pool: round = one SleepContext whose context ends at d + delta (delta swept over -30..+30 us; cancel by time.AfterFunc or a hidden WithTimeout) followed on the same goroutine by 2-3 plain sleeps, " +
			"on up to 12 goroutines next to 3 busy ones; evaluation = one call judged (nil => elapsed >= d; ctx.Err() demanded when cancel returned before start + d; the plain sleeps must return nil). " +
			"Group ended-first: already-ended contexts x d in {1ns..1ms} called from 64 goroutines at once, and contexts cancelled by a spinning goroutine at a swept fraction of d in {5..80us}; evaluation = one call judged. " +
			"Group lag: trial = one ticker (d 100-300 us, jitter 0) that nobody reads, stopped at its second firing (aimed by the pause point ticker.fire plus 0-5 us, or by time), channel emptied right after Stop, " +
			"looked at again >= 20 ms later; evaluation = one such look. " +
			"Group seq: trial = one ticker (d 20-200 us) and one of ten back-to-back control sequences (Stop/Reset(1h)/Reset(small) combinations) run at a firing, half of them while the callback is held at ticker.fire; " +
			"evaluation = one tick judged by the regime rule or one later look at a silenced ticker.")
		r.Assume("elapsed time is judged only as a lower bound (nil from SleepContext => elapsed >= d; tick timestamps >= d - jitter apart); no result is ever judged for arriving late")
		r.Assume("'DeadlineTooSoonError exactly when the deadline is closer than d': the nine scenario classes stay away from deadline ~ d (deadline <= d/8 must give the error, deadline >= 2000 d must not, the latter judged only if the whole scenario took less than deadline - d); right next to d (group near, deadline = d - 1ms .. d + 5ms) only stamps are compared: the error is refuted if the deadline was still >= d away on a stamp taken after the call returned, its absence is refuted if the deadline was closer than d on a stamp taken before the call; in the band between the two stamps nothing is judged")
		r.Assume("'returns the context's error if the context ends first' is judged for every d > 0: a stamp t0 is taken before SleepContext is called, the party that ends the context stamps tc after cancel() has returned (tc = 0 for a context that had already ended; for an expiry a watcher stamps after it has seen <-ctx.Done()); if tc - t0 < d the context ended first (the timer is armed after t0 and cannot fire before t0 + d) and the result must be ctx.Err(); otherwise nil (after >= d) and ctx.Err() are both accepted")
		r.Assume("a context whose deadline has already expired: with d >= 1 h the result must be DeadlineTooSoonError (the deadline is closer than d by any reading, for every d up to MaxInt64 and every deadline back to time.Time{}); with d < 1 h ctx.Err() = context.DeadlineExceeded is accepted as well (both clauses of the statement apply)")
		r.Assume("'the context's error' is ctx.Err() (context.Canceled / context.DeadlineExceeded), not context.Cause(ctx): contexts ended through WithCancelCause / WithTimeoutCause / WithDeadlineCause with an application cause (also one that wraps the sentinel) must not get the cause back")
		r.Assume("a deadline-hiding context wrapper (Deadline() reports none, Done/Err/Value come from a WithTimeoutCause parent) is a legitimate context: it is the only way to let a sleep be ended by an expiry without generating deadline ~ d")
		r.Assume("tick pairs that may straddle a Reset are held to the smaller of the d - jitter bounds of every regime that can have been in force between the two timestamps")
		r.Assume("'no tick is sent after Stop returns' is refuted only by a tick whose own timestamp (taken inside the callback before the send) is later than a stamp taken after Stop returned; a tick that was already in the 1-slot channel is legitimate")
		r.Assume("drain-then-silence: when Stop returns the 1-slot channel holds at most one tick; after it has been taken out, any further tick received from that ticker was sent after Stop returned, whatever timestamp it carries (also: two or more ticks received after Stop returned)")
		r.Assume("regime rule: a tick stamped T is legitimate only if some New/Reset call (begun at b, with d and jitter) has b + (d - jitter) <= T and the call that closed that regime (the next Reset or Stop) had not yet returned at T; this covers ticks after Stop, ticks too early after a Reset (measured from before the Reset call), and Reset after Stop (the ticker runs again with the new period)")
		r.Assume("Stop on a stopped ticker ({Stop, Stop}, also on a fresh ticker, and followed by Reset) must not panic and must leave the ticker usable: the call after a double Stop runs under the goroutine-dump verdict (parked on the ticker's mutex for good = violation)")
		r.Assume("a Reset / NewJitterTicker with d <= 0 or jitter >= d must panic (documented) and opens no regime: the ticker keeps the period it had, stays usable, and its ticks are judged against the old regime; negative jitter is not generated (the documentation does not say it panics; the code treats it like 0)")
		r.Assume("with two concurrent Stop calls each call's own return is a barrier: a tick stamped later than the stamp taken after either Stop returned was sent after that Stop returned")
		r.Assume("that ticks keep arriving at all (liveness) is not part of the statement: a phase that sees no tick for 5 s is counted, not judged")

		for _, g := range []struct {
			name string
			run  func(*vkit.Report)
		}{{"regress", regress}, {"sleep+extreme", sleepCases}, {"gate", gateCases}, {"stress", stressCases}, {"ticker-extreme", tickerExtremes}, {"ticker-years", tickerYears},
			{"near", nearCases}, {"pool", poolCases}, {"ended-first", endedFirstCases}, {"lag", lagCases}, {"seq", seqCases}, {"refused", refusedCases}, {"stop2", stop2Cases}, {"gc-load", gcLoadCases}, {"outside", outside}} {
			t := time.Now()
			g.run(r)
			r.Max("wall ms per group (slowest variant)", g.name, int(time.Since(t)/ms))
		}

		for cl := 0; cl < nClasses; cl++ {
			r.Floor("SleepContext calls judged, class "+className[cl], r.Table("sleep class (judged)", className[cl]), 5)
		}
		r.Floor("SleepContext nil results with elapsed >= d judged", r.Table("sleep", "nil result, elapsed >= d checked"), 40)
		r.Floor("SleepContext on contexts ended with an application cause different from ctx.Err()", r.Table("sleep", "contexts that ended with an application cause different from ctx.Err()"), 40)
		r.Floor("SleepContext with an expired deadline and d >= 1h", r.Table("sleep", "expired deadline, d >= 1h: DeadlineTooSoonError demanded"), 48)
		r.Floor("SleepContext with d >= 1<<62 ns", r.Table("sleep", "calls with d >= 1<<62 ns"), 60)
		r.Floor("already-ended context with d <= 1 ms, called under load", r.Table("ended-first", "already-ended context: calls judged"), 50000)
		r.Floor("cancel mid-sleep with d <= 80 us: trials in which cancel() returned before start + d", r.Table("ended-first", "cancel mid-sleep: trials with cancel returned before start+d (judged strictly)"), 2000)
		r.Floor("near d, rule (ii): calls begun with the deadline closer than d", r.Table("near", "calls begun with the deadline closer than d (DeadlineTooSoonError demanded)"), 1000)
		r.Floor("near d, rule (i): calls begun with the deadline >= d away", r.Table("near", "calls begun with the deadline >= d away that did not answer DeadlineTooSoonError (a prompt one would have been refuted)"), 1000)
		r.Floor("control sequences run while the timer callback was held at ticker.fire", r.Table("seq", "sequences run while the callback was held at ticker.fire"), 1000)
		r.Floor("tickers left stopped / Reset to 1h by a control sequence and looked at again", r.Table("seq", "tickers (stopped / Reset to 1h) looked at again >= 3 ms after the drain"), 1000)
		r.Floor("control sequences with a Stop on a stopped ticker", r.Table("seq", "sequences with a Stop on a stopped ticker"), 300)
		r.Floor("lives judged against the old regime after a refused (panicking) Reset / New", r.Table("refused", "lives judged against the old regime after a refused call"), 600)
		r.Floor("refused calls made while the timer callback was held at ticker.fire", r.Table("refused", "refused call made: callback held at ticker.fire"), 200)
		r.Floor("armings with periods of years watched for an immediate tick", r.Table("ticker-years", "armings by NewJitterTicker watched >= 1 ms")+r.Table("ticker-years", "armings by Reset on a running ticker watched >= 1 ms"), 2000)
		r.Floor("tick pairs judged while runtime.GC() / allocation / spinning goroutines were running", r.Table("gc-load", "tick pairs judged under GC load"), 200000)
		r.Floor("tickers stopped by two goroutines at once", r.Table("stop2", "trials"), 2000)
		r.Floor("pool rounds (SleepContext ended at d+-30us, then plain sleeps)", r.Table("pool", "rounds"), 2000)
		r.Floor("lagging-receiver tickers stopped at the second firing and looked at again", r.Table("lag", "stopped tickers looked at again >= 20 ms after the drain"), 5000)
		r.Floor("JitterTicker lives with d >= MaxInt64/4", r.Table("ticker", "lives with d >= MaxInt64/4"), 8)
		r.Floor("NewJitterTicker / Reset with jitter == 0 (no panic)", r.Table("ticker", "New/Reset with jitter == 0"), 20)
		r.Floor("consecutive tick pairs judged", r.Table("ticks", "pairs judged"), 2000)
		r.Floor("tick pairs around a Reset judged", r.Table("ticks", "pairs judged with more than one regime possible"), 20)
		r.Floor("post-Stop watches completed", r.Table("ticker", "post-Stop watch completed"), 500)
		r.Floor("Stop performed while the timer callback was held at ticker.fire", r.Table("gate", "Stop while callback held before its lock"), 20)
		r.Floor("Reset performed while the timer callback was held at ticker.fire", r.Table("gate", "Reset while callback held before its lock"), 10)
	})
}

// ---------------------------------------------------------------------------------------------
// SleepContext

const (
	clPlain = iota
	clNonPos
	clNear
	clFar
	clFarCancel
	clCancelledBig
	clCancelledSmall
	clMidCancel
	clExpired
	nClasses
)

var className = [nClasses]string{
	"plain (no deadline, live)",
	"d <= 0",
	"deadline <= d/8, d >= 4s",
	"deadline >= 2000 d, d <= 5ms",
	"d = 1h, deadline 2h+, cancelled after <= 20ms",
	"already cancelled, d >= 1min",
	"already cancelled, 0 < d <= 1ms",
	"cancelled mid-sleep, d >= 10min",
	"deadline already expired (d >= 1h: DeadlineTooSoonError demanded)",
}

// A class whose expectation has been refuted once is not exercised again in this run (a wrong
// implementation costs up to 500 ms per case there).
var classRefuted [nClasses]atomic.Bool

type sleepOut struct {
	err     error
	elapsed time.Duration
	pan     *vkit.Panic
	verdict vkit.AwaitVerdict
	dump    string
}

// doSleep calls SleepContext on its own goroutine; mid (if any) runs on the calling goroutine once
// the sleeper goroutine has started. The verdict for a call that does not return comes from two
// goroutine dumps, never from a timeout.
func doSleep(ctx context.Context, d time.Duration, mid func()) sleepOut {
	done := make(chan struct{})
	started := make(chan struct{})
	var out sleepOut
	go func() {
		defer close(done)
		close(started)
		t0 := time.Now()
		out.pan = vkit.Try(func() { out.err = xtime.SleepContext(ctx, d) })
		out.elapsed = time.Since(t0)
	}()
	<-started
	if mid != nil {
		mid()
	}
	v, dump := vkit.Await(done, vkit.AwaitOpts{
		Soft: 5 * time.Second, Gap: 500 * time.Millisecond, Hard: 60 * time.Second,
		Relevant: func(g vkit.G) bool { return g.Has("main.doSleep") },
	})
	if v != vkit.AwaitDone {
		// out is still owned by the sleeper goroutine: do not read it.
		return sleepOut{verdict: v, dump: dump}
	}
	return out
}

func isTooSoon(err error) bool {
	var e xtime.DeadlineTooSoonError
	return errors.As(err, &e)
}

func errString(err error) string {
	if err == nil {
		return "nil"
	}
	return fmt.Sprintf("%T(%v)", err, err)
}

// Application errors used as cancellation causes. Two of them wrap the sentinel the context reports
// itself, so only "is not the cause" tells ctx.Err() and context.Cause(ctx) apart there.
var (
	errCause     = errors.New("verif: application cause")
	errCauseWrap = fmt.Errorf("verif: application cause wrapping: %w", context.Canceled)
	errCauseDL   = fmt.Errorf("verif: deadline cause wrapping: %w", context.DeadlineExceeded)
	allCauses    = []error{errCause, errCauseWrap, errCauseDL}
)

// mctx is a context made for one scenario.
type mctx struct {
	ctx  context.Context
	end  func() // ends the context the way the shape means it (with its cause, if it has one)
	free func() // releases everything
	name string
}

type valKey struct{}

// hideDeadline is a context that ends like its parent but does not announce a deadline.
type hideDeadline struct{ context.Context }

func (hideDeadline) Deadline() (time.Time, bool) { return time.Time{}, false }

// deadlineCtxAt makes a context with the absolute deadline dl, in one of several shapes.
func deadlineCtxAt(shape int, dl time.Time) mctx {
	switch shape % 6 {
	case 0:
		ctx, cancel := context.WithDeadline(context.Background(), dl)
		return mctx{ctx, cancel, cancel, "WithDeadline"}
	case 1:
		p, pc := context.WithDeadline(context.Background(), dl)
		ctx, cancel := context.WithCancel(p)
		return mctx{ctx, cancel, func() { cancel(); pc() }, "WithCancel(WithDeadline)"}
	case 2:
		p, pc := context.WithDeadline(context.Background(), dl)
		return mctx{context.WithValue(p, valKey{}, 1), pc, pc, "WithValue(WithDeadline)"}
	case 3:
		ctx, cancel := context.WithDeadlineCause(context.Background(), dl, errCauseDL)
		return mctx{ctx, cancel, cancel, "WithDeadlineCause(cause)"}
	case 4:
		p, pc := context.WithCancelCause(context.Background())
		ctx, cancel := context.WithDeadlineCause(p, dl, errCauseDL)
		return mctx{ctx, func() { pc(errCause) }, func() { cancel(); pc(nil) }, "WithDeadlineCause(WithCancelCause parent, cancelled with a cause)"}
	default:
		p, pc := context.WithCancelCause(context.Background())
		q, qc := context.WithDeadlineCause(p, dl, errCauseDL)
		ctx, cancel := context.WithCancel(context.WithValue(q, valKey{}, 1))
		return mctx{ctx, func() { pc(errCauseWrap) }, func() { cancel(); qc(); pc(nil) }, "WithCancel(WithValue(WithDeadlineCause(WithCancelCause parent, cancelled with a cause)))"}
	}
}

// deadlineCtx makes a context whose deadline is D from now.
func deadlineCtx(shape int, D time.Duration) mctx {
	switch shape % 8 {
	case 6:
		ctx, cancel := context.WithTimeout(context.Background(), D)
		return mctx{ctx, cancel, cancel, "WithTimeout"}
	case 7:
		ctx, cancel := context.WithTimeoutCause(context.Background(), D, errCauseDL)
		return mctx{ctx, cancel, cancel, "WithTimeoutCause(cause)"}
	}
	return deadlineCtxAt(shape%8, time.Now().Add(D))
}

// hiddenDeadlineCtx ends by itself D from now with context.DeadlineExceeded (and an application
// cause), but reports no deadline: the only way the ctx.Done() branch is reached through an expiry
// without coming near deadline ~ d.
func hiddenDeadlineCtx(shape int, D time.Duration) mctx {
	if shape%2 == 0 {
		p, cancel := context.WithTimeoutCause(context.Background(), D, errCauseDL)
		return mctx{hideDeadline{p}, func() {}, cancel, "deadline-hiding wrapper(WithTimeoutCause(cause))"}
	}
	p, cancel := context.WithDeadlineCause(context.Background(), time.Now().Add(D), errCause)
	return mctx{hideDeadline{context.WithValue(p, valKey{}, 1)}, func() {}, cancel, "deadline-hiding wrapper(WithValue(WithDeadlineCause(cause)))"}
}

// cancelCtx makes a context without a deadline; end() cancels it.
func cancelCtx(shape int) mctx {
	switch shape % 8 {
	case 0:
		ctx, cancel := context.WithCancel(context.Background())
		return mctx{ctx, cancel, cancel, "WithCancel"}
	case 1:
		ctx, cancel := context.WithCancel(context.WithValue(context.Background(), valKey{}, 1))
		return mctx{ctx, cancel, cancel, "WithCancel(WithValue)"}
	case 2:
		p, cancel := context.WithCancel(context.Background())
		ctx, c2 := context.WithCancel(p)
		return mctx{ctx, cancel, func() { cancel(); c2() }, "WithCancel(parent cancelled)"}
	case 3:
		ctx, cancel := context.WithCancelCause(context.Background())
		return mctx{ctx, func() { cancel(nil) }, func() { cancel(nil) }, "WithCancelCause(nil cause)"}
	case 4:
		ctx, cancel := context.WithCancelCause(context.Background())
		return mctx{ctx, func() { cancel(errCause) }, func() { cancel(nil) }, "WithCancelCause(cause)"}
	case 5:
		p, cancel := context.WithCancelCause(context.Background())
		return mctx{context.WithValue(p, valKey{}, 1), func() { cancel(errCauseWrap) }, func() { cancel(nil) }, "WithValue(WithCancelCause(cause wrapping Canceled))"}
	case 6:
		p, pc := context.WithCancelCause(context.Background())
		ctx, cancel := context.WithCancel(p)
		return mctx{ctx, func() { pc(errCause) }, func() { cancel(); pc(nil) }, "WithCancel(WithCancelCause parent cancelled with a cause)"}
	default:
		p, pc := context.WithCancelCause(context.Background())
		ctx, cancel := context.WithCancelCause(context.WithValue(p, valKey{}, 1))
		return mctx{ctx, func() { pc(errCauseWrap) }, func() { cancel(nil); pc(nil) }, "WithCancelCause(WithValue(WithCancelCause parent cancelled with a cause))"}
	}
}

// isCause reports whether err is (or wraps) one of the application causes: "the context's error"
// is ctx.Err(), never context.Cause(ctx).
func isCause(err error) bool {
	for _, c := range allCauses {
		if errors.Is(err, c) {
			return true
		}
	}
	return false
}

const maxD = time.Duration(math.MaxInt64)

var hugeD = []time.Duration{1 << 62, maxD - 1, maxD}

// Deadlines that have already expired, from the barely expired to the unrepresentably old.
var expiredKinds = []string{"time.Time{}", "time.Unix(0,0)", "time.Unix(-1<<40,0)", "now-1h", "now-1ms", "now-1ns"}

func expiredDeadline(kind int) time.Time {
	switch kind % len(expiredKinds) {
	case 0:
		return time.Time{}
	case 1:
		return time.Unix(0, 0)
	case 2:
		return time.Unix(-1<<40, 0)
	case 3:
		return time.Now().Add(-time.Hour)
	case 4:
		return time.Now().Add(-1 * ms)
	}
	return time.Now().Add(-1)
}

var expiredDs = []time.Duration{1, 1 * ms, 4 * time.Second, time.Hour, 1 << 62, maxD - 1, maxD}

func sleepCases(r *vkit.Report) {
	n := r.Scale(700, 4000)
	r.Cases("sleep", n, 1, func(c *vkit.Case) {
		class := c.Rand.Weighted([]int{5, 3, 3, 5, 3, 3, 2, 4, 3})
		sleepCase(c, class, nil)
	})
	// Every expired deadline kind x every d (incl. 1 ns and MaxInt64) x plain / cause shape, and the
	// huge d values against near deadlines.
	ne := len(expiredKinds) * len(expiredDs) * 2
	r.Cases("extreme", ne+len(hugeD)*3, 1, func(c *vkit.Case) {
		i := c.Index
		if i < ne {
			sleepCase(c, clExpired, &sleepFix{d: expiredDs[i%len(expiredDs)], kind: i / len(expiredDs) % len(expiredKinds), shape: 3 * (i / (len(expiredDs) * len(expiredKinds)))})
			return
		}
		i -= ne
		sleepCase(c, clNear, &sleepFix{d: hugeD[i%len(hugeD)], D: []time.Duration{1 * ms, 20 * ms, 500 * ms}[i/len(hugeD)], shape: i})
	})
}

type sleepFix struct {
	d, D  time.Duration
	shape int
	kind  int // expired deadline kind (clExpired)
}

func sleepCase(c *vkit.Case, class int, fix *sleepFix) {
	r := c.R
	rnd := c.Rand
	if classRefuted[class].Load() {
		r.Count("sleep", "cases skipped after the class was refuted", 1)
		return
	}
	var (
		d, D      time.Duration // D: deadline distance (0 = none / see dlDesc)
		m         mctx
		dlDesc    string
		mid       func()
		midDelay  time.Duration
		want      = context.Canceled // the context's error in the classes whose context ends
		t0        = time.Now()       // before the context exists
		variant   = rnd.Intn(60)
		shapeSeed = rnd.Intn(48)
	)
	cancelAfter := func(delays []time.Duration) {
		midDelay = vkit.Pick(rnd, delays)
		end := m.end
		mid = func() {
			if midDelay > 0 {
				time.Sleep(midDelay)
			}
			end()
		}
	}
	switch class {
	case clPlain:
		d = vkit.Pick(rnd, []time.Duration{50 * us, 300 * us, 1 * ms, 2 * ms, 3 * ms, 5 * ms})
		if variant%2 == 0 {
			m = mctx{context.Background(), func() {}, func() {}, "Background"}
		} else {
			m = cancelCtx(shapeSeed)
		}
	case clNonPos:
		d = vkit.Pick(rnd, []time.Duration{0, -1, -1 * ms, -time.Hour, math.MinInt64})
		switch variant % 3 {
		case 0:
			m = mctx{context.Background(), func() {}, func() {}, "Background"}
		case 1:
			m = cancelCtx(shapeSeed)
			m.end()
			m.name += ", cancelled"
		default:
			D = time.Hour
			m = deadlineCtx(shapeSeed, D)
		}
	case clNear:
		d = vkit.Pick(rnd, []time.Duration{4 * time.Second, 7 * time.Second, time.Minute, time.Hour, 1000 * time.Hour, 1 << 62, maxD - 1, maxD})
		D = vkit.Pick(rnd, []time.Duration{1 * ms, 5 * ms, 20 * ms, 100 * ms, 500 * ms})
		if fix != nil {
			d, D, shapeSeed = fix.d, fix.D, fix.shape
		}
		m = deadlineCtx(shapeSeed, D)
	case clFar:
		d = vkit.Pick(rnd, []time.Duration{1 * ms, 2 * ms, 3 * ms, 5 * ms})
		D = vkit.Pick(rnd, []time.Duration{10 * time.Second, time.Minute, time.Hour, 2 * time.Hour})
		if fix != nil {
			d, D, shapeSeed = fix.d, fix.D, fix.shape
		}
		t0 = time.Now()
		m = deadlineCtx(shapeSeed, D)
	case clFarCancel:
		if variant%3 == 0 {
			// as far as a deadline can be (time.Until saturates), against the longest sleeps there are
			d = vkit.Pick(rnd, hugeD)
			m = deadlineCtxAt(shapeSeed, time.Unix(1<<62, 0))
			dlDesc = "time.Unix(1<<62,0)"
		} else {
			d = time.Hour
			D = vkit.Pick(rnd, []time.Duration{2 * time.Hour, 100 * time.Hour})
			m = deadlineCtx(shapeSeed, D)
		}
		cancelAfter([]time.Duration{0, 100 * us, 1 * ms, 5 * ms, 20 * ms})
	case clCancelledBig:
		d = vkit.Pick(rnd, []time.Duration{time.Minute, 10 * time.Minute, time.Hour, 1 << 62, maxD - 1, maxD})
		if variant%5 == 0 {
			m = hiddenDeadlineCtx(shapeSeed, -1*ms)
			m.name += ", expired"
			want = context.DeadlineExceeded
		} else {
			m = cancelCtx(shapeSeed)
			m.end()
			m.name += ", cancelled"
		}
	case clCancelledSmall:
		d = vkit.Pick(rnd, []time.Duration{1, 100, 1 * us, 5 * us, 19 * us, 50 * us, 100 * us, 1 * ms})
		m = cancelCtx(shapeSeed)
		m.end()
		m.name += ", cancelled"
	case clMidCancel:
		d = vkit.Pick(rnd, []time.Duration{10 * time.Minute, time.Hour, 1 << 62, maxD - 1, maxD})
		if variant%4 == 0 {
			midDelay = vkit.Pick(rnd, []time.Duration{50 * us, 1 * ms, 5 * ms, 20 * ms})
			m = hiddenDeadlineCtx(shapeSeed, midDelay)
			m.name += fmt.Sprintf(", expiring after %s", midDelay)
			want = context.DeadlineExceeded
		} else {
			m = cancelCtx(shapeSeed)
			cancelAfter([]time.Duration{0, 50 * us, 1 * ms, 5 * ms, 20 * ms})
		}
	case clExpired:
		d = vkit.Pick(rnd, expiredDs)
		kind := rnd.Intn(len(expiredKinds))
		if fix != nil {
			d, kind, shapeSeed = fix.d, fix.kind, fix.shape
		}
		m = deadlineCtxAt(shapeSeed, expiredDeadline(kind))
		dlDesc = expiredKinds[kind%len(expiredKinds)]
		want = context.DeadlineExceeded
	}
	defer m.free()
	ctx, shape := m.ctx, m.name

	out := doSleep(ctx, d, mid)
	total := time.Since(t0)

	witness := map[string]any{
		"class": className[class], "d": d.String(), "d_ns": int64(d), "context": shape,
	}
	desc := fmt.Sprintf("SleepContext(%s, %s)", shape, d)
	switch {
	case dlDesc != "":
		witness["deadline"] = dlDesc
		desc = fmt.Sprintf("SleepContext(%s deadline %s, %s)", shape, dlDesc, d)
	case D != 0:
		witness["deadline_from_now"] = D.String()
		desc = fmt.Sprintf("SleepContext(%s deadline now%+v, %s)", shape, D, d)
	}
	if mid != nil {
		witness["cancelled_after"] = midDelay.String()
	}
	bad := func(sig, what string) {
		classRefuted[class].Store(true)
		c.Violation(sig, what, witness)
	}

	// A call that did not return.
	if out.verdict != vkit.AwaitDone {
		witness["goroutines"] = out.dump
		ended := class == clFarCancel || class == clCancelledBig || class == clMidCancel || class == clNonPos || class == clNear || class == clExpired
		if out.verdict == vkit.AwaitStuck && ended {
			what := "is parked for good although its context has ended"
			switch class {
			case clNonPos:
				what = "blocks although d <= 0"
			case clNear:
				what = "went to sleep although the deadline is at most d/8 away"
			}
			bad("sleep-parked", desc+" "+what+" (two identical goroutine dumps 500 ms apart)")
			return
		}
		r.Inconclusive(fmt.Sprintf("case %s: %s had not returned (%s)", c.ID(), desc, out.verdict))
		return
	}
	witness["result"] = errString(out.err)
	witness["elapsed"] = out.elapsed.String()
	if ce := context.Cause(ctx); ce != nil && ce != ctx.Err() {
		witness["context_cause"] = errString(ce)
		witness["context_err"] = errString(ctx.Err())
		r.Count("sleep", "contexts that ended with an application cause different from ctx.Err()", 1)
	}
	r.Eval(1)
	r.Count("sleep class (judged)", className[class], 1)
	r.Count("sleep result", errKind(out.err), 1)
	r.Count("sleep context shape", shape, 1)
	if d >= 1<<62 {
		r.Count("sleep", "calls with d >= 1<<62 ns", 1)
	}
	r.Distinct(fmt.Sprintf("sleep|%d|%d|%d|%s|%s|%d", class, d, D, dlDesc, shape, midDelay))

	if out.pan != nil {
		witness["panic"] = out.pan.Msg
		bad("sleep-panic", desc+" panicked: "+out.pan.Msg)
		return
	}
	// (a) nil only after at least d (for every class).
	if out.err == nil && d > 0 {
		r.Count("sleep", "nil result, elapsed >= d checked", 1)
		if out.elapsed < d {
			bad("nil-before-d", fmt.Sprintf("%s returned nil after %s, less than d", desc, out.elapsed))
			return
		}
	}
	// "the context's error" is ctx.Err(): the sentinel, not the application cause.
	isWant := func(err error) bool { return errors.Is(err, want) && !isCause(err) }
	wantName := "context.Canceled"
	if want == context.DeadlineExceeded {
		wantName = "context.DeadlineExceeded"
	}
	ctxErrSig := func(err error) (string, string) {
		switch {
		case isTooSoon(err):
			return "deadline-too-soon-spurious", ""
		case err != nil && isCause(err):
			return "cause-instead-of-ctx-err", " (that is context.Cause(ctx), not ctx.Err())"
		}
		return "ctx-error-missing", ""
	}
	switch class {
	case clPlain, clNonPos:
		if out.err != nil {
			bad("unexpected-error", fmt.Sprintf("%s returned %s; expected nil", desc, errString(out.err)))
		}
	case clNear:
		if !isTooSoon(out.err) {
			bad("deadline-too-soon-missing", fmt.Sprintf("%s returned %s after %s; the deadline is at most d/8 away, expected DeadlineTooSoonError", desc, errString(out.err), out.elapsed))
		}
	case clFar:
		if out.err != nil {
			if total < D-d {
				sig := "spurious-error-far-deadline"
				if isTooSoon(out.err) {
					sig = "deadline-too-soon-spurious"
				}
				bad(sig, fmt.Sprintf("%s returned %s; the whole scenario took %s, so more than d was left until the deadline; expected nil after >= d", desc, errString(out.err), total))
			} else {
				r.Count("sleep", "far-deadline case not judged: machine stalled for the whole deadline", 1)
			}
		}
	case clFarCancel, clCancelledBig, clMidCancel:
		if !isWant(out.err) {
			sig, note := ctxErrSig(out.err)
			bad(sig, fmt.Sprintf("%s returned %s%s after %s; the context ended long before d, expected ctx.Err() = %s", desc, errString(out.err), note, out.elapsed, wantName))
		}
	case clCancelledSmall:
		// The context had ended before the call: it ended first for every d > 0, however small.
		if !isWant(out.err) {
			sig, note := ctxErrSig(out.err)
			if out.err == nil {
				sig = "nil-although-context-ended-first"
			}
			bad(sig, fmt.Sprintf("%s returned %s%s after %s; the context had ended before the call, expected ctx.Err() = context.Canceled", desc, errString(out.err), note, out.elapsed))
		}
	case clExpired:
		switch {
		case isTooSoon(out.err):
		case d >= time.Hour:
			// The deadline is in the past and d is at least an hour: it is closer than d by any
			// reading, so the statement leaves no choice.
			bad("deadline-too-soon-missing", fmt.Sprintf("%s returned %s; the deadline had already expired and d >= 1h, expected DeadlineTooSoonError", desc, errString(out.err)))
		case isWant(out.err):
			r.Count("outside the statement / lenient (not judged)", "expired deadline, d < 1h: context.DeadlineExceeded instead of DeadlineTooSoonError", 1)
		default:
			sig, note := ctxErrSig(out.err)
			if sig == "ctx-error-missing" {
				sig = "expired-deadline-result"
			}
			bad(sig, fmt.Sprintf("%s returned %s%s; the deadline had already expired, expected DeadlineTooSoonError (or ctx.Err() = context.DeadlineExceeded)", desc, errString(out.err), note))
		}
		if d >= time.Hour {
			r.Count("sleep", "expired deadline, d >= 1h: DeadlineTooSoonError demanded", 1)
		}
	}
	if r.WantSample() && c.Index%37 == 3 {
		r.Sample(witness)
	}
}

func errKind(err error) string {
	switch {
	case err == nil:
		return "nil"
	case isCause(err):
		return "application cause (context.Cause)"
	case isTooSoon(err):
		return "DeadlineTooSoonError"
	case errors.Is(err, context.Canceled):
		return "context.Canceled"
	case errors.Is(err, context.DeadlineExceeded):
		return "context.DeadlineExceeded"
	}
	return "other"
}

// ---------------------------------------------------------------------------------------------
// Named regression scenarios for the two repaired defects.

func regress(r *vkit.Report) {
	// D16 (41035ac): the deadline test was inverted — a context with 1 h left refused a 10 ms
	// sleep; a context with 20 ms left slept into its deadline.
	r.Cases("regress-d16", 8, 1, func(c *vkit.Case) {
		if c.Index%2 == 0 {
			sleepCase(c, clFar, &sleepFix{d: 10 * ms, D: time.Hour, shape: c.Index / 2})
		} else {
			sleepCase(c, clNear, &sleepFix{d: 4 * time.Second, D: 20 * ms, shape: c.Index / 2})
		}
		c.R.Count("regression", "D16 scenario run", 1)
	})
	// D17 (5fbf649): jitter == 0 panicked in rand.Int63n(0), in NewJitterTicker and in Reset.
	r.Cases("regress-d17", 12, 1, func(c *vkit.Case) {
		d := gridD[c.Index%len(gridD)]
		p := tickerPlan{d0: d, j0: 0}
		if c.Index%2 == 1 {
			p.j0 = d / 2
			p.phases = append(p.phases, phase{ticks: 1, off: -d, reset: true, d: gridD[(c.Index+1)%len(gridD)], j: 0})
		}
		p.phases = append(p.phases, phase{ticks: 2, off: 0})
		res := runTicker(p, nil, nil)
		judgeTicker(c, res, "regress-d17")
		c.R.Count("regression", "D17 scenario run", 1)
	})
}

// ---------------------------------------------------------------------------------------------
// A second Stop on a stopped ticker (judged since /repo 7421ed4).

func outside(r *vkit.Report) {
	r.Cases("outside", 1, 1, func(c *vkit.Case) {
		var tk *xtime.JitterTicker
		if p := vkit.Try(func() { tk = xtime.NewJitterTicker(time.Hour, time.Minute) }); p != nil {
			return
		}
		if p := vkit.Try(tk.Stop); p != nil {
			return
		}
		r.Eval(1)
		if p := vkit.Try(tk.Stop); p != nil {
			c.Violation("stop-panics", "NewJitterTicker(1h, 1m), Stop(), Stop(): the second Stop panicked: "+p.Msg, map[string]any{"panic": p.Msg, "frame": p.JuniperFrame()})
			return
		}
		r.Count("ticker", "second Stop on a stopped ticker returned", 1)
	})
}
