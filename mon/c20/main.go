// C20 — xtime: SleepContext honours d and the deadline; JitterTicker keeps its spacing; no tick
// after Stop.
//
// Oracle: history checks in which the wall clock is only ever used as a LOWER bound.
//   - SleepContext: the kind of the result (nil / DeadlineTooSoonError / ctx.Err()) is decided by the
//     scenario class, and the classes are chosen so far from the boundary (deadline <= d/8 with
//     d >= 4 s, or deadline >= 2000 d) that no scheduling delay can change the expected kind; a nil
//     result additionally needs elapsed >= d, measured around the call. "Never returns" is decided by
//     the goroutine-dump verdict (vkit.Await), and only where the context has already ended.
//   - JitterTicker: only the timestamps CARRIED BY the ticks are compared with each other
//     (consecutive ticks >= d - jitter apart) and with a stamp taken after Stop returned (a tick
//     stamped later than that was sent after Stop returned: the stamp is taken before the send).
//     (ticker.go)
//
// Built with -race.
package main

import (
	"context"
	"errors"
	"fmt"
	"math"
	"sync/atomic"
	"time"

	"github.com/bradenaw/juniper/xtime"

	"verif/vkit"
)

const (
	us = time.Microsecond
	ms = time.Millisecond
)

func main() {
	vkit.Main("C20", "exploration", func(r *vkit.Report) {
		r.SetRule("SleepContext: case = one call in one of nine scenario classes (plain; d <= 0; deadline <= d/8 with d >= 4 s; deadline >= 2000 d with d <= 5 ms; " +
			"d = 1 h under a 2 h deadline cancelled after <= 20 ms; already cancelled with d >= 1 min; already cancelled with d <= 1 ms; cancelled mid-sleep with d >= 10 min; " +
			"deadline already expired) x context shape (Background, WithCancel, WithTimeout, WithDeadline, child / WithValue wrappers); evaluation = one returned call judged; " +
			"distinct = by (class, d, deadline, shape, cancel delay). " +
			"JitterTicker: case = one ticker life (NewJitterTicker(d, jitter) from the grid d in {100us..5ms} x jitter in {0, 1ns, d/2, d-1ns}; 0-2 Resets to other grid points; " +
			"one Stop; each action fired at a seeded offset around the expected firing time, or while the timer callback is held at the pause point ticker.fire), 64 lives at a time in the stress group; " +
			"evaluation = one New/Reset no-panic check, one consecutive tick pair, or one post-Stop watch / post-Stop tick judged; " +
			"non-trivial = the life produced >= 1 judged tick pair or a completed post-Stop watch; distinct = by (d, jitter, phases, offsets rounded to 50us).")
		r.Assume("elapsed time is judged only as a lower bound (nil from SleepContext => elapsed >= d; tick timestamps >= d - jitter apart); no result is ever judged for arriving late")
		r.Assume("scenario classes stay away from deadline ~ d: 'exactly when the deadline is closer than d' is decided only for deadline <= d/8 (must be DeadlineTooSoonError) and deadline >= 2000 d (must not be); in the latter class an error is judged only if the whole scenario, from before the context was made, took less than deadline - d")
		r.Assume("an already-cancelled context with 0 < d <= 1 ms: nil after >= d is recorded, not judged (the timer may win the select when the goroutine is descheduled for >= d); with d >= 1 min the result must be ctx.Err()")
		r.Assume("a context whose deadline has already expired satisfies both the DeadlineTooSoonError clause and the ctx.Err() clause: either result is accepted")
		r.Assume("tick pairs that may straddle a Reset are held to the smaller of the d - jitter bounds of every regime that can have been in force between the two timestamps")
		r.Assume("'no tick is sent after Stop returns' is refuted only by a tick whose own timestamp (taken inside the callback before the send) is later than a stamp taken after Stop returned; a tick that was already in the 1-slot channel is legitimate")
		r.Assume("that ticks keep arriving at all (liveness) is not part of the statement: a phase that sees no tick for 5 s is counted, not judged")

		regress(r)
		sleepCases(r)
		gateCases(r)
		stressCases(r)
		outside(r)

		for cl := 0; cl < nClasses; cl++ {
			r.Floor("SleepContext calls judged, class "+className[cl], r.Table("sleep class (judged)", className[cl]), 5)
		}
		r.Floor("SleepContext nil results with elapsed >= d judged", r.Table("sleep", "nil result, elapsed >= d checked"), 40)
		r.Floor("NewJitterTicker / Reset with jitter == 0 (no panic)", r.Table("ticker", "New/Reset with jitter == 0"), 20)
		r.Floor("consecutive tick pairs judged", r.Table("ticks", "pairs judged"), 2000)
		r.Floor("tick pairs around a Reset judged", r.Table("ticks", "pairs judged with more than one regime possible"), 20)
		r.Floor("post-Stop watches completed", r.Table("ticker", "post-Stop watch completed"), 500)
		r.Floor("Stop performed while the timer callback was held at ticker.fire", r.Table("gate", "Stop while callback held before its lock"), 20)
		r.Floor("Reset performed while the timer callback was held at ticker.fire", r.Table("gate", "Reset while callback held before its lock"), 10)
	})
}

// ---------------------------------------------------------------------------------------------
// SleepContext

const (
	clPlain = iota
	clNonPos
	clNear
	clFar
	clFarCancel
	clCancelledBig
	clCancelledSmall
	clMidCancel
	clExpired
	nClasses
)

var className = [nClasses]string{
	"plain (no deadline, live)",
	"d <= 0",
	"deadline <= d/8, d >= 4s",
	"deadline >= 2000 d, d <= 5ms",
	"d = 1h, deadline 2h+, cancelled after <= 20ms",
	"already cancelled, d >= 1min",
	"already cancelled, 0 < d <= 1ms (lenient)",
	"cancelled mid-sleep, d >= 10min",
	"deadline already expired (lenient)",
}

// A class whose expectation has been refuted once is not exercised again in this run (a wrong
// implementation costs up to 500 ms per case there).
var classRefuted [nClasses]atomic.Bool

type sleepOut struct {
	err     error
	elapsed time.Duration
	pan     *vkit.Panic
	verdict vkit.AwaitVerdict
	dump    string
}

// doSleep calls SleepContext on its own goroutine; mid (if any) runs on the calling goroutine once
// the sleeper goroutine has started. The verdict for a call that does not return comes from two
// goroutine dumps, never from a timeout.
func doSleep(ctx context.Context, d time.Duration, mid func()) sleepOut {
	done := make(chan struct{})
	started := make(chan struct{})
	var out sleepOut
	go func() {
		defer close(done)
		close(started)
		t0 := time.Now()
		out.pan = vkit.Try(func() { out.err = xtime.SleepContext(ctx, d) })
		out.elapsed = time.Since(t0)
	}()
	<-started
	if mid != nil {
		mid()
	}
	v, dump := vkit.Await(done, vkit.AwaitOpts{
		Soft: 5 * time.Second, Gap: 500 * time.Millisecond, Hard: 60 * time.Second,
		Relevant: func(g vkit.G) bool { return g.Has("main.doSleep") },
	})
	if v != vkit.AwaitDone {
		// out is still owned by the sleeper goroutine: do not read it.
		return sleepOut{verdict: v, dump: dump}
	}
	return out
}

func isTooSoon(err error) bool {
	var e xtime.DeadlineTooSoonError
	return errors.As(err, &e)
}

func errString(err error) string {
	if err == nil {
		return "nil"
	}
	return fmt.Sprintf("%T(%v)", err, err)
}

// deadlineCtx makes a context whose deadline is D from now, in one of several shapes.
func deadlineCtx(shape int, D time.Duration) (context.Context, func(), string) {
	switch shape % 4 {
	case 0:
		ctx, cancel := context.WithTimeout(context.Background(), D)
		return ctx, cancel, "WithTimeout"
	case 1:
		ctx, cancel := context.WithDeadline(context.Background(), time.Now().Add(D))
		return ctx, cancel, "WithDeadline"
	case 2:
		p, pc := context.WithTimeout(context.Background(), D)
		ctx, cancel := context.WithCancel(p)
		return ctx, func() { cancel(); pc() }, "WithCancel(WithTimeout)"
	default:
		p, pc := context.WithDeadline(context.Background(), time.Now().Add(D))
		type k struct{}
		return context.WithValue(p, k{}, 1), pc, "WithValue(WithDeadline)"
	}
}

func cancelCtx(shape int) (context.Context, context.CancelFunc, string) {
	switch shape % 3 {
	case 0:
		ctx, cancel := context.WithCancel(context.Background())
		return ctx, cancel, "WithCancel"
	case 1:
		type k struct{}
		ctx, cancel := context.WithCancel(context.WithValue(context.Background(), k{}, 1))
		return ctx, cancel, "WithCancel(WithValue)"
	default:
		p, cancel := context.WithCancel(context.Background())
		ctx, c2 := context.WithCancel(p)
		return ctx, func() { cancel(); c2() }, "WithCancel(parent cancelled)"
	}
}

func sleepCases(r *vkit.Report) {
	n := r.Scale(600, 8000)
	r.Cases("sleep", n, 1, func(c *vkit.Case) {
		class := c.Rand.Weighted([]int{5, 3, 3, 5, 2, 2, 2, 3, 1})
		sleepCase(c, class, nil)
	})
}

type sleepFix struct {
	d, D  time.Duration
	shape int
}

func sleepCase(c *vkit.Case, class int, fix *sleepFix) {
	r := c.R
	rnd := c.Rand
	if classRefuted[class].Load() {
		r.Count("sleep", "cases skipped after the class was refuted", 1)
		return
	}
	var (
		d, D      time.Duration // D: deadline distance (0 = none)
		ctx       context.Context
		cancel    func()
		shape     string
		mid       func()
		midDelay  time.Duration
		t0        = time.Now() // before the context exists
		shapeSeed = rnd.Intn(12)
	)
	switch class {
	case clPlain:
		d = vkit.Pick(rnd, []time.Duration{50 * us, 300 * us, 1 * ms, 2 * ms, 3 * ms, 5 * ms})
		if shapeSeed%2 == 0 {
			ctx, cancel, shape = context.Background(), func() {}, "Background"
		} else {
			ctx, cancel, shape = cancelCtx(shapeSeed)
		}
	case clNonPos:
		d = vkit.Pick(rnd, []time.Duration{0, -1, -1 * ms, -time.Hour, math.MinInt64})
		switch shapeSeed % 3 {
		case 0:
			ctx, cancel, shape = context.Background(), func() {}, "Background"
		case 1:
			var cf context.CancelFunc
			ctx, cf, shape = cancelCtx(shapeSeed)
			cf()
			cancel = func() {}
			shape += " cancelled"
		default:
			D = time.Hour
			ctx, cancel, shape = deadlineCtx(shapeSeed, D)
		}
	case clNear:
		d = vkit.Pick(rnd, []time.Duration{4 * time.Second, 7 * time.Second, time.Minute, time.Hour, 1000 * time.Hour})
		D = vkit.Pick(rnd, []time.Duration{1 * ms, 5 * ms, 20 * ms, 100 * ms, 500 * ms})
		if fix != nil {
			d, D, shapeSeed = fix.d, fix.D, fix.shape
		}
		t0 = time.Now()
		ctx, cancel, shape = deadlineCtx(shapeSeed, D)
	case clFar:
		d = vkit.Pick(rnd, []time.Duration{1 * ms, 2 * ms, 3 * ms, 5 * ms})
		D = vkit.Pick(rnd, []time.Duration{10 * time.Second, time.Minute, time.Hour, 2 * time.Hour})
		if fix != nil {
			d, D, shapeSeed = fix.d, fix.D, fix.shape
		}
		t0 = time.Now()
		ctx, cancel, shape = deadlineCtx(shapeSeed, D)
	case clFarCancel:
		d = time.Hour
		D = vkit.Pick(rnd, []time.Duration{2 * time.Hour, 100 * time.Hour})
		ctx, cancel, shape = deadlineCtx(shapeSeed, D)
		midDelay = vkit.Pick(rnd, []time.Duration{0, 100 * us, 1 * ms, 5 * ms, 20 * ms})
		cf := cancel
		mid = func() {
			if midDelay > 0 {
				time.Sleep(midDelay)
			}
			cf()
		}
	case clCancelledBig:
		d = vkit.Pick(rnd, []time.Duration{time.Minute, 10 * time.Minute, time.Hour})
		var cf context.CancelFunc
		ctx, cf, shape = cancelCtx(shapeSeed)
		cf()
		cancel = func() {}
		shape += " cancelled"
	case clCancelledSmall:
		d = vkit.Pick(rnd, []time.Duration{1, 1 * us, 100 * us, 1 * ms})
		var cf context.CancelFunc
		ctx, cf, shape = cancelCtx(shapeSeed)
		cf()
		cancel = func() {}
		shape += " cancelled"
	case clMidCancel:
		d = vkit.Pick(rnd, []time.Duration{10 * time.Minute, time.Hour})
		var cf context.CancelFunc
		ctx, cf, shape = cancelCtx(shapeSeed)
		cancel = cf
		midDelay = vkit.Pick(rnd, []time.Duration{0, 50 * us, 1 * ms, 5 * ms, 20 * ms})
		mid = func() {
			if midDelay > 0 {
				time.Sleep(midDelay)
			}
			cf()
		}
	case clExpired:
		d = vkit.Pick(rnd, []time.Duration{1 * ms, 4 * time.Second, time.Hour})
		D = -vkit.Pick(rnd, []time.Duration{1, 1 * ms, time.Hour})
		ctx, cancel, shape = deadlineCtx(shapeSeed|1, D) // WithDeadline shapes
	}
	defer cancel()

	out := doSleep(ctx, d, mid)
	total := time.Since(t0)

	witness := map[string]any{
		"class": className[class], "d": d.String(), "d_ns": int64(d), "context": shape,
	}
	if D != 0 {
		witness["deadline_from_now"] = D.String()
	}
	if mid != nil {
		witness["cancelled_after"] = midDelay.String()
	}
	desc := fmt.Sprintf("SleepContext(%s, %s)", shape, d)
	if D != 0 {
		desc = fmt.Sprintf("SleepContext(%s deadline now%+v, %s)", shape, D, d)
	}
	bad := func(sig, what string) {
		classRefuted[class].Store(true)
		c.Violation(sig, what, witness)
	}

	// A call that did not return.
	if out.verdict != vkit.AwaitDone {
		witness["goroutines"] = out.dump
		ended := class == clFarCancel || class == clCancelledBig || class == clMidCancel || class == clNonPos || class == clNear || class == clExpired
		if out.verdict == vkit.AwaitStuck && ended {
			what := "is parked for good although its context has ended"
			switch class {
			case clNonPos:
				what = "blocks although d <= 0"
			case clNear:
				what = "went to sleep although the deadline is at most d/8 away"
			}
			bad("sleep-parked", desc+" "+what+" (two identical goroutine dumps 500 ms apart)")
			return
		}
		r.Inconclusive(fmt.Sprintf("case %s: %s had not returned (%s)", c.ID(), desc, out.verdict))
		return
	}
	witness["result"] = errString(out.err)
	witness["elapsed"] = out.elapsed.String()
	r.Eval(1)
	r.Count("sleep class (judged)", className[class], 1)
	r.Count("sleep result", errKind(out.err), 1)
	r.Distinct(fmt.Sprintf("sleep|%d|%d|%d|%s|%d", class, d, D, shape, midDelay))

	if out.pan != nil {
		witness["panic"] = out.pan.Msg
		bad("sleep-panic", desc+" panicked: "+out.pan.Msg)
		return
	}
	// (a) nil only after at least d (for every class).
	if out.err == nil && d > 0 {
		r.Count("sleep", "nil result, elapsed >= d checked", 1)
		if out.elapsed < d {
			bad("nil-before-d", fmt.Sprintf("%s returned nil after %s, less than d", desc, out.elapsed))
			return
		}
	}
	switch class {
	case clPlain, clNonPos:
		if out.err != nil {
			bad("unexpected-error", fmt.Sprintf("%s returned %s; expected nil", desc, errString(out.err)))
		}
	case clNear:
		if !isTooSoon(out.err) {
			bad("deadline-too-soon-missing", fmt.Sprintf("%s returned %s after %s; the deadline is at most d/8 away, expected DeadlineTooSoonError", desc, errString(out.err), out.elapsed))
		}
	case clFar:
		if out.err != nil {
			if total < D-d {
				sig := "spurious-error-far-deadline"
				if isTooSoon(out.err) {
					sig = "deadline-too-soon-spurious"
				}
				bad(sig, fmt.Sprintf("%s returned %s; the whole scenario took %s, so more than d was left until the deadline; expected nil after >= d", desc, errString(out.err), total))
			} else {
				r.Count("sleep", "far-deadline case not judged: machine stalled for the whole deadline", 1)
			}
		}
	case clFarCancel, clCancelledBig, clMidCancel:
		if !errors.Is(out.err, context.Canceled) {
			sig := "ctx-error-missing"
			if isTooSoon(out.err) {
				sig = "deadline-too-soon-spurious"
			}
			bad(sig, fmt.Sprintf("%s returned %s after %s; the context was cancelled long before d, expected context.Canceled", desc, errString(out.err), out.elapsed))
		}
	case clCancelledSmall:
		switch {
		case errors.Is(out.err, context.Canceled):
		case out.err == nil:
			r.Count("outside the statement / lenient (not judged)", "already-cancelled ctx, 0 < d <= 1ms: nil after >= d (timer won the select)", 1)
		default:
			bad("ctx-error-missing", fmt.Sprintf("%s returned %s; expected context.Canceled", desc, errString(out.err)))
		}
	case clExpired:
		if !isTooSoon(out.err) && !errors.Is(out.err, context.DeadlineExceeded) {
			bad("expired-deadline-result", fmt.Sprintf("%s returned %s; the deadline had already expired, expected DeadlineTooSoonError or context.DeadlineExceeded", desc, errString(out.err)))
		}
	}
	if r.WantSample() && c.Index%37 == 3 {
		r.Sample(witness)
	}
}

func errKind(err error) string {
	switch {
	case err == nil:
		return "nil"
	case isTooSoon(err):
		return "DeadlineTooSoonError"
	case errors.Is(err, context.Canceled):
		return "context.Canceled"
	case errors.Is(err, context.DeadlineExceeded):
		return "context.DeadlineExceeded"
	}
	return "other"
}

// ---------------------------------------------------------------------------------------------
// Named regression scenarios for the two repaired defects.

func regress(r *vkit.Report) {
	// D16 (41035ac): the deadline test was inverted — a context with 1 h left refused a 10 ms
	// sleep; a context with 20 ms left slept into its deadline.
	r.Cases("regress-d16", 8, 1, func(c *vkit.Case) {
		if c.Index%2 == 0 {
			sleepCase(c, clFar, &sleepFix{d: 10 * ms, D: time.Hour, shape: c.Index / 2})
		} else {
			sleepCase(c, clNear, &sleepFix{d: 4 * time.Second, D: 20 * ms, shape: c.Index / 2})
		}
		c.R.Count("regression", "D16 scenario run", 1)
	})
	// D17 (5fbf649): jitter == 0 panicked in rand.Int63n(0), in NewJitterTicker and in Reset.
	r.Cases("regress-d17", 12, 1, func(c *vkit.Case) {
		d := gridD[c.Index%len(gridD)]
		p := tickerPlan{d0: d, j0: 0}
		if c.Index%2 == 1 {
			p.j0 = d / 2
			p.phases = append(p.phases, phase{ticks: 1, off: -d, reset: true, d: gridD[(c.Index+1)%len(gridD)], j: 0})
		}
		p.phases = append(p.phases, phase{ticks: 2, off: 0})
		res := runTicker(p, nil, nil)
		judgeTicker(c, res, "regress-d17")
		c.R.Count("regression", "D17 scenario run", 1)
	})
}

// ---------------------------------------------------------------------------------------------
// Observed, outside the statement: a second Stop.

func outside(r *vkit.Report) {
	r.Cases("outside", 1, 1, func(c *vkit.Case) {
		var tk *xtime.JitterTicker
		if p := vkit.Try(func() { tk = xtime.NewJitterTicker(time.Hour, time.Minute) }); p != nil {
			return
		}
		if p := vkit.Try(tk.Stop); p != nil {
			return
		}
		// The second Stop is outside the statement (and leaves the ticker's mutex locked when it
		// panics; the ticker is dropped here).
		if p := vkit.Try(tk.Stop); p != nil {
			r.Count("outside the statement / lenient (not judged)", "second Stop panicked: "+p.Msg, 1)
		} else {
			r.Count("outside the statement / lenient (not judged)", "second Stop returned", 1)
		}
	})
}
