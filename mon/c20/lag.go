package main

import (
	"fmt"
	"runtime"
	"sync"
	"sync/atomic"
	"time"

	"github.com/bradenaw/juniper/xtime"

	"verif/vkit"
)

// Group "lag": a receiver that does not read (the 1-slot channel is full at every firing after the
// first), and a Stop aimed at the second firing: a pause-point function counts callbacks reaching
// ticker.fire, the harness spins on that counter inside the window in which its own ticker's
// second firing is due and calls Stop a seeded 0-5 us (0.1 us steps) later, i.e. while the callback
// is inside or just leaving its critical section; other trials are aimed by time alone.
//
// Oracle (drain, then silence): once Stop has returned, at most one tick can be sitting in the
// 1-slot channel. It is taken out at once; the ticker is then looked at again >= 20 ms later (and
// >= 5 (d + jitter)). Anything found then was sent after Stop returned, whatever its timestamp.

type lagPending struct {
	tk      *xtime.JitterTicker
	d       time.Duration
	stopEnd time.Time
	created time.Time
	drained bool
	mode    string
	delta   time.Duration
}

const lagSettle = 20 * ms

func lagCases(r *vkit.Report) {
	procs := runtime.GOMAXPROCS(0)
	actors := procs - 3
	if actors > 13 {
		actors = 13
	}
	if actors < 1 {
		actors = 1
	}
	trials := r.Scale(420, 1000) // per actor and case
	r.Cases("lag", r.Scale(10, 10), 1, func(c *vkit.Case) {
		var fires atomic.Int64
		xtime.VerifSetHook(func(point string) {
			if point == "ticker.fire" {
				fires.Add(1)
			}
		})
		defer xtime.VerifSetHook(nil)
		var found atomic.Bool
		var wg sync.WaitGroup
		for a := 0; a < actors; a++ {
			rnd := c.Rand.Split()
			a := a
			wg.Add(1)
			go func() {
				defer wg.Done()
				lagActor(c, rnd, a, trials, &fires, &found)
			}()
		}
		wg.Wait()
	})
}

// spinUntil waits for t; it yields the processor while t is far away (timer callbacks need one).
func spinUntil(t time.Time) {
	for {
		left := time.Until(t)
		if left <= 0 {
			return
		}
		switch {
		case left > 90*us:
			time.Sleep(left - 60*us) // keeps the process from hogging every processor
		case left > 15*us:
			runtime.Gosched()
		}
	}
}

func lagActor(c *vkit.Case, rnd *vkit.Rand, actor, trials int, fires *atomic.Int64, found *atomic.Bool) {
	r := c.R
	var pending []lagPending
	check := func(p lagPending) bool {
		r.Eval(1)
		r.Count("lag", "stopped tickers looked at again >= 20 ms after the drain", 1)
		select {
		case T := <-p.tk.C:
			found.Store(true)
			c.Violation("tick-sent-after-stop", fmt.Sprintf("a JitterTicker(%s, 0) whose receiver was not reading was stopped; the channel was emptied right after Stop returned; %s later it holds a tick again (stamped %s before Stop returned): it was sent after Stop returned",
				p.d, time.Since(p.stopEnd).Round(us), p.stopEnd.Sub(T)),
				map[string]any{"d_ns": int64(p.d), "jitter_ns": 0, "receiver": "never reads before Stop", "stop_aim": p.mode, "stop_delta_ns": int64(p.delta),
					"stop_returned_after_creation_ns": int64(p.stopEnd.Sub(p.created)), "tick_found_in_channel_right_after_stop": p.drained,
					"late_tick_stamp_relative_to_stop_return_ns": int64(T.Sub(p.stopEnd)), "looked_again_after_ns": int64(time.Since(p.stopEnd))})
			return true
		default:
		}
		return false
	}
	flush := func(all bool) bool {
		for len(pending) > 0 && (all || time.Since(pending[0].stopEnd) >= lagSettle) {
			if all {
				if w := lagSettle - time.Since(pending[0].stopEnd); w > 0 {
					time.Sleep(w)
				}
			}
			if check(pending[0]) {
				return true
			}
			pending = pending[1:]
		}
		return false
	}
	for i := 0; i < trials && !found.Load(); i++ {
		d := time.Duration(rnd.Range(100, 300)) * us
		mode := rnd.Intn(10)
		delta := time.Duration(rnd.Intn(51)) * 100 // 0..5us in 0.1us steps
		if mode >= 8 {
			delta = time.Duration(rnd.Range(-3, 40)) * us // aimed by time alone: covers the timer latency
		}
		var tk *xtime.JitterTicker
		created := time.Now()
		if p := vkit.Try(func() { tk = xtime.NewJitterTicker(d, 0) }); p != nil {
			c.Violation("ticker-panic", fmt.Sprintf("NewJitterTicker(%s, 0) panicked: %s", d, p.Msg), map[string]any{"d_ns": int64(d)})
			found.Store(true)
			return
		}
		// first firing: nobody reads, the tick stays in the channel
		giveUp := created.Add(d + 50*ms)
		spinUntil(created.Add(d - 20*us))
		for len(tk.C) == 0 && time.Now().Before(giveUp) {
			runtime.Gosched()
		}
		t1 := time.Now()
		aim := "time"
		if len(tk.C) == 0 {
			r.Count("lag", "first tick not seen within d + 50 ms (trial not aimed)", 1)
			aim = "none"
		} else if mode < 8 {
			// second firing: wait for a callback to reach ticker.fire inside our window
			aim = "callback seen at ticker.fire"
			spinUntil(t1.Add(d - 4*us))
			f0 := fires.Load()
			limit := t1.Add(d + 150*us)
			for fires.Load() == f0 {
				if time.Now().After(limit) {
					aim = "window passed without a callback"
					break
				}
			}
			if delta > 0 {
				for t := time.Now(); time.Since(t) < delta; {
				}
			}
		} else {
			spinUntil(t1.Add(d + delta))
		}
		pan := vkit.Try(tk.Stop)
		stopEnd := time.Now()
		drained := false
		select {
		case <-tk.C:
			drained = true
		default:
		}
		r.Count("lag: Stop aimed at the second firing of a ticker nobody reads", aim, 1)
		if pan != nil {
			c.Violation("stop-panics", fmt.Sprintf("Stop() of a JitterTicker(%s, 0) panicked: %s", d, pan.Msg), map[string]any{"d_ns": int64(d), "panic": pan.Msg})
			found.Store(true)
			return
		}
		if drained {
			r.Count("lag", "a tick was in the channel right after Stop (taken out)", 1)
		}
		pending = append(pending, lagPending{tk, d, stopEnd, created, drained, aim, delta})
		if i%97 == 0 {
			r.Distinct(fmt.Sprintf("lag|%d|%s|%d", d, aim, delta))
		}
		if flush(false) {
			return
		}
	}
	flush(true)
}
