package main

import (
	"fmt"
	"math"
	"runtime"
	"sync"
	"time"

	"github.com/bradenaw/juniper/xtime"

	"verif/vkit"
)

// Groups "refused" / "refused-hold": REFUSED control calls on a running ticker. Reset with d <= 0 or
// jitter >= d is documented to panic; the call is made under vkit.Try between ticks (or while the
// timer callback is held at ticker.fire). A call that panicked opened no regime: every later tick
// must still be d - jitter of the OLD regime apart (by the ticks' own stamps) and fit the regime
// rule with the regime list unchanged; the ticker must still answer a following valid Reset / Stop
// (goroutine-dump verdict), and after a valid Reset the new regime's spacing holds.
// Negative jitter is not generated: the documentation does not say it panics (the code treats it
// like 0).

type badArgs struct{ d, j time.Duration }

func refusedArgs(rnd *vkit.Rand, d time.Duration) badArgs {
	x := vkit.Pick(rnd, []time.Duration{1, 50 * us, 1 * ms, d, time.Hour})
	switch rnd.Intn(9) {
	case 0:
		return badArgs{0, 0}
	case 1:
		return badArgs{-1 * ms, 0}
	case 2:
		return badArgs{x, x}
	case 3:
		return badArgs{x, x + 1}
	case 4:
		return badArgs{1 * ms, 1 * ms}
	case 5:
		return badArgs{-1, -2}
	case 6:
		return badArgs{math.MinInt64, 0}
	case 7:
		return badArgs{x, math.MaxInt64}
	}
	return badArgs{0, -1}
}

func refusedCases(r *vkit.Report) {
	// running tickers with periods of 5-30 ms (a poisoned 1 ms period is unmistakable), many at a time
	r.Cases("refused", r.Scale(6, 20), 1, func(c *vkit.Case) {
		const lives = 48
		var wg sync.WaitGroup
		var mu sync.Mutex
		done := false
		for i := 0; i < lives; i++ {
			rnd := c.Rand.Split()
			wg.Add(1)
			go func() {
				defer wg.Done()
				d := time.Duration(rnd.Range(5, 30)) * ms
				j := []time.Duration{0, 1, d / 2}[rnd.Intn(3)]
				refusedLife(c, rnd, d, j, nil, &mu, &done)
			}()
		}
		wg.Wait()
	})
	// tiny periods, one ticker at a time, half of the refused calls made while the callback is held
	trials := r.Scale(60, 200)
	r.Cases("refused-hold", r.Scale(10, 12), 1, func(c *vkit.Case) {
		h := &seqHook{}
		xtime.VerifSetHook(h.fn)
		defer xtime.VerifSetHook(nil)
		defer h.release.Store(true)
		var mu sync.Mutex
		done := false
		for i := 0; i < trials && !done; i++ {
			d := time.Duration(c.Rand.Range(50, 400)) * us
			j := []time.Duration{0, 1, d / 2}[c.Rand.Intn(3)]
			refusedLife(c, c.Rand, d, j, h, &mu, &done)
		}
	})
}

// readTicks receives up to n ticks, giving up after limit.
func readTicks(tk *xtime.JitterTicker, n int, limit time.Duration, spin bool) []time.Time {
	var out []time.Time
	if spin {
		for lim := time.Now().Add(limit); len(out) < n && time.Now().Before(lim); {
			select {
			case T := <-tk.C:
				out = append(out, T)
			default:
				runtime.Gosched()
			}
		}
		return out
	}
	tm := time.NewTimer(limit)
	defer tm.Stop()
	for len(out) < n {
		select {
		case T := <-tk.C:
			out = append(out, T)
		case <-tm.C:
			return out
		}
	}
	return out
}

func refusedLife(c *vkit.Case, rnd *vkit.Rand, d, j time.Duration, h *seqHook, mu *sync.Mutex, done *bool) {
	r := c.R
	k := rnd.Range(1, 2)
	hold := h != nil && rnd.Intn(2) == 0
	bad := refusedArgs(rnd, d)
	viaNew := rnd.Intn(8) == 0 // the refused call is a NewJitterTicker (nothing to observe on this ticker)
	follow := rnd.Intn(3)      // 0 Stop, 1,2 valid Reset
	d2 := time.Duration(rnd.Range(50, 400)) * us
	if h == nil {
		d2 = time.Duration(rnd.Range(2, 8)) * ms
	}
	j2 := []time.Duration{0, 1, d2 / 2, d2 - 1}[rnd.Intn(4)]
	spin := h != nil
	if h != nil {
		h.arm(k+1, hold)
	}
	var steps []string
	var stamps []int64
	var nb time.Time
	witness := func() map[string]any {
		return map[string]any{"calls": steps, "d_ns": int64(d), "jitter_ns": int64(j), "refused_d_ns": int64(bad.d), "refused_jitter_ns": int64(bad.j), "tick_stamps_ns": stamps}
	}
	violate := func(sig, what string, extra map[string]any) {
		mu.Lock()
		defer mu.Unlock()
		if *done {
			return
		}
		*done = true
		w := witness()
		for k, v := range extra {
			w[k] = v
		}
		c.Violation(sig, what, w)
	}
	release := func() {
		if h != nil {
			h.release.Store(true)
		}
	}
	defer release()

	var tk *xtime.JitterTicker
	nb = time.Now()
	if p := vkit.Try(func() { tk = xtime.NewJitterTicker(d, j) }); p != nil {
		violate("ticker-panic", fmt.Sprintf("NewJitterTicker(%s, %s) panicked: %s", d, j, p.Msg), nil)
		return
	}
	steps = append(steps, fmt.Sprintf("NewJitterTicker(%s, %s)", d, j))
	regs := []seqRegime{{d: d, j: j, b: nb}}
	var ticks []time.Time
	add := func(ts []time.Time) {
		for _, T := range ts {
			ticks = append(ticks, T)
			stamps = append(stamps, int64(T.Sub(nb)))
		}
	}
	add(readTicks(tk, k, time.Duration(k)*50*(d+j)+20*ms, spin))
	if len(ticks) < k {
		r.Count("outside the statement / lenient (not judged)", "refused: ticker did not tick before the refused call", 1)
		vkit.Try(tk.Stop)
		return
	}
	aim := "between ticks"
	if hold {
		aim = "callback held at ticker.fire"
		for lim := time.Now().Add(50*(d+j) + 20*ms); !h.arrived.Load(); {
			if time.Now().After(lim) {
				aim = "between ticks (no callback seen)"
				break
			}
		}
	} else if rnd.Intn(2) == 0 {
		// around the next firing
		spinUntil(ticks[len(ticks)-1].Add(d - j + time.Duration(rnd.Range(-20, 60))*us))
		aim = "around the next firing"
	}
	// the refused call
	name := fmt.Sprintf("Reset(%d ns, %d ns)", int64(bad.d), int64(bad.j))
	call := func() { tk.Reset(bad.d, bad.j) }
	if viaNew {
		name = fmt.Sprintf("NewJitterTicker(%d ns, %d ns)", int64(bad.d), int64(bad.j))
		call = func() {
			if t2 := xtime.NewJitterTicker(bad.d, bad.j); t2 != nil {
				t2.Stop()
			}
		}
	}
	pan, v, dump := seqGuarded(call)
	release()
	steps = append(steps, name+" ["+aim+"]")
	r.Eval(1)
	r.Count("refused: calls with invalid arguments", fmt.Sprintf("%s with d=%s jitter=%s", map[bool]string{false: "Reset", true: "NewJitterTicker"}[viaNew], durClass(bad.d), jitClass(bad)), 1)
	r.Count("refused", "refused call made: "+aim, 1)
	switch {
	case v == vkit.AwaitStuck:
		violate("refused-call-stuck", fmt.Sprintf("%s on a running JitterTicker(%s, %s) never returns (parked in two goroutine dumps 300 ms apart)", name, d, j), map[string]any{"goroutines": dump})
		return
	case v != vkit.AwaitDone:
		r.Inconclusive(fmt.Sprintf("case %s: %s had not returned (%s)", c.ID(), name, v))
		return
	case pan == nil:
		violate("invalid-args-accepted", fmt.Sprintf("%s did not panic although the documentation says it will (d <= 0 or jitter >= d)", name), nil)
		vkit.Try(tk.Stop)
		return
	}
	// the old regime is still the one in force: ticks keep coming, d - jitter apart
	more := readTicks(tk, 3, 50*(d+j)+20*ms, spin)
	add(more)
	if len(more) >= 2 {
		r.Count("refused", "ticker kept ticking after the refused call (>= 2 further ticks)", 1)
	} else {
		r.Count("outside the statement / lenient (not judged)", "refused: fewer than 2 further ticks within 50 d after the refused call", 1)
	}
	judge := func(from int, bound time.Duration, which string) bool {
		for i := 0; i < len(ticks); i++ {
			r.Eval(1)
			if !tickLegit(regs, ticks[i]) {
				violate("tick-outside-every-regime", fmt.Sprintf("%v: tick %d is stamped where no regime can have sent it (a refused call opens no regime)", steps, i), map[string]any{"tick_index": i})
				return false
			}
			if i >= from && i+1 < len(ticks) {
				if gap := ticks[i+1].Sub(ticks[i]); gap < bound {
					violate("tick-spacing", fmt.Sprintf("%v: ticks %d and %d are stamped only %s apart; the regime in force is %s (d - jitter = %s) — a call that panicked must not change the period", steps, i, i+1, gap, which, bound),
						map[string]any{"pair": []int{i, i + 1}, "gap_ns": int64(gap), "bound_ns": int64(bound)})
					return false
				}
			}
		}
		return true
	}
	if !judge(0, d-j, fmt.Sprintf("still NewJitterTicker(%s, %s)", d, j)) {
		return
	}
	r.Count("refused", "lives judged against the old regime after a refused call", 1)
	// a valid call must still work
	if follow == 0 {
		sb := time.Now()
		pan, v, dump = seqGuarded(tk.Stop)
		se := time.Now()
		steps = append(steps, "Stop()")
		switch {
		case v == vkit.AwaitStuck:
			violate("call-stuck-after-refused-reset", fmt.Sprintf("%v: the Stop never returns (parked in two goroutine dumps 300 ms apart)", steps), map[string]any{"goroutines": dump})
		case v != vkit.AwaitDone:
			r.Inconclusive(fmt.Sprintf("case %s: Stop after a refused call had not returned (%s)", c.ID(), v))
		case pan != nil:
			violate("stop-panics", fmt.Sprintf("%v: Stop panicked: %s", steps, pan.Msg), nil)
		default:
			_ = sb
			regs[len(regs)-1].end = se
			n0 := len(ticks)
			watch := 5*(d+j) + 3*ms
			if spin {
				watch = 5*(d+j) + 300*us
			}
			add(readTicks(tk, 3, watch, spin))
			if len(ticks)-n0 >= 2 {
				violate("tick-sent-after-stop", fmt.Sprintf("%v: %d ticks were received after Stop had returned", steps, len(ticks)-n0), nil)
				return
			}
			judge(len(ticks), 0, "")
			r.Count("refused", "valid Stop after a refused call worked", 1)
		}
		return
	}
	rb := time.Now()
	pan, v, dump = seqGuarded(func() { tk.Reset(d2, j2) })
	re := time.Now()
	steps = append(steps, fmt.Sprintf("Reset(%s, %s)", d2, j2))
	switch {
	case v == vkit.AwaitStuck:
		violate("call-stuck-after-refused-reset", fmt.Sprintf("%v: the valid Reset never returns (parked in two goroutine dumps 300 ms apart)", steps), map[string]any{"goroutines": dump})
		return
	case v != vkit.AwaitDone:
		r.Inconclusive(fmt.Sprintf("case %s: Reset after a refused call had not returned (%s)", c.ID(), v))
		return
	case pan != nil:
		violate("ticker-panic", fmt.Sprintf("%v: the valid Reset panicked: %s", steps, pan.Msg), nil)
		return
	}
	regs[len(regs)-1].end = re
	regs = append(regs, seqRegime{d: d2, j: j2, b: rb})
	n0 := len(ticks)
	add(readTicks(tk, 3, 50*(d2+j2)+20*ms, spin))
	vkit.Try(tk.Stop)
	regs[len(regs)-1].end = time.Now()
	// pairs of the new regime: both ticks stamped after the Reset returned
	from := len(ticks)
	for i := n0; i < len(ticks); i++ {
		if ticks[i].After(re) {
			from = i
			break
		}
	}
	if judge(from, d2-j2, fmt.Sprintf("Reset(%s, %s)", d2, j2)) {
		r.Count("refused", "valid Reset after a refused call worked", 1)
		r.Distinct(fmt.Sprintf("refused|%d|%d|%d|%d|%s", d, j, bad.d, bad.j, aim))
	}
	if r.WantSample() && rnd.Intn(40) == 0 {
		r.Sample(witness())
	}
}

func durClass(d time.Duration) string {
	switch {
	case d == 0:
		return "0"
	case d < 0:
		return "<0"
	}
	return ">0"
}

func jitClass(b badArgs) string {
	switch {
	case b.d <= 0:
		return "any"
	case b.j == b.d:
		return "d"
	}
	return ">d"
}
