package main

import (
	"fmt"
	"runtime"
	"sync"
	"sync/atomic"
	"time"

	"github.com/bradenaw/juniper/xtime"

	"verif/vkit"
)

// Group "stop2": TWO goroutines call Stop on the same ticker at (almost) the same instant, aimed at
// a firing of a ticker with a tiny period; in half of the trials the timer callback is held at
// ticker.fire and let go at that instant too. Each Stop's own return is a barrier: a tick whose own
// timestamp is later than a stamp taken after EITHER Stop returned was sent after that Stop
// returned. After both have returned the channel is emptied once and must then stay empty.

type stop2Trial struct {
	tk    *xtime.JitterTicker
	goAt  [2]int64 // monoNow() at which each stopper calls Stop
	se    [2]time.Time
	pan   [2]*vkit.Panic
	done  [2]atomic.Bool
	taken [2]atomic.Bool
}

type stop2Pending struct {
	tk      *xtime.JitterTicker
	desc    string
	witness map[string]any
	lastEnd time.Time
}

func stop2Cases(r *vkit.Report) {
	trials := r.Scale(350, 700)
	if runtime.GOMAXPROCS(0) < 4 {
		trials /= 2 // three spinning parties on two processors
	}
	r.Cases("stop2", r.Scale(10, 10), 1, func(c *vkit.Case) {
		rnd := c.Rand
		h := &seqHook{}
		xtime.VerifSetHook(h.fn)
		defer xtime.VerifSetHook(nil)
		defer h.release.Store(true)

		var slot atomic.Pointer[stop2Trial]
		var quit atomic.Bool
		var sw sync.WaitGroup
		for s := 0; s < 2; s++ {
			s := s
			sw.Add(1)
			go func() { // a stopper
				defer sw.Done()
				for !quit.Load() {
					t := slot.Load()
					if t == nil || !t.taken[s].CompareAndSwap(false, true) {
						runtime.Gosched()
						continue
					}
					for monoNow() < t.goAt[s] {
					}
					t.pan[s] = vkit.Try(t.tk.Stop)
					t.se[s] = time.Now()
					t.done[s].Store(true)
				}
			}()
		}
		defer func() { quit.Store(true); sw.Wait() }()

		var pending []stop2Pending
		violated := false
		flush := func(all bool) {
			for len(pending) > 0 && !violated && (all || time.Since(pending[0].lastEnd) >= seqSettle) {
				p := pending[0]
				if w := seqSettle - time.Since(p.lastEnd); all && w > 0 {
					time.Sleep(w)
				}
				r.Eval(1)
				r.Count("stop2", "tickers stopped by two goroutines looked at again >= 3 ms after the drain", 1)
				select {
				case T := <-p.tk.C:
					p.witness["late_tick_stamp_relative_to_last_stop_return_ns"] = int64(T.Sub(p.lastEnd))
					c.Violation("tick-sent-after-stop", fmt.Sprintf("%s: the channel was emptied after both Stops had returned, yet %s later it holds a tick (stamped %s relative to the later return)", p.desc, time.Since(p.lastEnd).Round(us), T.Sub(p.lastEnd)), p.witness)
					violated = true
				default:
				}
				pending = pending[1:]
			}
		}
		for i := 0; i < trials && !violated; i++ {
			d := time.Duration(rnd.Range(20, 200)) * us
			j := []time.Duration{0, 0, 1, d / 2}[rnd.Intn(4)]
			k := rnd.Intn(2)
			mode := rnd.Intn(4)               // 0,1 hold; 2 callback seen; 3 time
			offB := int64(rnd.Intn(41)) * 100 // second stopper 0..4 us after the first
			offR := int64(rnd.Range(-10, 30)) * 100
			off := time.Duration(rnd.Range(-30, 120)) * 100
			first := rnd.Intn(2)
			h.arm(k+1, mode <= 1)
			var tk *xtime.JitterTicker
			nb := time.Now()
			if p := vkit.Try(func() { tk = xtime.NewJitterTicker(d, j) }); p != nil {
				c.Violation("ticker-panic", fmt.Sprintf("NewJitterTicker(%s, %s) panicked: %s", d, j, p.Msg), map[string]any{"d_ns": int64(d), "jitter_ns": int64(j)})
				return
			}
			base := time.Now()
			got := readTicks(tk, k, time.Duration(k+1)*3*d+5*ms, true)
			if len(got) == k && k > 0 {
				base = got[k-1]
			}
			aim := "time"
			switch {
			case len(got) < k:
				aim = "none (ticks missing)"
			case mode <= 2:
				aim = "callback held at ticker.fire, released with the Stops"
				if mode == 2 {
					aim = "callback seen at ticker.fire"
				}
				for lim := time.Now().Add(3*d + 5*ms); !h.arrived.Load(); {
					if time.Now().After(lim) {
						aim = "none (no callback)"
						break
					}
				}
			default:
				spinUntil(base.Add(d + off))
			}
			t := &stop2Trial{tk: tk}
			start := monoNow() + 3000
			t.goAt[first], t.goAt[1-first] = start, start+offB
			slot.Store(t)
			for monoNow() < start+offR {
			}
			h.release.Store(true)
			for !t.done[0].Load() || !t.done[1].Load() {
				runtime.Gosched()
			}
			slot.Store(nil)
			var after []time.Time
			select {
			case T := <-tk.C:
				after = append(after, T)
			default:
			}
			barrier, lastEnd := t.se[0], t.se[1]
			if lastEnd.Before(barrier) {
				barrier, lastEnd = lastEnd, barrier
			}
			desc := fmt.Sprintf("NewJitterTicker(%s, %s), %d tick(s) read, two goroutines call Stop %dns apart at the next firing (%s)", d, j, k, offB, aim)
			witness := map[string]any{"d_ns": int64(d), "jitter_ns": int64(j), "ticks_read_before": k, "aim": aim, "second_stop_offset_ns": offB, "release_offset_ns": offR,
				"stop_returns_ns": []int64{int64(t.se[0].Sub(nb)), int64(t.se[1].Sub(nb))}}
			r.Eval(1)
			r.Count("stop2: how the two Stops were aimed", aim, 1)
			r.Count("stop2", "trials", 1)
			if gap := lastEnd.Sub(barrier); gap < 2*us {
				r.Count("stop2", "trials in which the two Stops returned within 2us of each other", 1)
			}
			if t.pan[0] != nil || t.pan[1] != nil {
				msg := ""
				for _, p := range t.pan {
					if p != nil {
						msg = p.Msg
					}
				}
				witness["panic"] = msg
				c.Violation("stop-panics", desc+": a Stop panicked: "+msg, witness)
				return
			}
			for _, T := range after {
				r.Eval(1)
				if T.After(barrier) {
					witness["tick_stamp_after_first_stop_return_ns"] = int64(T.Sub(barrier))
					c.Violation("tick-after-stop", fmt.Sprintf("%s: a tick stamped %s AFTER one of the Stops had returned was received", desc, T.Sub(barrier)), witness)
					violated = true
				}
			}
			if violated {
				break
			}
			if i%40 == 0 {
				r.Distinct(fmt.Sprintf("stop2|%d|%d|%d|%s", d, j, offB, aim))
			}
			pending = append(pending, stop2Pending{tk, desc, witness, lastEnd})
			flush(false)
		}
		flush(true)
	})
}
