package main

import (
	"fmt"
	"runtime"
	"sync/atomic"
	"time"

	"github.com/bradenaw/juniper/xtime"

	"verif/vkit"
)

// Group "seq": SEQUENCES of control calls issued back to back at a firing of a ticker with a tiny
// period (20-200 us): {Stop, Reset(1h,0)}, {Stop, Reset(1h,0), Stop}, {Reset(1h,0), Reset(d,j)},
// {Stop, Reset(small)}, ... One ticker at a time. Half of the trials hold the timer callback at the
// pause point ticker.fire (after the timer expired, before the callback takes the ticker's lock)
// while the whole sequence runs and returns; the others run the sequence the moment a callback is
// seen at ticker.fire, or at a swept offset (-3..+12 us) around the time the firing is due.
//
// Oracle. Every New / Reset opens a regime [called at b, returned at e] with its d - jitter; the
// next Stop / Reset (returned at e') closes it. Every tick is sent, and stamped, by a firing of one
// regime's timer chain while that regime is in force (under the ticker's lock), so a tick stamped T
// is legitimate only if some regime has  b + (d - jitter) <= T <= e'  (no upper end for the last
// regime if it is still running). This contains "no tick stamped after Stop returned" and "the
// first tick after a Reset is not earlier than d2 - j2 after the Reset was called". In addition,
// once the sequence has returned and the channel has been emptied, a ticker that is stopped or
// Reset to 1 h must stay silent: whatever is found later was sent after the last call returned.

type seqOp struct {
	stop bool
	d, j time.Duration
	b, e time.Time
}

type seqRegime struct {
	d, j  time.Duration
	b     time.Time
	end   time.Time // e of the op that closed it; zero = still in force
	label string
}

// tickLegit applies the regime rule to one tick stamp.
func tickLegit(regs []seqRegime, T time.Time) bool {
	for _, rg := range regs {
		if T.Sub(rg.b) >= rg.d-rg.j && (rg.end.IsZero() || !T.After(rg.end)) {
			return true
		}
	}
	return false
}

type seqHook struct {
	n       atomic.Int64
	target  atomic.Int64
	hold    atomic.Bool
	arrived atomic.Bool
	release atomic.Bool
}

func (h *seqHook) fn(point string) {
	if point != "ticker.fire" {
		return
	}
	if h.n.Add(1) != h.target.Load() {
		return
	}
	h.arrived.Store(true)
	if h.hold.Load() {
		for lim := time.Now().Add(2 * time.Second); !h.release.Load() && time.Now().Before(lim); {
			runtime.Gosched()
		}
	}
}

func (h *seqHook) arm(target int, hold bool) {
	h.n.Store(0)
	h.arrived.Store(false)
	h.release.Store(false)
	h.hold.Store(hold)
	h.target.Store(int64(target))
}

var seqNames = []string{
	"Stop, Reset(1h,0)",
	"Stop, Reset(1h,0), Stop",
	"Reset(1h,0), Reset(small)",
	"Stop, Reset(small)",
	"Stop, Reset(small), Stop",
	"Reset(1h,0), Stop",
	"Reset(small), Reset(1h,0)",
	"Stop, Reset(1h,0), Reset(1h,0)",
	"Reset(1h,0), Stop, Reset(1h,0)",
	"Stop, Reset(small), Reset(1h,0)",
	"Stop, Stop",
	"Stop, Stop, Reset(small)",
	"Stop, Reset(1h,0), Stop, Stop",
	"fresh ticker, no firing awaited: Stop, Stop",
}

// seqGuarded runs one control call on its own goroutine; a call that never returns is decided by
// two goroutine dumps (it is parked on the ticker's mutex for good), never by a timeout.
func seqGuarded(f func()) (pan *vkit.Panic, v vkit.AwaitVerdict, dump string) {
	done := make(chan struct{})
	go func() {
		defer close(done)
		pan = vkit.Try(f)
	}()
	v, dump = vkit.Await(done, vkit.AwaitOpts{Soft: 2 * time.Second, Gap: 300 * time.Millisecond, Hard: 30 * time.Second,
		Relevant: func(g vkit.G) bool { return g.Has("main.seqGuarded") }})
	if v != vkit.AwaitDone {
		return nil, v, dump // pan still belongs to the goroutine
	}
	return pan, v, ""
}

func seqOps(kind int, sd, sj time.Duration) []seqOp {
	S := seqOp{stop: true}
	H := seqOp{d: time.Hour}
	R := seqOp{d: sd, j: sj}
	switch kind {
	case 0:
		return []seqOp{S, H}
	case 1:
		return []seqOp{S, H, S}
	case 2:
		return []seqOp{H, R}
	case 3:
		return []seqOp{S, R}
	case 4:
		return []seqOp{S, R, S}
	case 5:
		return []seqOp{H, S}
	case 6:
		return []seqOp{R, H}
	case 7:
		return []seqOp{S, H, H}
	case 8:
		return []seqOp{H, S, H}
	case 10, 13:
		return []seqOp{S, S}
	case 11:
		return []seqOp{S, S, R}
	case 12:
		return []seqOp{S, H, S, S}
	}
	return []seqOp{S, R, H}
}

type seqPending struct {
	tk      *xtime.JitterTicker
	regs    []seqRegime
	desc    string
	witness map[string]any
	lastEnd time.Time
	stopped bool
}

const seqSettle = 3 * ms

func seqCases(r *vkit.Report) {
	trials := r.Scale(300, 1000)
	r.Cases("seq", r.Scale(10, 10), 1, func(c *vkit.Case) {
		rnd := c.Rand
		h := &seqHook{}
		xtime.VerifSetHook(h.fn)
		defer xtime.VerifSetHook(nil)
		defer h.release.Store(true)
		var pending []seqPending
		violated := false
		late := func(p seqPending) {
			// the channel was emptied after the last call returned; the ticker is stopped or has a 1 h period
			r.Eval(1)
			r.Count("seq", "tickers (stopped / Reset to 1h) looked at again >= 3 ms after the drain", 1)
			select {
			case T := <-p.tk.C:
				p.witness["late_tick_stamp_relative_to_last_call_return_ns"] = int64(T.Sub(p.lastEnd))
				p.witness["looked_again_after_ns"] = int64(time.Since(p.lastEnd))
				c.Violation("tick-sent-after-sequence", fmt.Sprintf("%s: the channel was emptied after the last call had returned, yet %s later it holds a tick (stamped %s relative to that return); nothing may be sent by a ticker that is stopped or has a period of 1h",
					p.desc, time.Since(p.lastEnd).Round(us), T.Sub(p.lastEnd)), p.witness)
				violated = true
			default:
			}
			if !p.stopped {
				vkit.Try(p.tk.Stop)
			}
		}
		flush := func(all bool) {
			for len(pending) > 0 && !violated && (all || time.Since(pending[0].lastEnd) >= seqSettle) {
				if w := seqSettle - time.Since(pending[0].lastEnd); all && w > 0 {
					time.Sleep(w)
				}
				late(pending[0])
				pending = pending[1:]
			}
		}
		for i := 0; i < trials && !violated; i++ {
			d := time.Duration(rnd.Range(20, 200)) * us
			j := []time.Duration{0, 0, 1, d / 2}[rnd.Intn(4)]
			sd := time.Duration(rnd.Range(20, 200)) * us
			sj := []time.Duration{0, 1, sd / 2, sd - 1}[rnd.Intn(4)]
			kind := rnd.Intn(len(seqNames))
			ops := seqOps(kind, sd, sj)
			k := rnd.Intn(3)    // ticks read before the firing that is aimed at
			mode := rnd.Intn(4) // 0,1 hold at ticker.fire; 2 callback seen at ticker.fire; 3 by time
			off := time.Duration(rnd.Range(-30, 120)) * 100
			if kind == 13 {
				k = 0
			}
			h.arm(k+1, mode <= 1 && kind != 13)

			var tk *xtime.JitterTicker
			nb := time.Now()
			if p := vkit.Try(func() { tk = xtime.NewJitterTicker(d, j) }); p != nil {
				c.Violation("ticker-panic", fmt.Sprintf("NewJitterTicker(%s, %s) panicked: %s", d, j, p.Msg), map[string]any{"d_ns": int64(d), "jitter_ns": int64(j)})
				return
			}
			ne := time.Now()
			regs := []seqRegime{{d: d, j: j, b: nb, label: fmt.Sprintf("NewJitterTicker(%s, %s)", d, j)}}
			var ticks []time.Time
			base := ne
			lim := time.Now().Add(time.Duration(k+1)*3*d + 5*ms)
			for len(ticks) < k && time.Now().Before(lim) {
				select {
				case T := <-tk.C:
					ticks = append(ticks, T)
					base = T
				default:
					runtime.Gosched()
				}
			}
			// aim
			aim := "time"
			switch {
			case kind == 13:
				aim = "none (fresh ticker)"
			case len(ticks) < k:
				aim = "none (ticks missing)"
			case mode <= 2:
				aim = "callback held at ticker.fire"
				if mode == 2 {
					aim = "callback seen at ticker.fire"
				}
				for !h.arrived.Load() {
					if time.Now().After(lim) {
						aim = "none (no callback)"
						break
					}
				}
			default:
				spinUntil(base.Add(d + off))
			}
			// the sequence, back to back
			desc := fmt.Sprintf("NewJitterTicker(%s, %s), %d tick(s) read, then at the next firing (%s): ", d, j, len(ticks), aim)
			var pan *vkit.Panic
			panAt, panStop := "", false
			stuckAt, stuckDump := "", ""
			stops := 0 // Stops in a row so far
			call := func(op *seqOp) func() {
				if op.stop {
					return tk.Stop
				}
				return func() { tk.Reset(op.d, op.j) }
			}
			opName := func(op seqOp) string {
				if op.stop {
					return "Stop()"
				}
				return fmt.Sprintf("Reset(%s, %s)", op.d, op.j)
			}
			for oi := range ops {
				op := &ops[oi]
				op.b = time.Now()
				if stops >= 2 {
					// the call after a double Stop: must return
					var v vkit.AwaitVerdict
					pan, v, stuckDump = seqGuarded(call(op))
					if v != vkit.AwaitDone {
						if v == vkit.AwaitStuck {
							stuckAt = fmt.Sprintf("call %d of the sequence, %s", oi+1, opName(*op))
						} else {
							r.Inconclusive(fmt.Sprintf("case %s trial %d: %s after a double Stop had not returned (%s)", c.ID(), i, opName(*op), v))
							violated = true // end the case: the ticker cannot be used any more
						}
						op.b = time.Time{}
						break
					}
					r.Count("seq", "calls made right after a double Stop that returned", 1)
				} else {
					pan = vkit.Try(call(op))
				}
				op.e = time.Now()
				if op.stop {
					stops++
				} else {
					stops = 0
				}
				if pan != nil {
					panAt, panStop = fmt.Sprintf("call %d of the sequence", oi+1), op.stop
					if panStop {
						// does the ticker still answer? (a Stop that panicked with the mutex held leaves every later call parked)
						probe := seqOp{d: time.Hour}
						if _, v, dump := seqGuarded(call(&probe)); v == vkit.AwaitStuck {
							stuckAt, stuckDump = "Reset(1h0m0s, 0s) issued after the panic", dump
						}
					}
					break
				}
			}
			h.release.Store(true)
			// drain once
			select {
			case T := <-tk.C:
				ticks = append(ticks, T)
			default:
			}
			var opw []map[string]any
			for oi := range ops {
				op := ops[oi]
				if op.b.IsZero() {
					break
				}
				regs[len(regs)-1].end = op.e
				name := "Stop()"
				if !op.stop {
					name = fmt.Sprintf("Reset(%s, %s)", op.d, op.j)
					regs = append(regs, seqRegime{d: op.d, j: op.j, b: op.b, label: name})
				} else {
					// nothing is in force after a Stop: a closed empty regime keeps the bookkeeping simple
					regs = append(regs, seqRegime{d: 1 << 62, b: op.b, end: op.e, label: "stopped"})
				}
				desc += name
				if oi+1 < len(ops) {
					desc += ", "
				}
				opw = append(opw, map[string]any{"call": name, "called_ns": int64(op.b.Sub(nb)), "returned_ns": int64(op.e.Sub(nb))})
			}
			last := ops[len(ops)-1]
			witness := map[string]any{"new": regs[0].label, "d_ns": int64(d), "jitter_ns": int64(j), "ticks_read_before": k, "aim": aim, "aim_offset_ns": int64(off), "sequence": opw}
			r.Eval(1)
			r.Count("seq: sequences run", seqNames[kind], 1)
			r.Count("seq: how the sequence was aimed at the firing", aim, 1)
			if kind >= 10 {
				r.Count("seq", "sequences with a Stop on a stopped ticker", 1)
			}
			if pan != nil || stuckAt != "" {
				if pan != nil {
					witness["panic"] = pan.Msg
					sig := "ticker-panic"
					if panStop {
						sig = "stop-panics"
					}
					c.Violation(sig, desc+" — "+panAt+" panicked: "+pan.Msg, witness)
				}
				if stuckAt != "" {
					w2 := map[string]any{"goroutines": stuckDump}
					for k, v := range witness {
						w2[k] = v
					}
					c.Violation("reset-stuck-after-stop", desc+" — "+stuckAt+" never returns: it is parked on the ticker's mutex in two goroutine dumps 300 ms apart", w2)
				}
				violated = true
				continue // the ticker's mutex may be held for good: drop it
			}
			// final small regime: watch it synchronously for a few periods, then stop it
			if !last.stop && last.d < time.Second {
				wlim := time.Now().Add(3*(last.d+last.j) + 200*us)
				fresh := 0 // ticks stamped after the final Reset returned
				if kind == 11 {
					wlim = time.Now().Add(30 * ms) // the ticker must run again: see two ticks (bounded)
				}
				for time.Now().Before(wlim) && !(kind == 11 && fresh >= 2) {
					select {
					case T := <-tk.C:
						ticks = append(ticks, T)
						if T.After(last.e) {
							fresh++
						}
					default:
						runtime.Gosched()
					}
				}
				if kind == 11 {
					if fresh >= 2 {
						r.Count("seq", "Stop, Stop, Reset(small): the ticker ticked again (>= 2 ticks)", 1)
					} else {
						r.Count("outside the statement / lenient (not judged)", "Stop, Stop, Reset(small): fewer than 2 ticks within 30 ms", 1)
					}
				}
				vkit.Try(tk.Stop)
				regs[len(regs)-1].end = time.Now()
				select {
				case T := <-tk.C:
					ticks = append(ticks, T)
				default:
				}
			}
			var stamps []int64
			for _, T := range ticks {
				stamps = append(stamps, int64(T.Sub(nb)))
			}
			witness["tick_stamps_ns"] = stamps
			for ti, T := range ticks {
				r.Eval(1)
				r.Count("seq", "ticks judged by the regime rule", 1)
				if !tickLegit(regs, T) {
					witness["tick_index"] = ti
					c.Violation("tick-outside-every-regime", fmt.Sprintf("%s: received a tick stamped %s after the ticker was made (%s relative to the return of the last call of the sequence) that no regime can have sent: it is later than every closed regime's end and earlier than d - jitter after the call that opened the regime in force",
						desc, T.Sub(nb), T.Sub(last.e)), witness)
					violated = true
					break
				}
			}
			if !violated && !last.stop {
				for ti := 0; ti+1 < len(ticks); ti++ {
					if ticks[ti].After(last.e) {
						r.Eval(1)
						if gap := ticks[ti+1].Sub(ticks[ti]); gap < last.d-last.j {
							witness["pair"] = []int{ti, ti + 1}
							c.Violation("tick-spacing", fmt.Sprintf("%s: two consecutive ticks stamped after the last Reset returned are only %s apart (d - jitter = %s)", desc, gap, last.d-last.j), witness)
							violated = true
							break
						}
					}
				}
			}
			if violated {
				break
			}
			if aim == "callback held at ticker.fire" {
				r.Count("seq", "sequences run while the callback was held at ticker.fire", 1)
			}
			if i%50 == 0 {
				r.Distinct(fmt.Sprintf("seq|%d|%d|%d|%d|%s", kind, d, j, k, aim))
			}
			if r.WantSample() && i == 13 {
				r.Sample(witness)
			}
			if last.stop || last.d >= time.Second {
				pending = append(pending, seqPending{tk, regs, desc, witness, last.e, last.stop})
			}
			flush(false)
		}
		flush(true)
		// leave nothing ticking
		for _, p := range pending {
			if !p.stopped {
				vkit.Try(p.tk.Stop)
			}
		}
	})
}
