package main

import (
	"context"
	"fmt"
	"time"

	"github.com/bradenaw/juniper/xtime"

	"verif/vkit"
)

// Group "near": "DeadlineTooSoonError exactly when the deadline is closer than d", judged right next
// to d with stamps only. The context's deadline dl (read back with ctx.Deadline(), it carries a
// monotonic reading) is d + delta away when the context is made; t0 is stamped just before the
// call, t1 just after it returned. The remaining time the library saw lies in [dl-t1, dl-t0]:
//
//	(i)  DeadlineTooSoonError although dl-t1 >= d: even at return time the deadline was still at
//	     least d away                                        -> deadline-too-soon-spurious
//	(ii) no DeadlineTooSoonError although dl-t0 < d: already before the call the deadline was
//	     closer than d                                       -> deadline-too-soon-missed
//
// In between nothing is judged. Only stamps are compared, so load cannot make either rule fire.
// Sleeps longer than 3 ms are cut short by cancelling the parent context shortly after the call
// has started (the result of such a call is then context.Canceled; that is not what is judged here).

var nearDs = []time.Duration{1 * us, 50 * us, 777 * us, 1 * ms, 1500 * us, 2300 * us, 10*ms + 1, time.Second + 333*us, time.Hour + 1, 100*time.Hour + 7}
var nearDeltas = []time.Duration{-1 * ms, -100 * us, -1 * us, -1, 20 * us, 100 * us, 300 * us, 600 * us, 999 * us, 1 * ms, 5 * ms}

var nearShapes = []string{"WithDeadline", "WithTimeout", "WithDeadlineCause(cause)", "WithTimeoutCause(cause)", "WithValue(WithDeadline)", "WithCancel(WithTimeout)"}

func nearCtx(shape int, parent context.Context, D time.Duration) (context.Context, func()) {
	switch shape % len(nearShapes) {
	case 0:
		return context.WithDeadline(parent, time.Now().Add(D))
	case 1:
		return context.WithTimeout(parent, D)
	case 2:
		return context.WithDeadlineCause(parent, time.Now().Add(D), errCauseDL)
	case 3:
		return context.WithTimeoutCause(parent, D, errCause)
	case 4:
		p, pc := context.WithDeadline(parent, time.Now().Add(D))
		return context.WithValue(p, valKey{}, 1), pc
	}
	p, pc := context.WithTimeout(parent, D)
	ctx, cancel := context.WithCancel(p)
	return ctx, func() { cancel(); pc() }
}

var nearRefuted [2]bool // written only from the (sequential) case loop

func nearCases(r *vkit.Report) {
	// the break this group was built for: remaining truncated / rounded to whole milliseconds
	r.Cases("near-regress", 24, 1, func(c *vkit.Case) {
		delta := []time.Duration{300 * us, 600 * us, -300 * us, -600 * us}[c.Index%4]
		nearCase(c, 1500*us, delta, c.Index/4)
	})
	r.Cases("near", r.Scale(3300, 10000), 1, func(c *vkit.Case) {
		rnd := c.Rand
		nearCase(c, vkit.Pick(rnd, nearDs), vkit.Pick(rnd, nearDeltas), rnd.Intn(len(nearShapes)))
	})
}

func nearCase(c *vkit.Case, d, delta time.Duration, shape int) {
	r := c.R
	D := d + delta
	if D <= 0 {
		// an expired deadline belongs to the "deadline already expired" class
		D = d / 2
		delta = D - d
	}
	if (delta > 0 && nearRefuted[0]) || (delta < 0 && nearRefuted[1]) {
		return
	}
	var (
		t0, t1, dl time.Time
		err        error
		pan        *vkit.Panic
		done       = make(chan struct{})
	)
	go func() {
		defer close(done)
		parent, pcancel := context.WithCancel(context.Background())
		defer pcancel()
		if d > 3*ms {
			// never really sleep that long
			tm := time.AfterFunc(time.Duration(50+150*(c.Index%2))*us, pcancel)
			defer tm.Stop()
		}
		ctx, free := nearCtx(shape, parent, D)
		defer free()
		dl, _ = ctx.Deadline()
		t0 = time.Now()
		pan = vkit.Try(func() { err = xtime.SleepContext(ctx, d) })
		t1 = time.Now()
	}()
	v, dump := vkit.Await(done, vkit.AwaitOpts{Soft: 5 * time.Second, Gap: 500 * time.Millisecond, Hard: 60 * time.Second,
		Relevant: func(g vkit.G) bool { return g.Has("main.nearCase") }})
	name := nearShapes[shape%len(nearShapes)]
	desc := fmt.Sprintf("SleepContext(%s deadline now+d%+v, d=%s)", name, delta, d)
	if v != vkit.AwaitDone {
		_ = dump
		r.Inconclusive(fmt.Sprintf("case %s: %s had not returned (%s)", c.ID(), desc, v))
		return
	}
	before, after := dl.Sub(t0), dl.Sub(t1) // remaining time before the call / after it returned
	witness := map[string]any{"context": name, "d_ns": int64(d), "deadline_minus_d_at_creation_ns": int64(delta),
		"remaining_before_call_ns": int64(before), "remaining_after_return_ns": int64(after), "result": errString(err), "call_took": t1.Sub(t0).String()}
	r.Eval(1)
	r.Count("near: delta = deadline - d when the context was made", fmt.Sprintf("%+v", delta), 1)
	switch {
	case pan != nil:
		witness["panic"] = pan.Msg
		c.Violation("sleep-panic", desc+" panicked: "+pan.Msg, witness)
		return
	case err == nil && t1.Sub(t0) < d:
		c.Violation("nil-before-d", fmt.Sprintf("%s returned nil after %s, less than d", desc, t1.Sub(t0)), witness)
		return
	}
	tooSoon := isTooSoon(err)
	switch {
	case before < d:
		// rule (ii)
		r.Count("near", "calls begun with the deadline closer than d (DeadlineTooSoonError demanded)", 1)
		if !tooSoon {
			nearRefuted[1] = true
			c.Violation("deadline-too-soon-missed", fmt.Sprintf("%s returned %s after %s although the deadline was only %s away (d - %s) on a stamp taken before the call; expected DeadlineTooSoonError",
				desc, errString(err), t1.Sub(t0), before, d-before), witness)
			return
		}
	case tooSoon:
		// rule (i)
		if after >= d {
			nearRefuted[0] = true
			c.Violation("deadline-too-soon-spurious", fmt.Sprintf("%s returned %s although the deadline was still %s away (d + %s) on a stamp taken after it had returned",
				desc, errString(err), after, after-d), witness)
			return
		}
		r.Count("near", "DeadlineTooSoonError inside the unjudged band (deadline passed d - x between the two stamps)", 1)
	default:
		r.Count("near", "calls begun with the deadline >= d away that did not answer DeadlineTooSoonError (a prompt one would have been refuted)", 1)
	}
	r.Distinct(fmt.Sprintf("near|%d|%d|%d", d, delta, shape%len(nearShapes)))
	if r.WantSample() && c.Index%211 == 9 {
		r.Sample(witness)
	}
}
