package main

import (
	"context"
	"errors"
	"fmt"
	"runtime"
	"sync"
	"sync/atomic"
	"time"

	"github.com/bradenaw/juniper/xtime"

	"verif/vkit"
)

// Group "pool": second-order effects between SleepContext calls. Each round makes one call whose
// context ends within a few microseconds of its own d elapsing (the cancel is aimed at d + delta,
// delta swept over -30..+30 us), immediately followed on the same goroutine by plain sleeps whose
// only acceptable outcome is nil after >= d2. Whatever the first call leaves behind (a recycled
// timer with a stale value, a latched flag) shows up as a later sleep that returns early. Some
// goroutines keep the process busy so that timers are serviced promptly.
//
// Judged: nil => elapsed >= d (every call); the follow-up sleeps must return nil; the first call
// must return ctx.Err() if the context is known to have ended before start + d (stamp taken after
// cancel() returned, or after a watcher saw <-ctx.Done()), otherwise nil or ctx.Err().

func poolCases(r *vkit.Report) {
	procs := runtime.GOMAXPROCS(0)
	actors := procs - 4
	if actors > 12 {
		actors = 12
	}
	if actors < 2 {
		actors = 2
	}
	rounds := 60
	r.Cases("pool", r.Scale(4, 30), 1, func(c *vkit.Case) {
		if classRefuted[clPlain].Load() {
			return
		}
		// background load
		stop := make(chan struct{})
		var bg sync.WaitGroup
		for i := 0; i < 3; i++ {
			bg.Add(1)
			go func() {
				defer bg.Done()
				for {
					select {
					case <-stop:
						return
					default:
						runtime.Gosched()
					}
				}
			}()
		}
		var found atomic.Bool
		var wg sync.WaitGroup
		for a := 0; a < actors; a++ {
			rnd := c.Rand.Split()
			a := a
			wg.Add(1)
			go func() {
				defer wg.Done()
				step := time.Duration(1+a%2) * us
				for i := 0; i < rounds && !found.Load(); i++ {
					if poolRound(c, rnd, a, i, step) {
						found.Store(true)
					}
				}
			}()
		}
		wg.Wait()
		close(stop)
		bg.Wait()
	})
}

// timedSleep calls SleepContext on the calling goroutine (the next call must run on the same P).
func timedSleep(ctx context.Context, d time.Duration) (err error, elapsed time.Duration, pan *vkit.Panic) {
	t0 := time.Now()
	pan = vkit.Try(func() { err = xtime.SleepContext(ctx, d) })
	return err, time.Since(t0), pan
}

// monoBase turns monotonic stamps into int64 for atomics.
var monoBase = time.Now()

func monoNow() int64 { return int64(time.Since(monoBase)) }

func poolRound(c *vkit.Case, rnd *vkit.Rand, actor, i int, step time.Duration) (violated bool) {
	r := c.R
	d1 := time.Duration(rnd.Range(200, 1000)) * us
	delta := -30*us + (time.Duration(i)*step)%(61*us)
	mode := rnd.Intn(3)
	var ctx context.Context
	var release func()
	shape := ""
	// ended: monotonic stamp taken after the context is known to have ended (0 = not yet)
	var ended atomic.Int64
	switch mode {
	case 0, 1:
		cctx, cancel := context.WithCancel(context.Background())
		tm := time.AfterFunc(d1+delta, func() {
			cancel()
			ended.CompareAndSwap(0, monoNow())
		})
		ctx, release, shape = cctx, func() { tm.Stop(); cancel() }, "WithCancel, cancelled by time.AfterFunc(d+delta)"
	default:
		p, cancel := context.WithTimeout(context.Background(), d1+delta)
		go func() {
			<-p.Done()
			ended.CompareAndSwap(0, monoNow())
		}()
		ctx, release, shape = hideDeadline{p}, cancel, "deadline-hiding wrapper(WithTimeout(d+delta))"
	}
	start := monoNow() // before the call
	err1, el1, pan1 := timedSleep(ctx, d1)
	// A stamp that is not there yet belongs to an end that became known after the call returned.
	endedAt := ended.Load()
	release()
	endedFirst := endedAt != 0 && time.Duration(endedAt-start) < d1
	if endedFirst {
		r.Count("pool", "first calls whose context is known to have ended before start + d (ctx.Err() demanded)", 1)
	}
	type call struct {
		D       string `json:"d"`
		Ctx     string `json:"context"`
		Result  string `json:"result"`
		Elapsed string `json:"elapsed"`
	}
	calls := []call{{d1.String(), shape + fmt.Sprintf(" delta=%s", delta), errString(err1), el1.String()}}
	witness := func() map[string]any {
		return map[string]any{"calls_in_order_on_one_goroutine": calls, "actor": actor, "round": i}
	}
	bad := func(sig, what string) bool {
		classRefuted[clPlain].Store(true)
		c.Violation(sig, what, witness())
		return true
	}
	r.Eval(1)
	r.Count("pool", "rounds", 1)
	switch {
	case pan1 != nil:
		return bad("sleep-panic", fmt.Sprintf("SleepContext(%s, %s) panicked: %s", shape, d1, pan1.Msg))
	case err1 == nil:
		r.Count("pool: first call, context ending at d+delta", fmt.Sprintf("delta %s: nil", deltaBucket(delta)), 1)
		r.Count("sleep", "nil result, elapsed >= d checked", 1)
		if el1 < d1 {
			return bad("nil-before-d", fmt.Sprintf("SleepContext(%s delta=%s, %s) returned nil after %s, less than d", shape, delta, d1, el1))
		}
		if endedFirst {
			return bad("nil-although-context-ended-first", fmt.Sprintf("SleepContext(%s delta=%s, %s) returned nil after %s although its context was known to have ended %s after a stamp taken before the call, i.e. before d had elapsed",
				shape, delta, d1, el1, time.Duration(endedAt-start)))
		}
	case (errors.Is(err1, context.Canceled) || errors.Is(err1, context.DeadlineExceeded)) && !isCause(err1):
		r.Count("pool: first call, context ending at d+delta", fmt.Sprintf("delta %s: ctx.Err()", deltaBucket(delta)), 1)
	default:
		return bad("unexpected-error", fmt.Sprintf("SleepContext(%s delta=%s, %s) returned %s; expected nil or ctx.Err()", shape, delta, d1, errString(err1)))
	}
	n := 2 + rnd.Intn(2)
	for k := 0; k < n; k++ {
		d2 := time.Duration([]int{300, 400, 500, 800, 2000}[rnd.Weighted([]int{4, 3, 3, 2, 1})]) * us
		err, el, pan := timedSleep(context.Background(), d2)
		calls = append(calls, call{d2.String(), "Background", errString(err), el.String()})
		r.Eval(1)
		r.Count("pool", "follow-up plain sleeps judged", 1)
		r.Count("sleep", "nil result, elapsed >= d checked", 1)
		switch {
		case pan != nil:
			return bad("sleep-panic", fmt.Sprintf("SleepContext(Background, %s) panicked: %s", d2, pan.Msg))
		case err != nil:
			return bad("unexpected-error", fmt.Sprintf("SleepContext(Background, %s) returned %s; expected nil", d2, errString(err)))
		case el < d2:
			return bad("nil-before-d", fmt.Sprintf("SleepContext(Background, %s) returned nil after %s, less than d; it was call %d after a SleepContext(%s, %s) -> %s whose context ended %s relative to its d, on the same goroutine",
				d2, el, k+1, shape, d1, errString(err1), delta))
		}
	}
	if i%16 == 0 {
		r.Distinct(fmt.Sprintf("pool|%d|%d|%d", d1, delta, mode))
	}
	if r.WantSample() && actor == 0 && i == 7 {
		r.Sample(witness())
	}
	return false
}

func deltaBucket(d time.Duration) string {
	switch {
	case d < -10*us:
		return "a [-30us,-10us)"
	case d < -2*us:
		return "b [-10us,-2us)"
	case d <= 2*us:
		return "c [-2us,+2us]"
	case d <= 10*us:
		return "d (+2us,+10us]"
	}
	return "e (+10us,+30us]"
}
