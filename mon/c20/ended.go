package main

import (
	"context"
	"errors"
	"fmt"
	"runtime"
	"sync"
	"sync/atomic"
	"time"

	"verif/vkit"
)

// Group "ended-first": "returns the context's error if the context ends first", for sleeps so short
// that the timer and the end of the context are ready together.
//
//	(i)  contexts that have ended before the call, d from 1 ns to 1 ms, called from 64 goroutines at
//	     once: the result must be ctx.Err(), never nil.
//	(ii) a live context cancelled by a spinning goroutine at a swept fraction of d (d = 5..80 us).
//	     The caller stamps t0 before the call, the canceller stamps tc after cancel() has returned.
//	     If tc - t0 < d the context ended first (the timer is armed after t0 and cannot fire before
//	     t0 + d): the result must be context.Canceled. Otherwise nil (after >= d) is fine too.

var endedDs = []time.Duration{1, 100, 1 * us, 5 * us, 19 * us, 50 * us, 1 * ms}
var midDs = []time.Duration{5 * us, 10 * us, 15 * us, 19 * us, 30 * us, 80 * us}

func endedFirstCases(r *vkit.Report) {
	r.Cases("ended", r.Scale(5, 16), 1, endedAlready)
	r.Cases("ended-mid", r.Scale(8, 24), 1, endedMid)
}

func endedAlready(c *vkit.Case) {
	r := c.R
	const workers = 64
	calls := 750
	var found atomic.Bool
	var wg sync.WaitGroup
	for w := 0; w < workers; w++ {
		rnd := c.Rand.Split()
		w := w
		wg.Add(1)
		go func() {
			defer wg.Done()
			nils := 0
			for i := 0; i < calls && !found.Load(); i++ {
				var m mctx
				if rnd.Intn(6) == 0 {
					m = hiddenDeadlineCtx(rnd.Intn(2), -1*ms)
				} else {
					m = cancelCtx(rnd.Intn(8))
					m.end()
				}
				want := m.ctx.Err()
				d := endedDs[(i+w)%len(endedDs)]
				err, el, pan := timedSleep(m.ctx, d)
				m.free()
				if pan != nil || !errors.Is(err, want) || isCause(err) {
					if found.CompareAndSwap(false, true) {
						sig, what := "ctx-error-missing", "returned "+errString(err)
						switch {
						case pan != nil:
							sig, what = "sleep-panic", "panicked: "+pan.Msg
						case err == nil:
							sig = "nil-although-context-ended-first"
						case isCause(err):
							sig = "cause-instead-of-ctx-err"
						}
						c.Violation(sig, fmt.Sprintf("SleepContext(%s, already ended, %s) %s after %s while %d goroutines were calling it; the context had ended before the call, expected ctx.Err() = %v",
							m.name, d, what, el, workers, want),
							map[string]any{"context": m.name + ", ended before the call", "d_ns": int64(d), "result": errString(err), "elapsed": el.String(), "concurrent_callers": workers, "call_index": i})
					}
					return
				}
				nils++
			}
			r.Eval(nils)
			r.Count("ended-first", "already-ended context: calls judged", nils)
		}()
	}
	wg.Wait()
	r.Distinct(fmt.Sprintf("ended|%d", c.Index))
}

// midTrial is what the caller publishes for the canceller.
type midTrial struct {
	cancel context.CancelFunc
	t0     int64 // monoNow() before the call
	wait   time.Duration
	tc     int64 // written by the canceller: monoNow() after cancel() returned
}

func endedMid(c *vkit.Case) {
	r := c.R
	pairs := runtime.GOMAXPROCS(0)/2 - 1
	if pairs > 7 {
		pairs = 7
	}
	if pairs < 1 {
		pairs = 1
	}
	trials := 1500
	var found atomic.Bool
	var wg sync.WaitGroup
	for p := 0; p < pairs; p++ {
		rnd := c.Rand.Split()
		p := p
		wg.Add(1)
		go func() {
			defer wg.Done()
			var slot atomic.Pointer[midTrial] // caller -> canceller
			var done atomic.Pointer[midTrial] // canceller -> caller
			var quit atomic.Bool
			var cw sync.WaitGroup
			cw.Add(1)
			go func() { // the canceller
				defer cw.Done()
				for {
					t := slot.Swap(nil)
					if t == nil {
						if quit.Load() {
							return
						}
						runtime.Gosched()
						continue
					}
					for time.Duration(monoNow()-t.t0) < t.wait {
					}
					t.cancel()
					t.tc = monoNow()
					done.Store(t)
				}
			}()
			judged, late := 0, 0
			for i := 0; i < trials && !found.Load(); i++ {
				d := midDs[(i+p)%len(midDs)]
				// cancel aimed at 0 .. 110 % of d
				wait := time.Duration(int64(d) * int64(rnd.Intn(111)) / 100)
				ctx, cancel := context.WithCancel(context.Background())
				t := &midTrial{cancel: cancel, wait: wait}
				t.t0 = monoNow()
				slot.Store(t)
				err, el, pan := timedSleep(ctx, d)
				for done.Load() != t {
					runtime.Gosched()
				}
				tc := time.Duration(t.tc - t.t0)
				bad := func(sig, what string) {
					if found.CompareAndSwap(false, true) {
						c.Violation(sig, what, map[string]any{"context": "WithCancel", "d_ns": int64(d), "cancel_aimed_at_ns": int64(wait),
							"cancel_returned_after_ns": int64(tc), "result": errString(err), "elapsed": el.String(), "trial": i})
					}
				}
				switch {
				case pan != nil:
					bad("sleep-panic", fmt.Sprintf("SleepContext(WithCancel, %s) panicked: %s", d, pan.Msg))
				case err == nil && el < d:
					bad("nil-before-d", fmt.Sprintf("SleepContext(WithCancel, %s) returned nil after %s, less than d", d, el))
				case err != nil && !errors.Is(err, context.Canceled):
					bad("unexpected-error", fmt.Sprintf("SleepContext(WithCancel, %s) returned %s; expected nil or context.Canceled", d, errString(err)))
				case tc < d:
					judged++
					if err == nil {
						bad("nil-although-context-ended-first", fmt.Sprintf("SleepContext(WithCancel, %s) returned nil after %s although cancel() had returned %s after a stamp taken before the call, i.e. before d had elapsed",
							d, el, tc))
					}
				default:
					late++
				}
				if found.Load() {
					break
				}
			}
			quit.Store(true)
			cw.Wait()
			r.Eval(judged + late)
			r.Count("ended-first", "cancel mid-sleep: trials with cancel returned before start+d (judged strictly)", judged)
			r.Count("ended-first", "cancel mid-sleep: trials with cancel returned at or after start+d (nil or Canceled)", late)
		}()
	}
	wg.Wait()
	r.Distinct(fmt.Sprintf("ended-mid|%d", c.Index))
}

var _ = vkit.Try
