package main

import (
	"fmt"
	"runtime"
	"sync"
	"sync/atomic"
	"time"

	"github.com/bradenaw/juniper/xtime"

	"verif/vkit"
)

// Group "gc-load": tickers with tiny periods read continuously while hammer goroutines call
// runtime.GC(), allocate, and spin: stop-the-world pauses and preemptions land anywhere inside the
// timer callback, also between two clock readings of it. No second party is involved, so there is
// nothing to aim at; the rule is the plain spacing rule (consecutive tick values, as received, are
// >= d - jitter apart). Ticks dropped because the 1-slot channel was full only widen the gaps.

var gcSink atomic.Pointer[[]byte]

func gcLoadCases(r *vkit.Report) {
	perTicker := r.Scale(4250, 15000)
	if runtime.GOMAXPROCS(0) < 8 {
		perTicker /= 4 // few processors: the hammer leaves little room for 24 tickers
	}
	ds := []time.Duration{20 * us, 30 * us, 50 * us, 100 * us}
	r.Cases("gc-load", 2, 1, func(c *vkit.Case) {
		var stop atomic.Bool
		var bg sync.WaitGroup
		hammer := func(f func()) {
			bg.Add(1)
			go func() {
				defer bg.Done()
				for !stop.Load() {
					f()
				}
			}()
		}
		gcs := 2
		if runtime.GOMAXPROCS(0) < 4 {
			gcs = 1
		}
		for i := 0; i < gcs; i++ {
			hammer(runtime.GC)
		}
		hammer(func() { // allocation pressure
			b := make([]byte, 64<<10)
			gcSink.Store(&b)
			runtime.Gosched()
		})
		hammer(func() { // a spinner that can only be moved by preemption
			for t := time.Now(); time.Since(t) < 200*us; {
			}
			runtime.Gosched()
		})
		var found atomic.Bool
		var wg sync.WaitGroup
		for i := 0; i < 24; i++ {
			d := ds[(i+c.Index)%len(ds)]
			j := []time.Duration{0, d / 4}[(i/4+c.Index)%2]
			wg.Add(1)
			go func() {
				defer wg.Done()
				var tk *xtime.JitterTicker
				if p := vkit.Try(func() { tk = xtime.NewJitterTicker(d, j) }); p != nil {
					c.Violation("ticker-panic", fmt.Sprintf("NewJitterTicker(%s, %s) panicked: %s", d, j, p.Msg), map[string]any{"d_ns": int64(d), "jitter_ns": int64(j)})
					found.Store(true)
					return
				}
				defer func() { vkit.Try(tk.Stop) }()
				safety := time.NewTimer(noTickLimit)
				defer safety.Stop()
				var last time.Time
				n, close50 := 0, 0
				for ; n < perTicker && !found.Load(); n++ {
					var T time.Time
					select {
					case T = <-tk.C:
					case <-safety.C:
						c.R.Count("outside the statement / lenient (not judged)", "gc-load: reader waited 5 s for ticks in total without finishing", 1)
						n = perTicker
						continue
					}
					if n > 0 {
						gap := T.Sub(last)
						if gap < d-j {
							if found.CompareAndSwap(false, true) {
								c.Violation("tick-spacing", fmt.Sprintf("JitterTicker(%s, %s) read continuously under GC / allocation / spinning load: ticks %d and %d carry timestamps only %s apart (d - jitter = %s)", d, j, n-1, n, gap, d-j),
									map[string]any{"d_ns": int64(d), "jitter_ns": int64(j), "pair": []int{n - 1, n}, "gap_ns": int64(gap), "bound_ns": int64(d - j), "load": "runtime.GC() loops, allocation, spinning goroutines"})
							}
							return
						}
						if gap < d-j+2*us {
							close50++
						}
					}
					last = T
				}
				c.R.Eval(n)
				c.R.Count("gc-load", "tick pairs judged under GC load", n)
				c.R.Count("gc-load", "pairs within 2us of the bound", close50)
				c.R.Count("ticks", "pairs judged", n)
			}()
		}
		wg.Wait()
		stop.Store(true)
		bg.Wait()
		var ms runtime.MemStats
		runtime.ReadMemStats(&ms)
		c.R.Max("gc-load", "GC cycles completed in the process so far", int(ms.NumGC))
		c.R.Distinct(fmt.Sprintf("gc-load|%d", c.Index))
	})
}
