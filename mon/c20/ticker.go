package main

import (
	"fmt"
	"sync"
	"sync/atomic"
	"time"

	"github.com/bradenaw/juniper/xtime"

	"verif/vkit"
)

var gridD = []time.Duration{100 * us, 250 * us, 500 * us, 1 * ms, 2 * ms, 5 * ms}

var jitterKind = [4]string{"0", "1ns", "d/2", "d-1ns"}

func jitterOf(kind int, d time.Duration) time.Duration {
	switch kind {
	case 0:
		return 0
	case 1:
		return 1
	case 2:
		return d / 2
	}
	return d - 1
}

func jitterName(d, j time.Duration) string {
	switch j {
	case 0:
		return "0"
	case 1:
		return "1ns"
	case d / 2:
		return "d/2"
	case d - 1:
		return "d-1ns"
	}
	return j.String()
}

// A ticker life: create, then the phases in order; the last phase is the Stop.
type tickerPlan struct {
	d0, j0 time.Duration
	phases []phase
}

type phase struct {
	ticks int           // ticks to receive before the action is armed
	imm   bool          // act at once after those ticks
	off   time.Duration // otherwise act at (timestamp of the last tick, or end of New/Reset) + d + off
	gated bool          // instead: act while the timer callback is held at ticker.fire
	reset bool          // Reset(d, j); otherwise Stop
	d, j  time.Duration
}

type regime struct {
	D, J       time.Duration
	Begin, End time.Time // stamps taken before the New/Reset call and after it returned
}

type tickRec struct {
	T    time.Time // the timestamp the tick carries
	Recv time.Time // taken after the receive
}

type tickerResult struct {
	plan        tickerPlan
	regimes     []regime
	ticks       []tickRec
	nBeforeStop int // ticks received before Stop was called
	stopBegin   time.Time
	stopEnd     time.Time // taken after Stop returned
	stopped     bool
	watch       time.Duration
	pan         *vkit.Panic
	panWhere    string
	noTick      int   // phases that saw no tick for noTickLimit
	gateHit     []int // phase indices whose action ran while the callback was held
	gateMissed  int
	heldAtStop  int32 // callbacks sleeping in the stress hook when Stop was called (any ticker)
	stopOff     time.Duration
	stopOffOK   bool
}

const noTickLimit = 5 * time.Second

// gate holds the target-th arrival at ticker.fire until released.
type gate struct {
	n       atomic.Int64
	target  int64
	arrived chan struct{}
	release chan struct{}
	once    sync.Once
}

func newGate(target int) *gate {
	return &gate{target: int64(target), arrived: make(chan struct{}), release: make(chan struct{})}
}

func (g *gate) hook(point string) {
	if point != "ticker.fire" {
		return
	}
	if g.n.Add(1) == g.target {
		close(g.arrived)
		<-g.release
	}
}

func (g *gate) open() { g.once.Do(func() { close(g.release) }) }

// stressHook delays a pre-drawn subset of arrivals at ticker.fire (it runs on timer goroutines).
type stressHook struct {
	tab      []time.Duration
	n        atomic.Int64
	sleeping atomic.Int32
	held     atomic.Int64
}

func (h *stressHook) hook(point string) {
	if point != "ticker.fire" {
		return
	}
	i := h.n.Add(1) - 1
	d := h.tab[int(i%int64(len(h.tab)))]
	if d > 0 {
		h.sleeping.Add(1)
		time.Sleep(d)
		h.sleeping.Add(-1)
		h.held.Add(1)
	}
}

// runTicker plays one ticker life on the calling goroutine, which is also the only reader of C.
func runTicker(p tickerPlan, g *gate, sh *stressHook) *tickerResult {
	res := &tickerResult{plan: p}
	if g != nil {
		defer g.open()
	}
	var tk *xtime.JitterTicker
	b := time.Now()
	pan := vkit.Try(func() { tk = xtime.NewJitterTicker(p.d0, p.j0) })
	e := time.Now()
	if pan != nil {
		res.pan, res.panWhere = pan, fmt.Sprintf("NewJitterTicker(%s, %s)", p.d0, p.j0)
		return res
	}
	res.regimes = append(res.regimes, regime{p.d0, p.j0, b, e})
	curD, curJ := p.d0, p.j0
	base := e
	take := func(T time.Time) {
		res.ticks = append(res.ticks, tickRec{T: T, Recv: time.Now()})
		base = T
	}
	for pi, ph := range p.phases {
		// 1. receive the planned number of ticks
		if ph.ticks > 0 {
			safety := time.NewTimer(noTickLimit)
			got := 0
			for got < ph.ticks {
				select {
				case T := <-tk.C:
					take(T)
					got++
				case <-safety.C:
					res.noTick++
					got = ph.ticks
				}
			}
			safety.Stop()
		}
		// 2. wait for the moment of the action, still draining C
		held := false
		switch {
		case ph.gated && g != nil:
			safety := time.NewTimer(noTickLimit)
		waitGate:
			for {
				select {
				case T := <-tk.C:
					take(T)
				case <-g.arrived:
					held = true
					break waitGate
				case <-safety.C:
					res.gateMissed++
					break waitGate
				}
			}
			safety.Stop()
		case !ph.imm:
			if wait := time.Until(base.Add(curD + ph.off)); wait > 0 {
				tm := time.NewTimer(wait)
			waitTarget:
				for {
					select {
					case T := <-tk.C:
						take(T)
					case <-tm.C:
						break waitTarget
					}
				}
			}
		}
		// 3. the action
		if ph.reset {
			b := time.Now()
			pan := vkit.Try(func() { tk.Reset(ph.d, ph.j) })
			e := time.Now()
			if held {
				res.gateHit = append(res.gateHit, pi)
				g.open()
			}
			if pan != nil {
				// Reset panicked with the ticker's mutex held: the ticker must not be touched again.
				res.pan, res.panWhere = pan, fmt.Sprintf("Reset(%s, %s)", ph.d, ph.j)
				return res
			}
			res.regimes = append(res.regimes, regime{ph.d, ph.j, b, e})
			curD, curJ = ph.d, ph.j
			base = e
			continue
		}
		if sh != nil {
			res.heldAtStop = sh.sleeping.Load()
		}
		res.nBeforeStop = len(res.ticks)
		res.stopBegin = time.Now()
		pan := vkit.Try(tk.Stop)
		res.stopEnd = time.Now()
		if held {
			res.gateHit = append(res.gateHit, pi)
			g.open()
		}
		if pan != nil {
			res.pan, res.panWhere = pan, "Stop()"
			return res
		}
		res.stopped = true
		// offset of the Stop call from the earliest moment the next firing was due
		if curD <= time.Second {
			res.stopOff, res.stopOffOK = res.stopBegin.Sub(base.Add(curD-curJ)), true
		}
		// 4. watch the channel: at least 5 (d + jitter), plus the longest hold of the pause point
		res.watch = 20 * ms // periods of years: nothing is due
		if curD <= time.Second {
			res.watch = 5*(curD+curJ) + 3*ms
		}
		tm := time.NewTimer(res.watch)
	watch:
		for {
			select {
			case T := <-tk.C:
				take(T)
			case <-tm.C:
				break watch
			}
		}
		// one last look: a tick may have been sent while the watch timer was firing
		select {
		case T := <-tk.C:
			take(T)
		default:
		}
		break
	}
	return res
}

// bound returns the smallest d - jitter over every regime that can have been in force at some
// moment of [a, b], and how many regimes that is.
func bound(regs []regime, a, b time.Time) (time.Duration, int) {
	var min time.Duration
	n := 0
	for k, rg := range regs {
		if rg.Begin.After(b) {
			continue // this regime began after the later tick was stamped
		}
		if k+1 < len(regs) && regs[k+1].End.Before(a) {
			continue // its successor was in force before the earlier tick was stamped
		}
		if bd := rg.D - rg.J; n == 0 || bd < min {
			min = bd
		}
		n++
	}
	return min, n
}

func (res *tickerResult) witness() map[string]any {
	p := res.plan
	var origin time.Time
	if len(res.regimes) > 0 {
		origin = res.regimes[0].Begin
	}
	rel := func(t time.Time) int64 {
		if t.IsZero() {
			return -1
		}
		return int64(t.Sub(origin))
	}
	var phases []map[string]any
	for _, ph := range p.phases {
		m := map[string]any{"after_ticks": ph.ticks}
		switch {
		case ph.gated:
			m["when"] = "callback held at ticker.fire"
		case ph.imm:
			m["when"] = "at once"
		default:
			m["when"] = fmt.Sprintf("expected firing %+v", ph.off)
		}
		if ph.reset {
			m["action"] = fmt.Sprintf("Reset(%s, %s)", ph.d, ph.j)
			m["d_ns"], m["jitter_ns"] = int64(ph.d), int64(ph.j)
		} else {
			m["action"] = "Stop()"
		}
		phases = append(phases, m)
	}
	var regs []map[string]any
	for _, rg := range res.regimes {
		regs = append(regs, map[string]any{"d_ns": int64(rg.D), "jitter_ns": int64(rg.J), "call_begin_ns": rel(rg.Begin), "call_end_ns": rel(rg.End)})
	}
	var ticks []map[string]int64
	for i, t := range res.ticks {
		if i >= 60 {
			break
		}
		ticks = append(ticks, map[string]int64{"stamp_ns": rel(t.T), "received_ns": rel(t.Recv)})
	}
	return map[string]any{
		"new": fmt.Sprintf("NewJitterTicker(%s, %s)", p.d0, p.j0), "d_ns": int64(p.d0), "jitter_ns": int64(p.j0),
		"phases": phases, "regimes": regs, "ticks": ticks, "ticks_total": len(res.ticks),
		"ticks_before_stop": res.nBeforeStop, "stop_call_ns": rel(res.stopBegin), "stop_returned_ns": rel(res.stopEnd),
		"watched_after_stop": res.watch.String(),
	}
}

// judgeTicker applies the oracle to one finished life; it reports whether a violation was found.
func judgeTicker(c *vkit.Case, res *tickerResult, group string) bool {
	r := c.R
	p := res.plan
	// no panic for any documented (d, jitter)
	nj0 := 0
	for _, rg := range res.regimes {
		r.Eval(1)
		r.Count("ticker grid: New/Reset without panic", fmt.Sprintf("d=%s jitter=%s", rg.D, jitterName(rg.D, rg.J)), 1)
		if rg.J == 0 {
			nj0++
		}
	}
	r.Count("ticker", "New/Reset with jitter == 0", nj0)
	r.Count("ticker", "lives", 1)
	for _, rg := range res.regimes {
		if rg.D >= maxD/4 {
			r.Count("ticker", "lives with d >= MaxInt64/4", 1)
			break
		}
	}
	if res.pan != nil {
		if res.panWhere == "Stop()" {
			w := res.witness()
			w["panic"] = res.pan.Msg
			c.Violation("stop-panics", "Stop() panicked: "+res.pan.Msg, w)
			return true
		}
		r.Eval(1)
		w := res.witness()
		w["panic"] = res.pan.Msg
		w["frame"] = res.pan.JuniperFrame()
		c.Violation("ticker-panic", fmt.Sprintf("%s panicked although d > 0 and 0 <= jitter < d: %s", res.panWhere, res.pan.Msg), w)
		return true
	}
	if res.noTick > 0 {
		r.Count("outside the statement / lenient (not judged)", "phase saw no tick for 5 s", res.noTick)
	}
	if res.gateMissed > 0 {
		r.Count("gate", "callback never reached ticker.fire within 5 s (phase not gated)", res.gateMissed)
	}
	for _, pi := range res.gateHit {
		if p.phases[pi].reset {
			r.Count("gate", "Reset while callback held before its lock", 1)
		} else {
			r.Count("gate", "Stop while callback held before its lock", 1)
		}
	}
	// spacing of consecutive ticks, by the timestamps they carry
	r.Count("ticks", "received", len(res.ticks))
	for i := 0; i+1 < len(res.ticks); i++ {
		a, b := res.ticks[i].T, res.ticks[i+1].T
		bd, n := bound(res.regimes, a, b)
		r.Eval(1)
		r.Count("ticks", "pairs judged", 1)
		if n > 1 {
			r.Count("ticks", "pairs judged with more than one regime possible", 1)
		}
		gap := b.Sub(a)
		if n == 0 || gap < bd {
			w := res.witness()
			w["pair"] = []int{i, i + 1}
			w["gap_ns"], w["bound_ns"] = int64(gap), int64(bd)
			c.Violation("tick-spacing", fmt.Sprintf("ticks %d and %d of a JitterTicker (regimes in force between them: %d, smallest d - jitter = %s) carry timestamps only %s apart", i, i+1, n, bd, gap), w)
			return true
		}
		if gap < bd+50*us {
			r.Count("ticks", "pairs within 50us of the bound", 1)
		}
	}
	// regime rule (see seq.go): every tick must fit some regime's window
	{
		var regs []seqRegime
		for k, rg := range res.regimes {
			sr := seqRegime{d: rg.D, j: rg.J, b: rg.Begin}
			if k+1 < len(res.regimes) {
				sr.end = res.regimes[k+1].End
			} else if res.stopped {
				sr.end = res.stopEnd
			}
			regs = append(regs, sr)
		}
		for i, t := range res.ticks {
			r.Eval(1)
			if !tickLegit(regs, t.T) {
				w := res.witness()
				w["tick_index"] = i
				c.Violation("tick-outside-every-regime", fmt.Sprintf("tick %d of a JitterTicker life is stamped where no regime can have sent it (later than the return of the call that closed a regime, and earlier than d - jitter after the call that opened the next)", i), w)
				return true
			}
		}
	}
	// silence after Stop
	if res.stopped {
		after := res.ticks[res.nBeforeStop:]
		for k, t := range after {
			r.Eval(1)
			if t.T.After(res.stopEnd) {
				w := res.witness()
				w["tick_index"] = res.nBeforeStop + k
				w["stamp_after_stop_returned_ns"] = int64(t.T.Sub(res.stopEnd))
				c.Violation("tick-after-stop", fmt.Sprintf("a tick stamped %s AFTER Stop had returned was received (d=%s jitter=%s, %d tick(s) received after Stop, watched %s)",
					t.T.Sub(res.stopEnd), res.regimes[len(res.regimes)-1].D, res.regimes[len(res.regimes)-1].J, len(after), res.watch), w)
				return true
			}
			if t.Recv.After(res.stopEnd) {
				r.Count("ticks", "received after Stop returned, stamped before (legitimate)", 1)
			}
		}
		// drain, then silence: the 1-slot channel can hold at most one tick when Stop returns, so a
		// second tick received after Stop was sent after Stop returned, whatever its timestamp
		if len(after) >= 2 {
			w := res.witness()
			c.Violation("tick-sent-after-stop", fmt.Sprintf("%d ticks were received after Stop had returned (d=%s jitter=%s, watched %s); the channel holds one tick at most, so at least one was sent after Stop returned",
				len(after), res.regimes[len(res.regimes)-1].D, res.regimes[len(res.regimes)-1].J, res.watch), w)
			return true
		}
		r.Eval(1)
		r.Count("ticker", "post-Stop watch completed", 1)
		if res.heldAtStop > 0 {
			r.Count("ticker", "Stop called while >= 1 callback slept at ticker.fire (any ticker)", 1)
		}
		if res.stopOffOK {
			r.Count("Stop call relative to the earliest due time of the next firing", offBucket(res.stopOff), 1)
		}
	}
	if len(res.ticks) >= 2 || res.stopped {
		r.Distinct(group + "|" + planKey(p))
	}
	return false
}

func offBucket(d time.Duration) string {
	switch {
	case d < -1*ms:
		return "a: < -1ms"
	case d < -200*us:
		return "b: [-1ms, -200us)"
	case d < 0:
		return "c: [-200us, 0)"
	case d < 200*us:
		return "d: [0, 200us)"
	case d < 500*us:
		return "e: [200us, 500us)"
	case d < 1*ms:
		return "f: [500us, 1ms)"
	case d < 3*ms:
		return "g: [1ms, 3ms)"
	}
	return "h: >= 3ms"
}

func planKey(p tickerPlan) string {
	s := fmt.Sprintf("%d/%d", p.d0, p.j0)
	for _, ph := range p.phases {
		when := fmt.Sprint(int64(ph.off / (50 * us)))
		if ph.imm {
			when = "imm"
		}
		if ph.gated {
			when = "gate"
		}
		if ph.reset {
			s += fmt.Sprintf(";R%d/%d@%d+%s", ph.d, ph.j, ph.ticks, when)
		} else {
			s += fmt.Sprintf(";S@%d+%s", ph.ticks, when)
		}
	}
	return s
}

// drawOff draws the offset of an action from (last tick + d): the next firing is due in
// [-jitter, +jitter) around that moment, and the pause point may hold it for up to 800 us more.
func drawOff(rnd *vkit.Rand, j time.Duration) time.Duration {
	lo, hi := -j-200*us, j+900*us
	return lo + time.Duration(rnd.Intn(int(hi-lo)+1))
}

func drawGrid(rnd *vkit.Rand) (time.Duration, time.Duration) {
	d := gridD[rnd.Weighted([]int{4, 4, 4, 3, 2, 1})]
	return d, jitterOf(rnd.Intn(4), d)
}

func drawPlan(rnd *vkit.Rand) tickerPlan {
	p := tickerPlan{}
	p.d0, p.j0 = drawGrid(rnd)
	curJ := p.j0
	nResets := rnd.Weighted([]int{4, 4, 2})
	for i := 0; i <= nResets; i++ {
		ph := phase{ticks: rnd.Weighted([]int{2, 4, 3, 2})}
		if rnd.Bool(0.15) {
			ph.imm = true
		} else {
			ph.off = drawOff(rnd, curJ)
		}
		if i < nResets {
			ph.reset = true
			ph.d, ph.j = drawGrid(rnd)
			curJ = ph.j
		}
		p.phases = append(p.phases, ph)
	}
	return p
}

// ---------------------------------------------------------------------------------------------
// Gate group: one ticker at a time; the k-th timer callback is held at ticker.fire (before the
// ticker's lock) while Stop or Reset runs and returns, then let go: "fired but not yet delivered"
// coincides with the action on every case.

func gateCases(r *vkit.Report) {
	n := r.Scale(320, 1000)
	r.Cases("gate", n, 1, func(c *vkit.Case) {
		rnd := c.Rand
		p := tickerPlan{}
		p.d0, p.j0 = drawGrid(rnd)
		if p.d0 > 2*ms {
			p.d0, p.j0 = 1*ms, jitterOf(rnd.Intn(4), 1*ms)
		}
		target := rnd.Range(1, 4)
		first := phase{gated: true}
		if rnd.Bool(0.4) {
			first.reset = true
			first.d, first.j = drawGrid(rnd)
			p.phases = append(p.phases, first)
			last := phase{ticks: rnd.Range(0, 2)}
			if rnd.Bool(0.2) {
				last.imm = true
			} else {
				last.off = drawOff(rnd, first.j)
			}
			p.phases = append(p.phases, last)
		} else {
			p.phases = append(p.phases, first)
		}
		g := newGate(target)
		xtime.VerifSetHook(g.hook)
		defer xtime.VerifSetHook(nil)
		res := runTicker(p, g, nil)
		g.open()
		judgeTicker(c, res, "gate")
		if r.WantSample() && c.Index%29 == 5 {
			r.Sample(res.witness())
		}
	})
}

// ---------------------------------------------------------------------------------------------
// Stress group: 64 concurrent lives per case; a seeded subset of all timer callbacks sleeps
// 100-800 us at ticker.fire.

func stressCases(r *vkit.Report) {
	n := r.Scale(100, 400)
	const lives = 64
	r.Cases("stress", n, 1, func(c *vkit.Case) {
		rnd := c.Rand
		share := []float64{0, 0.3, 0.7}[c.Index%3]
		var sh *stressHook
		if share > 0 {
			sh = &stressHook{tab: make([]time.Duration, 4096)}
			for i := range sh.tab {
				if rnd.Bool(share) {
					sh.tab[i] = time.Duration(rnd.Range(100, 800)) * us
				}
			}
			xtime.VerifSetHook(sh.hook)
			defer xtime.VerifSetHook(nil)
		}
		plans := make([]tickerPlan, lives)
		for i := range plans {
			plans[i] = drawPlan(rnd)
		}
		results := make([]*tickerResult, lives)
		var wg sync.WaitGroup
		for i := range plans {
			i := i
			wg.Add(1)
			go func() {
				defer wg.Done()
				results[i] = runTicker(plans[i], nil, sh)
			}()
		}
		wg.Wait()
		if sh != nil {
			r.Count("ticker", "callbacks held 100-800us at ticker.fire (stress)", int(sh.held.Load()))
			r.Count("ticker", "callbacks through ticker.fire (stress, hook installed)", int(sh.n.Load()))
		}
		for _, res := range results {
			if judgeTicker(c, res, "stress") {
				return // first violation ends the case
			}
		}
		if r.WantSample() && c.Index%17 == 2 {
			r.Sample(results[0].witness())
		}
	})
}

// ---------------------------------------------------------------------------------------------
// Extreme periods. Judged: every (d, jitter) with d + jitter <= MaxInt64 (the arithmetic of the
// next firing time stays in range): New / Reset must not panic, nothing may tick, Stop works.
// Beyond that (jitter >= 1<<62 ns, or d + jitter > MaxInt64) see overflowDomain.

// judgeOverflowDomain: the pairs below satisfy the documented precondition (d > 0, 0 <= jitter < d)
// but the clean tree mishandles them (int64(jitter*2) overflows -> rand.Int63n panics; d + offset
// overflows -> the timer is armed in the past and ticks at once). Periods of 146+ years; reported
// as a suspected defect, recorded, not judged until the library is repaired.
const judgeOverflowDomain = true

func tickerExtremes(r *vkit.Report) {
	type dj struct{ d, j time.Duration }
	q := maxD / 4
	judged := []dj{{q, 0}, {q, 1}, {q, q / 2}, {q, q - 1}, {maxD / 2, 0}, {maxD / 2, maxD/2 - 1}, {maxD, 0}, {maxD, 1}, {maxD - 1, 0}, {1 << 62, 1<<62 - 1}}
	r.Cases("ticker-extreme", 2*len(judged), 1, func(c *vkit.Case) {
		x := judged[c.Index%len(judged)]
		var p tickerPlan
		if c.Index < len(judged) {
			// create huge, Reset to a grid point, read ticks, Stop
			gd, gj := drawGrid(c.Rand)
			p = tickerPlan{d0: x.d, j0: x.j, phases: []phase{{imm: true, reset: true, d: gd, j: gj}, {ticks: 2, off: 0}}}
		} else {
			// create on the grid, Reset to huge after a tick, Stop
			gd, gj := drawGrid(c.Rand)
			p = tickerPlan{d0: gd, j0: gj, phases: []phase{{ticks: 1, imm: true, reset: true, d: x.d, j: x.j}, {imm: true}}}
		}
		judgeTicker(c, runTicker(p, nil, nil), "ticker-extreme")
	})
	over := []dj{{maxD, maxD / 2}, {maxD, maxD/2 + 1}, {maxD, maxD - 1}, {maxD/2 + 2, maxD/2 + 1}, {maxD - 1, maxD / 4 * 3}}
	r.Cases("ticker-overflow", len(over), 1, func(c *vkit.Case) {
		x := over[c.Index]
		p := tickerPlan{d0: x.d, j0: x.j, phases: []phase{{imm: true}}}
		res := runTicker(p, nil, nil)
		if judgeOverflowDomain {
			judgeTicker(c, res, "ticker-overflow")
			return
		}
		const tab = "suspected defect in the overflow domain (reported, not judged)"
		key := fmt.Sprintf("NewJitterTicker(%d ns, %d ns): ", int64(x.d), int64(x.j))
		switch {
		case res.pan != nil:
			r.Count(tab, key+"panicked: "+res.pan.Msg, 1)
		case len(res.ticks) > 0:
			r.Count(tab, key+"ticked within 20 ms", 1)
		default:
			r.Count(tab, key+"no panic, no tick (this time)", 1)
		}
	})
}

// Group "ticker-years": periods and jitters of decades to centuries, every pair with
// 0 <= jitter < d, armed many times (the offset of each arming is a fresh random draw) by
// NewJitterTicker and by Reset on a running ticker. Each arming is watched for >= 1 ms. Rule: the
// regime rule of seq.go — a tick stamped after the arming call returned and earlier than
// d - jitter after the arming call began belongs to no regime (with d - jitter of years: no tick at
// all may follow); and no panic.
func tickerYears(r *vkit.Report) {
	ds := []time.Duration{maxD, maxD - 1, maxD - time.Hour, maxD/2 + time.Hour, maxD / 2, 1 << 62}
	type dj struct{ d, j time.Duration }
	var pairs []dj
	for _, d := range ds {
		for _, j := range []time.Duration{1, 1 * ms, time.Second, time.Hour, 1000 * time.Hour, maxD / 4, maxD/2 - 1, maxD / 2, maxD/2 + 1, d - 1} {
			if j >= 0 && j < d {
				pairs = append(pairs, dj{d, j})
			}
		}
	}
	armings := r.Scale(20, 60) // per pair and way of arming
	r.Cases("ticker-years", len(pairs), 4, func(c *vkit.Case) {
		x := pairs[c.Index]
		name := fmt.Sprintf("(%d ns, %d ns)", int64(x.d), int64(x.j))
		bad := func(sig, what string, w map[string]any) {
			w["d_ns"], w["jitter_ns"] = int64(x.d), int64(x.j)
			c.Violation(sig, what, w)
		}
		judge := func(regs []seqRegime, ticks []time.Time, how string, n int) bool {
			for _, T := range ticks {
				r.Eval(1)
				if !tickLegit(regs, T) {
					last := regs[len(regs)-1]
					bad("tick-outside-every-regime", fmt.Sprintf("%s %s (arming %d): a tick stamped %s after the call began was received within the 1 ms watch; d - jitter is %s, no regime can have sent it", how, name, n, T.Sub(last.b), x.d-x.j),
						map[string]any{"arming": n, "how": how, "tick_after_call_began_ns": int64(T.Sub(last.b)), "ticks_in_watch": len(ticks)})
					return false
				}
			}
			return true
		}
		// (A) NewJitterTicker, again and again
		for n := 0; n < armings; n++ {
			var tk *xtime.JitterTicker
			b := time.Now()
			if p := vkit.Try(func() { tk = xtime.NewJitterTicker(x.d, x.j) }); p != nil {
				bad("ticker-panic", fmt.Sprintf("NewJitterTicker%s panicked although d > 0 and 0 <= jitter < d: %s", name, p.Msg), map[string]any{"panic": p.Msg})
				return
			}
			ticks := readTicks(tk, 4, 1*ms, false)
			vkit.Try(tk.Stop)
			r.Count("ticker-years", "armings by NewJitterTicker watched >= 1 ms", 1)
			if !judge([]seqRegime{{d: x.d, j: x.j, b: b}}, ticks, "NewJitterTicker", n) {
				return
			}
		}
		// (B) Reset on a running ticker, again and again (back to the grid in between)
		gd := 200 * us
		var tk *xtime.JitterTicker
		gb := time.Now()
		if p := vkit.Try(func() { tk = xtime.NewJitterTicker(gd, 0) }); p != nil {
			bad("ticker-panic", "NewJitterTicker(200us, 0) panicked: "+p.Msg, map[string]any{"panic": p.Msg})
			return
		}
		defer func() { vkit.Try(tk.Stop) }()
		for n := 0; n < armings; n++ {
			grid := seqRegime{d: gd, b: gb}
			if n%3 != 2 {
				// let it run: one tick of the grid regime (every third arming follows the previous huge one directly)
				readTicks(tk, 1, 20*ms, false)
			}
			rb := time.Now()
			if p := vkit.Try(func() { tk.Reset(x.d, x.j) }); p != nil {
				bad("ticker-panic", fmt.Sprintf("Reset%s on a running ticker panicked although d > 0 and 0 <= jitter < d: %s", name, p.Msg), map[string]any{"panic": p.Msg})
				return
			}
			grid.end = time.Now()
			ticks := readTicks(tk, 4, 1*ms, false)
			r.Count("ticker-years", "armings by Reset on a running ticker watched >= 1 ms", 1)
			if !judge([]seqRegime{grid, {d: x.d, j: x.j, b: rb}}, ticks, "Reset", n) {
				return
			}
			if n%3 != 1 {
				gb = time.Now()
				if p := vkit.Try(func() { tk.Reset(gd, 0) }); p != nil {
					bad("ticker-panic", "Reset(200us, 0) panicked: "+p.Msg, map[string]any{"panic": p.Msg})
					return
				}
			}
		}
		r.Count("ticker grid: New/Reset without panic", fmt.Sprintf("d=%d jitter=%d (years)", int64(x.d), int64(x.j)), 2*armings)
		r.Distinct("years|" + name)
	})
}
