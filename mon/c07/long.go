package main

import (
	"context"
	"fmt"
	"os"
	"strings"
	"time"

	"github.com/bradenaw/juniper/iterator"
	"github.com/bradenaw/juniper/stream"
)

// Long stretches: every combinator whose Next skips over input (empty inner sequences, rejected
// items, adjacent duplicates) is given one real item, a stretch of N items that are all skipped,
// and one more real item. The function computed and the pulls are the same as for short inputs;
// what differs is that an implementation which recurses once per skipped item instead of looping
// needs stack proportional to N and dies with "fatal error: stack overflow" (about 16.8 million
// 32-byte frames with the default 1 GB limit). That fatal error cannot be recovered: the monitor
// process dies and check.sh reports it as VIOLATION [crash]; the name of the scenario is written to
// stderr before it starts so that the crash log names it.
//
// Sources are generated lazily (nothing of size N is ever materialised, except the argument list
// of Join, which is therefore given a moderate N and is not stack-sensitive).

// genIter yields f(0) .. f(n-1) and counts the calls it receives.
type genIter[T any] struct {
	i, n  int
	f     func(i int) T
	calls int
}

func (g *genIter[T]) Next() (T, bool) {
	g.calls++
	if g.i >= g.n {
		var zero T
		return zero, false
	}
	x := g.f(g.i)
	g.i++
	return x, true
}

func (g *genIter[T]) pulls() int {
	if g.calls > g.n+1 {
		return g.n + 1
	}
	return g.calls
}

type genStream[T any] struct{ g genIter[T] }

func (s *genStream[T]) Next(ctx context.Context) (T, error) {
	x, ok := s.g.Next()
	if !ok {
		return x, stream.End
	}
	return x, nil
}
func (s *genStream[T]) Close() {}

type emptyI struct{}

func (emptyI) Next() (int, bool) { return 0, false }

type emptyS struct{}

func (emptyS) Next(context.Context) (int, error) { return 0, stream.End }
func (emptyS) Close()                            {}

type longScenario struct {
	name string
	n    int // length of the skipped stretch
	want []int
	need func(N int) []int
	mk   func(N int) handle[int]
}

// first item at position 0, last at position N+1, the stretch in between.
func needSkip(N int) []int { return []int{0, 1, N + 2, N + 3} }

func longScenarios(nIter, nStream, nJoin int) []longScenario {
	one := func(v int) iterator.Iterator[int] { return &genIter[int]{n: 1, f: func(int) int { return v }} }
	oneS := func(v int) stream.Stream[int] {
		return &genStream[int]{genIter[int]{n: 1, f: func(int) int { return v }}}
	}
	edge := func(N int, first, last int, mid func(i int) int) func(i int) int {
		return func(i int) int {
			switch i {
			case 0:
				return first
			case N + 1:
				return last
			}
			return mid(i)
		}
	}
	reject := func(x int) bool { return x != 0 }
	sameParity := func(a, b int) bool { return a%2 == b%2 }
	filterSrc := func(N int) func(int) int { return edge(N, 1, 2, func(int) int { return 0 }) }
	compactSrc := func(N int) func(int) int { return edge(N, 1, 3, func(int) int { return 2 }) }
	compactFuncSrc := func(N int) func(int) int { return edge(N, 1, 3, func(i int) int { return 2 + 2*((i+1)%2) }) }
	needCompact := func(N int) []int { return []int{0, 1, 2, N + 2, N + 3} }

	iterH := func(g *genIter[int], it iterator.Iterator[int]) handle[int] {
		return handle[int]{next: it.Next, pulls: g.pulls, close: func() {}}
	}
	streamH := func(g *genStream[int], s stream.Stream[int]) handle[int] {
		return handle[int]{next: streamNext(s), pulls: g.g.pulls, close: s.Close}
	}

	return []longScenario{
		{"iterator.Flatten over [one item, N empty iterators, one item]", nIter, []int{1, 2}, needSkip, func(N int) handle[int] {
			g := &genIter[iterator.Iterator[int]]{n: N + 2, f: func(i int) iterator.Iterator[int] {
				switch i {
				case 0:
					return one(1)
				case N + 1:
					return one(2)
				}
				return emptyI{}
			}}
			return handle[int]{next: iterator.Flatten[int](g).Next, pulls: g.pulls, close: func() {}}
		}},
		{"iterator.Filter over [kept, N rejected items, kept]", nIter, []int{1, 2}, needSkip, func(N int) handle[int] {
			g := &genIter[int]{n: N + 2, f: filterSrc(N)}
			return iterH(g, iterator.Filter[int](g, reject))
		}},
		{"iterator.Compact over [1, N times 2, 3]", nIter, []int{1, 2, 3}, needCompact, func(N int) handle[int] {
			g := &genIter[int]{n: N + 2, f: compactSrc(N)}
			return iterH(g, iterator.Compact[int](g))
		}},
		{"iterator.CompactFunc(same parity) over [1, N times 2|4, 3]", nIter, []int{1, 2, 3}, needCompact, func(N int) handle[int] {
			g := &genIter[int]{n: N + 2, f: compactFuncSrc(N)}
			return iterH(g, iterator.CompactFunc[int](g, sameParity))
		}},
		{"stream.Flatten over [one item, N empty streams, one item]", nStream, []int{1, 2}, needSkip, func(N int) handle[int] {
			g := &genStream[stream.Stream[int]]{genIter[stream.Stream[int]]{n: N + 2, f: func(i int) stream.Stream[int] {
				switch i {
				case 0:
					return oneS(1)
				case N + 1:
					return oneS(2)
				}
				return emptyS{}
			}}}
			s := stream.Flatten[int](g)
			return handle[int]{next: streamNext(s), pulls: g.g.pulls, close: s.Close}
		}},
		{"stream.FlattenSlices over [[1], N empty slices, [2]]", nStream, []int{1, 2}, needSkip, func(N int) handle[int] {
			g := &genStream[[]int]{genIter[[]int]{n: N + 2, f: func(i int) []int {
				switch i {
				case 0:
					return []int{1}
				case N + 1:
					return []int{2}
				}
				return nil
			}}}
			s := stream.FlattenSlices[int](g)
			return handle[int]{next: streamNext(s), pulls: g.g.pulls, close: s.Close}
		}},
		{"stream.Filter over [kept, N rejected items, kept]", nStream, []int{1, 2}, needSkip, func(N int) handle[int] {
			g := &genStream[int]{genIter[int]{n: N + 2, f: filterSrc(N)}}
			return streamH(g, stream.Filter[int](g, func(_ context.Context, x int) (bool, error) { return reject(x), nil }))
		}},
		{"stream.Compact over [1, N times 2, 3]", nStream, []int{1, 2, 3}, needCompact, func(N int) handle[int] {
			g := &genStream[int]{genIter[int]{n: N + 2, f: compactSrc(N)}}
			return streamH(g, stream.Compact[int](g))
		}},
		{"stream.CompactFunc(same parity) over [1, N times 2|4, 3]", nStream, []int{1, 2, 3}, needCompact, func(N int) handle[int] {
			g := &genStream[int]{genIter[int]{n: N + 2, f: compactFuncSrc(N)}}
			return streamH(g, stream.CompactFunc[int](g, sameParity))
		}},
		// Join takes its parts as a materialised argument list: moderate N, values and end only.
		{"iterator.Join of [one item, N empty iterators, one item] (moderate N, not stack-sensitive)", nJoin, []int{1, 2}, func(int) []int { return []int{0, 0, 0, 0} }, func(N int) handle[int] {
			parts := make([]iterator.Iterator[int], N+2)
			for i := range parts {
				parts[i] = emptyI{}
			}
			parts[0], parts[N+1] = one(1), one(2)
			return handle[int]{next: iterator.Join(parts...).Next, pulls: func() int { return 0 }, close: func() {}}
		}},
		{"stream.Join of [one item, N empty streams, one item] (moderate N, not stack-sensitive)", nJoin, []int{1, 2}, func(int) []int { return []int{0, 0, 0, 0} }, func(N int) handle[int] {
			parts := make([]stream.Stream[int], N+2)
			for i := range parts {
				parts[i] = emptyS{}
			}
			parts[0], parts[N+1] = oneS(1), oneS(2)
			s := stream.Join(parts...)
			return handle[int]{next: streamNext(s), pulls: func() int { return 0 }, close: s.Close}
		}},
	}
}

func runLong(a *acc, sc longScenario) {
	// Named on stderr first: a stack overflow kills the process before anything can be recorded.
	fmt.Fprintf(os.Stderr, "long-stretch scenario starting: %s, N=%d (a 'fatal error: stack overflow' after this line belongs to it)\n", sc.name, sc.n)
	t0 := time.Now()
	pkgOp := strings.SplitN(strings.SplitN(sc.name, " ", 2)[0], ".", 2) // "iterator.Flatten over ..." -> iterator, Flatten
	op := strings.SplitN(pkgOp[1], "(", 2)[0]
	s := &single[int]{op: op, param: fmt.Sprintf("long stretch: %s, N=%d", sc.name, sc.n),
		ref: res[int]{out: sc.want, need: sc.need(sc.n)}, same: eqInt, nontrivial: true,
		note: "source generated lazily: one real item, N skipped items, one real item"}
	runFlavours(a, s, []flavourMk[int]{{pkgOp[0], func() handle[int] { return sc.mk(sc.n) }}})
	a.count("long-stretch scenarios (N skipped items between two real ones)", sc.name, 1)
	fmt.Fprintf(os.Stderr, "long-stretch scenario finished: %s (%.2fs, informational)\n", sc.name, time.Since(t0).Seconds())
}
