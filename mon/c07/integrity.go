package main

import (
	"context"
	"fmt"
	"slices"
	"unsafe"

	"github.com/bradenaw/juniper/iterator"
	"github.com/bradenaw/juniper/stream"

	"verif/vkit"
)

// Argument integrity. Every operation that is handed a slice (a variadic list of sources, a slice
// of items, a slice of slices) gets it as a sub-slice of a larger array owned by the monitor:
//
//	[ sentinel sentinel | the k arguments | sentinel sentinel sentinel ]
//	                    ^ args = arr[2 : 2+k]   (capacity reaches over the trailing sentinels)
//
// so an append / write through the argument slice lands in memory the caller still owns. After
// every request and after the run the whole array - the k arguments and both sentinel regions -
// must be what it was (identity of the iterators / streams, values of the items, headers of inner
// slices). None of the operations is documented to modify its arguments (the ...InPlace functions
// of xslices are not part of this property).

const guardPre, guardPost = 2, 3

// guardRefs places items (comparable references: iterators, streams) into a guarded array.
func guardRefs[T comparable](items []T, sentinel func(i int) T) (args []T, check func() string) {
	arr := make([]T, guardPre+len(items)+guardPost)
	for i := range arr {
		arr[i] = sentinel(i)
	}
	copy(arr[guardPre:], items)
	snap := slices.Clone(arr)
	k := len(items)
	return arr[guardPre : guardPre+k], func() string {
		for i := range arr {
			if arr[i] != snap[i] {
				return describeSlot(i, k)
			}
		}
		return ""
	}
}

func describeSlot(i, k int) string {
	switch {
	case i < guardPre:
		return fmt.Sprintf("the caller's array was written %d element(s) BEFORE the argument slice", guardPre-i)
	case i < guardPre+k:
		return fmt.Sprintf("argument %d of %d in the caller's slice was replaced", i-guardPre, k)
	default:
		return fmt.Sprintf("the caller's array was written %d element(s) BEYOND the end of the argument slice (len %d, spare capacity %d): element [len+%d]",
			i-guardPre-k+1, k, guardPost, i-guardPre-k)
	}
}

// guardInts places items into a guarded int array (sentinels are large negative numbers).
// check reports any change anywhere; outside reports changes outside the items only.
func guardInts(items []int) (args []int, check, outside func() string) {
	arr := make([]int, guardPre+len(items)+guardPost)
	for i := range arr {
		arr[i] = -1_000_000 - i
	}
	copy(arr[guardPre:], items)
	snap := slices.Clone(arr)
	k := len(items)
	scan := func(inside bool) func() string {
		return func() string {
			for i := range arr {
				if arr[i] != snap[i] && (inside || i < guardPre || i >= guardPre+k) {
					return describeSlot(i, k) + fmt.Sprintf(" (%d -> %d)", snap[i], arr[i])
				}
			}
			return ""
		}
	}
	return arr[guardPre : guardPre+k], scan(true), scan(false)
}

type sliceHdr struct {
	p        *int
	len, cap int
}

func hdrOf(s []int) sliceHdr { return sliceHdr{unsafe.SliceData(s), len(s), cap(s)} }

// guardSlices places parts into a guarded array of slices; every part is itself a guarded int
// slice with spare capacity. check verifies the slice headers in the array and all the ints.
func guardSlices(parts [][]int) (args [][]int, check func() string) {
	arr := make([][]int, guardPre+len(parts)+guardPost)
	var checks []func() string
	for i := range arr {
		var items []int
		if i >= guardPre && i < guardPre+len(parts) {
			items = parts[i-guardPre]
		} else {
			items = []int{-7, -7} // a sentinel slice
		}
		g, chk, _ := guardInts(items)
		arr[i] = g
		checks = append(checks, chk)
	}
	snap := make([]sliceHdr, len(arr))
	for i := range arr {
		snap[i] = hdrOf(arr[i])
	}
	k := len(parts)
	return arr[guardPre : guardPre+k], func() string {
		for i := range arr {
			if hdrOf(arr[i]) != snap[i] {
				return describeSlot(i, k) + " (slice header changed)"
			}
			if msg := checks[i](); msg != "" {
				return fmt.Sprintf("inner slice at array position %d: %s", i-guardPre, msg)
			}
		}
		return ""
	}
}

type sentinelIter struct{ id int }

func (s *sentinelIter) Next() (int, bool) {
	panic(fmt.Sprintf("an iterator outside the argument slice (sentinel %d of the caller's array) was used", s.id))
}

type sentinelStream struct{ id int }

func (s *sentinelStream) Next(context.Context) (int, error) {
	panic(fmt.Sprintf("a stream outside the argument slice (sentinel %d of the caller's array) was used", s.id))
}
func (s *sentinelStream) Close() {}

func iterSentinel(i int) iterator.Iterator[int] { return &sentinelIter{i} }
func streamSentinel(i int) stream.Stream[int]   { return &sentinelStream{i} }

// ---------------------------------------------------------------------------------------------
// Nested Joins over one shared array of leaves.

type joinOps[S comparable] struct {
	pkg      string
	leaf     func(a *acc, name string, items []int) S
	join     func(xs ...S) S
	next     func(s S) func() (int, bool)
	sentinel func(i int) S
	closeFn  func(s S)
	decoy    func(pulled *int, items []int) S
}

var iterJoinOps = joinOps[iterator.Iterator[int]]{
	pkg:      "iterator",
	leaf:     func(a *acc, _ string, items []int) iterator.Iterator[int] { return newIterProbe(a, items) },
	join:     func(xs ...iterator.Iterator[int]) iterator.Iterator[int] { return iterator.Join(xs...) },
	next:     func(s iterator.Iterator[int]) func() (int, bool) { return s.Next },
	sentinel: iterSentinel,
	closeFn:  func(iterator.Iterator[int]) {},
	decoy: func(pulled *int, items []int) iterator.Iterator[int] {
		return &countingIter{items: slices.Clone(items), pulled: pulled}
	},
}

var streamJoinOps = joinOps[stream.Stream[int]]{
	pkg:      "stream",
	leaf:     func(a *acc, name string, items []int) stream.Stream[int] { return newStreamProbe(a, name, items) },
	join:     func(xs ...stream.Stream[int]) stream.Stream[int] { return stream.Join(xs...) },
	next:     func(s stream.Stream[int]) func() (int, bool) { return streamNext(s) },
	sentinel: streamSentinel,
	closeFn:  func(s stream.Stream[int]) { s.Close() },
	decoy: func(pulled *int, items []int) stream.Stream[int] {
		return &countingStream{countingIter{items: slices.Clone(items), pulled: pulled}}
	},
}

// consume checks that next yields exactly want, then reports the end four times; after is called
// after every request (argument-integrity probe) and may return a complaint.
func consume(a *acc, next func() (int, bool), want []int, after func() string) (kind, what string) {
	for j := 1; j <= len(want)+4; j++ {
		x, ok := next()
		a.requests++
		switch {
		case j <= len(want) && !ok:
			return "early-end", fmt.Sprintf("request %d reported the end, reference has %d items %v", j, len(want), want)
		case j <= len(want) && x != want[j-1]:
			return "value", fmt.Sprintf("request %d returned %d, reference %d (of %v)", j, x, want[j-1], want)
		case j > len(want) && ok:
			if j > len(want)+1 {
				return "end-unstuck", fmt.Sprintf("Next call %d after the end returned %d", j-len(want)-1, x)
			}
			return "extra-item", fmt.Sprintf("request %d returned %d, reference has ended after %v", j, x, want)
		}
		if j > len(want)+1 {
			a.endRe++
		}
		a.integ++
		if msg := after(); msg != "" {
			return "argument-modified", fmt.Sprintf("after request %d: %s", j, msg)
		}
	}
	return "", ""
}

// nestedJoins: the leaves live in ONE guarded array L.
//
//	split m:   head = Join(Join(L[:m]...), trailer)   - the inner Join's argument slice L[:m] has the
//	           rest of the array as spare capacity; then tail = Join(L[m:]...) over the neighbouring
//	           part of the same array must still yield parts[m:].
//	groups:    Join(Join(L[0:2]...), Join(L[2:4]...), ...) - join in groups, then join the groups.
func nestedJoins[S comparable](a *acc, ops joinOps[S], parts [][]int) {
	k := len(parts)
	trailerItems := []int{-5, -6}
	mkLeaves := func() ([]S, func() string) {
		leaves := make([]S, k)
		for i, p := range parts {
			leaves[i] = ops.leaf(a, fmt.Sprintf("leaf%d", i), p)
		}
		return guardRefs(leaves, ops.sentinel)
	}
	report := func(scenario, kind, what string, pan *vkit.Panic) bool {
		if pan != nil {
			kind, what = panicKind(pan), panicMsg(pan)
		}
		if kind == "" {
			return true
		}
		a.fail(kind, ops.pkg, "Join", fmt.Sprintf("%s.Join, leaves %v in one array, %s: %s", ops.pkg, parts, scenario, what),
			map[string]any{"leaves": parts, "scenario": scenario, "trailer": trailerItems})
		return false
	}
	for m := 0; m <= k; m++ {
		if a.failed {
			return
		}
		a.evals++
		a.count("triples by operation", "Join", 1)
		a.count("argument integrity", ops.pkg+".Join nested: Join(Join(L[:m]...), trailer) then Join(L[m:]...)", 1)
		scenario := fmt.Sprintf("head = Join(Join(L[:%d]...), %v), then tail = Join(L[%d:]...)", m, trailerItems, m)
		kind, what := "", ""
		a.arm(len(refConcat(parts)) + 2*k + 8)
		pan := vkit.Try(func() {
			L, chk := mkLeaves()
			head := ops.join(ops.join(L[:m]...), ops.leaf(a, "trailer", trailerItems))
			if msg := chk(); msg != "" {
				kind, what = "argument-modified", "at construction: "+msg
				return
			}
			want := append(refConcat(parts[:m]), trailerItems...)
			if kind, what = consume(a, ops.next(head), want, chk); kind != "" {
				what = "head: " + what
				return
			}
			ops.closeFn(head)
			tail := ops.join(L[m:]...)
			if kind, what = consume(a, ops.next(tail), refConcat(parts[m:]), chk); kind != "" {
				what = "tail (after head was consumed): " + what
				return
			}
			ops.closeFn(tail)
		})
		if !report(scenario, kind, what, pan) {
			return
		}
		a.dist = append(a.dist, fmt.Sprint("Join-nested|", ops.pkg, m, parts))
	}
	if k >= 3 && len(parts[0]) > 0 { // a first item right after the first splice: integrity is probed before anything else is walked
		a.evals++
		a.count("triples by operation", "Join", 1)
		a.count("argument integrity", ops.pkg+".Join nested: groups of two leaves joined, then the groups joined", 1)
		kind, what := "", ""
		a.arm(len(refConcat(parts)) + 2*k + 8)
		pan := vkit.Try(func() {
			L, chk := mkLeaves()
			var groups []S
			for i := 0; i < k; i += 2 {
				hi := i + 2
				if hi > k {
					hi = k
				}
				groups = append(groups, ops.join(L[i:hi]...)) // capacity of L[i:hi] reaches to the end of the array
			}
			G, chkG := guardRefs(groups, ops.sentinel)
			all := ops.join(G...)
			both := func() string {
				if msg := chk(); msg != "" {
					return "leaves: " + msg
				}
				if msg := chkG(); msg != "" {
					return "groups: " + msg
				}
				return ""
			}
			// integrity is probed after every single request, so that a list that has been made to
			// contain itself is noticed before it is walked
			kind, what = consume(a, ops.next(all), refConcat(parts), both)
			if kind == "" {
				ops.closeFn(all)
			}
		})
		if !report("Join(Join(L[0:2]...), Join(L[2:4]...), ...)", kind, what, pan) {
			return
		}
		a.dist = append(a.dist, fmt.Sprint("Join-groups|", ops.pkg, parts))
	}
}

func runNestedJoins(a *acc, parts [][]int) {
	if len(parts) == 0 {
		return
	}
	nestedJoins(a, iterJoinOps, parts)
	nestedJoins(a, streamJoinOps, parts)
}

// ---------------------------------------------------------------------------------------------
// The mirror image: the CALLER reuses its argument slice after the call. Join takes a variadic
// list; a caller that built the list in a slice may overwrite that slice afterwards. The result
// must keep yielding the ORIGINAL sources (fixed in /repo by 2c98897: the list is copied). The
// slice is overwritten - every cell, and the spare capacity - with decoy sources yielding -901,
// -902, either right after construction or after j requests; the output must be the reference over
// the original parts and no decoy may ever be pulled.

func callerReusesArgs[S comparable](a *acc, ops joinOps[S], parts [][]int) {
	want := refConcat(parts)
	total, k := len(want), len(parts)
	for j := 0; j <= total+1; j++ {
		if a.failed {
			return
		}
		a.evals++
		a.count("triples by operation", "Join", 1)
		a.count("argument integrity", ops.pkg+".Join: caller overwrites its argument slice with decoys after the call / after j requests", 1)
		kind, what := "", ""
		a.arm(total + 2*k + 16)
		pan := vkit.Try(func() {
			arr := make([]S, guardPre+k+guardPost)
			for i := range arr {
				arr[i] = ops.sentinel(i)
			}
			for i, p := range parts {
				arr[guardPre+i] = ops.leaf(a, fmt.Sprintf("part%d", i), p)
			}
			joined := ops.join(arr[guardPre : guardPre+k]...)
			next := ops.next(joined)
			for i := 1; i <= j; i++ {
				x, ok := next()
				a.requests++
				if i <= total && (!ok || x != want[i-1]) {
					kind, what = "value", fmt.Sprintf("before the overwrite, request %d returned (%d, %v), reference %d", i, x, ok, want[i-1])
					return
				}
				if i > total && ok {
					kind, what = "extra-item", fmt.Sprintf("before the overwrite, request %d returned %d after the reference's end", i, x)
					return
				}
			}
			// the caller reuses its slice
			decoyPulled := 0
			decoyItems := []int{-901, -902}
			decoys := make([]S, len(arr))
			for i := range arr {
				decoys[i] = ops.decoy(&decoyPulled, decoyItems)
				arr[i] = decoys[i]
			}
			rest := want[min(j, total):]
			if j > total {
				rest = nil
			}
			if kind, what = consume(a, next, rest, func() string {
				if decoyPulled > 0 {
					return fmt.Sprintf("a decoy the caller wrote into its own slice AFTER the call was pulled %d time(s)", decoyPulled)
				}
				return ""
			}); kind != "" {
				if kind == "argument-modified" {
					kind = "caller-slice-aliased"
				}
				what = fmt.Sprintf("after the caller overwrote its argument slice (following %d request(s)): %s", j, what)
				return
			}
			ops.closeFn(joined)
		})
		if pan != nil {
			kind, what = panicKind(pan), panicMsg(pan)
		}
		if kind != "" {
			if kind == "value" || kind == "extra-item" || kind == "early-end" {
				kind = "caller-slice-aliased"
			}
			a.fail(kind, ops.pkg, "Join", fmt.Sprintf("%s.Join(parts...) with parts=%v built in a slice the caller reuses: %s", ops.pkg, parts, what),
				map[string]any{"parts": parts, "overwritten_after_requests": j, "decoy_items": []int{-901, -902}})
			return
		}
		a.dist = append(a.dist, fmt.Sprint("Join-caller-reuse|", ops.pkg, j, parts))
	}
}

// countingIter / countingStream: decoys; every pull is counted.
type countingIter struct {
	items  []int
	pulled *int
}

func (c *countingIter) Next() (int, bool) {
	*c.pulled++
	if len(c.items) == 0 {
		return 0, false
	}
	x := c.items[0]
	c.items = c.items[1:]
	return x, true
}

type countingStream struct{ it countingIter }

func (c *countingStream) Next(context.Context) (int, error) {
	x, ok := c.it.Next()
	if !ok {
		return 0, stream.End
	}
	return x, nil
}
func (c *countingStream) Close() {}

func runCallerReuse(a *acc, parts [][]int) {
	if len(parts) == 0 {
		return
	}
	callerReusesArgs(a, iterJoinOps, parts)
	callerReusesArgs(a, streamJoinOps, parts)
}
