package main

import (
	"fmt"
	"slices"

	"github.com/bradenaw/juniper/iterator"
	"github.com/bradenaw/juniper/stream"

	"verif/vkit"
)

// Source position. The laziness checks wrap every source in a counting probe; an implementation
// that special-cases the library's OWN source types (iterator.Slice, iterator.Counter, ...) never
// sees that path. Here the source is the library's own type, unwrapped: the combinator is asked
// for j outputs (every j from 0 to all of them, and one more for the end), then the REST of the
// very same source object is read directly. The source must have advanced by exactly the number
// of items the reference lazy evaluator needs for j requests, min(need(j), len): fewer is
// impossible for an implementation that really takes its items from the source (the outputs
// determine them), more is forbidden by the laziness clause. So rest == source[min(need(j),len):].
//
// For streams the rest is read from the underlying iterator / channel (the stream package's
// "sole user" rule forbids using the stream itself again; the position of what it was built from
// is an observation, not a use).

type iterSrcKind struct {
	name string
	mk   func(items []int) (it iterator.Iterator[int], rest func() []int)
}

// drainIter reads what is left, but never more than limit items (a source that does not end is
// reported by its length).
func drainIter(it iterator.Iterator[int], limit int) []int {
	out := []int{}
	for len(out) <= limit {
		x, ok := it.Next()
		if !ok {
			break
		}
		out = append(out, x)
	}
	return out
}

func chanOf(items []int) chan int {
	c := make(chan int, len(items)+1)
	for _, x := range items {
		c <- x
	}
	close(c)
	return c
}

var iterSrcKinds = []iterSrcKind{
	{"iterator.Slice", func(items []int) (iterator.Iterator[int], func() []int) {
		it := iterator.Slice(slices.Clone(items))
		return it, func() []int { return drainIter(it, len(items)+1) }
	}},
	{"iterator.Chan", func(items []int) (iterator.Iterator[int], func() []int) {
		it := iterator.Chan[int](chanOf(items))
		return it, func() []int { return drainIter(it, len(items)+1) }
	}},
}

type streamSrcKind struct {
	name string
	mk   func(items []int) (s stream.Stream[int], rest func() []int)
}

var streamSrcKinds = []streamSrcKind{
	{"stream.FromIterator(iterator.Slice)", func(items []int) (stream.Stream[int], func() []int) {
		it := iterator.Slice(slices.Clone(items))
		return stream.FromIterator(it), func() []int { return drainIter(it, len(items)+1) }
	}},
	{"stream.Chan", func(items []int) (stream.Stream[int], func() []int) {
		c := chanOf(items)
		return stream.Chan[int](c), func() []int {
			out := []int{}
			for x := range c {
				out = append(out, x)
			}
			return out
		}
	}},
}

// shapedKinds: when the source sequence has the shape of iterator.Counter(n) or iterator.Repeat(x, n)
// those constructors are sources too (directly, and under stream.FromIterator).
func shapedKinds(src []int) (its []iterSrcKind, sts []streamSrcKind) {
	n := len(src)
	add := func(name string, mk func() iterator.Iterator[int]) {
		its = append(its, iterSrcKind{name, func(items []int) (iterator.Iterator[int], func() []int) {
			it := mk()
			return it, func() []int { return drainIter(it, len(items)+1) }
		}})
		sts = append(sts, streamSrcKind{"stream.FromIterator(" + name + ")", func(items []int) (stream.Stream[int], func() []int) {
			it := mk()
			return stream.FromIterator(it), func() []int { return drainIter(it, len(items)+1) }
		}})
	}
	if slices.Equal(src, refCounter(n)) {
		add(fmt.Sprintf("iterator.Counter(%d)", n), func() iterator.Iterator[int] { return iterator.Counter(n) })
	}
	if n > 0 && slices.Equal(src, refRepeat(src[0], n)) {
		x := src[0]
		add(fmt.Sprintf("iterator.Repeat(%d,%d)", x, n), func() iterator.Iterator[int] { return iterator.Repeat(x, n) })
	}
	return
}

// stopPoints: every j for short outputs, one random j for long ones (the random groups supply many
// inputs; every j of a long input would square the cost).
func stopPoints(a *acc, nOut int) []int {
	if nOut <= 9 {
		js := make([]int, nOut+2)
		for j := range js {
			js[j] = j
		}
		return js
	}
	return []int{a.c.Rand.Range(0, nOut+1)}
}

// kindsFor: both source kinds for small inputs; for large ones mostly the slice-based kind.
func kindsFor(a *acc, n, kinds int) (lo, hi int) {
	if n <= 9 {
		return 0, kinds
	}
	if a.c.Rand.Bool(0.2) {
		return 1, 2
	}
	return 0, 1
}

func lost(n, need int) int {
	if need > n {
		return n
	}
	return need
}

// positionOne runs one (source kind, j) and returns a complaint or "".
func positionOne[U any](a *acc, s *single[U], j int, next func() (U, bool), rest func() []int) string {
	out, need := s.ref.out, s.ref.need
	for i := 1; i <= j; i++ {
		x, ok := next()
		if i <= len(out) {
			if !ok {
				return fmt.Sprintf("request %d reported the end, reference has %d outputs", i, len(out))
			}
			if !s.same(x, out[i-1]) {
				return fmt.Sprintf("request %d returned %v, reference %v", i, x, out[i-1])
			}
		} else if ok {
			return fmt.Sprintf("request %d returned %v, reference has ended after %d outputs", i, x, len(out))
		}
	}
	a.posChecks++
	want := s.src[lost(len(s.src), need[j]):]
	if got := rest(); !slices.Equal(got, want) {
		return fmt.Sprintf("after %d request(s) the rest of the source reads %v, reference %v: the source should have advanced by exactly %d item(s) (what a lazy evaluator needs for %d request(s)), it advanced by %s",
			j, briefInts(got), briefInts(want), lost(len(s.src), need[j]), j, advancedBy(s.src, got))
	}
	return ""
}

func briefInts(s []int) string { return brief(s) }

func advancedBy(src, rest []int) string {
	if len(rest) <= len(src) && slices.Equal(src[len(src)-len(rest):], rest) {
		return fmt.Sprint(len(src) - len(rest))
	}
	return "something that is not a suffix of the source"
}

// sourcePosition runs the source-position check for one single-source triple.
func sourcePosition[U any](a *acc, s *single[U]) {
	if a.failed || (s.iter == nil && s.strm == nil) {
		return
	}
	js := stopPoints(a, len(s.ref.out))
	fail := func(pkg, kind string, j int, msg string, pan *vkit.Panic) {
		sig := "source-position"
		if pan != nil {
			sig, msg = panicKind(pan), panicMsg(pan)
		}
		w := s.witness(j)
		w["source_kind"] = kind
		a.fail(sig, pkg, s.op, fmt.Sprintf("%s.%s(%s) directly over %s(%v): %s", pkg, s.op, s.param, kind, brief(s.src), msg), w)
	}
	lo, hi := kindsFor(a, len(s.src), 2)
	shIt, shSt := shapedKinds(s.src)
	if len(shIt) > 0 {
		a.count("source-position: constructor-shaped sources used", "Counter / Repeat", 1)
	}
	if s.iter != nil {
		for ki, k := range append(slices.Clone(iterSrcKinds[lo:hi]), shIt...) {
			for _, j := range js {
				if ki == 1 && hi-lo == 2 && (j+len(s.src))%2 == 1 {
					continue // the channel-backed kind at every other stop point
				}
				msg := ""
				a.arm(len(s.src) + len(s.ref.out))
				pan := vkit.Try(func() {
					it, rest := k.mk(s.src)
					msg = positionOne(a, s, j, s.iter(it).Next, rest)
				})
				if pan != nil || msg != "" {
					fail("iterator", k.name, j, msg, pan)
					return
				}
			}
		}
	}
	if s.strm != nil {
		for ki, k := range append(slices.Clone(streamSrcKinds[lo:hi]), shSt...) {
			for _, j := range js {
				if ki == 1 && hi-lo == 2 && (j+len(s.src))%2 == 0 {
					continue
				}
				msg := ""
				a.arm(len(s.src) + len(s.ref.out))
				pan := vkit.Try(func() {
					src, rest := k.mk(s.src)
					msg = positionOne(a, s, j, streamNext(s.strm(src)), rest)
				})
				if pan != nil || msg != "" {
					fail("stream", k.name, j, msg, pan)
					return
				}
			}
		}
	}
}

// ---------------------------------------------------------------------------------------------
// WithPeek: after the given Peek/Next calls the source has lost consumed + (1 if an item is held).

func peekPosition(a *acc, src []int, ops []bool, param string) {
	if a.failed {
		return
	}
	n := len(src)
	c, held := 0, false
	for _, isPeek := range ops {
		if isPeek {
			held = held || c < n
		} else {
			if c < n {
				c++
			}
			held = false
		}
	}
	wantLost := c
	if held {
		wantLost++
	}
	// the last call may have been a Peek/Next at the end of the source: nothing more is lost
	run := func(pkg, kind string, peek, next func() (int, bool), rest func() []int) bool {
		msg := ""
		pan := vkit.Try(func() {
			for _, isPeek := range ops {
				if isPeek {
					peek()
				} else {
					next()
				}
			}
			a.posChecks++
			if got := rest(); !slices.Equal(got, src[wantLost:]) {
				msg = fmt.Sprintf("after calls %s the rest of the source reads %v, reference %v (the source should have advanced by %d, it advanced by %s)",
					param, got, src[wantLost:], wantLost, advancedBy(src, got))
			}
		})
		sig := "source-position"
		if pan != nil {
			sig, msg = panicKind(pan), panicMsg(pan)
		}
		if msg != "" {
			a.fail(sig, pkg, "WithPeek", fmt.Sprintf("%s.WithPeek directly over %s(%v): %s", pkg, kind, brief(src), msg), map[string]any{"source": src, "calls": param})
			return false
		}
		return true
	}
	for _, k := range iterSrcKinds {
		it, rest := k.mk(src)
		pk := iterator.WithPeek(it)
		if !run("iterator", k.name, pk.Peek, pk.Next, rest) {
			return
		}
	}
	for _, k := range streamSrcKinds {
		s, rest := k.mk(src)
		pk := stream.WithPeek(s)
		peek := func() (int, bool) {
			x, err := pk.Peek(bg)
			return x, err == nil
		}
		if !run("stream", k.name, peek, streamNext[int](pk), rest) {
			return
		}
	}
}

// ---------------------------------------------------------------------------------------------
// Runs: the consumer's calls form one line of steps (outer Next, inner Next ..., inner end, outer
// Next, ...); after the first t steps the source has lost exactly what the reference needs.

func runsPosition(a *acc, src []int, same func(a, b int) bool, param string) {
	if a.failed {
		return
	}
	runs := refRuns(src, same)
	n := len(src)
	// expected loss after each step
	var lostAfter []int
	pos := 0
	for _, run := range runs {
		lostAfter = append(lostAfter, lost(n, pos+1)) // outer Next: head of the run
		for range run {
			pos++
			lostAfter = append(lostAfter, lost(n, pos)) // inner item at pos-1 has been taken
		}
		lostAfter = append(lostAfter, lost(n, pos+1)) // inner end: first item of the next run, or the end
	}
	lostAfter = append(lostAfter, n) // outer end
	stops := stopPoints(a, len(lostAfter)-1)
	guarded := guardEq(a, same)
	type flav struct {
		pkg, kind string
		mk        func() (outer func() (func() (int, bool), bool), rest func() []int)
	}
	var flavs []flav
	for _, k := range iterSrcKinds {
		k := k
		flavs = append(flavs, flav{"iterator", k.name, func() (func() (func() (int, bool), bool), func() []int) {
			it, rest := k.mk(src)
			o := iterator.Runs(it, guarded)
			return func() (func() (int, bool), bool) {
				in, ok := o.Next()
				if !ok {
					return nil, false
				}
				return in.Next, true
			}, rest
		}})
	}
	for _, k := range streamSrcKinds {
		k := k
		flavs = append(flavs, flav{"stream", k.name, func() (func() (func() (int, bool), bool), func() []int) {
			s, rest := k.mk(src)
			o := stream.Runs(s, guarded)
			return func() (func() (int, bool), bool) {
				in, err := o.Next(bg)
				if err != nil {
					return nil, false
				}
				return streamNext(in), true
			}, rest
		}})
	}
	for _, fl := range flavs {
		for _, t := range stops {
			if t == 0 || t > len(lostAfter) {
				continue
			}
			msg := ""
			a.arm(n)
			pan := vkit.Try(func() {
				outer, rest := fl.mk()
				steps := 0
				var inner func() (int, bool)
			walk:
				for _, run := range runs {
					inner, _ = outer()
					if steps++; steps == t {
						break walk
					}
					if inner == nil {
						msg = "outer ended early"
						return
					}
					for i := 0; i <= len(run); i++ { // len(run) items and the end
						inner()
						if steps++; steps == t {
							break walk
						}
					}
				}
				if steps < t {
					outer()
				}
				a.posChecks++
				want := src[lostAfter[t-1]:]
				if got := rest(); !slices.Equal(got, want) {
					msg = fmt.Sprintf("after %d consumer call(s) (outer Next, inner Next ... in order, every run drained) the rest of the source reads %v, reference %v (should have advanced by %d, advanced by %s)",
						t, got, want, lostAfter[t-1], advancedBy(src, got))
				}
			})
			sig := "source-position"
			if pan != nil {
				sig, msg = panicKind(pan), panicMsg(pan)
			}
			if msg != "" {
				a.fail(sig, fl.pkg, "Runs", fmt.Sprintf("%s.Runs(%s) directly over %s(%v): %s", fl.pkg, param, fl.kind, brief(src), msg),
					map[string]any{"source": src, "param": param, "reference_runs": runs, "consumer_calls": t})
				return
			}
		}
	}
}

// ---------------------------------------------------------------------------------------------
// Flatten / FlattenSlices / Join directly over the library's own sources.

type multiPos struct {
	pkg, op, via string
	mk           func(parts [][]int) (next func() (int, bool), restPart func(i int) []int, restOuter func() int)
}

func sliceIters(parts [][]int) []iterator.Iterator[int] {
	its := make([]iterator.Iterator[int], len(parts))
	for i, p := range parts {
		its[i] = iterator.Slice(slices.Clone(p))
	}
	return its
}

var multiPosFlavours = []multiPos{
	{"iterator", "Join", "iterator.Slice parts", func(parts [][]int) (func() (int, bool), func(int) []int, func() int) {
		its := sliceIters(parts)
		return iterator.Join(its...).Next, func(i int) []int { return drainIter(its[i], len(parts[i])+1) }, nil
	}},
	{"iterator", "Flatten", "iterator.Slice of iterator.Slice parts", func(parts [][]int) (func() (int, bool), func(int) []int, func() int) {
		its := sliceIters(parts)
		outer := iterator.Slice(slices.Clone(its))
		return iterator.Flatten(outer).Next, func(i int) []int { return drainIter(its[i], len(parts[i])+1) },
			func() int {
				left := 0
				for {
					if _, ok := outer.Next(); !ok || left > len(parts) {
						return left
					}
					left++
				}
			}
	}},
	{"stream", "Join", "stream.FromIterator(iterator.Slice) parts", func(parts [][]int) (func() (int, bool), func(int) []int, func() int) {
		its := sliceIters(parts)
		sts := make([]stream.Stream[int], len(its))
		for i := range its {
			sts[i] = stream.FromIterator(its[i])
		}
		return streamNext(stream.Join(sts...)), func(i int) []int { return drainIter(its[i], len(parts[i])+1) }, nil
	}},
	{"stream", "Flatten", "stream.FromIterator(iterator.Slice) of such parts", func(parts [][]int) (func() (int, bool), func(int) []int, func() int) {
		its := sliceIters(parts)
		sts := make([]stream.Stream[int], len(its))
		for i := range its {
			sts[i] = stream.FromIterator(its[i])
		}
		outer := iterator.Slice(sts)
		return streamNext(stream.Flatten(stream.FromIterator(outer))), func(i int) []int { return drainIter(its[i], len(parts[i])+1) },
			func() int {
				left := 0
				for {
					if _, ok := outer.Next(); !ok || left > len(parts) {
						return left
					}
					left++
				}
			}
	}},
	{"stream", "FlattenSlices", "stream.FromIterator(iterator.Slice(slices))", func(parts [][]int) (func() (int, bool), func(int) []int, func() int) {
		cp := make([][]int, len(parts))
		for i := range parts {
			cp[i] = slices.Clone(parts[i])
		}
		outer := iterator.Slice(cp)
		return streamNext(stream.FlattenSlices(stream.FromIterator(outer))), nil,
			func() int {
				left := 0
				for {
					if _, ok := outer.Next(); !ok || left > len(parts) {
						return left
					}
					left++
				}
			}
	}},
}

func multiPosition(a *acc, parts [][]int) {
	if a.failed {
		return
	}
	want := refConcat(parts)
	total := len(want)
	for _, fl := range multiPosFlavours {
		for _, j := range stopPoints(a, total) {
			msg := ""
			a.arm(total + len(parts))
			pan := vkit.Try(func() {
				next, restPart, restOuter := fl.mk(parts)
				for i := 1; i <= j; i++ {
					x, ok := next()
					if i <= total && (!ok || x != want[i-1]) {
						msg = fmt.Sprintf("request %d returned (%d, %v), reference %d", i, x, ok, want[i-1])
						return
					}
					if i > total && ok {
						msg = fmt.Sprintf("request %d returned %d after the reference's end", i, x)
						return
					}
				}
				a.posChecks++
				fn := refFlatNeed(parts, j)
				if restPart != nil {
					for i := range parts {
						w := parts[i][lost(len(parts[i]), fn.part[i]):]
						if got := restPart(i); !slices.Equal(got, w) {
							msg = fmt.Sprintf("after %d request(s) the rest of part %d reads %v, reference %v (part %d should have advanced by %d, advanced by %s)",
								j, i, got, w, i, lost(len(parts[i]), fn.part[i]), advancedBy(parts[i], got))
							return
						}
					}
				}
				if restOuter != nil {
					w := len(parts) - lost(len(parts), fn.outer)
					if got := restOuter(); got != w {
						msg = fmt.Sprintf("after %d request(s) the sequence of parts has %d part(s) left, reference %d", j, got, w)
					}
				}
			})
			sig := "source-position"
			if pan != nil {
				sig, msg = panicKind(pan), panicMsg(pan)
			}
			if msg != "" {
				a.fail(sig, fl.pkg, fl.op, fmt.Sprintf("%s.%s directly over %s, parts=%v: %s", fl.pkg, fl.op, fl.via, parts, msg), map[string]any{"parts": parts, "requests": j})
				return
			}
		}
	}
}

// ---------------------------------------------------------------------------------------------
// The classic idioms that use the rest of an iterator after a combinator took its share
// (package iterator has no "sole user" rule; this is how First / While / Chunk are used for
// head/rest splits and paging).

type namedSrc struct {
	name  string
	items []int
	mk    func() iterator.Iterator[int]
}

func idiomSources(d []int) []namedSrc {
	n := len(d)
	out := []namedSrc{
		{"iterator.Slice", d, func() iterator.Iterator[int] { return iterator.Slice(slices.Clone(d)) }},
		{"iterator.Chan", d, func() iterator.Iterator[int] { return iterator.Chan[int](chanOf(d)) }},
	}
	// Counter and Repeat as sources when the sequence has their shape; every length occurs.
	if slices.Equal(d, refCounter(n)) {
		out = append(out, namedSrc{fmt.Sprintf("iterator.Counter(%d)", n), d, func() iterator.Iterator[int] { return iterator.Counter(n) }})
	}
	if n > 0 && slices.Equal(d, refRepeat(d[0], n)) {
		x := d[0]
		out = append(out, namedSrc{fmt.Sprintf("iterator.Repeat(%d, %d)", x, n), d, func() iterator.Iterator[int] { return iterator.Repeat(x, n) }})
	}
	return out
}

func idioms(a *acc, d []int, withCounter bool) {
	n := len(d)
	srcs := idiomSources(d)
	// once per length: the same idioms over iterator.Counter(n)
	if withCounter && !slices.Equal(d, refCounter(n)) {
		c := refCounter(n)
		srcs = append(srcs, namedSrc{fmt.Sprintf("iterator.Counter(%d)", n), c, func() iterator.Iterator[int] { return iterator.Counter(n) }})
	}
	for _, src := range srcs {
		items := src.items
		n := len(items)
		check := func(name, param string, want any, call func() any) bool {
			if a.failed {
				return false
			}
			a.evals++
			a.posChecks++
			a.count("idioms over the library's own sources", name, 1)
			var got any
			a.arm(n)
			pan := vkit.Try(func() { got = call() })
			sig, msg := "idiom", ""
			if pan != nil {
				sig, msg = panicKind(pan), panicMsg(pan)
			} else if fmt.Sprint(got) != fmt.Sprint(want) {
				msg = fmt.Sprintf("got %v, documented result %v", got, want)
			}
			if msg != "" {
				a.fail(sig, "iterator", name, fmt.Sprintf("idiom %s with %s over %s(%v): %s", name, param, src.name, brief(items), msg),
					map[string]any{"source": items, "source_kind": src.name, "param": param})
				return false
			}
			a.dist = append(a.dist, fmt.Sprint("idiom|", name, "|", param, "|", src.name, items))
			return true
		}
		for k := 0; k <= n+1; k++ {
			k := k
			kk := min(k, n)
			p := fmt.Sprintf("k=%d", k)
			// it yields the first k items through First and the remaining ones directly: all of them
			check("Join(First(it,k), it)", p, normal(items), func() any {
				it := src.mk()
				return normal(drainIter(iterator.Join(iterator.First(it, k), it), 2*n+2))
			})
			check("head := Collect(First(it,k)); rest := Collect(it)", p, fmt.Sprint(normal(items[:kk]), normal(items[kk:])), func() any {
				it := src.mk()
				head := drainIter(iterator.First(it, k), n+1)
				return fmt.Sprint(normal(head), normal(drainIter(it, n+1)))
			})
			if k >= 1 {
				var pages [][]int
				for lo := 0; lo < n; lo += k {
					pages = append(pages, items[lo:min(lo+k, n)])
				}
				check("paging: for { page := Collect(First(it,k)); if len(page) == 0 { break } }", p, fmt.Sprint(pages), func() any {
					it := src.mk()
					var got [][]int
					for {
						page := drainIter(iterator.First(it, k), n+1)
						if len(page) == 0 {
							return fmt.Sprint(got)
						}
						got = append(got, page)
						if len(got) > n+1 { // the loop does not terminate: a verdict, not a hang
							panic(runaway{})
						}
					}
				})
				check("paging: for { page, ok := Chunk(it,k).Next(); if !ok { break } }", p, fmt.Sprint(pages), func() any {
					it := src.mk()
					var got [][]int
					for {
						page, ok := iterator.Chunk(it, k).Next()
						if !ok {
							return fmt.Sprint(got)
						}
						got = append(got, page)
						if len(got) > n+1 {
							panic(runaway{})
						}
					}
				})
			}
		}
		// While takes the failing item with it (it cannot be un-read); the rest starts after it.
		for q := 0; q <= n; q++ {
			q := q
			stop := 0
			f := func(x int) bool { stop++; return stop <= q }
			restFrom := min(q+1, n)
			check("head := Collect(While(it,f)); rest := Collect(it)", fmt.Sprintf("f fails at item %d", q), fmt.Sprint(normal(items[:min(q, n)]), normal(items[restFrom:])), func() any {
				stop = 0
				it := src.mk()
				head := drainIter(iterator.While(it, f), n+1)
				return fmt.Sprint(normal(head), normal(drainIter(it, n+1)))
			})
		}
	}
}

// ---------------------------------------------------------------------------------------------
// Reducers: "Functions that consume an iterator and produce some kind of final value"; Equal:
// "Consumes the iterators". After the call the source must have been advanced as far as the
// documentation implies:
//
//	Collect, Last, Reduce   the whole source (their value depends on every item and on the end)
//	One                     at least min(len, 2) items (it cannot answer otherwise); up to all
//	Equal                   all sequences equal (also a single one): every source completely;
//	                        first disagreement at position p: every source at least min(p, len)
//	                        (all of that had to be compared), up to all of it
//
// Nothing here bounds reducers from above by laziness (they are documented to consume).

// restBounds checks that rest is the suffix of src left after losing between lo and hi items.
func restBounds(src, rest []int, lo, hi int) string {
	lostN := len(src) - len(rest)
	if lostN < 0 || !slices.Equal(src[len(src)-len(rest):], rest) {
		return fmt.Sprintf("the rest of the source reads %v, which is not a suffix of %v", rest, src)
	}
	if lostN < lo || lostN > hi {
		want := fmt.Sprintf("between %d and %d", lo, hi)
		if lo == hi {
			want = fmt.Sprintf("exactly %d", lo)
		}
		return fmt.Sprintf("the source was advanced by %d item(s) (rest %v), the documentation implies %s", lostN, rest, want)
	}
	return ""
}

func reducerPosition(a *acc, d []int, lastKs []int) {
	if a.failed {
		return
	}
	n := len(d)
	shIt, shSt := shapedKinds(d)
	run := func(pkg, op, param, kind string, lo, hi int, call func() func() []int) bool {
		if a.failed {
			return false
		}
		msg := ""
		a.arm(n)
		a.posChecks++
		pan := vkit.Try(func() { msg = restBounds(d, call()(), lo, hi) })
		sig := "source-position"
		if pan != nil {
			sig, msg = panicKind(pan), panicMsg(pan)
		}
		if msg != "" {
			a.fail(sig, pkg, op, fmt.Sprintf("%s.%s(%s) directly over %s(%v) is documented to consume its input: %s", pkg, op, param, kind, brief(d), msg),
				map[string]any{"source": d, "source_kind": kind, "param": param})
			return false
		}
		return true
	}
	f := func(acc, x int) int { return acc*31 + x + 1 }
	two := min(n, 2)
	for _, k := range append(slices.Clone(iterSrcKinds), shIt...) {
		k := k
		ok := run("iterator", "Collect", "-", k.name, n, n, func() func() []int { it, rest := k.mk(d); iterator.Collect(it); return rest }) &&
			run("iterator", "One", "-", k.name, two, n, func() func() []int { it, rest := k.mk(d); iterator.One(it); return rest }) &&
			run("iterator", "Reduce", "-", k.name, n, n, func() func() []int { it, rest := k.mk(d); iterator.Reduce(it, 7, f); return rest }) &&
			run("iterator", "Equal", "1 sequence", k.name, n, n, func() func() []int { it, rest := k.mk(d); iterator.Equal(it); return rest })
		for _, lk := range lastKs {
			lk := lk
			ok = ok && run("iterator", "Last", fmt.Sprintf("n=%d", lk), k.name, n, n, func() func() []int { it, rest := k.mk(d); iterator.Last(it, lk); return rest })
		}
		if !ok {
			return
		}
	}
	for _, k := range append(slices.Clone(streamSrcKinds), shSt...) {
		k := k
		ok := run("stream", "Collect", "-", k.name, n, n, func() func() []int { s, rest := k.mk(d); stream.Collect(bg, s); return rest }) &&
			run("stream", "One", "-", k.name, two, n, func() func() []int { s, rest := k.mk(d); stream.One(bg, s); return rest }) &&
			run("stream", "Reduce", "-", k.name, n, n, func() func() []int {
				s, rest := k.mk(d)
				stream.Reduce(bg, s, 7, func(acc, x int) (int, error) { return f(acc, x), nil })
				return rest
			})
		for _, lk := range lastKs {
			lk := lk
			ok = ok && run("stream", "Last", fmt.Sprintf("n=%d", lk), k.name, n, n, func() func() []int { s, rest := k.mk(d); stream.Last(bg, s, lk); return rest })
		}
		if !ok {
			return
		}
	}
}

// equalPosition: iterator.Equal over the library's own sources, any number of them (0, 1, 2, ...).
func equalPosition(a *acc, seqs [][]int) {
	if a.failed || len(seqs) == 0 {
		return
	}
	// first position at which the sequences disagree (in an item or in having ended), or -1
	p := -1
	if !refEqual(seqs) {
		for p = 0; ; p++ {
			differ := false
			for _, s := range seqs[1:] {
				if (p < len(s)) != (p < len(seqs[0])) || (p < len(s) && s[p] != seqs[0][p]) {
					differ = true
				}
			}
			if differ {
				break
			}
		}
	}
	for ki := range iterSrcKinds {
		msg := ""
		a.arm(len(refConcat(seqs)))
		a.posChecks++
		pan := vkit.Try(func() {
			its := make([]iterator.Iterator[int], len(seqs))
			rests := make([]func() []int, len(seqs))
			for i, s := range seqs {
				its[i], rests[i] = iterSrcKinds[(ki+i)%len(iterSrcKinds)].mk(s) // kinds mixed within one call
			}
			iterator.Equal(its...)
			for i, s := range seqs {
				lo := len(s)
				if p >= 0 {
					lo = min(p, len(s))
				}
				if m := restBounds(s, rests[i](), lo, len(s)); m != "" {
					msg = fmt.Sprintf("argument %d (%v): %s", i, s, m)
					return
				}
			}
		})
		sig := "source-position"
		if pan != nil {
			sig, msg = panicKind(pan), panicMsg(pan)
		}
		if msg != "" {
			a.fail(sig, "iterator", "Equal", fmt.Sprintf("iterator.Equal(%d sequences) directly over iterator.Slice / iterator.Chan sources %v is documented to consume the iterators: %s", len(seqs), seqs, msg),
				map[string]any{"sequences": seqs, "first_disagreement": p})
			return
		}
	}
}
