package main

import (
	"context"
	"fmt"
	"slices"
	"time"

	"github.com/bradenaw/juniper/iterator"
	"github.com/bradenaw/juniper/stream"

	"verif/vkit"
)

// acc accumulates what one case observed; flushed into the report once per case (keeps the
// report's mutex out of the inner loops).
type acc struct {
	c        *vkit.Case
	r        *vkit.Report
	evals    int
	counts   map[[2]string]int
	dist     []string
	requests int
	endRe    int
	// quiet: a failure is remembered (quietSig, quietMsg) instead of being reported; used for
	// behaviour that is recorded, not judged.
	quiet              bool
	quietSig, quietMsg string
	garbageSeq         int // see gProbeIter
	integ              int // argument-integrity probes
	posChecks          int // source-position checks (position.go)
	failed             bool
	// sampleAt = k > 0: the k-th non-trivial triple of this case is written out as a sample (set by
	// main for a few designated cases, so that the samples do not depend on scheduling).
	sampleAt int
	// budget: calls that callbacks and probe sources may still receive in the current run of one
	// flavour (see arm / tick).
	budget int
}

// runaway is the panic value of tick: a logical (not wall-clock) verdict that a library call does
// not terminate. Every predicate / equivalence / conversion callback and every Next of a probe
// source ticks; one flavour run over an input of n items legitimately makes a few times n such
// calls, the budget is 200*(n+16).
type runaway struct{}

func (a *acc) arm(n int) { a.budget = 200 * (n + 16) }

func (a *acc) tick() {
	a.budget--
	if a.budget < 0 {
		a.budget = 1 << 30 // let deferred library code finish
		panic(runaway{})
	}
}

// gProbeIter / gProbeStream are the kit's probes with one hardening: the value returned TOGETHER
// WITH the end (or an error) is non-zero garbage that changes from call to call. The Iterator
// contract calls that value meaningless ("Once the iterator is finished, the first return is
// meaningless"), the library's own iterators happen to return the zero value, a user-written one
// may return anything; no combinator or reducer may look at it. Reference outputs never contain
// garbage (items are >= 0, garbage ints are <= -777). Outer sources (iterators of iterators, streams
// of streams, streams of slices) return a usable non-nil iterator / stream / a non-empty slice.
type gProbeIter[T any] struct {
	*vkit.ProbeIter[T]
	ends *int // the case's garbage counter: no two end-of-iteration values of one case are alike
}

func (p *gProbeIter[T]) Next() (T, bool) {
	x, ok := p.ProbeIter.Next()
	if !ok {
		*p.ends++
		return garbageOf[T](*p.ends), false
	}
	return x, true
}

type gProbeStream[T any] struct {
	*vkit.ProbeStream[T]
	ends *int
}

func (p *gProbeStream[T]) Next(ctx context.Context) (T, error) {
	x, err := p.ProbeStream.Next(ctx)
	if err != nil {
		*p.ends++
		return garbageOf[T](*p.ends), err
	}
	return x, nil
}

// garbageOf returns a non-zero value of T that no reference output contains.
func garbageOf[T any](call int) T {
	var v T
	switch p := any(&v).(type) {
	case *int:
		*p = -777 - call
	case *string:
		*p = fmt.Sprintf("<garbage %d>", call)
	case *[]int:
		*p = []int{-777 - call, -778 - call} // a non-empty slice

	case *iterator.Iterator[int]:
		*p = &garbageIter{id: call} // a non-nil iterator that would yield items if it were used

	case *stream.Stream[int]:
		*p = &garbageStream{id: call}

	}
	return v
}

// garbageIter / garbageStream: what an outer source may hand back together with the end.
// Each would yield two items and then end.
type garbageIter struct{ id, given int }

func (g *garbageIter) Next() (int, bool) {
	if g.given >= 2 {
		return 0, false
	}
	g.given++
	return -9000 - g.id - g.given, true
}

type garbageStream struct{ id, given int }

func (g *garbageStream) Next(context.Context) (int, error) {
	if g.given >= 2 {
		return 0, stream.End
	}
	g.given++
	return -9000 - g.id - g.given, nil
}
func (g *garbageStream) Close() {}

func newIterProbe[T any](a *acc, items []T) *gProbeIter[T] {
	p := vkit.NewProbeIter(items)
	p.OnNext = func(int) { a.tick() }
	return &gProbeIter[T]{ProbeIter: p, ends: &a.garbageSeq}
}

func newStreamProbe[T any](a *acc, name string, items []T) *gProbeStream[T] {
	p := vkit.NewProbeStream(name, items)
	p.Delay = func(int) time.Duration { a.tick(); return 0 }
	return &gProbeStream[T]{ProbeStream: p, ends: &a.garbageSeq}
}

func guardPred(a *acc, f func(int) bool) func(int) bool {
	return func(x int) bool { a.tick(); return f(x) }
}

func guardEq(a *acc, f func(x, y int) bool) func(x, y int) bool {
	return func(x, y int) bool { a.tick(); return f(x, y) }
}

// panicKind tells a runaway from an ordinary panic.
func panicKind(p *vkit.Panic) string {
	if _, ok := p.Value.(runaway); ok {
		return "runaway"
	}
	return "panic"
}

func newAcc(c *vkit.Case) *acc {
	return &acc{c: c, r: c.R, counts: make(map[[2]string]int)}
}

func (a *acc) count(table, key string, n int) { a.counts[[2]string{table, key}] += n }

func (a *acc) flush() {
	a.r.Eval(a.evals)
	for k, v := range a.counts {
		a.r.Count(k[0], k[1], v)
	}
	a.r.Count("totals", "output requests checked (value, pulls)", a.requests)
	a.r.Count("totals", "Next calls after the end checked", a.endRe)
	a.r.Count("totals", "source-position checks (rest of the library's own source read after j requests)", a.posChecks)
	a.r.Count("totals", "argument-integrity probes (caller's array incl. sentinels unchanged)", a.integ)
	for _, d := range a.dist {
		a.r.Distinct(d)
	}
}

// fail records the first violation of the case; the case stops afterwards.
func (a *acc) fail(kind, flavour, op, what string, w map[string]any) {
	if a.failed {
		return
	}
	a.failed = true
	if a.quiet {
		a.quietSig, a.quietMsg = kind+":"+flavour+"."+op, what
		return
	}
	if w == nil {
		w = map[string]any{}
	}
	w["operation"] = flavour + "." + op
	a.c.Violation(kind+":"+flavour+"."+op, what, w)
}

func (a *acc) sampleOnce(op string, build func() any) {
	if a.sampleAt > 0 {
		a.sampleAt--
		if a.sampleAt == 0 {
			a.r.Sample(build())
		}
	}
}

var bg = context.Background()

// handle is one running flavour of an operation: next asks for the next output, pulls reports the
// number of requests the instrumented source has seen, capped at len(source)+1 (see ref.go).
type handle[U any] struct {
	next  func() (U, bool)
	pulls func() int
	close func()
}

type unexpectedErr struct{ err error }

func (u unexpectedErr) String() string { return "unexpected error from Next: " + u.err.Error() }

func capPulls(calls int64, n int) int {
	if calls > int64(n+1) {
		return n + 1
	}
	return int(calls)
}

func iterHandle[U any](p *gProbeIter[int], it iterator.Iterator[U]) handle[U] {
	n := len(p.Items)
	return handle[U]{
		next:  it.Next,
		pulls: func() int { return capPulls(p.Pulls.Load(), n) },
		close: func() {},
	}
}

func streamNext[U any](s stream.Stream[U]) func() (U, bool) {
	return func() (U, bool) {
		x, err := s.Next(bg)
		if err == nil {
			return x, true
		}
		if err == stream.End {
			var zero U
			return zero, false
		}
		panic(unexpectedErr{err})
	}
}

func streamHandle[U any](p *gProbeStream[int], s stream.Stream[U]) handle[U] {
	n := len(p.Items)
	return handle[U]{
		next:  streamNext(s),
		pulls: func() int { return capPulls(p.Calls.Load(), n) },
		close: s.Close,
	}
}

// single is one (operation, input, parameter) triple of a one-source combinator, in every flavour
// that exists.
type single[U any] struct {
	op, param  string
	src        []int
	ref        res[U]
	same       func(a, b U) bool
	iter       func(iterator.Iterator[int]) iterator.Iterator[U]
	strm       func(stream.Stream[int]) stream.Stream[U]
	slc        func([]int) []U
	nontrivial bool
	note       string
}

func eqInt(a, b int) bool { return a == b }

func (s *single[U]) witness(step int) map[string]any {
	w := map[string]any{"param": s.param, "source": s.src, "reference_output": s.ref.out, "reference_need": s.ref.need, "request": step}
	if s.note != "" {
		w["note"] = s.note
	}
	return w
}

// drive runs one flavour: pulls == 0 after construction; for each request j: output == reference
// prefix and pulls <= need(j); the end is reported exactly when the reference ends; three more Next
// calls all report the end and pull nothing that the reference does not need.
func drive[U any](a *acc, s *single[U], flavour string, mk func() handle[U]) ([]U, bool) {
	out, need := s.ref.out, s.ref.need
	var got []U
	step := 0
	kind, what := "", ""
	pan := vkit.Try(func() {
		a.arm(len(s.src) + len(out))
		h := mk()
		if p := h.pulls(); p != 0 {
			kind, what = "construct-pull", fmt.Sprintf("%d source pulls before the first Next", p)
			return
		}
		for j := 1; j <= len(out)+4; j++ {
			step = j
			x, ok := h.next()
			p := h.pulls()
			a.requests++
			if j <= len(out) {
				if !ok {
					kind, what = "early-end", fmt.Sprintf("request %d reported the end, reference has %d outputs", j, len(out))
					return
				}
				got = append(got, x)
				if !s.same(x, out[j-1]) {
					kind, what = "value", fmt.Sprintf("request %d returned %v, reference %v", j, x, out[j-1])
					return
				}
				if p > need[j] {
					kind, what = "overpull", fmt.Sprintf("after %d output requests the source had been asked %d times, a lazy evaluator needs %d", j, p, need[j])
					return
				}
				continue
			}
			if j > len(out)+1 {
				a.endRe++
			}
			if ok {
				if j == len(out)+1 {
					kind, what = "extra-item", fmt.Sprintf("request %d returned %v, reference has ended after %d outputs", j, x, len(out))
				} else {
					kind, what = "end-unstuck", fmt.Sprintf("Next call %d after the end was reported returned %v", j-len(out)-1, x)
				}
				return
			}
			if p > need[len(out)+1] {
				kind, what = "overpull", fmt.Sprintf("after the end (request %d) the source had been asked %d times, a lazy evaluator needs %d", j, p, need[len(out)+1])
				return
			}
		}
		h.close()
	})
	if pan != nil {
		kind, what = panicKind(pan), fmt.Sprintf("panic at request %d: %s", step, panicMsg(pan))
	}
	if kind != "" {
		a.fail(kind, flavour, s.op, fmt.Sprintf("%s.%s(%s) over %v: %s", flavour, s.op, s.param, brief(s.src), what), s.witness(step))
		return got, false
	}
	return got, true
}

func panicMsg(p *vkit.Panic) string {
	if u, ok := p.Value.(unexpectedErr); ok {
		return u.String()
	}
	if _, ok := p.Value.(runaway); ok {
		return "the call does not terminate: callbacks and sources were invoked more than 200*(n+16) times in " + p.JuniperFrame()
	}
	return p.Msg + " in " + p.JuniperFrame()
}

func brief(s []int) string {
	if len(s) <= 24 {
		return fmt.Sprint(s)
	}
	return fmt.Sprintf("%v... (%d items)", s[:24], len(s))
}

// flavourMk names one way of running the operation of a single.
type flavourMk[U any] struct {
	name string
	mk   func() handle[U]
}

func runSingle[U any](a *acc, s *single[U]) {
	var fl []flavourMk[U]
	if s.iter != nil {
		fl = append(fl, flavourMk[U]{"iterator", func() handle[U] {
			p := newIterProbe(a, s.src)
			return iterHandle(p, s.iter(p))
		}})
	}
	if s.strm != nil {
		fl = append(fl, flavourMk[U]{"stream", func() handle[U] {
			p := newStreamProbe(a, "src", s.src)
			return streamHandle(p, s.strm(p))
		}})
	}
	runFlavours(a, s, fl)
	sourcePosition(a, s)
}

func runFlavours[U any](a *acc, s *single[U], fl []flavourMk[U]) {
	if a.failed {
		return
	}
	a.evals++
	a.count("triples by operation", s.op, 1)
	type flav struct {
		name string
		out  []U
	}
	var outs []flav
	for _, f := range fl {
		got, ok := drive(a, s, f.name, f.mk)
		if !ok {
			return
		}
		outs = append(outs, flav{f.name, got})
	}
	if s.slc != nil {
		var got []U
		a.arm(len(s.src))
		gsrc, chkSrc, _ := guardInts(s.src)
		if pan := vkit.Try(func() { got = s.slc(gsrc) }); pan != nil {
			a.fail(panicKind(pan), "xslices", s.op, fmt.Sprintf("xslices.%s(%s) over %v panicked: %s", s.op, s.param, brief(s.src), panicMsg(pan)), s.witness(0))
			return
		}
		if !slices.EqualFunc(got, s.ref.out, s.same) {
			w := s.witness(0)
			w["got"] = got
			a.fail("value", "xslices", s.op, fmt.Sprintf("xslices.%s(%s) over %v = %v, reference %v", s.op, s.param, brief(s.src), got, s.ref.out), w)
			return
		}
		a.integ++
		if msg := chkSrc(); msg != "" {
			a.fail("argument-modified", "xslices", s.op, fmt.Sprintf("xslices.%s(%s) over %v (a sub-slice with spare capacity): %s", s.op, s.param, brief(s.src), msg), s.witness(0))
			return
		}
		outs = append(outs, flav{"xslices", got})
	}
	for i := 1; i < len(outs); i++ {
		a.count("totals", "flavour agreement checks", 1)
		if !slices.EqualFunc(outs[0].out, outs[i].out, s.same) {
			a.fail("flavours-disagree", outs[i].name, s.op, fmt.Sprintf("%s.%s and %s.%s(%s) over %v disagree: %v vs %v",
				outs[0].name, s.op, outs[i].name, s.op, s.param, brief(s.src), outs[0].out, outs[i].out), s.witness(0))
			return
		}
	}
	if s.nontrivial {
		a.dist = append(a.dist, s.op+"|"+s.param+"|"+fmt.Sprint(s.src))
		a.sampleOnce(s.op, func() any {
			return map[string]any{"operation": s.op, "param": s.param, "source": s.src, "reference_output": s.ref.out,
				"reference_need": s.ref.need, "flavours_run": len(outs), "note": s.note}
		})
	}
}

// ---------------------------------------------------------------------------------------------
// WithPeek: a sequence of Peek / Next calls; a Peek counts as a request. State = items consumed by
// Next (c). Peek and Next both answer with item c (or the end); both need c+1 source requests.

type peekFlavour struct {
	name string
	mk   func(a *acc, src []int) (peek, next func() (int, bool), pulls func() int, closeFn func())
}

var peekFlavours = []peekFlavour{
	{"iterator", func(a *acc, src []int) (func() (int, bool), func() (int, bool), func() int, func()) {
		p := newIterProbe(a, src)
		pk := iterator.WithPeek[int](p)
		return pk.Peek, pk.Next, func() int { return capPulls(p.Pulls.Load(), len(src)) }, func() {}
	}},
	{"stream", func(a *acc, src []int) (func() (int, bool), func() (int, bool), func() int, func()) {
		p := newStreamProbe(a, "src", src)
		pk := stream.WithPeek[int](p)
		peek := func() (int, bool) {
			x, err := pk.Peek(bg)
			if err == nil {
				return x, true
			}
			if err == stream.End {
				return 0, false
			}
			panic(unexpectedErr{err})
		}
		return peek, streamNext[int](pk), func() int { return capPulls(p.Calls.Load(), len(src)) }, pk.Close
	}},
}

// runPeek: ops[i] true = Peek, false = Next; afterwards the rest is drained with Next, then three
// more Next calls and two Peeks must all report the end.
func runPeek(a *acc, src []int, ops []bool, param string) {
	if a.failed {
		return
	}
	a.evals++
	a.count("triples by operation", "WithPeek", 1)
	n := len(src)
	for _, fl := range peekFlavours {
		step, opName := 0, ""
		kind, what := "", ""
		pan := vkit.Try(func() {
			a.arm(n + len(ops))
			peek, next, pulls, closeFn := fl.mk(a, src)
			if p := pulls(); p != 0 {
				kind, what = "construct-pull", fmt.Sprintf("%d source pulls before the first call", p)
				return
			}
			c := 0
			ended := false
			afterEnd := 0
			do := func(isPeek bool) bool {
				step++
				var x int
				var ok bool
				if isPeek {
					opName = "Peek"
					x, ok = peek()
				} else {
					opName = "Next"
					x, ok = next()
				}
				a.requests++
				if ended {
					a.endRe++
					afterEnd++
				}
				if c < n {
					if !ok {
						kind, what = "early-end", fmt.Sprintf("call %d (%s) reported the end with %d of %d items consumed", step, opName, c, n)
						return false
					}
					if x != src[c] {
						kind, what = "value", fmt.Sprintf("call %d (%s) returned %d, reference %d (item %d)", step, opName, x, src[c], c)
						return false
					}
				} else if ok {
					kind = "extra-item"
					if ended {
						kind = "end-unstuck"
					}
					what = fmt.Sprintf("call %d (%s) returned %d after all %d items were consumed", step, opName, x, n)
					return false
				} else {
					ended = true
				}
				need := c + 1 // item c, or (c == n) the end
				if p := pulls(); p > need {
					kind, what = "overpull", fmt.Sprintf("after call %d (%s) with %d items consumed the source had been asked %d times, needed %d", step, opName, c, p, need)
					return false
				}
				if !isPeek && c < n {
					c++
				}
				return true
			}
			for _, isPeek := range ops {
				if !do(isPeek) {
					return
				}
			}
			for !ended {
				if !do(false) {
					return
				}
			}
			for _, isPeek := range []bool{false, true, false, true, false} {
				if !do(isPeek) {
					return
				}
			}
			closeFn()
		})
		if pan != nil {
			kind, what = panicKind(pan), fmt.Sprintf("panic at call %d (%s): %s", step, opName, panicMsg(pan))
		}
		if kind != "" {
			a.fail(kind, fl.name, "WithPeek", fmt.Sprintf("%s.WithPeek over %v, calls %s then drain: %s", fl.name, brief(src), param, what),
				map[string]any{"source": src, "calls": param, "call": step})
			return
		}
	}
}

// ---------------------------------------------------------------------------------------------
// Runs: outer iterator of inner iterators. The consumer drains every inner run before asking the
// outer for the next one (as the documentation requires). Needs: outer request for run r = through
// the first item of run r (or the end); inner item at source position p = p+1; the inner's end =
// through the first item of the next run (or the end of the source).

type runsFlavour struct {
	name string
	mk   func(a *acc, src []int, same func(a, b int) bool) (outer func() (func() (int, bool), func(), bool), pulls func() int, closeFn func())
}

var runsFlavours = []runsFlavour{
	{"iterator", func(a *acc, src []int, same func(a, b int) bool) (func() (func() (int, bool), func(), bool), func() int, func()) {
		p := newIterProbe(a, src)
		outer := iterator.Runs[int](p, same)
		return func() (func() (int, bool), func(), bool) {
			inner, ok := outer.Next()
			if !ok {
				return nil, nil, false
			}
			return inner.Next, nil, true
		}, func() int { return capPulls(p.Pulls.Load(), len(src)) }, func() {}
	}},
	{"stream", func(a *acc, src []int, same func(a, b int) bool) (func() (func() (int, bool), func(), bool), func() int, func()) {
		p := newStreamProbe(a, "src", src)
		outer := stream.Runs[int](p, same)
		return func() (func() (int, bool), func(), bool) {
			inner, err := outer.Next(bg)
			if err == stream.End {
				return nil, nil, false
			}
			if err != nil {
				panic(unexpectedErr{err})
			}
			return streamNext(inner), inner.Close, true
		}, func() int { return capPulls(p.Calls.Load(), len(src)) }, outer.Close
	}},
}

func runRuns(a *acc, src []int, same func(a, b int) bool, param string, slc func([]int) [][]int) {
	if a.failed {
		return
	}
	a.evals++
	a.count("triples by operation", "Runs", 1)
	runs := refRuns(src, same)
	n := len(src)
	same = guardEq(a, same)
	for _, fl := range runsFlavours {
		kind, what := "", ""
		where := ""
		pan := vkit.Try(func() {
			a.arm(n)
			outer, pulls, closeFn := fl.mk(a, src, same)
			if p := pulls(); p != 0 {
				kind, what = "construct-pull", fmt.Sprintf("%d source pulls before the first Next", p)
				return
			}
			var old []func() (int, bool) // drained inner iterators that stay usable (iterator flavour)
			pos := 0
			for r, run := range runs {
				where = fmt.Sprintf("outer Next %d", r+1)
				inner, innerClose, ok := outer()
				a.requests++
				if !ok {
					kind, what = "early-end", fmt.Sprintf("outer Next %d reported the end, reference has %d runs", r+1, len(runs))
					return
				}
				if p := pulls(); p > pos+1 {
					kind, what = "overpull", fmt.Sprintf("after outer Next %d the source had been asked %d times; only the first item of the run (item %d) is needed", r+1, p, pos)
					return
				}
				// the last few drained inner iterators must keep reporting the end now that the outer
				// has moved on (and must not take items of the current run)
				for back := 1; back <= 3 && back <= len(old); back++ {
					which := len(old) - back + 1 // 1-based run number
					where = fmt.Sprintf("Next on drained run %d after outer Next %d", which, r+1)
					before := pulls()
					x, ok := old[len(old)-back]()
					a.endRe++
					if ok {
						kind, what = "end-unstuck", fmt.Sprintf("run %d had reported its end; after outer Next %d its Next returned %d", which, r+1, x)
						return
					}
					if p := pulls(); p > before && p > pos+1 {
						kind, what = "overpull", fmt.Sprintf("Next on the drained run %d pulled the source (%d -> %d)", which, before, p)
						return
					}
				}
				for k, want := range run {
					where = fmt.Sprintf("run %d inner Next %d", r+1, k+1)
					x, ok := inner()
					a.requests++
					if !ok {
						kind, what = "early-end", fmt.Sprintf("run %d ended after %d items, reference run is %v", r+1, k, run)
						return
					}
					if x != want {
						kind, what = "value", fmt.Sprintf("run %d item %d is %d, reference %d (run %v)", r+1, k+1, x, want, run)
						return
					}
					if p := pulls(); p > pos+1 {
						kind, what = "overpull", fmt.Sprintf("after run %d item %d (source item %d) the source had been asked %d times, needed %d", r+1, k+1, pos, p, pos+1)
						return
					}
					pos++
				}
				for t := 0; t < 4; t++ {
					where = fmt.Sprintf("run %d inner Next %d (end expected)", r+1, len(run)+1+t)
					x, ok := inner()
					a.requests++
					if t > 0 {
						a.endRe++
					}
					if ok {
						kind = "extra-item"
						if t > 0 {
							kind = "end-unstuck"
						}
						what = fmt.Sprintf("run %d returned %d after its %d reference items %v (call %d past the last item)", r+1, x, len(run), run, t+1)
						return
					}
					// the end of a run is known from the first item of the next run, or the source's end
					if p := pulls(); p > pos+1 {
						kind, what = "overpull", fmt.Sprintf("after the end of run %d (next source item %d) the source had been asked %d times, needed %d", r+1, pos, p, pos+1)
						return
					}
				}
				if innerClose != nil {
					innerClose() // streams must be closed by their consumer; no Next after Close
				} else {
					old = append(old, inner)
				}
			}
			for t := 0; t < 4; t++ {
				where = fmt.Sprintf("outer Next %d (end expected)", len(runs)+1+t)
				_, _, ok := outer()
				a.requests++
				if t > 0 {
					a.endRe++
				}
				if ok {
					kind = "extra-item"
					if t > 0 {
						kind = "end-unstuck"
					}
					what = fmt.Sprintf("outer Next %d returned another run, reference has %d runs", len(runs)+1+t, len(runs))
					return
				}
			}
			for i, inner := range old {
				where = fmt.Sprintf("Next on drained run %d after the outer ended", i+1)
				x, ok := inner()
				a.endRe++
				if ok {
					kind, what = "end-unstuck", fmt.Sprintf("run %d had reported its end; after the outer ended its Next returned %d", i+1, x)
					return
				}
			}
			if p := pulls(); p > n+1 {
				kind, what = "overpull", "more pulls than the source has items"
			}
			closeFn()
		})
		if pan != nil {
			kind, what = panicKind(pan), fmt.Sprintf("panic at %s: %s", where, panicMsg(pan))
		}
		if kind != "" {
			a.fail(kind, fl.name, "Runs", fmt.Sprintf("%s.Runs(%s) over %v: %s", fl.name, param, brief(src), what),
				map[string]any{"source": src, "param": param, "reference_runs": runs, "at": where})
			return
		}
	}
	if slc != nil {
		var got [][]int
		a.arm(n)
		gsrc, chkSrc, _ := guardInts(src)
		if pan := vkit.Try(func() { got = slc(gsrc) }); pan != nil {
			a.fail(panicKind(pan), "xslices", "Runs", fmt.Sprintf("xslices.Runs(%s) over %v panicked: %s", param, brief(src), panicMsg(pan)), map[string]any{"source": src, "param": param})
			return
		}
		a.count("totals", "flavour agreement checks", 2)
		if !slices.EqualFunc(got, runs, func(x, y []int) bool { return slices.Equal(x, y) }) {
			a.fail("value", "xslices", "Runs", fmt.Sprintf("xslices.Runs(%s) over %v = %v, reference (and iterator.Runs, stream.Runs) %v", param, brief(src), got, runs),
				map[string]any{"source": src, "param": param, "reference_runs": runs, "got": got})
			return
		}
		a.integ++
		if msg := chkSrc(); msg != "" {
			a.fail("argument-modified", "xslices", "Runs", fmt.Sprintf("xslices.Runs(%s) over %v (a sub-slice with spare capacity): %s", param, brief(src), msg), map[string]any{"source": src})
			return
		}
	}
	if n > 0 {
		a.dist = append(a.dist, "Runs|"+param+"|"+fmt.Sprint(src))
		a.sampleOnce("Runs", func() any {
			return map[string]any{"operation": "Runs", "param": param, "source": src, "reference_runs": runs}
		})
	}
}

// takePolicy says how many items of an inner run of length l the consumer reads before it asks the
// outer for the next run.
type takePolicy struct {
	name string
	take func(l int) int
}

var takePolicies = []takePolicy{
	{"nothing", func(l int) int { return 0 }},
	{"the first item", func(l int) int { return 1 }},
	{"two items", func(l int) int { return min(2, l) }},
	{"all but the last item", func(l int) int { return l - 1 }},
}

// runRunsPartial: the consumer leaves inner runs undrained and advances the outer. The library
// skips the rest of the abandoned run itself (existing behaviour, relied upon by callers although
// the doc says the inner "should" be drained): the next inner must start at the head of the next
// reference run, the number of runs must be the reference's, and skipping needs the source only
// through the first item of the next run. Stream flavour: the abandoned inner is NOT closed by the
// consumer (the outer closes it when it advances).
func runRunsPartial(a *acc, src []int, same func(a, b int) bool, param string, pol takePolicy) {
	if a.failed {
		return
	}
	a.evals++
	a.count("triples by operation", "Runs", 1)
	a.count("Runs with undrained inner runs: items read of each run before the outer advances", pol.name, 1)
	runs := refRuns(src, same)
	n := len(src)
	same = guardEq(a, same)
	for _, fl := range runsFlavours {
		kind, what, where := "", "", ""
		pan := vkit.Try(func() {
			a.arm(n)
			outer, pulls, closeFn := fl.mk(a, src, same)
			start := 0
			for r, run := range runs {
				where = fmt.Sprintf("outer Next %d", r+1)
				inner, _, ok := outer()
				a.requests++
				if !ok {
					kind, what = "early-end", fmt.Sprintf("outer Next %d reported the end, reference has %d runs %v", r+1, len(runs), runs)
					return
				}
				if p := pulls(); p > start+1 {
					kind, what = "overpull", fmt.Sprintf("after outer Next %d the source had been asked %d times; skipping the abandoned run and finding the head of run %d (item %d) needs %d", r+1, p, r+1, start, start+1)
					return
				}
				t := pol.take(len(run))
				for k := 0; k < t; k++ {
					where = fmt.Sprintf("run %d inner Next %d", r+1, k+1)
					x, ok := inner()
					a.requests++
					if !ok {
						kind, what = "run-boundary", fmt.Sprintf("run %d ended after %d items, reference run is %v (runs %v)", r+1, k, run, runs)
						return
					}
					if x != run[k] {
						kind, what = "run-boundary", fmt.Sprintf("run %d item %d is %d, reference %d: run %d should be %v (runs %v)", r+1, k+1, x, run[k], r+1, run, runs)
						return
					}
					if p := pulls(); p > start+k+1 {
						kind, what = "overpull", fmt.Sprintf("after run %d item %d the source had been asked %d times, needed %d", r+1, k+1, p, start+k+1)
						return
					}
				}
				start += len(run)
			}
			for t := 0; t < 4; t++ {
				where = fmt.Sprintf("outer Next %d (end expected)", len(runs)+1+t)
				_, _, ok := outer()
				a.requests++
				if t > 0 {
					a.endRe++
				}
				if ok {
					kind = "run-boundary"
					if t > 0 {
						kind = "end-unstuck"
					}
					what = fmt.Sprintf("outer Next %d returned another run, reference has %d runs %v", len(runs)+1+t, len(runs), runs)
					return
				}
			}
			closeFn()
		})
		if pan != nil {
			kind, what = panicKind(pan), fmt.Sprintf("panic at %s: %s", where, panicMsg(pan))
		}
		if kind != "" {
			a.fail(kind, fl.name, "Runs", fmt.Sprintf("%s.Runs(%s) over %v, consumer reads %s of each run and then advances the outer: %s", fl.name, param, brief(src), pol.name, what),
				map[string]any{"source": src, "param": param, "reference_runs": runs, "read_of_each_run": pol.name, "at": where})
			return
		}
	}
	if n > 0 {
		a.dist = append(a.dist, "Runs-undrained|"+pol.name+"|"+param+"|"+fmt.Sprint(src))
	}
}

// ---------------------------------------------------------------------------------------------
// Flatten / FlattenSlices / Join: several sources.

type multiHandle struct {
	next       func() (int, bool)
	outerPulls func() int      // nil: no outer source (Join)
	partPulls  func(i int) int // nil: parts are not observable (FlattenSlices)
	close      func()
	integrity  func() string // nil, or: "" while the caller's argument array is untouched (integrity.go)
	observe    func()        // nil, or: records not-judged observations at the end of the run
}

type multiFlavour struct {
	pkg, op string
	via     string // how the sources are handed over (shown in messages)
	mk      func(a *acc, parts [][]int) multiHandle
}

var multiFlavours = []multiFlavour{
	{"iterator", "Flatten", "", func(a *acc, parts [][]int) multiHandle {
		probes := make([]*gProbeIter[int], len(parts))
		its := make([]iterator.Iterator[int], len(parts))
		for i, p := range parts {
			probes[i] = newIterProbe(a, p)
			its[i] = probes[i]
		}
		outer := newIterProbe(a, its)
		f := iterator.Flatten[int](outer)
		return multiHandle{
			next:       f.Next,
			outerPulls: func() int { return capPulls(outer.Pulls.Load(), len(parts)) },
			partPulls:  func(i int) int { return capPulls(probes[i].Pulls.Load(), len(parts[i])) },
			close:      func() {},
		}
	}},
	{"iterator", "Flatten", " over iterator.Slice(args), args a sub-slice with spare capacity", func(a *acc, parts [][]int) multiHandle {
		probes := make([]*gProbeIter[int], len(parts))
		its := make([]iterator.Iterator[int], len(parts))
		for i, p := range parts {
			probes[i] = newIterProbe(a, p)
			its[i] = probes[i]
		}
		args, chk := guardRefs(its, iterSentinel)
		f := iterator.Flatten[int](iterator.Slice(args))
		return multiHandle{
			next:      f.Next,
			partPulls: func(i int) int { return capPulls(probes[i].Pulls.Load(), len(parts[i])) },
			close:     func() {},
			integrity: chk,
		}
	}},
	{"iterator", "Join", " (args a sub-slice with spare capacity)", func(a *acc, parts [][]int) multiHandle {
		probes := make([]*gProbeIter[int], len(parts))
		its := make([]iterator.Iterator[int], len(parts))
		for i, p := range parts {
			probes[i] = newIterProbe(a, p)
			its[i] = probes[i]
		}
		args, chk := guardRefs(its, iterSentinel)
		f := iterator.Join(args...)
		return multiHandle{
			next:      f.Next,
			partPulls: func(i int) int { return capPulls(probes[i].Pulls.Load(), len(parts[i])) },
			close:     func() {},
			integrity: chk,
		}
	}},
	{"stream", "Flatten", "", func(a *acc, parts [][]int) multiHandle {
		probes := make([]*gProbeStream[int], len(parts))
		sts := make([]stream.Stream[int], len(parts))
		for i, p := range parts {
			probes[i] = newStreamProbe(a, fmt.Sprintf("part%d", i), p)
			sts[i] = probes[i]
		}
		outer := newStreamProbe(a, "outer", sts)
		f := stream.Flatten[int](outer)
		return multiHandle{
			next:       streamNext(f),
			outerPulls: func() int { return capPulls(outer.Calls.Load(), len(parts)) },
			partPulls:  func(i int) int { return capPulls(probes[i].Calls.Load(), len(parts[i])) },
			close:      f.Close,
		}
	}},
	{"stream", "FlattenSlices", " (inner slices are sub-slices with spare capacity)", func(a *acc, parts [][]int) multiHandle {
		// Every inner slice is a sub-slice of a guarded array. FlattenSlices may not touch anything
		// outside the slices it was given. What it does to the items INSIDE a slice it has consumed
		// (the implementation zeroes them) is recorded, not judged: the documentation is silent.
		cp := make([][]int, len(parts))
		outside := make([]func() string, len(parts))
		inside := make([]func() string, len(parts))
		for i, p := range parts {
			cp[i], inside[i], outside[i] = guardInts(p)
		}
		outer := newStreamProbe(a, "outer", cp)
		f := stream.FlattenSlices[int](outer)
		return multiHandle{
			next:       streamNext(f),
			outerPulls: func() int { return capPulls(outer.Calls.Load(), len(parts)) },
			close:      f.Close,
			integrity: func() string {
				for i := range outside {
					if msg := outside[i](); msg != "" {
						return fmt.Sprintf("inner slice %d: %s", i, msg)
					}
				}
				return ""
			},
			observe: func() {
				for i := range inside {
					if len(parts[i]) == 0 {
						continue
					}
					if inside[i]() != "" {
						a.count("observed, not judged: items of the inner slices after stream.FlattenSlices consumed them", "overwritten (zeroed) in the producer's slice", 1)
					} else {
						a.count("observed, not judged: items of the inner slices after stream.FlattenSlices consumed them", "left intact", 1)
					}
				}
			},
		}
	}},
	{"stream", "Join", " (args a sub-slice with spare capacity)", func(a *acc, parts [][]int) multiHandle {
		probes := make([]*gProbeStream[int], len(parts))
		sts := make([]stream.Stream[int], len(parts))
		for i, p := range parts {
			probes[i] = newStreamProbe(a, fmt.Sprintf("part%d", i), p)
			sts[i] = probes[i]
		}
		args, chk := guardRefs(sts, streamSentinel)
		f := stream.Join(args...)
		return multiHandle{
			next:      streamNext(f),
			partPulls: func(i int) int { return capPulls(probes[i].Calls.Load(), len(parts[i])) },
			close:     f.Close,
			integrity: chk,
		}
	}},
}

func runMulti(a *acc, parts [][]int, slcJoin func(parts [][]int) []int) {
	if a.failed {
		return
	}
	want := refConcat(parts)
	total := len(want)
	param := fmt.Sprintf("parts=%v", parts)
	if len(parts) > 8 {
		lens := make([]int, len(parts))
		for i := range parts {
			lens[i] = len(parts[i])
		}
		param = fmt.Sprintf("part lengths=%v", lens)
	}
	nontrivial := total > 0 && len(parts) != 1
	for _, fl := range multiFlavours {
		a.evals++
		a.count("triples by operation", fl.op, 1)
		step := 0
		kind, what := "", ""
		pan := vkit.Try(func() {
			a.arm(total + len(parts))
			h := fl.mk(a, parts)
			checkPulls := func(j int) bool {
				fn := refFlatNeed(parts, j)
				if h.outerPulls != nil {
					if p := h.outerPulls(); p > fn.outer {
						kind, what = "overpull", fmt.Sprintf("after request %d the sequence of parts had been asked %d times, a lazy evaluator needs %d", j, p, fn.outer)
						return false
					}
				}
				if h.partPulls != nil {
					for i := range parts {
						if p := h.partPulls(i); p > fn.part[i] {
							kind, what = "overpull", fmt.Sprintf("after request %d part %d had been asked %d times, a lazy evaluator needs %d", j, i, p, fn.part[i])
							return false
						}
					}
				}
				if h.integrity != nil {
					a.integ++
					if msg := h.integrity(); msg != "" {
						kind, what = "argument-modified", fmt.Sprintf("after request %d: %s", j, msg)
						return false
					}
				}
				return true
			}
			if !checkPulls(0) {
				if kind == "overpull" {
					kind = "construct-pull"
				}
				return
			}
			for j := 1; j <= total+4; j++ {
				step = j
				x, ok := h.next()
				a.requests++
				if j <= total {
					if !ok {
						kind, what = "early-end", fmt.Sprintf("request %d reported the end, reference has %d items", j, total)
						return
					}
					if x != want[j-1] {
						kind, what = "value", fmt.Sprintf("request %d returned %d, reference %d", j, x, want[j-1])
						return
					}
					if !checkPulls(j) {
						return
					}
					continue
				}
				if j > total+1 {
					a.endRe++
				}
				if ok {
					kind = "extra-item"
					if j > total+1 {
						kind = "end-unstuck"
					}
					what = fmt.Sprintf("request %d returned %d, reference has ended after %d items", j, x, total)
					return
				}
				if !checkPulls(total + 1) {
					return
				}
			}
			h.close()
			if h.integrity != nil {
				if msg := h.integrity(); msg != "" {
					kind, what = "argument-modified", "after Close: "+msg
					return
				}
			}
			if h.observe != nil {
				h.observe()
			}
		})
		if pan != nil {
			kind, what = panicKind(pan), fmt.Sprintf("panic at request %d: %s", step, panicMsg(pan))
		}
		if kind != "" {
			a.fail(kind, fl.pkg, fl.op, fmt.Sprintf("%s.%s%s %s: %s", fl.pkg, fl.op, fl.via, param, what),
				map[string]any{"parts": parts, "reference_output": want, "request": step})
			return
		}
		if nontrivial {
			a.dist = append(a.dist, fl.op+"|"+fmt.Sprint(parts))
		}
	}
	if slcJoin != nil {
		a.evals++
		a.count("triples by operation", "Join", 1)
		var got []int
		a.arm(total)
		gparts, chkParts := guardSlices(parts)
		if pan := vkit.Try(func() { got = slcJoin(gparts) }); pan != nil {
			a.fail(panicKind(pan), "xslices", "Join", fmt.Sprintf("xslices.Join %s panicked: %s", param, panicMsg(pan)), map[string]any{"parts": parts})
			return
		}
		a.count("totals", "flavour agreement checks", 2)
		if !slices.Equal(got, want) {
			a.fail("value", "xslices", "Join", fmt.Sprintf("xslices.Join %s = %v, reference (and iterator.Join, stream.Join) %v", param, got, want),
				map[string]any{"parts": parts, "reference_output": want, "got": got})
			return
		}
		a.integ++
		if msg := chkParts(); msg != "" {
			a.fail("argument-modified", "xslices", "Join", fmt.Sprintf("xslices.Join %s (args and every part sub-slices with spare capacity): %s", param, msg), map[string]any{"parts": parts})
			return
		}
	}
	if nontrivial {
		a.sampleOnce("Flatten", func() any {
			needs := make([]flatNeed, 0, total+2)
			for j := 0; j <= total+1; j++ {
				needs = append(needs, refFlatNeed(parts, j))
			}
			out := make([]map[string]any, len(needs))
			for j, fn := range needs {
				out[j] = map[string]any{"outer": fn.outer, "parts": fn.part}
			}
			return map[string]any{"operation": "Flatten/FlattenSlices/Join", "parts": parts, "reference_output": want, "reference_need_by_request": out}
		})
	}
}
