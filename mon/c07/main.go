// C07 — iterator / stream / xslices combinators compute their documented sequence function, are
// lazy, and keep reporting the end.
//
// Oracle: for every operation a reference function on plain slices and a reference lazy evaluator
// need(j) (ref.go, no juniper imports). The real combinator runs over vkit.ProbeIter /
// vkit.ProbeStream sources; after every output request: output == reference prefix and
// pulls <= need(j); pulls == 0 right after construction; after the end three more Next calls must
// all report the end (and pull nothing the reference does not need); the iterator, stream and
// xslices flavours must agree. Reducers are checked for their value only.
//
// A library call that does not terminate is decided logically, never by the clock: every callback
// and every probe source counts its invocations and panics past 200*(n+16) per flavour run
// (drive.go: arm / tick), which surfaces as a "runaway" violation.
//
// Files: ref.go (references), drive.go (drivers and checks), ops.go (one function per one-source
// combinator), small.go (complete small scope), random.go (larger random inputs, pipelines).
package main

import (
	"context"
	"fmt"
	"runtime"

	"github.com/bradenaw/juniper/iterator"
	"github.com/bradenaw/juniper/stream"
	"github.com/bradenaw/juniper/xslices"

	"verif/vkit"
)

func main() {
	vkit.Main("C07", "exploration", func(r *vkit.Report) {
		// The 32-bit variant (thorough only) repeats the quick-sized workload as a 386 binary and adds
		// the > 2^31 post-end polls that only mean something with a 32-bit int.
		is386 := r.VariantHas("386")
		scale := func(q, t int) int {
			if is386 {
				return q
			}
			return r.Scale(q, t)
		}
		maxLen := scale(6, 8)
		cfg := smallCfg{fullMaskLen: scale(6, 7), peekLen: scale(6, 7)}
		cutLen, cutParts := scale(5, 6), scale(4, 5)
		pairLen := scale(4, 5)
		randLen := 300

		r.SetRule(fmt.Sprintf("evaluation = one (operation, input, parameter) triple run in every flavour that exists (package iterator, package stream, "+
			"xslices function of the same name): output compared item by item with a reference written from the doc comment, source pulls compared with a "+
			"reference lazy evaluator after every request, 3 extra Next calls after the end, flavours compared with each other. "+
			"non-trivial = the input is non-empty and the output differs from the input (for outputs of another shape: Chunk more than one chunk; "+
			"Runs / Map / One / Reduce / Equal any non-empty input; Flatten/Join anything but a single part; WithPeek, Collect, Slice, Chan, FromIterator never); "+
			"distinct = by (operation, parameter, input). Small scope, enumerated completely: all sequences over {0,1,2} of length <= %d; "+
			"Filter/While with every predicate mask by position for length <= %d (longer: every mask for 4 sequences per length and 10 fixed masks for every sequence); "+
			"First/Last n = 0..len+1; Chunk size 1..len+1; Compact, CompactFunc/Runs with 5 equivalences; WithPeek with every Peek/Next pattern of length min(len+2,%d) then drained; "+
			"Flatten/FlattenSlices/Join over every cut of every sequence of length <= %d into <= %d possibly-empty parts; Equal over all pairs of length <= %d and every one-place variation; "+
			"Counter/Repeat n = -3..9. For every cut of every sequence of length <= 4 also nested Joins over ONE array of leaves (Join(Join(L[:m]...), trailer) then Join(L[m:]...) for every m; groups of two joined, then the groups joined), both flavours; Runs also with undrained inner runs (4 read policies). Wrap after use: for every sequence of length <= 5, each of 14 combinators is used for j requests (every j up to and past its end) and only then wrapped in another combinator (the same kind always, six other kinds alternately) or handed to Collect, both flavours; for iterators the used combinator is also read again after the wrapper took 0 / 1 / all items (what went through the wrapper counts against it; final source position checked). Per-call contexts: every stream combinator, WithPeek with every Peek/Next pattern, and Runs, over every sequence of length <= 4, with one cancelled-context call at every position and two in a row, retried with a live context. Source position: every one-source triple, WithPeek pattern, Runs walk and Flatten/Join cut again directly over the library's own source types, stopped after every j requests, rest of the source compared; named idioms (Join(First(it,k), it), head/rest, paging with First and Chunk, While/rest) for every k. Long stretches: Flatten / FlattenSlices / Filter / Compact / CompactFunc over one item, N skipped items, one item (N = 20-30 million for iterators, the same for streams; stack depth must not grow with N). Then random inputs of length <= %d and random pipelines of 2-4 combinators against the composed reference.",
			maxLen, cfg.fullMaskLen, cfg.peekLen, cutLen, cutParts, pairLen, randLen))
		r.SetExhaustive(true)
		r.SetExtra("exhaustive_scope", "the small-scope groups (small/*) enumerate their stated bounds completely; the rand/* groups are seeded samples")
		r.Assume("Runs: same is only required to be reflexive and transitive; non-symmetric preorders (<=, >=, divides) are judged against the greedy neighbour rule in all three flavours. Compact / CompactFunc: eq / same arguments are equivalence relations (the doc states reflexive + transitive; the cross-flavour agreement clause needs symmetry too); all generated ones are")
		r.Assume("predicates and conversion functions are pure functions of the item")
		r.Assume("source pulls are compared after capping at len(source)+1: asking an already ended source again when the consumer asks again requests no item and is not counted against laziness")
		r.Assume("Runs: in the main check the consumer drains every inner run before calling Next on the outer, as documented. A second check leaves inner runs undrained (0, 1, 2, all-but-one items read; a stream inner is not closed by the consumer) and advances the outer: the library skips the rest of the run itself - existing, intended behaviour of the code although the doc says the inner 'should' be drained - so run heads and run count must still be the reference's. Closing a stream inner early and then advancing is observed, not judged.")
		r.Assume("source position: directly over the library's own sources (iterator.Slice / Chan / Counter / Repeat, stream.FromIterator(iterator.Slice), stream.Chan - no probe in between) the source must have advanced by exactly min(need(j), len) items after j requests: fewer is impossible for an implementation that takes its items from the source, more is forbidden by the laziness clause. For streams the position is read from the underlying iterator / channel. Package iterator has no sole-user rule: Join(First(it,k), it), head/rest splits and paging loops with First / Chunk / While are judged against the documented sequence (While takes the failing item with it)")
		r.Assume("the value a source returns together with the end / an error is meaningless (Iterator doc): every int probe source returns changing non-zero garbage there; reference outputs never contain it. Outer sources of Flatten / FlattenSlices return a usable non-nil iterator / stream / a non-empty slice there")
		r.Assume("reducers are documented to consume: after Collect / Last / Reduce / Equal (all sequences equal, any arity incl. 1) over the library's own sources the source must be exhausted; One must have taken min(len,2)..len items; Equal with a first disagreement at p at least min(p,len) of each")
		r.Assume("32-bit variant (thorough, GOARCH=386): quick-sized workload plus, for 10 constructors / combinators that keep a counter, run to their end, 2^31+2^10 (Repeat: 2^32+2^10) further polls that must all report the end; on 64-bit builds a counter that keeps moving after the end cannot wrap within reach and is not observable")
		r.Assume("per-call contexts (streams): the source honours a cancelled context before consuming; a call made with it may fail with the context's error (then nothing is lost and a retry with a live context continues exactly) or answer normally from what is buffered; callbacks never fail. Reading the used combinator again after it was wrapped is checked for iterators only: package stream makes the wrapper the sole user of its argument")
		r.Assume("caller reuse: a variadic list (iterator.Join, stream.Join) belongs to the caller again once the constructor has returned; overwriting it (every cell and the spare capacity) with decoys, at once or after j requests, must not change what the result yields. iterator.Slice(s) is a view of s by design and is not checked this way")
		r.Assume("argument integrity: no operation of this property is documented to modify a slice it is handed; every slice argument (variadic source lists, item slices, slices of slices) is a sub-slice with spare capacity of a sentinel-guarded array that must be unchanged after every request. stream.FlattenSlices overwriting the items INSIDE a slice it has consumed is recorded, not judged")
		r.Assume("non-termination is decided by a call budget, not by time: callbacks and probe sources may be invoked at most 200*(n+16) times per run of one flavour over n items (legitimate runs need a few times n)")
		r.Assume("parameters inside the documented domain only: chunkSize >= 1, First/Last n >= 0, xslices.Repeat n >= 0")

		W := runtime.GOMAXPROCS(0)
		sp := allSeqs(maxLen)
		N := len(sp.seqs)

		r.Cases("regress", 1, 1, func(c *vkit.Case) { a := newAcc(c); regress(a); a.flush() })
		r.Cases("small/ctor", 1, 1, func(c *vkit.Case) { a := newAcc(c); smallCtor(a, -3, 9); a.flush() })
		r.Cases("small/ctor-sources", 1, 1, func(c *vkit.Case) { a := newAcc(c); ctorSources(a, scale(7, 8)); a.flush() })
		groups := []struct {
			name string
			fn   func(a *acc, sp *seqSpace, idx int, cfg smallCfg)
		}{
			{"small/chunk", smallChunk},
			{"small/runs", smallRuns},
			{"small/runs-preorder", smallRunsPreorder},
			{"small/filter", smallFilter},
			{"small/compact", smallCompact},
			{"small/first", smallFirst},
			{"small/while", smallWhile},
			{"small/map", smallMap},
			{"small/peek", smallPeek},
			{"small/convert", smallConvert},
			{"small/reducers", smallReducers},
			{"small/idioms", smallIdioms},
		}
		// Designated sample cases: the sequence [1 0 1 1 2] (chunk: 2nd non-trivial triple = chunkSize 2;
		// runs: 1st = "same digit"; filter: the 12th mask) and the cuts of [0 1 2 0].
		sampleSeq := sp.offset[5] + (((1*3+0)*3+1)*3+1)*3 + 2
		sampleCut := sp.offset[4] + ((0*3+1)*3+2)*3 + 0
		sampleAt := map[string]int{"small/chunk": 2, "small/runs": 1, "small/filter": 12}
		for _, g := range groups {
			g := g
			r.Cases(g.name, N, W, func(c *vkit.Case) {
				a := newAcc(c)
				if c.Index == sampleSeq {
					a.sampleAt = sampleAt[g.name]
				}
				g.fn(a, sp, c.Index, cfg)
				a.flush()
			})
		}
		r.Cases("small/cuts", sp.offset[cutLen+1], W, func(c *vkit.Case) {
			a := newAcc(c)
			if c.Index == sampleCut {
				a.sampleAt = 17
			}
			smallCuts(a, sp, c.Index, cutParts)
			a.flush()
		})
		r.Cases("small/equal", N, W, func(c *vkit.Case) { a := newAcc(c); smallEqual(a, sp, c.Index, pairLen); a.flush() })

		// Runs with the divisibility preorder on {1,2,3,4,6,12}: all sequences up to length 5 (thorough 6).
		divN := divCount(scale(5, 6))
		r.Cases("small/runs-divides", divN, W, func(c *vkit.Case) {
			a := newAcc(c)
			preorderRuns(a, divSeq(c.Index), classFn{"a divides b", divides})
			a.flush()
		})

		// Wrap after use (wrap.go): sequences up to length 5, every j.
		wrapN := sp.offset[6]
		r.Cases("small/wrap", wrapN, W, func(c *vkit.Case) { a := newAcc(c); wrapAfterUse(a, sp.seqs[c.Index]); a.flush() })

		// Per-call contexts for streams (ctxplan.go): sequences up to length 4 (thorough 5).
		ctxN := sp.offset[scale(4, 5)+1]
		r.Cases("small/ctx", ctxN, W, func(c *vkit.Case) { a := newAcc(c); ctxPlans(a, sp.seqs[c.Index]); a.flush() })

		// 32-bit int only: more than 2^31 polls after the end (wrap.go).
		if intIs32() && r.Thorough() {
			polls := pollScenarios()
			r.Cases("poll32", len(polls), W, func(c *vkit.Case) { a := newAcc(c); runPoll(a, polls[c.Index]); a.flush() })
			var ran int64
			for _, sc := range polls {
				ran += r.Table("32-bit: polls after the end (each scenario > 2^31)", sc.name)
			}
			r.Floor("32-bit post-end polling scenarios run", ran, int64(len(polls)))
		}

		// Long stretches of skipped input (long.go); a stack overflow here kills the process and is
		// reported by check.sh as a crash violation naming the scenario.
		longs := longScenarios(scale(20_000_000, 30_000_000), scale(20_000_000, 30_000_000), 1_000_000)
		r.Cases("long", len(longs), 1, func(c *vkit.Case) { a := newAcc(c); runLong(a, longs[c.Index]); a.flush() })

		nSingle := scale(150000, 600000)
		nPipe := scale(250000, 900000)
		// a short sequential prelude: the first non-trivial pipeline over a short input is the sample
		r.Cases("rand/pipe-short", 64, 1, func(c *vkit.Case) {
			a := newAcc(c)
			if r.WantSample() {
				a.sampleAt = 1
			}
			randPipeline(a, 10)
			a.flush()
		})
		r.Cases("rand/pipe", nPipe, W, func(c *vkit.Case) { a := newAcc(c); randPipeline(a, randLen); a.flush() })
		r.Cases("rand/single", nSingle, W, func(c *vkit.Case) { a := newAcc(c); randSingle(a, randLen); a.flush() })

		// Coverage floors (all reached deterministically from the enumeration / the seed).
		for _, op := range []string{"Slice", "Counter", "Repeat", "Chan", "Empty", "FromIterator", "WithPeek", "Chunk", "Compact", "CompactFunc",
			"Filter", "First", "Flatten", "FlattenSlices", "Join", "Map", "Runs", "While", "Collect", "Equal", "Last", "One", "Reduce"} {
			want := int64(N)
			switch op {
			case "Counter", "Repeat":
				want = 13
			case "Empty":
				want = 1
			case "Flatten", "FlattenSlices", "Join":
				want = int64(sp.offset[cutLen+1])
			}
			r.Floor("triples checked for "+op, r.Table("triples by operation", op), want)
		}
		var longRun int64
		for _, sc := range longs {
			longRun += r.Table("long-stretch scenarios (N skipped items between two real ones)", sc.name)
		}
		r.Floor("long-stretch scenarios run", longRun, int64(len(longs)))
		r.Floor("argument-integrity probes", r.Table("totals", "argument-integrity probes (caller's array incl. sentinels unchanged)"), int64(10*N))
		r.Floor("Runs checked with undrained inner runs", r.Table("Runs with undrained inner runs: items read of each run before the outer advances", "the first item"), int64(N))
		r.Floor("Join with the caller reusing its argument slice", r.Table("argument integrity", "iterator.Join: caller overwrites its argument slice with decoys after the call / after j requests")+
			r.Table("argument integrity", "stream.Join: caller overwrites its argument slice with decoys after the call / after j requests"), int64(4*sp.offset[nestedJoinLen+1]))
		r.Floor("nested Join scenarios over one shared array", r.Table("argument integrity", "iterator.Join nested: Join(Join(L[:m]...), trailer) then Join(L[m:]...)")+
			r.Table("argument integrity", "stream.Join nested: Join(Join(L[:m]...), trailer) then Join(L[m:]...)"), int64(2*sp.offset[nestedJoinLen+1]))
		r.Floor("source-position checks", r.Table("totals", "source-position checks (rest of the library's own source read after j requests)"), int64(100*N))
		r.Floor("idiom Join(First(it,k), it) over the library's own sources", r.Table("idioms over the library's own sources", "Join(First(it,k), it)"), int64(2*N))
		r.Floor("source-position over Counter / Repeat sources", r.Table("source-position: constructor-shaped sources used", "Counter / Repeat"), 500)
		r.Floor("per-call context plans", r.Table("triples by operation", "ctx-plan"), int64(100*ctxN))
		r.Floor("inner combinator read again after wrapping", r.Table("wrap after use", "inner combinator read again after the wrapper was used"), int64(20*wrapN))
		r.Floor("wrap-after-use triples", r.Table("triples by operation", "wrap-after-use"), int64(50*wrapN))
		r.Floor("random pipelines checked", r.Table("triples by operation", "pipeline"), int64(nPipe))
		r.Floor("Next calls after the end checked", r.Table("totals", "Next calls after the end checked"), int64(3*N))
		r.Floor("regression scenarios D1 (Last, n == 0)", r.Table("regression scenarios", "D1 iterator.Last / stream.Last with n == 0"), 3)
		r.Floor("regression scenarios: value returned with the end by an outer source", r.Table("regression scenarios", "outer source returns a usable value together with the end (Flatten, FlattenSlices)"), 3)
		r.Floor("Runs with non-symmetric preorders", r.Table("regression scenarios", "Runs with a non-symmetric preorder (neighbour rule, all three flavours)"), int64(2*N))
		r.Floor("regression scenarios D2 (xslices.Runs, leading run of length one)", r.Table("regression scenarios", "D2 Runs with a leading run of length one"), 3)
	})
}

// regress: named scenarios for the defects already fixed in /repo (DESIGN section 5), plus the one
// behaviour that is observed but deliberately not judged.
func regress(a *acc) {
	// D1: iterator.Last(it, 0) / stream.Last(ctx, s, 0) divided by zero, even on an empty source.
	for _, d := range [][]int{{}, {1}, {1, 2, 3}} {
		reducersOver(a, d, []int{0})
		a.count("regression scenarios", "D1 iterator.Last / stream.Last with n == 0", 1)
	}
	// D2: xslices.Runs lost a leading run of length one: Runs([1]) = [], Runs([1,2,2]) = [[] [2 2]].
	eq := func(x, y int) bool { return x == y }
	for _, d := range [][]int{{1}, {1, 2, 2}, {1, 2}, {1, 1, 2}} {
		runRuns(a, d, eq, "same: a == b", func(s []int) [][]int { return xslices.Runs(s, eq) })
		a.count("regression scenarios", "D2 Runs with a leading run of length one", 1)
	}

	regressGarbageOuter(a)

	// Observed, not judged: abandoning an inner run before it is drained ("The inner iterator should
	// be drained before calling Next on the outer iterator").
	src := []int{1, 1, 1, 2, 2}
	note := func(flavour, how string, first int, ok bool) {
		outcome := "next run starts at the next run (abandoned run was skipped)"
		if !ok {
			outcome = "outer reported the end"
		} else if first != 2 {
			outcome = fmt.Sprintf("next run starts mid-run (first item %d)", first)
		}
		a.count("observed, not judged: outer Next after abandoning a run early", flavour+", "+how+": "+outcome, 1)
	}
	eqG := guardEq(a, eq)
	a.arm(len(src))
	if pan := vkit.Try(func() {
		outer := iterator.Runs[int](newIterProbe(a, src), eqG)
		in1, _ := outer.Next()
		in1.Next()
		in2, ok := outer.Next()
		x := 0
		if ok {
			x, ok = in2.Next()
		}
		note("iterator", "one of three items read", x, ok)
	}); pan != nil {
		a.count("observed, not judged: outer Next after abandoning a run early", "iterator: "+panicKind(pan)+" "+pan.Msg, 1)
	}
	for _, closeEarly := range []bool{false, true} {
		how := "one of three items read, inner not closed"
		if closeEarly {
			how = "one of three items read, inner closed"
		}
		a.arm(len(src))
		if pan := vkit.Try(func() {
			outer := stream.Runs[int](newStreamProbe(a, "src", src), eqG)
			in1, _ := outer.Next(bg)
			in1.Next(bg)
			if closeEarly {
				in1.Close()
			}
			in2, err := outer.Next(bg)
			x, ok := 0, err == nil
			if ok {
				x, err = in2.Next(bg)
				ok = err == nil
			}
			note("stream", how, x, ok)
			outer.Close()
		}); pan != nil {
			a.count("observed, not judged: outer Next after abandoning a run early", "stream: "+panicKind(pan)+" "+pan.Msg, 1)
		}
	}
}

// outerWithGarbage is an outer source that, together with the end, returns a non-nil value (as a
// user-written iterator may: the contract calls that value meaningless).
type outerWithGarbage[T any] struct {
	items   []T
	garbage T
}

func (o *outerWithGarbage[T]) Next() (T, bool) {
	if len(o.items) == 0 {
		return o.garbage, false
	}
	x := o.items[0]
	o.items = o.items[1:]
	return x, true
}

// regressGarbageOuter (fixed in /repo by 5eb179a): Flatten / FlattenSlices kept the value their
// OUTER source returned together with the end and used it on the next call, so an item appeared
// after the end had been reported. Now judged: after the reported end every Next reports the end.
func regressGarbageOuter(a *acc) {
	try := func(pkg, op string, f func() (int, bool)) {
		if a.failed {
			return
		}
		a.evals++
		a.count("regression scenarios", "outer source returns a usable value together with the end (Flatten, FlattenSlices)", 1)
		var x int
		var ok bool
		pan := vkit.Try(func() { x, ok = f() })
		if pan != nil {
			a.fail(panicKind(pan), pkg, op, fmt.Sprintf("%s.%s over an outer source that returns a non-nil value together with the end: %s", pkg, op, panicMsg(pan)), nil)
		} else if ok {
			a.fail("end-unstuck", pkg, op, fmt.Sprintf("%s.%s over an empty outer source that returns a usable value together with the end: first Next reported the end, the next Next returned %d (an item of that meaningless value)", pkg, op, x), nil)
		}
	}
	try("iterator", "Flatten", func() (int, bool) {
		f := iterator.Flatten[int](&outerWithGarbage[iterator.Iterator[int]]{garbage: &garbageIter{id: 1}})
		f.Next()
		return f.Next()
	})
	try("stream", "Flatten", func() (int, bool) {
		f := stream.Flatten[int](&outerStreamWithGarbage{})
		f.Next(bg)
		x, err := f.Next(bg)
		return x, err == nil
	})
	try("stream", "FlattenSlices", func() (int, bool) {
		f := stream.FlattenSlices[int](&sliceStreamWithGarbage{})
		f.Next(bg)
		x, err := f.Next(bg)
		return x, err == nil
	})
}

// sliceStreamWithGarbage ends at once and returns a non-empty slice together with stream.End.
type sliceStreamWithGarbage struct{}

func (*sliceStreamWithGarbage) Next(context.Context) ([]int, error) { return []int{-777}, stream.End }
func (*sliceStreamWithGarbage) Close()                              {}

// outerStreamWithGarbage ends at once and returns a non-nil stream together with stream.End.
type outerStreamWithGarbage struct{}

func (*outerStreamWithGarbage) Next(context.Context) (stream.Stream[int], error) {
	return &garbageStream{id: 1}, stream.End
}
func (*outerStreamWithGarbage) Close() {}
