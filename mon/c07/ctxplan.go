package main

import (
	"context"
	"errors"
	"fmt"

	"github.com/bradenaw/juniper/iterator"
	"github.com/bradenaw/juniper/stream"

	"verif/vkit"
)

// Per-call contexts. One stream is driven with a plan of contexts: live, except that the calls
// whose ordinals are in the plan get an already-cancelled context (every single position, and two
// in a row). The source honours the context before consuming (vkit.ProbeStream.HonourCtx). A call
// made with the dead context may
//
//	fail with the context's error   - then nothing may have been lost: retrying with a live
//	                                  context continues the sequence exactly where it was;
//	or answer normally               - a combinator may serve a buffered item or its end without
//	                                  looking at the context; that answer then counts.
//
// Any other error, and any item lost, duplicated or out of order over the whole run, is a
// violation. Callbacks never fail (a failing callback is a different, fatal kind of fault: C08).

type ctxPlan struct {
	dead map[int]bool
	t    int
}

var cancelledCtx = func() context.Context {
	c, cancel := context.WithCancel(context.Background())
	cancel()
	return c
}()

// next returns the context of the next call and whether it is the dead one.
func (p *ctxPlan) next() (context.Context, bool) {
	d := p.dead[p.t]
	p.t++
	if d {
		return cancelledCtx, true
	}
	return bg, false
}

func plansFor(nCalls int) [][]int {
	var plans [][]int
	for p := 0; p < nCalls; p++ {
		plans = append(plans, []int{p}, []int{p, p + 1})
	}
	return plans
}

func planOf(calls []int) *ctxPlan {
	p := &ctxPlan{dead: map[int]bool{}}
	for _, c := range calls {
		p.dead[c] = true
	}
	return p
}

// isCtxErr: the error a dead-context call may fail with.
func isCtxErr(err error, dead bool) bool { return dead && errors.Is(err, context.Canceled) }

// ctxDrive drives next (one call per invocation, with the given context) against want: every
// successful call must deliver the next reference item, the end must come exactly after the last,
// and stick for three more calls.
func ctxDrive(a *acc, plan *ctxPlan, want []int, next func(ctx context.Context) (int, error)) string {
	pos, endsSeen := 0, 0
	for calls := 0; endsSeen < 4; calls++ {
		if calls > len(want)+8+len(plan.dead) {
			return "the stream does not make progress"
		}
		ctx, dead := plan.next()
		x, err := next(ctx)
		a.requests++
		how := fmt.Sprintf("call %d (%s context)", plan.t, map[bool]string{true: "cancelled", false: "live"}[dead])
		switch {
		case err == nil:
			if endsSeen > 0 {
				return fmt.Sprintf("%s returned %d after the end had been reported", how, x)
			}
			if pos >= len(want) {
				return fmt.Sprintf("%s returned %d, the reference %v has ended", how, x, want)
			}
			if x != want[pos] {
				return fmt.Sprintf("%s returned %d, the next reference item is %d (item %d of %v): an item was lost, repeated or reordered around a call that failed with the context's error", how, x, want[pos], pos, want)
			}
			pos++
		case err == stream.End:
			if pos < len(want) {
				return fmt.Sprintf("%s reported the end after %d of %d items %v", how, pos, len(want), want)
			}
			endsSeen++
		case isCtxErr(err, dead):
			// failed with the context's error: costs nothing, the next call continues
		default:
			return fmt.Sprintf("%s returned the unexpected error %v", how, err)
		}
	}
	return ""
}

func ctxStages(a *acc) []stage {
	st := wrapStages(a)
	st = append(st,
		stage{name: "Chunk(2)|FlattenSlices", ncomb: 2,
			ref: func(in []int) res[int] { return res[int]{out: in} },
			st:  func(s stream.Stream[int]) stream.Stream[int] { return stream.FlattenSlices(stream.Chunk(s, 2)) }},
		stage{name: "Chunk(2)|Map(FromIterator(Slice))|Flatten", ncomb: 3,
			ref: func(in []int) res[int] { return res[int]{out: in} },
			st: func(s stream.Stream[int]) stream.Stream[int] {
				return stream.Flatten(stream.Map(stream.Chunk(s, 2), func(_ context.Context, ch []int) (stream.Stream[int], error) {
					return stream.FromIterator(iterator.Slice(ch)), nil
				}))
			}},
		stage{name: "Join([2], _)", ncomb: 1,
			ref: func(in []int) res[int] { return res[int]{out: append([]int{2}, in...)} },
			st: func(s stream.Stream[int]) stream.Stream[int] {
				return stream.Join(stream.FromIterator(iterator.Slice([]int{2})), s)
			}},
	)
	return st
}

func ctxPlans(a *acc, src []int) {
	report := func(op, what, msg string, plan []int, pan *vkit.Panic) {
		sig := "ctx-retry"
		if pan != nil {
			sig, msg = panicKind(pan), panicMsg(pan)
		}
		a.fail(sig, "stream", op, fmt.Sprintf("stream %s over %v, calls %v (0-based) made with an already-cancelled context, all others live: %s", what, src, plan, msg),
			map[string]any{"source": src, "combinator": what, "cancelled_calls": plan})
	}
	mkProbe := func() *gProbeStream[int] {
		p := newStreamProbe(a, "src", src)
		p.HonourCtx = true
		return p
	}
	// one-output combinators
	for _, stg := range ctxStages(a) {
		want := stg.ref(src).out
		for _, plan := range plansFor(len(want) + 2) {
			if a.failed {
				return
			}
			a.evals++
			a.count("triples by operation", "ctx-plan", 1)
			msg := ""
			a.arm(len(src) + len(want))
			pan := vkit.Try(func() {
				w := stg.st(mkProbe())
				msg = ctxDrive(a, planOf(plan), want, w.Next)
				w.Close()
			})
			if pan != nil || msg != "" {
				report(stageKind(stg.name), stg.name, msg, plan, pan)
				return
			}
		}
	}
	// WithPeek driven directly: every Peek/Next pattern of length len+2, then drained
	n := len(src)
	l := n + 2
	for pat := 0; pat < 1<<uint(l); pat++ {
		for _, plan := range plansFor(l + 1) {
			if a.failed {
				return
			}
			a.evals++
			a.count("triples by operation", "ctx-plan", 1)
			msg := ""
			desc := ""
			a.arm(n + l)
			pan := vkit.Try(func() {
				pk := stream.WithPeek[int](mkProbe())
				pl := planOf(plan)
				c := 0
				for i := 0; i < l && msg == ""; i++ {
					isPeek := pat>>uint(i)&1 == 1
					name := map[bool]string{true: "Peek", false: "Next"}[isPeek]
					desc += name[:1]
					for tries := 0; ; tries++ { // a call that failed with the context's error is repeated
						ctx, dead := pl.next()
						var x int
						var err error
						if isPeek {
							x, err = pk.Peek(ctx)
						} else {
							x, err = pk.Next(ctx)
						}
						a.requests++
						if isCtxErr(err, dead) && tries < 4 {
							continue
						}
						switch {
						case err == nil && c < n && x == src[c]:
							if !isPeek {
								c++
							}
						case err == stream.End && c == n:
						default:
							msg = fmt.Sprintf("call %d, %s number %d of the pattern, with %d items consumed returned (%d, %v); reference: item %d of %v", pl.t, name, i+1, c, x, err, c, src)
						}
						break
					}
				}
				if msg == "" {
					msg = ctxDrive(a, pl, src[c:], pk.Next)
				}
				pk.Close()
			})
			if pan != nil || msg != "" {
				report("WithPeek", "WithPeek, calls "+desc+" (each repeated while it fails with the context's error), then drained", msg, plan, pan)
				return
			}
		}
	}
	// Runs driven directly: outer Next, the run's items, the run's end, ...; each step repeated while
	// it fails with the context's error
	for _, cl := range []classFn{{"same value", func(x, y int) bool { return x == y }}, {"same parity", func(x, y int) bool { return x%2 == y%2 }}} {
		runs := refRuns(src, cl.same)
		steps := 1
		for _, r := range runs {
			steps += len(r) + 2
		}
		for _, plan := range plansFor(steps + 1) {
			if a.failed {
				return
			}
			a.evals++
			a.count("triples by operation", "ctx-plan", 1)
			msg := ""
			a.arm(n)
			pan := vkit.Try(func() {
				outer := stream.Runs[int](mkProbe(), guardEq(a, cl.same))
				pl := planOf(plan)
				for r, run := range runs {
					var inner stream.Stream[int]
					for tries := 0; ; tries++ {
						ctx, dead := pl.next()
						in, err := outer.Next(ctx)
						a.requests++
						if isCtxErr(err, dead) && tries < 4 {
							continue
						}
						if err != nil {
							msg = fmt.Sprintf("call %d, outer Next %d, returned error %v; reference has %d runs %v", pl.t, r+1, err, len(runs), runs)
							return
						}
						inner = in
						break
					}
					if m := ctxDrive(a, pl, run, inner.Next); m != "" {
						msg = fmt.Sprintf("run %d (reference %v of runs %v): %s", r+1, run, runs, m)
						return
					}
					inner.Close()
				}
				for ends, tries := 0, 0; ends < 3; {
					ctx, dead := pl.next()
					_, err := outer.Next(ctx)
					a.requests++
					if isCtxErr(err, dead) && tries < 8 {
						tries++
						continue
					}
					if err != stream.End {
						msg = fmt.Sprintf("call %d: the outer stream returned (run, %v) after its %d reference runs %v", pl.t, err, len(runs), runs)
						return
					}
					ends++
				}
				outer.Close()
			})
			if pan != nil || msg != "" {
				report("Runs", "Runs("+cl.name+"), every run drained", msg, plan, pan)
				return
			}
		}
	}
}
