package main

import (
	"context"
	"fmt"
	"os"
	"slices"
	"strconv"

	"github.com/bradenaw/juniper/iterator"
	"github.com/bradenaw/juniper/stream"

	"verif/vkit"
)

// ---------------------------------------------------------------------------------------------
// Wrap after use. A combinator c over a probe source is USED first - j outputs are taken from it,
// for every j from 0 up to and past its end (so also: after its predicate failed, after its count
// ran out, after its source ended) - and only THEN wrapped in another combinator o (the same kind
// and other kinds) or handed to a reducer. The reference is o applied to what c would still yield,
// ref_c.out[j:] (nothing, for an ended c); the source may be pulled only as far as
// need_c(j + need_o(j')) for j' requests made of the wrapper.

func wrapStages(a *acc) []stage {
	pred := func(name string, f func(int) bool) valPred { return valPred{name, f} }
	parity := func(x, y int) bool { return x%2 == y%2 }
	sum := func(ch []int) int {
		t := 0
		for _, x := range ch {
			t += x
		}
		return t % 13
	}
	whileOf := func(p valPred) stage {
		return stage{"While(" + p.name + ")", 1,
			func(in []int) res[int] { return refWhile(in, p.f) },
			func(it iterator.Iterator[int]) iterator.Iterator[int] { return iterator.While(it, guardPred(a, p.f)) },
			func(s stream.Stream[int]) stream.Stream[int] { return stream.While(s, ctxPred(guardPred(a, p.f))) }}
	}
	firstOf := func(k int) stage {
		return stage{fmt.Sprintf("First(%d)", k), 1,
			func(in []int) res[int] { return refFirst(in, k) },
			func(it iterator.Iterator[int]) iterator.Iterator[int] { return iterator.First(it, k) },
			func(s stream.Stream[int]) stream.Stream[int] { return stream.First(s, k) }}
	}
	filterOf := func(p valPred) stage {
		return stage{"Filter(" + p.name + ")", 1,
			func(in []int) res[int] { return refFilter(in, p.f) },
			func(it iterator.Iterator[int]) iterator.Iterator[int] { return iterator.Filter(it, guardPred(a, p.f)) },
			func(s stream.Stream[int]) stream.Stream[int] { return stream.Filter(s, ctxPred(guardPred(a, p.f))) }}
	}
	chunkSum := func(c int) stage {
		return stage{fmt.Sprintf("Chunk(%d)|Map(sum%%13)", c), 2,
			func(in []int) res[int] {
				ch := refChunk(in, c)
				out := make([]int, len(ch.out))
				for i := range ch.out {
					out[i] = sum(ch.out[i])
				}
				return res[int]{out: out, need: ch.need}
			},
			func(it iterator.Iterator[int]) iterator.Iterator[int] {
				return iterator.Map(iterator.Chunk(it, c), sum)
			},
			func(s stream.Stream[int]) stream.Stream[int] {
				return stream.Map(stream.Chunk(s, c), func(_ context.Context, ch []int) (int, error) { return sum(ch), nil })
			}}
	}
	joinAfter := func(extra []int) stage {
		return stage{fmt.Sprintf("Join(_, %v)", extra), 1,
			func(in []int) res[int] {
				n := len(in)
				r := res[int]{out: append(slices.Clone(in), extra...), need: make([]int, n+len(extra)+2)}
				for j := range r.need {
					r.need[j] = min(j, n+1)
				}
				return r
			},
			func(it iterator.Iterator[int]) iterator.Iterator[int] {
				return iterator.Join(it, iterator.Slice(extra))
			},
			func(s stream.Stream[int]) stream.Stream[int] {
				return stream.Join(s, stream.FromIterator(iterator.Slice(extra)))
			}}
	}
	return []stage{
		whileOf(pred("x != 1", func(x int) bool { return x != 1 })),
		whileOf(pred("x != 2", func(x int) bool { return x != 2 })),
		firstOf(1),
		firstOf(2),
		filterOf(pred("x != 0", func(x int) bool { return x != 0 })),
		chunkSum(2),
		{"Compact", 1,
			func(in []int) res[int] { return refCompact(in, eqInt) },
			func(it iterator.Iterator[int]) iterator.Iterator[int] { return iterator.Compact(it) },
			func(s stream.Stream[int]) stream.Stream[int] { return stream.Compact(s) }},
		// the first seven are also used as the wrapper; the rest only as the used combinator
		whileOf(pred("x != 0", func(x int) bool { return x != 0 })),
		firstOf(3),
		{"CompactFunc(same parity)", 1,
			func(in []int) res[int] { return refCompact(in, parity) },
			func(it iterator.Iterator[int]) iterator.Iterator[int] {
				return iterator.CompactFunc(it, guardEq(a, parity))
			},
			func(s stream.Stream[int]) stream.Stream[int] { return stream.CompactFunc(s, guardEq(a, parity)) }},
		{"Runs(same parity)|Flatten", 2,
			func(in []int) res[int] { return res[int]{out: in, need: needIdentity(len(in))} },
			func(it iterator.Iterator[int]) iterator.Iterator[int] {
				return iterator.Flatten(iterator.Runs(it, guardEq(a, parity)))
			},
			func(s stream.Stream[int]) stream.Stream[int] {
				return stream.Flatten(stream.Runs(s, guardEq(a, parity)))
			}},
		{"WithPeek", 1,
			func(in []int) res[int] { return res[int]{out: in, need: needIdentity(len(in))} },
			func(it iterator.Iterator[int]) iterator.Iterator[int] { return iterator.WithPeek(it) },
			func(s stream.Stream[int]) stream.Stream[int] { return stream.WithPeek(s) }},
		joinAfter([]int{1, 0}),
		{"Map(x+1 mod 3)", 1,
			func(in []int) res[int] { return refMap(in, func(x int) int { return (x + 1) % 3 }) },
			func(it iterator.Iterator[int]) iterator.Iterator[int] {
				return iterator.Map(it, func(x int) int { return (x + 1) % 3 })
			},
			func(s stream.Stream[int]) stream.Stream[int] {
				return stream.Map(s, func(_ context.Context, x int) (int, error) { return (x + 1) % 3, nil })
			}},
	}
}

const wrapOuterStages = 7 // wrapStages()[:7] serve as the wrapper, too

func wrapAfterUse(a *acc, src []int) {
	stages := wrapStages(a)
	n := len(src)
	for i1, used := range stages {
		ref1 := used.ref(src)
		l1 := len(ref1.out)
		for j := 0; j <= l1+2; j++ {
			taken := min(j, l1)
			remaining := ref1.out[taken:]
			base := ref1.need[min(j, l1+1)]
			for i2, wrapper := range stages[:wrapOuterStages] {
				if a.failed {
					return
				}
				// same kind always; other kinds: a spread that depends on (i1, j)
				if stageKind(wrapper.name) != stageKind(used.name) && (i1+i2+j)%2 == 1 {
					continue
				}
				ref2 := wrapper.ref(remaining)
				need := make([]int, len(ref2.need))
				for k := range need {
					need[k] = ref1.need[min(j+ref2.need[k], l1+1)] - base
				}
				what := fmt.Sprintf("%s used for %d request(s) (it has %d outputs), then wrapped in %s", used.name, j, l1, wrapper.name)
				s := &single[int]{op: "wrap-after-use", param: what, src: src, ref: res[int]{out: ref2.out, need: need}, same: eqInt,
					nontrivial: n > 0 && j > 0, note: "need counts source pulls made after the wrapping"}
				// use: take j outputs from c and check them
				use := func(next func() (int, bool)) {
					for i := 1; i <= j; i++ {
						x, ok := next()
						if i <= l1 && (!ok || x != ref1.out[i-1]) {
							panic(fmt.Sprintf("while using %s: request %d returned (%d, %v), reference %d", used.name, i, x, ok, ref1.out[i-1]))
						}
						if i > l1 && ok {
							panic(fmt.Sprintf("while using %s: request %d returned %d after its end", used.name, i, x))
						}
					}
				}
				fl := []flavourMk[int]{
					{"iterator", func() handle[int] {
						p := newIterProbe(a, src)
						c := used.it(p)
						use(c.Next)
						w := wrapper.it(c)
						return handle[int]{next: w.Next, pulls: func() int { return max(0, capPulls(p.Pulls.Load(), n)-base) }, close: func() {}}
					}},
					{"stream", func() handle[int] {
						p := newStreamProbe(a, "src", src)
						c := used.st(p)
						use(streamNext(c))
						w := wrapper.st(c)
						return handle[int]{next: streamNext(w), pulls: func() int { return max(0, capPulls(p.Calls.Load(), n)-base) }, close: w.Close}
					}},
				}
				runFlavours(a, s, fl)
			}
			// ... and then the USED combinator is read again: what w took from c counts against c
			for i2, wrapper := range stages[:wrapOuterStages] {
				if stageKind(wrapper.name) != stageKind(used.name) && (i1+i2+j)%2 == 1 {
					continue
				}
				ref2 := wrapper.ref(remaining)
				for _, m := range []int{0, 1, len(ref2.out) + 1} {
					if a.failed {
						return
					}
					if m == 1 && len(ref2.out) == 0 {
						continue
					}
					readInnerAgain(a, src, used, wrapper, ref1, ref2, j, m, (i1+i2+j+m)%2 == 0)
				}
			}
			// ... or handed to a reducer
			if a.failed {
				return
			}
			a.reduce("iterator", "Collect", fmt.Sprintf("of %s after %d request(s)", used.name, j), src, false, normal(remaining), func() any {
				c := used.it(newIterProbe(a, src))
				for i := 0; i < j; i++ {
					c.Next()
				}
				return normal(iterator.Collect(c))
			})
			a.reduce("stream", "Collect", fmt.Sprintf("of %s after %d request(s)", used.name, j), src, false, fmt.Sprint(normal(remaining), " <nil>"), func() any {
				c := used.st(newStreamProbe(a, "src", src))
				for i := 0; i < j; i++ {
					c.Next(bg)
				}
				out, err := stream.Collect(bg, c)
				return fmt.Sprint(normal(out), " ", err)
			})
		}
	}
}

// ---------------------------------------------------------------------------------------------
// 32-bit only: polling an ended iterator more than 2^31 times. A counter that keeps moving after
// the end wraps around on a 32-bit int and the iterator comes back to life. Every poll must keep
// reporting the end. Tight loops: nothing per poll but the call and the test.

type pollScenario struct {
	name  string
	polls uint64
	iter  func() iterator.Iterator[int] // one of iter / strm
	strm  func() stream.Stream[int]
}

// pollScenarios: the constructors and combinators that keep a counter of their own (wrappers
// without one only pass the poll on to their source), each run to its end first.
func pollScenarios() []pollScenario {
	const p31 = uint64(1)<<31 + 1<<10
	const p32 = uint64(1)<<32 + 1<<10
	three := func() iterator.Iterator[int] { return iterator.Slice([]int{1, 2, 3}) }
	it := func(name string, polls uint64, mk func() iterator.Iterator[int]) pollScenario {
		return pollScenario{name: name, polls: polls, iter: mk}
	}
	st := func(name string, polls uint64, mk func() stream.Stream[int]) pollScenario {
		return pollScenario{name: name, polls: polls, strm: mk}
	}
	return []pollScenario{
		it("iterator.Repeat(7, 3)", p32, func() iterator.Iterator[int] { return iterator.Repeat(7, 3) }),
		it("iterator.Repeat(7, 0)", p31, func() iterator.Iterator[int] { return iterator.Repeat(7, 0) }),
		it("iterator.Counter(3)", p31, func() iterator.Iterator[int] { return iterator.Counter(3) }),
		it("iterator.First(Repeat(7, 10), 3) (ended by its count)", p31, func() iterator.Iterator[int] { return iterator.First(iterator.Repeat(7, 10), 3) }),
		it("iterator.First(Slice([1 2 3]), 10) (ended by its source)", p31, func() iterator.Iterator[int] { return iterator.First(three(), 10) }),
		it("iterator.Chunk(Slice([1 2 3]), 2) mapped to its length", p31, func() iterator.Iterator[int] {
			return iterator.Map(iterator.Chunk(three(), 2), func(c []int) int { return len(c) })
		}),
		it("iterator.While(Slice([1 2 3]), x < 2) (ended by its predicate)", p31, func() iterator.Iterator[int] {
			return iterator.While(three(), func(x int) bool { return x < 2 })
		}),
		it("iterator.Join(Repeat(7, 2), Counter(2))", p31, func() iterator.Iterator[int] {
			return iterator.Join(iterator.Repeat(7, 2), iterator.Counter(2))
		}),
		st("stream.First(FromIterator(Repeat(7, 10)), 3)", p31, func() stream.Stream[int] {
			return stream.First(stream.FromIterator(iterator.Repeat(7, 10)), 3)
		}),
		st("stream.Chunk(FromIterator(Counter(3)), 2) mapped to its length", p31, func() stream.Stream[int] {
			return stream.Map(stream.Chunk(stream.FromIterator(iterator.Counter(3)), 2), func(_ context.Context, c []int) (int, error) { return len(c), nil })
		}),
	}
}

func intIs32() bool { return strconv.IntSize == 32 }

func runPoll(a *acc, sc pollScenario) {
	fmt.Fprintf(os.Stderr, "post-end polling scenario starting: %s, %d polls\n", sc.name, sc.polls)
	a.evals++
	a.count("32-bit: polls after the end (each scenario > 2^31)", sc.name, 1)
	var alive uint64
	found := false
	// blocks of 2^20 polls with a 32-bit inner counter: nothing per poll but the call and the test
	const block = 1 << 20
	pan := vkit.Try(func() {
		if sc.iter != nil {
			it := sc.iter()
			for {
				if _, ok := it.Next(); !ok {
					break
				}
			}
			for done := uint64(0); done < sc.polls; done += block {
				for i := uint32(0); i < block; i++ {
					if _, ok := it.Next(); ok {
						alive, found = done+uint64(i)+1, true
						return
					}
				}
			}
			return
		}
		s := sc.strm()
		for {
			if _, err := s.Next(bg); err != nil {
				break
			}
		}
		for done := uint64(0); done < sc.polls; done += block {
			for i := uint32(0); i < block; i++ {
				if _, err := s.Next(bg); err == nil {
					alive, found = done+uint64(i)+1, true
					return
				}
			}
		}
	})
	if pan != nil {
		a.fail("panic", "poll", "after-end", fmt.Sprintf("%s polled after its end: %s", sc.name, panicMsg(pan)), nil)
	} else if found {
		a.fail("end-unstuck", "poll", "after-end", fmt.Sprintf("%s (32-bit int): poll %d after the end was reported returned an item again", sc.name, alive),
			map[string]any{"scenario": sc.name, "poll": alive})
	}
	a.endRe += int(min(sc.polls, 1<<30))
	fmt.Fprintf(os.Stderr, "post-end polling scenario finished: %s\n", sc.name)
}

// readInnerAgain (iterator flavour only: package stream makes the wrapper the sole user of what it
// is given, package iterator has no such rule and handles are commonly kept): c is used for j
// requests, wrapped in w, w is asked m times, then c ITSELF is drained. Everything w pulled went
// through c, so c must now yield exactly its reference output minus what it has handed out so far
// (directly and through w), and in the end the shared source must be where c's reference leaves it.
func readInnerAgain(a *acc, src []int, used, wrapper stage, ref1, ref2 res[int], j, m int, librarySource bool) {
	a.evals++
	a.count("triples by operation", "wrap-after-use", 1)
	a.count("wrap after use", "inner combinator read again after the wrapper was used", 1)
	l1, n := len(ref1.out), len(src)
	taken := min(j, l1)
	remaining := ref1.out[taken:]
	throughW := min(ref2.need[min(m, len(ref2.out)+1)], len(remaining)) // items of c handed to w
	wantRest := remaining[throughW:]
	wantLost := min(ref1.need[l1+1], n) // after c has been drained to its end
	kind, msg := "inner-reread", ""
	a.arm(n + l1)
	pan := vkit.Try(func() {
		var source iterator.Iterator[int]
		var lostNow func() int
		if librarySource {
			it, rest := iterSrcKinds[0].mk(src)
			source, lostNow = it, func() int { return n - len(rest()) }
		} else {
			p := newIterProbe(a, src)
			source, lostNow = p, func() int { return p.Pos() }
		}
		c := used.it(source)
		for i := 0; i < j; i++ {
			c.Next()
		}
		w := wrapper.it(c)
		for i := 1; i <= m; i++ {
			x, ok := w.Next()
			if i <= len(ref2.out) && (!ok || x != ref2.out[i-1]) {
				msg = fmt.Sprintf("the wrapper's request %d returned (%d, %v), reference %d", i, x, ok, ref2.out[i-1])
				return
			}
			if i > len(ref2.out) && ok {
				msg = fmt.Sprintf("the wrapper's request %d returned %d after its reference end", i, x)
				return
			}
		}
		got := drainIter(c, l1+2)
		if !slices.Equal(got, wantRest) {
			msg = fmt.Sprintf("read again afterwards, %s yields %v; it has %d outputs %v, handed out %d directly and %d through the wrapper, so %v remain",
				used.name, got, l1, ref1.out, taken, throughW, wantRest)
			return
		}
		if lost := lostNow(); lost != wantLost {
			msg = fmt.Sprintf("after everything was drained the source has lost %d item(s), the reference of %s implies %d", lost, used.name, wantLost)
		}
	})
	if pan != nil {
		kind, msg = panicKind(pan), panicMsg(pan)
	}
	if msg != "" {
		a.fail(kind, "iterator", "wrap-after-use", fmt.Sprintf("iterator: c = %s over %v used for %d request(s), w = %s(c) asked %d time(s), then c read again: %s", used.name, src, j, wrapper.name, m, msg),
			map[string]any{"source": src, "used": used.name, "wrapper": wrapper.name, "requests_of_c_before": j, "requests_of_w": m})
	}
}
