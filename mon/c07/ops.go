package main

import (
	"context"
	"fmt"
	"slices"

	"github.com/bradenaw/juniper/iterator"
	"github.com/bradenaw/juniper/stream"
	"github.com/bradenaw/juniper/xslices"
)

// One function per single-source combinator: builds the reference and runs every flavour that
// exists (package iterator, package stream, and the xslices function of the same name).

func doFilter(a *acc, src []int, keep func(int) bool, param, note string) {
	ref := refFilter(src, keep)
	keep = guardPred(a, keep)
	runSingle(a, &single[int]{op: "Filter", param: param, src: src, ref: ref, same: eqInt, note: note,
		iter: func(it iterator.Iterator[int]) iterator.Iterator[int] { return iterator.Filter(it, keep) },
		strm: func(s stream.Stream[int]) stream.Stream[int] {
			return stream.Filter(s, func(_ context.Context, x int) (bool, error) { return keep(x), nil })
		},
		slc:        func(s []int) []int { return xslices.Filter(s, keep) },
		nontrivial: len(src) > 0 && len(ref.out) != len(src),
	})
}

func doWhile(a *acc, src []int, f func(int) bool, param, note string) {
	ref := refWhile(src, f)
	f = guardPred(a, f)
	runSingle(a, &single[int]{op: "While", param: param, src: src, ref: ref, same: eqInt, note: note,
		iter: func(it iterator.Iterator[int]) iterator.Iterator[int] { return iterator.While(it, f) },
		strm: func(s stream.Stream[int]) stream.Stream[int] {
			return stream.While(s, func(_ context.Context, x int) (bool, error) { return f(x), nil })
		},
		nontrivial: len(src) > 0 && len(ref.out) != len(src),
	})
}

func doMap(a *acc, src []int, note string) {
	f0 := func(x int) int { return x*3 + 1 }
	f := func(x int) int { a.tick(); return f0(x) }
	runSingle(a, &single[int]{op: "Map", param: "f(x)=3x+1", src: src, ref: refMap(src, f0), same: eqInt, note: note,
		iter: func(it iterator.Iterator[int]) iterator.Iterator[int] { return iterator.Map(it, f) },
		strm: func(s stream.Stream[int]) stream.Stream[int] {
			return stream.Map(s, func(_ context.Context, x int) (int, error) { return f(x), nil })
		},
		slc:        func(s []int) []int { return xslices.Map(s, f) },
		nontrivial: len(src) > 0,
	})
	// a conversion to another type
	g0 := func(x int) string { return fmt.Sprintf("<%d>", x&3) }
	g := func(x int) string { a.tick(); return g0(x) }
	runSingle(a, &single[string]{op: "Map", param: "g(x)=\"<x&3>\"", src: src, ref: refMap(src, g0), same: func(x, y string) bool { return x == y }, note: note,
		iter: func(it iterator.Iterator[int]) iterator.Iterator[string] { return iterator.Map(it, g) },
		strm: func(s stream.Stream[int]) stream.Stream[string] {
			return stream.Map(s, func(_ context.Context, x int) (string, error) { return g(x), nil })
		},
		slc:        func(s []int) []string { return xslices.Map(s, g) },
		nontrivial: len(src) > 0,
	})
}

func doCompact(a *acc, src []int) {
	ref := refCompact(src, eqInt)
	runSingle(a, &single[int]{op: "Compact", param: "==", src: src, ref: ref, same: eqInt,
		iter:       func(it iterator.Iterator[int]) iterator.Iterator[int] { return iterator.Compact(it) },
		strm:       func(s stream.Stream[int]) stream.Stream[int] { return stream.Compact(s) },
		slc:        func(s []int) []int { return xslices.Compact(s) },
		nontrivial: len(src) > 0 && len(ref.out) != len(src),
	})
}

func doCompactFunc(a *acc, src []int, eq func(a, b int) bool, param, note string) {
	ref := refCompact(src, eq)
	eq = guardEq(a, eq)
	runSingle(a, &single[int]{op: "CompactFunc", param: param, src: src, ref: ref, same: eqInt, note: note,
		iter:       func(it iterator.Iterator[int]) iterator.Iterator[int] { return iterator.CompactFunc(it, eq) },
		strm:       func(s stream.Stream[int]) stream.Stream[int] { return stream.CompactFunc(s, eq) },
		slc:        func(s []int) []int { return xslices.CompactFunc(s, eq) },
		nontrivial: len(src) > 0 && len(ref.out) != len(src),
	})
}

func doFirst(a *acc, src []int, k int, note string) {
	ref := refFirst(src, k)
	runSingle(a, &single[int]{op: "First", param: fmt.Sprintf("n=%d", k), src: src, ref: ref, same: eqInt, note: note,
		iter:       func(it iterator.Iterator[int]) iterator.Iterator[int] { return iterator.First(it, k) },
		strm:       func(s stream.Stream[int]) stream.Stream[int] { return stream.First(s, k) },
		nontrivial: len(src) > 0 && len(ref.out) != len(src),
	})
}

func eqSlice(x, y []int) bool { return slices.Equal(x, y) }

func doChunk(a *acc, src []int, c int, note string) {
	ref := refChunk(src, c)
	runSingle(a, &single[[]int]{op: "Chunk", param: fmt.Sprintf("chunkSize=%d", c), src: src, ref: ref, same: eqSlice, note: note,
		iter:       func(it iterator.Iterator[int]) iterator.Iterator[[]int] { return iterator.Chunk(it, c) },
		strm:       func(s stream.Stream[int]) stream.Stream[[]int] { return stream.Chunk(s, c) },
		slc:        func(s []int) [][]int { return xslices.Chunk(s, c) },
		nontrivial: len(ref.out) > 1, // more than one chunk: the output is not just the input wrapped once
	})
}
