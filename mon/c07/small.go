package main

import (
	"fmt"
	"slices"

	"github.com/bradenaw/juniper/iterator"
	"github.com/bradenaw/juniper/stream"
	"github.com/bradenaw/juniper/xslices"

	"verif/vkit"
)

// ---------------------------------------------------------------------------------------------
// The small scope: all sequences over {0,1,2} up to a length bound.
//
// Where an operation takes a predicate or an equivalence, the items are position-tagged
// (item = position<<2 | digit) so that (a) a predicate can realise every outcome mask by position
// and (b) "which representative was kept" is visible. digit() / posOf() undo the tagging.

type seqSpace struct {
	seqs   [][]int
	offset []int // offset[n] = index of the first sequence of length n; offset[maxLen+1] = len(seqs)
}

func allSeqs(maxLen int) *seqSpace {
	sp := &seqSpace{}
	for n := 0; n <= maxLen; n++ {
		sp.offset = append(sp.offset, len(sp.seqs))
		total := 1
		for i := 0; i < n; i++ {
			total *= 3
		}
		for v := 0; v < total; v++ {
			s := make([]int, n)
			x := v
			for i := n - 1; i >= 0; i-- {
				s[i] = x % 3
				x /= 3
			}
			sp.seqs = append(sp.seqs, s)
		}
	}
	sp.offset = append(sp.offset, len(sp.seqs))
	return sp
}

func (sp *seqSpace) within(idx int) int { return idx - sp.offset[len(sp.seqs[idx])] }

func tagged(d []int) []int {
	t := make([]int, len(d))
	for i, x := range d {
		t[i] = i<<2 | x
	}
	return t
}
func digit(x int) int { return x & 3 }
func posOf(x int) int { return x >> 2 }

const tagNote = "items are position-tagged: item = position<<2 | digit"

type classFn struct {
	name string
	same func(a, b int) bool
}

// Equivalence relations on tagged items.
var classes = []classFn{
	{"same digit", func(a, b int) bool { return digit(a) == digit(b) }},
	{"same digit%2", func(a, b int) bool { return digit(a)%2 == digit(b)%2 }},
	{"same digit/2", func(a, b int) bool { return digit(a)/2 == digit(b)/2 }},
	{"always", func(a, b int) bool { return true }},
	{"identical", func(a, b int) bool { return a == b }},
}

type smallCfg struct {
	fullMaskLen int // sequences up to this length get every predicate mask
	peekLen     int // WithPeek call patterns have length min(n+2, peekLen)
}

// masksFor: every mask by position when the product stays small; for longer sequences every mask
// for the first four sequences of that length (a by-position predicate cannot see the digits) and a
// fixed family of masks for all the others.
func masksFor(n, within int, cfg smallCfg) []uint {
	all := uint(1)<<uint(n) - 1
	if n <= cfg.fullMaskLen || within < 4 {
		out := make([]uint, 0, all+1)
		for m := uint(0); m <= all; m++ {
			out = append(out, m)
		}
		return out
	}
	alt := uint(0)
	for i := 0; i < n; i += 2 {
		alt |= 1 << uint(i)
	}
	h := uint(vkit.Hash64(fmt.Sprint("mask", n, within)))
	out := []uint{all, 0, alt, all &^ alt, all &^ 1, all &^ (1 << uint(n-1)), 1, 1 << uint(n-1), h & all, (h >> 16) & all}
	slices.Sort(out)
	return slices.Compact(out)
}

func maskPred(mask uint) func(int) bool {
	return func(x int) bool { return mask>>uint(posOf(x))&1 == 1 }
}

func smallFilter(a *acc, sp *seqSpace, idx int, cfg smallCfg) {
	d := sp.seqs[idx]
	t, n := tagged(d), len(d)
	for _, mask := range masksFor(n, sp.within(idx), cfg) {
		doFilter(a, t, maskPred(mask), fmt.Sprintf("keep mask by position (bit i = item i) %0*b", n, mask), tagNote)
	}
}

func smallWhile(a *acc, sp *seqSpace, idx int, cfg smallCfg) {
	d := sp.seqs[idx]
	t, n := tagged(d), len(d)
	for _, mask := range masksFor(n, sp.within(idx), cfg) {
		doWhile(a, t, maskPred(mask), fmt.Sprintf("f mask by position (bit i = item i) %0*b", n, mask), tagNote)
	}
}

func smallMap(a *acc, sp *seqSpace, idx int, cfg smallCfg) {
	doMap(a, tagged(sp.seqs[idx]), tagNote)
}

func smallCompact(a *acc, sp *seqSpace, idx int, cfg smallCfg) {
	d := sp.seqs[idx]
	doCompact(a, d)
	t := tagged(d)
	for _, cl := range classes {
		doCompactFunc(a, t, cl.same, "eq = "+cl.name, tagNote)
	}
}

func smallFirst(a *acc, sp *seqSpace, idx int, cfg smallCfg) {
	t := tagged(sp.seqs[idx])
	for k := 0; k <= len(t)+1; k++ {
		doFirst(a, t, k, tagNote)
	}
}

func smallChunk(a *acc, sp *seqSpace, idx int, cfg smallCfg) {
	t := tagged(sp.seqs[idx])
	for c := 1; c <= len(t)+1; c++ {
		doChunk(a, t, c, tagNote)
	}
}

func smallRuns(a *acc, sp *seqSpace, idx int, cfg smallCfg) {
	d := sp.seqs[idx]
	t := tagged(d)
	for _, cl := range classes {
		same := cl.same
		runRuns(a, t, same, "same = "+cl.name, func(s []int) [][]int { return xslices.Runs(s, same) })
		for _, pol := range takePolicies {
			runRunsPartial(a, t, same, "same = "+cl.name, pol)
		}
		runsPosition(a, t, same, "same = "+cl.name)
	}
}

func smallPeek(a *acc, sp *seqSpace, idx int, cfg smallCfg) {
	d := sp.seqs[idx]
	l := len(d) + 2
	if l > cfg.peekLen {
		l = cfg.peekLen
	}
	ops := make([]bool, l)
	buf := make([]byte, l)
	for pat := 0; pat < 1<<uint(l); pat++ {
		for i := range ops {
			ops[i] = pat>>uint(i)&1 == 1
			buf[i] = 'N'
			if ops[i] {
				buf[i] = 'P'
			}
		}
		runPeek(a, d, ops, string(buf))
		peekPosition(a, d, ops, string(buf))
	}
}

// smallConvert: Slice, Chan, FromIterator over one sequence.
func smallConvert(a *acc, sp *seqSpace, idx int, cfg smallCfg) {
	d := sp.seqs[idx]
	n := len(d)
	zero := make([]int, n+2)
	noPulls := func() int { return 0 }
	gd, chkD, _ := guardInts(d) // the slice handed to Slice is a sub-slice with spare capacity
	runFlavours(a, &single[int]{op: "Slice", param: "-", src: d, ref: res[int]{out: d, need: zero}, same: eqInt},
		[]flavourMk[int]{{"iterator", func() handle[int] {
			return handle[int]{next: iterator.Slice(gd).Next, pulls: noPulls, close: func() {}}
		}}})
	a.integ++
	if msg := chkD(); msg != "" {
		a.fail("argument-modified", "iterator", "Slice", fmt.Sprintf("iterator.Slice over %v (a sub-slice with spare capacity), fully consumed: %s", brief(d), msg), map[string]any{"source": d})
	}
	// Chan: "pulls" = values received from the channel so far.
	mkChan := func() (chan int, func() int) {
		c := make(chan int, n+1)
		for _, x := range d {
			c <- x
		}
		close(c)
		return c, func() int { return n - len(c) }
	}
	runFlavours(a, &single[int]{op: "Chan", param: "buffered, closed", src: d, ref: res[int]{out: d, need: needIdentity(n)}, same: eqInt,
		note: "pulls = values received from the channel"},
		[]flavourMk[int]{
			{"iterator", func() handle[int] {
				c, recv := mkChan()
				return handle[int]{next: iterator.Chan[int](c).Next, pulls: recv, close: func() {}}
			}},
			{"stream", func() handle[int] {
				c, recv := mkChan()
				s := stream.Chan[int](c)
				return handle[int]{next: streamNext(s), pulls: recv, close: s.Close}
			}},
		})
	runFlavours(a, &single[int]{op: "FromIterator", param: "-", src: d, ref: res[int]{out: d, need: needIdentity(n)}, same: eqInt},
		[]flavourMk[int]{{"stream", func() handle[int] {
			p := newIterProbe(a, d)
			s := stream.FromIterator[int](p)
			return handle[int]{next: streamNext(s), pulls: func() int { return capPulls(p.Pulls.Load(), n) }, close: s.Close}
		}}})
}

// smallCtor: Counter, Repeat, Empty (no input sequence).
func smallCtor(a *acc, minN, maxN int) {
	noPulls := func() int { return 0 }
	for n := minN; n <= maxN; n++ {
		n := n
		want := refCounter(n)
		s := &single[int]{op: "Counter", param: fmt.Sprintf("n=%d", n), ref: res[int]{out: want, need: make([]int, len(want)+2)}, same: eqInt, nontrivial: n > 0}
		runFlavours(a, s, []flavourMk[int]{{"iterator", func() handle[int] {
			return handle[int]{next: iterator.Counter(n).Next, pulls: noPulls, close: func() {}}
		}}})
		for _, item := range []int{0, 7} {
			item := item
			want := refRepeat(item, n)
			s := &single[int]{op: "Repeat", param: fmt.Sprintf("item=%d n=%d", item, n), ref: res[int]{out: want, need: make([]int, len(want)+2)}, same: eqInt, nontrivial: n > 0}
			if n >= 0 {
				// xslices.Repeat "returns a slice with length n": only defined for n >= 0
				s.slc = func([]int) []int { return xslices.Repeat(item, n) }
			}
			runFlavours(a, s, []flavourMk[int]{{"iterator", func() handle[int] {
				return handle[int]{next: iterator.Repeat(item, n).Next, pulls: noPulls, close: func() {}}
			}}})
		}
	}
	runFlavours(a, &single[int]{op: "Empty", param: "-", ref: res[int]{need: []int{0, 0}}, same: eqInt},
		[]flavourMk[int]{
			{"iterator", func() handle[int] {
				return handle[int]{next: iterator.Empty[int]().Next, pulls: noPulls, close: func() {}}
			}},
			{"stream", func() handle[int] {
				s := stream.Empty[int]()
				return handle[int]{next: streamNext(s), pulls: noPulls, close: s.Close}
			}},
		})
}

// ---------------------------------------------------------------------------------------------
// Reducers: value only.

func (a *acc) reducerFail(flavour, op, param string, src any, got, want any) {
	a.fail("value", flavour, op, fmt.Sprintf("%s.%s(%s) over %v returned %v, reference %v", flavour, op, param, src, got, want),
		map[string]any{"source": src, "param": param, "got": fmt.Sprint(got), "reference": fmt.Sprint(want)})
}

// reduce runs one reducer call under Try and compares its printed result.
func (a *acc) reduce(flavour, op, param string, src any, nontrivial bool, want any, call func() any) {
	if a.failed {
		return
	}
	a.evals++
	a.count("triples by operation", op, 1)
	var got any
	a.arm(400)
	if pan := vkit.Try(func() { got = call() }); pan != nil {
		a.fail(panicKind(pan), flavour, op, fmt.Sprintf("%s.%s(%s) over %v panicked: %s", flavour, op, param, src, panicMsg(pan)),
			map[string]any{"source": src, "param": param})
		return
	}
	if m, ok := got.(argModified); ok {
		a.fail("argument-modified", flavour, op, fmt.Sprintf("%s.%s(%s) over %v (arguments are sub-slices with spare capacity): %s", flavour, op, param, src, string(m)),
			map[string]any{"source": src, "param": param})
		return
	}
	if fmt.Sprint(got) != fmt.Sprint(want) {
		a.reducerFail(flavour, op, param, src, got, want)
		return
	}
	if nontrivial {
		a.dist = append(a.dist, op+"|"+param+"|"+fmt.Sprint(src))
	}
}

// argModified is returned by a reducer call whose argument-integrity probe failed.
type argModified string

type oneRes struct {
	x  int
	ok string
}

func normal(s []int) []int { // nil and empty print alike
	if len(s) == 0 {
		return []int{}
	}
	return s
}

func reducersOver(a *acc, d []int, lastKs []int) {
	n := len(d)
	a.reduce("iterator", "Collect", "-", d, false, normal(d), func() any { return normal(iterator.Collect[int](newIterProbe(a, d))) })
	a.reduce("stream", "Collect", "-", d, false, fmt.Sprint(normal(d), " <nil>"), func() any {
		out, err := stream.Collect[int](bg, newStreamProbe(a, "src", d))
		return fmt.Sprint(normal(out), " ", err)
	})
	for _, k := range lastKs {
		k := k
		want := normal(refLast(d, k))
		p := fmt.Sprintf("n=%d", k)
		a.reduce("iterator", "Last", p, d, n > 0 && k < n, want, func() any { return normal(iterator.Last[int](newIterProbe(a, d), k)) })
		a.reduce("stream", "Last", p, d, n > 0 && k < n, fmt.Sprint(want, " <nil>"), func() any {
			out, err := stream.Last[int](bg, newStreamProbe(a, "src", d), k)
			return fmt.Sprint(normal(out), " ", err)
		})
	}
	wx, wok := refOne(d)
	a.reduce("iterator", "One", "-", d, n > 0, oneRes{wx, fmt.Sprint(wok)}, func() any {
		x, ok := iterator.One[int](newIterProbe(a, d))
		if !ok {
			x = 0 // the first return is not specified when the second is false
		}
		return oneRes{x, fmt.Sprint(ok)}
	})
	wantErr := "<nil>"
	if n == 0 {
		wantErr = stream.ErrEmpty.Error()
	} else if n > 1 {
		wantErr = stream.ErrMoreThanOne.Error()
	}
	a.reduce("stream", "One", "-", d, n > 0, oneRes{wx, wantErr}, func() any {
		x, err := stream.One[int](bg, newStreamProbe(a, "src", d))
		if err != nil {
			x = 0
			if err != stream.ErrEmpty && err != stream.ErrMoreThanOne {
				return oneRes{x, "unexpected error " + err.Error()}
			}
		}
		return oneRes{x, fmt.Sprint(err)}
	})
	f0 := func(acc, x int) int { return acc*31 + x + 1 } // neither commutative nor associative
	want := refReduce(d, 7, f0)
	f := func(acc, x int) int { a.tick(); return f0(acc, x) }
	a.reduce("iterator", "Reduce", "acc*31+x+1 from 7", d, n > 0, want, func() any { return iterator.Reduce[int, int](newIterProbe(a, d), 7, f) })
	a.reduce("stream", "Reduce", "acc*31+x+1 from 7", d, n > 0, fmt.Sprint(want, " <nil>"), func() any {
		out, err := stream.Reduce[int, int](bg, newStreamProbe(a, "src", d), 7, func(acc, x int) (int, error) { return f(acc, x), nil })
		return fmt.Sprint(out, " ", err)
	})
	a.reduce("xslices", "Reduce", "acc*31+x+1 from 7", d, n > 0, want, func() any {
		gd, chk, _ := guardInts(d)
		out := xslices.Reduce(gd, 7, f)
		a.integ++
		if msg := chk(); msg != "" {
			return argModified("argument modified: " + msg)
		}
		return out
	})
	a.count("totals", "flavour agreement checks", 2+2*len(lastKs))
	reducerPosition(a, d, lastKs)
}

func smallReducers(a *acc, sp *seqSpace, idx int, cfg smallCfg) {
	d := sp.seqs[idx]
	ks := make([]int, 0, len(d)+2)
	for k := 0; k <= len(d)+1; k++ {
		ks = append(ks, k)
	}
	reducersOver(a, d, ks)
}

func equalOver(a *acc, seqs [][]int) {
	want := refEqual(seqs)
	param := fmt.Sprintf("%d sequences", len(seqs))
	nontrivial := len(seqs) >= 2 && (len(seqs[0]) > 0 || len(seqs[1]) > 0)
	a.reduce("iterator", "Equal", param, seqs, nontrivial, want, func() any {
		its := make([]iterator.Iterator[int], len(seqs))
		for i, s := range seqs {
			its[i] = newIterProbe(a, s)
		}
		args, chk := guardRefs(its, iterSentinel) // the variadic list is a sub-slice with spare capacity
		out := iterator.Equal(args...)
		a.integ++
		if msg := chk(); msg != "" {
			return argModified("argument list modified: " + msg)
		}
		return out
	})
	equalPosition(a, seqs)
	if len(seqs) == 2 {
		a.reduce("xslices", "Equal", param, seqs, false, want, func() any {
			g0, chk0, _ := guardInts(seqs[0])
			g1, chk1, _ := guardInts(seqs[1])
			out := xslices.Equal(g0, g1)
			a.integ++
			if msg := chk0() + chk1(); msg != "" {
				return argModified("argument modified: " + msg)
			}
			return out
		})
		a.count("totals", "flavour agreement checks", 1)
	}
}

// smallEqual: for one sequence d: d against itself, its prefixes/extensions, every one-position
// change, the empty sequence; two- and three-way, both argument orders; and (pairLen) all pairs.
func smallEqual(a *acc, sp *seqSpace, idx int, pairLen int) {
	d := sp.seqs[idx]
	n := len(d)
	vars := [][]int{slices.Clone(d), {}, append(slices.Clone(d), 0), append(slices.Clone(d), 2)}
	if n > 0 {
		vars = append(vars, d[:n-1], d[1:])
	}
	for i := 0; i < n; i++ {
		v := slices.Clone(d)
		v[i] = (v[i] + 1) % 3
		vars = append(vars, v)
	}
	equalOver(a, nil)
	equalOver(a, [][]int{d})
	for _, v := range vars {
		equalOver(a, [][]int{d, v})
		equalOver(a, [][]int{v, d})
		equalOver(a, [][]int{d, d, v})
		equalOver(a, [][]int{d, v, d})
		equalOver(a, [][]int{v, d, d})
	}
	if n <= pairLen {
		for j := 0; j < sp.offset[pairLen+1]; j++ {
			equalOver(a, [][]int{d, sp.seqs[j]})
		}
	}
}

// ---------------------------------------------------------------------------------------------
// Cuts: all ways to cut a sequence into k possibly-empty consecutive parts.

func forEachCut(d []int, k int, fn func(parts [][]int)) {
	if k == 0 {
		if len(d) == 0 {
			fn(nil)
		}
		return
	}
	cuts := make([]int, k+1)
	cuts[k] = len(d)
	var rec func(i, lo int)
	rec = func(i, lo int) {
		if i == k {
			parts := make([][]int, k)
			for p := 0; p < k; p++ {
				parts[p] = d[cuts[p]:cuts[p+1]]
			}
			fn(parts)
			return
		}
		for c := lo; c <= len(d); c++ {
			cuts[i] = c
			rec(i+1, c)
		}
	}
	rec(1, 0)
}

// nestedJoinLen: nested-Join scenarios run for every cut of every sequence up to this length (Join
// never looks at the items, so longer sequences add part-length patterns only).
const nestedJoinLen = 4

func smallCuts(a *acc, sp *seqSpace, idx int, maxParts int) {
	d := sp.seqs[idx]
	for k := 0; k <= maxParts; k++ {
		forEachCut(d, k, func(parts [][]int) {
			runMulti(a, parts, func(ps [][]int) []int { return xslices.Join(ps...) })
			multiPosition(a, parts)
			if len(d) <= nestedJoinLen {
				runNestedJoins(a, parts)
				runCallerReuse(a, parts)
			}
		})
	}
}

func smallIdioms(a *acc, sp *seqSpace, idx int, cfg smallCfg) {
	idioms(a, sp.seqs[idx], sp.within(idx) == 0)
}

// ctorSources: every one-source combinator over sequences that have the shape of
// iterator.Counter(n) and iterator.Repeat(x, n), so that the source-position check also runs
// directly over those constructors (position.go shapedKinds).
func ctorSources(a *acc, maxN int) {
	for n := 0; n <= maxN; n++ {
		for _, src := range [][]int{refCounter(n), refRepeat(2, n)} {
			for mask := uint(0); mask < 1<<uint(n); mask++ {
				byValue := func(x int) bool { return mask>>uint(x)&1 == 1 }
				if len(src) > 0 && src[0] == 2 && n > 1 {
					// constant items: a by-value predicate is constant too
					if mask != 0 && mask != 1<<uint(n)-1 {
						continue
					}
					byValue = func(int) bool { return mask != 0 }
				}
				doFilter(a, src, byValue, fmt.Sprintf("keep mask by value %0*b", n, mask), "")
				doWhile(a, src, byValue, fmt.Sprintf("f mask by value %0*b", n, mask), "")
			}
			doMap(a, src, "")
			doCompact(a, src)
			doCompactFunc(a, src, func(x, y int) bool { return x/2 == y/2 }, "eq: a/2 == b/2", "")
			for k := 0; k <= n+1; k++ {
				doFirst(a, src, k, "")
			}
			for c := 1; c <= n+1; c++ {
				doChunk(a, src, c, "")
			}
			for _, e := range []valEq{{"a == b", func(x, y int) bool { return x == y }}, {"a/2 == b/2", func(x, y int) bool { return x/2 == y/2 }}} {
				runsPosition(a, src, e.f, "same: "+e.name)
			}
		}
	}
}

// ---------------------------------------------------------------------------------------------
// Runs with NON-SYMMETRIC preorders. The Runs family only requires same to be reflexive and
// transitive. Reference = the greedy neighbour rule (ref.go refRuns): a run is extended while
// same(previous item, next item) holds; with a transitive relation that is exactly "same(a, b)
// for any a and b in the run" with a before b.

var preorders = []classFn{
	{"digit(a) <= digit(b)", func(a, b int) bool { return digit(a) <= digit(b) }},
	{"digit(a) >= digit(b)", func(a, b int) bool { return digit(a) >= digit(b) }},
}

// preorderRuns: iterator.Runs, stream.Runs and xslices.Runs are all judged against the neighbour
// reference (and therefore against each other); fixed in /repo by 905002a (prev follows the last
// yielded item; before, iterator.Runs and stream.Runs compared every item with the head of the run).
func preorderRuns(a *acc, src []int, cl classFn) {
	param := "same = " + cl.name + " (a preorder, not symmetric)"
	runRuns(a, src, cl.same, param, func(s []int) [][]int { return xslices.Runs(s, cl.same) })
	for _, pol := range takePolicies {
		runRunsPartial(a, src, cl.same, param, pol)
	}
	runsPosition(a, src, cl.same, param)
	a.count("regression scenarios", "Runs with a non-symmetric preorder (neighbour rule, all three flavours)", 1)
}

func smallRunsPreorder(a *acc, sp *seqSpace, idx int, cfg smallCfg) {
	t := tagged(sp.seqs[idx])
	for _, cl := range preorders {
		preorderRuns(a, t, cl)
	}
}

// divisibility on {1,2,3,4,6,12}: a partial order with incomparable items
var divAlphabet = []int{1, 2, 3, 4, 6, 12}

func divides(a, b int) bool { return b%a == 0 }

// divSeq is sequence number idx (base 6, lengths 0..) over divAlphabet.
func divSeq(idx int) []int {
	n, block := 0, 1
	for idx >= block {
		idx -= block
		block *= 6
		n++
	}
	s := make([]int, n)
	for i := n - 1; i >= 0; i-- {
		s[i] = divAlphabet[idx%6]
		idx /= 6
	}
	return s
}

func divCount(maxLen int) int {
	total, block := 0, 1
	for n := 0; n <= maxLen; n++ {
		total += block
		block *= 6
	}
	return total
}
