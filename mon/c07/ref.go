package main

// Reference functions on plain slices and reference lazy evaluators, written from the doc comments
// of iterator / stream / xslices. Nothing in this file imports juniper.
//
// A reference result is (out, need):
//
//	out      the documented output sequence
//	need[0]  = 0                      (construction needs no source item)
//	need[j]  (1 <= j <= len(out))     the number of source requests a minimal lazy evaluator has made
//	                                  when it has answered the first j output requests
//	need[len(out)+1]                  the same when it has also answered "is there a (len(out)+1)-th?"
//	                                  with "no"; later requests need nothing more.
//
// Source requests are counted 1..n for the n items and n+1 for "asked past the last item, i.e. knows
// that the source has ended". Asking an ended source again yields no new information and no new
// item, so observed pull counts are capped at n+1 before they are compared with need (re-asking an
// ended source when the consumer asks again is not "requesting a source item").
type res[U any] struct {
	out  []U
	need []int
}

// Filter: "yields only the items for which keep returns true". The j-th output is known as soon as
// the j-th kept item has been seen; the end only when the source has ended.
func refFilter(src []int, keep func(int) bool) res[int] {
	r := res[int]{need: []int{0}}
	for i, x := range src {
		if keep(x) {
			r.out = append(r.out, x)
			r.need = append(r.need, i+1)
		}
	}
	r.need = append(r.need, len(src)+1)
	return r
}

// Map: "transforms the results using the conversion f".
func refMap[U any](src []int, f func(int) U) res[U] {
	r := res[U]{need: []int{0}}
	for i, x := range src {
		r.out = append(r.out, f(x))
		r.need = append(r.need, i+1)
	}
	r.need = append(r.need, len(src)+1)
	return r
}

// Compact / CompactFunc: "elides adjacent duplicates" / xslices: "only the first item from each
// contiguous run". An item is output iff it is the first item or is not a duplicate of the item
// adjacent before it; it is known to be output as soon as it has been seen. Asking for the next
// output after the j-th kept item means pulling until an item differs (or the end) - that is the
// need of request j+1, not of request j.
func refCompact(src []int, eq func(a, b int) bool) res[int] {
	r := res[int]{need: []int{0}}
	for i, x := range src {
		if i == 0 || !eq(src[i-1], x) {
			r.out = append(r.out, x)
			r.need = append(r.need, i+1)
		}
	}
	r.need = append(r.need, len(src)+1)
	return r
}

// First: "yields the first n items". The (n+1)-th request is answered "end" without looking at the
// source: item n+1 is never needed. If the source is shorter than n its end has to be discovered.
func refFirst(src []int, k int) res[int] {
	if k < 0 {
		k = 0
	}
	r := res[int]{need: []int{0}}
	m := k
	if m > len(src) {
		m = len(src)
	}
	for i := 0; i < m; i++ {
		r.out = append(r.out, src[i])
		r.need = append(r.need, i+1)
	}
	if k <= len(src) {
		r.need = append(r.need, k)
	} else {
		r.need = append(r.need, len(src)+1)
	}
	return r
}

// While: "terminates before the first item for which f returns false". The failing item (or the
// end of the source) is needed to report the end; nothing after it ever is.
func refWhile(src []int, f func(int) bool) res[int] {
	r := res[int]{need: []int{0}}
	q := len(src)
	for i, x := range src {
		if !f(x) {
			q = i
			break
		}
		r.out = append(r.out, x)
		r.need = append(r.need, i+1)
	}
	r.need = append(r.need, q+1)
	return r
}

// Chunk: "non-overlapping chunks of size chunkSize. The last chunk will be smaller than chunkSize
// if the [source] does not contain an even multiple." A full chunk j needs exactly j*c items; a
// short last chunk is only known to be complete when the source has ended.
func refChunk(src []int, c int) res[[]int] {
	r := res[[]int]{need: []int{0}}
	n := len(src)
	for lo := 0; lo < n; lo += c {
		hi := lo + c
		if hi > n {
			r.out = append(r.out, src[lo:n])
			r.need = append(r.need, n+1)
		} else {
			r.out = append(r.out, src[lo:hi])
			r.need = append(r.need, hi)
		}
	}
	r.need = append(r.need, n+1)
	return r
}

// Runs: "contiguous elements such that same(a, b) returns true for any a and b in the run"
// (maximal runs; same is an equivalence, so comparing neighbours decides).
func refRuns(src []int, same func(a, b int) bool) [][]int {
	var runs [][]int
	lo := 0
	for i := 1; i <= len(src); i++ {
		if i == len(src) || !same(src[i-1], src[i]) {
			runs = append(runs, src[lo:i])
			lo = i
		}
	}
	return runs
}

// Flatten / FlattenSlices / Join: all items of part 0, then all items of part 1, ...
func refConcat(parts [][]int) []int {
	var out []int
	for _, p := range parts {
		out = append(out, p...)
	}
	return out
}

// Last: "returns the last n items. If [the source] yields fewer than n items, returns all of them."
func refLast(src []int, k int) []int {
	if k >= len(src) {
		return src
	}
	return src[len(src)-k:]
}

// One: "the only item yielded"; not ok for zero or more than one item.
func refOne(src []int) (int, bool) {
	if len(src) == 1 {
		return src[0], true
	}
	return 0, false
}

// Reduce: left fold.
func refReduce(src []int, initial int, f func(int, int) int) int {
	acc := initial
	for _, x := range src {
		acc = f(acc, x)
	}
	return acc
}

// Equal: "the same items in the same order"; vacuously true for zero or one sequence.
func refEqual(seqs [][]int) bool {
	for i := 1; i < len(seqs); i++ {
		if len(seqs[i]) != len(seqs[0]) {
			return false
		}
		for j := range seqs[0] {
			if seqs[i][j] != seqs[0][j] {
				return false
			}
		}
	}
	return true
}

// Counter: "counts up from 0, yielding n items", equivalent to for i := 0; i < n; i++.
func refCounter(n int) []int {
	var out []int
	for i := 0; i < n; i++ {
		out = append(out, i)
	}
	return out
}

// Repeat: "yields item n times".
func refRepeat(x, n int) []int {
	var out []int
	for i := 0; i < n; i++ {
		out = append(out, x)
	}
	return out
}

// needIdentity is the need of an operation whose j-th output is exactly the j-th source item
// (Slice-like converters, FromIterator, WithPeek used without peeking).
func needIdentity(n int) []int {
	need := make([]int, n+2)
	for j := range need {
		need[j] = j
	}
	return need
}

// flatNeed describes what a minimal lazy Flatten/Join needs for request j (1-based; j == total+1
// is the end request): outer = number of requests to the sequence of parts (i+1 for part i, m+1
// for "no more parts"), part[i] = requests to part i (len+1 = knows it has ended). To yield an item
// of part i every earlier part must be known to have ended, part i must have been read up to that
// item, and no later part is touched.
type flatNeed struct {
	outer int
	part  []int
}

func refFlatNeed(parts [][]int, j int) flatNeed {
	fn := flatNeed{part: make([]int, len(parts))}
	if j <= 0 {
		return fn // construction: nothing
	}
	seen := 0
	for i, p := range parts {
		if j <= seen+len(p) {
			fn.outer = i + 1
			fn.part[i] = j - seen
			return fn
		}
		seen += len(p)
		fn.part[i] = len(p) + 1
	}
	fn.outer = len(parts) + 1
	return fn
}

// composeNeed composes stage references: stage i consumes the output of stage i-1. need[j] of the
// pipeline = pulls on the original source when j requests have been made at the far end.
func composeNeed(stages []res[int]) []int {
	last := stages[len(stages)-1]
	need := make([]int, len(last.out)+2)
	for j := range need {
		k := j
		for i := len(stages) - 1; i >= 0; i-- {
			if k > len(stages[i].out)+1 {
				k = len(stages[i].out) + 1
			}
			k = stages[i].need[k]
		}
		need[j] = k
	}
	return need
}
