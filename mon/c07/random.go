package main

import (
	"context"
	"fmt"
	"regexp"
	"slices"
	"strings"

	"github.com/bradenaw/juniper/iterator"
	"github.com/bradenaw/juniper/stream"
	"github.com/bradenaw/juniper/xslices"

	"verif/vkit"
)

// randSeq draws a sequence of length <= maxLen: small alphabets, long runs, alternations.
func randSeq(rnd *vkit.Rand, maxLen int) []int {
	var n int
	switch x := rnd.Intn(20); {
	case x == 0:
		n = 0
	case x == 1:
		n = 1
	case x < 8:
		n = rnd.Range(2, 12)
	case x < 14:
		n = rnd.Range(13, 60)
	default:
		n = rnd.Range(61, 300)
	}
	if n > maxLen {
		n = rnd.Range(0, maxLen)
	}
	k := vkit.Pick(rnd, []int{1, 2, 2, 3, 3, 5, 8, 50})
	s := make([]int, 0, n)
	switch rnd.Intn(4) {
	case 0: // uniform
		for len(s) < n {
			s = append(s, rnd.Intn(k))
		}
	case 1, 2: // runs
		meanRun := vkit.Pick(rnd, []int{1, 2, 4, 15, 80})
		for len(s) < n {
			v := rnd.Intn(k)
			l := 1 + rnd.Intn(2*meanRun)
			for i := 0; i < l && len(s) < n; i++ {
				s = append(s, v)
			}
		}
	default: // alternating with occasional stutter
		v := rnd.Intn(k)
		for len(s) < n {
			s = append(s, v)
			if !rnd.Bool(0.15) {
				v = (v + 1) % k
			}
		}
	}
	return s
}

// randParam draws n / chunkSize style parameters around the interesting boundaries of length n.
func randParam(rnd *vkit.Rand, n, lo int) int {
	c := []int{lo, lo + 1, n - 1, n, n + 1, n / 2, 2 * n}
	v := vkit.Pick(rnd, c)
	if rnd.Bool(0.4) {
		v = rnd.Range(lo, n+2)
	}
	if v < lo {
		v = lo
	}
	return v
}

type valPred struct {
	name string
	f    func(int) bool
}

func randPred(rnd *vkit.Rand) valPred {
	switch rnd.Intn(4) {
	case 0:
		m := rnd.Range(2, 5)
		r := rnd.Intn(m)
		return valPred{fmt.Sprintf("x%%%d != %d", m, r), func(x int) bool { return x%m != r }}
	case 1:
		v := rnd.Intn(6)
		return valPred{fmt.Sprintf("x != %d", v), func(x int) bool { return x != v }}
	case 2:
		v := rnd.Intn(6)
		return valPred{fmt.Sprintf("x < %d", v), func(x int) bool { return x < v }}
	default:
		v := rnd.Intn(4)
		return valPred{fmt.Sprintf("x >= %d", v), func(x int) bool { return x >= v }}
	}
}

type valEq struct {
	name string
	f    func(a, b int) bool
}

func randEq(rnd *vkit.Rand) valEq {
	switch rnd.Intn(4) {
	case 0:
		return valEq{"a == b", func(a, b int) bool { return a == b }}
	case 1:
		return valEq{"a/2 == b/2", func(a, b int) bool { return a/2 == b/2 }}
	case 2:
		return valEq{"always", func(a, b int) bool { return true }}
	default:
		m := rnd.Range(2, 3)
		return valEq{fmt.Sprintf("a%%%d == b%%%d", m, m), func(a, b int) bool { return a%m == b%m }}
	}
}

// randSingle: one random (operation, larger input, parameter) triple.
func randSingle(a *acc, maxLen int) {
	rnd := a.c.Rand
	src := randSeq(rnd, maxLen)
	n := len(src)
	switch op := rnd.Intn(16); op {
	case 0:
		p := randPred(rnd)
		doFilter(a, src, p.f, "keep: "+p.name, "")
	case 1:
		p := randPred(rnd)
		doWhile(a, src, p.f, "f: "+p.name, "")
	case 2:
		doMap(a, src, "")
	case 3:
		doCompact(a, src)
	case 4:
		e := randEq(rnd)
		doCompactFunc(a, src, e.f, "eq: "+e.name, "")
	case 5:
		doFirst(a, src, randParam(rnd, n, 0), "")
	case 6:
		doChunk(a, src, randParam(rnd, n, 1), "")
	case 7:
		e := randEq(rnd)
		runRuns(a, src, e.f, "same: "+e.name, func(s []int) [][]int { return xslices.Runs(s, e.f) })
		runRunsPartial(a, src, e.f, "same: "+e.name, vkit.Pick(rnd, takePolicies))
		runsPosition(a, src, e.f, "same: "+e.name)
	case 8:
		l := rnd.Range(0, 2*n+4)
		if l > 64 {
			l = 64
		}
		ops := make([]bool, l)
		var b strings.Builder
		pPeek := vkit.Pick(rnd, []float64{0.1, 0.5, 0.9})
		for i := range ops {
			ops[i] = rnd.Bool(pPeek)
			if ops[i] {
				b.WriteByte('P')
			} else {
				b.WriteByte('N')
			}
		}
		runPeek(a, src, ops, b.String())
		peekPosition(a, src, ops, b.String())
	case 9, 10:
		// cut into parts, many of them empty
		k := rnd.Range(0, 12)
		if n > 0 && k == 0 {
			k = 1
		}
		cuts := make([]int, 0, k+1)
		for i := 0; i < k-1; i++ {
			cuts = append(cuts, rnd.Intn(n+1))
		}
		slices.Sort(cuts)
		var parts [][]int
		lo := 0
		for i := 0; i < k; i++ {
			hi := n
			if i < k-1 {
				hi = cuts[i]
			}
			parts = append(parts, src[lo:hi])
			lo = hi
		}
		runMulti(a, parts, func(ps [][]int) []int { return xslices.Join(ps...) })
		multiPosition(a, parts)
		if len(parts) <= 6 && rnd.Bool(0.25) {
			runNestedJoins(a, parts)
		}
	case 11, 12:
		reducersOver(a, src, []int{0, 1, randParam(rnd, n, 0), n, n + 1})
	case 13:
		// Equal over 2-4 sequences that are equal, or differ in one place, or in length
		k := rnd.Range(2, 4)
		seqs := make([][]int, k)
		for i := range seqs {
			seqs[i] = slices.Clone(src)
		}
		switch rnd.Intn(4) {
		case 0:
		case 1:
			if n > 0 {
				v := seqs[rnd.Intn(k)]
				v[rnd.Intn(n)] += 1
			}
		case 2:
			i := rnd.Intn(k)
			seqs[i] = append(seqs[i], rnd.Intn(3))
		default:
			if n > 0 {
				i := rnd.Intn(k)
				seqs[i] = seqs[i][:n-1]
			}
		}
		equalOver(a, seqs)
	case 14:
		// converters over a larger input
		sp := &seqSpace{seqs: [][]int{src}, offset: make([]int, n+2)}
		smallConvert(a, sp, 0, smallCfg{})
	default:
		n := rnd.Range(9, maxLen)
		smallCtor(a, n, n)
	}
}

// ---------------------------------------------------------------------------------------------
// Pipelines: int -> int stages, each one or more real combinators, with a reference written on
// slices; the pipeline's reference is the composition (ref.go composeNeed).

type stage struct {
	name  string // kind + parameters; the kind is the part before the first '('
	ncomb int
	ref   func(in []int) res[int]
	it    func(iterator.Iterator[int]) iterator.Iterator[int]
	st    func(stream.Stream[int]) stream.Stream[int]
}

func ctxPred(f func(int) bool) func(context.Context, int) (bool, error) {
	return func(_ context.Context, x int) (bool, error) { return f(x), nil }
}

func randStage(a *acc, rnd *vkit.Rand) stage {
	switch rnd.Intn(13) {
	case 0:
		p := randPred(rnd)
		return stage{"Filter(" + p.name + ")", 1,
			func(in []int) res[int] { return refFilter(in, p.f) },
			func(it iterator.Iterator[int]) iterator.Iterator[int] { return iterator.Filter(it, guardPred(a, p.f)) },
			func(s stream.Stream[int]) stream.Stream[int] { return stream.Filter(s, ctxPred(guardPred(a, p.f))) }}
	case 1:
		m := vkit.Pick(rnd, []int{2, 3, 5, 7, 11})
		x, y := rnd.Range(1, 6), rnd.Intn(7)
		f := func(v int) int { return (v*x + y) % m }
		return stage{fmt.Sprintf("Map((%d*x+%d)%%%d)", x, y, m), 1,
			func(in []int) res[int] { return refMap(in, f) },
			func(it iterator.Iterator[int]) iterator.Iterator[int] {
				return iterator.Map(it, func(v int) int { a.tick(); return f(v) })
			},
			func(s stream.Stream[int]) stream.Stream[int] {
				return stream.Map(s, func(_ context.Context, v int) (int, error) { a.tick(); return f(v), nil })
			}}
	case 2:
		return stage{"Compact", 1,
			func(in []int) res[int] { return refCompact(in, eqInt) },
			func(it iterator.Iterator[int]) iterator.Iterator[int] { return iterator.Compact(it) },
			func(s stream.Stream[int]) stream.Stream[int] { return stream.Compact(s) }}
	case 3:
		e := randEq(rnd)
		return stage{"CompactFunc(" + e.name + ")", 1,
			func(in []int) res[int] { return refCompact(in, e.f) },
			func(it iterator.Iterator[int]) iterator.Iterator[int] {
				return iterator.CompactFunc(it, guardEq(a, e.f))
			},
			func(s stream.Stream[int]) stream.Stream[int] { return stream.CompactFunc(s, guardEq(a, e.f)) }}
	case 4:
		k := vkit.Pick(rnd, []int{0, 1, 2, 3, 5, 8, 20, 60, 150, 400})
		return stage{fmt.Sprintf("First(%d)", k), 1,
			func(in []int) res[int] { return refFirst(in, k) },
			func(it iterator.Iterator[int]) iterator.Iterator[int] { return iterator.First(it, k) },
			func(s stream.Stream[int]) stream.Stream[int] { return stream.First(s, k) }}
	case 5:
		p := randPred(rnd)
		return stage{"While(" + p.name + ")", 1,
			func(in []int) res[int] { return refWhile(in, p.f) },
			func(it iterator.Iterator[int]) iterator.Iterator[int] { return iterator.While(it, guardPred(a, p.f)) },
			func(s stream.Stream[int]) stream.Stream[int] { return stream.While(s, ctxPred(guardPred(a, p.f))) }}
	case 6:
		// Chunk then Map(sum): output j = sum of chunk j (mod 13)
		c := vkit.Pick(rnd, []int{1, 2, 3, 4, 7, 16})
		sum := func(ch []int) int {
			t := 0
			for _, x := range ch {
				t += x
			}
			return t % 13
		}
		return stage{fmt.Sprintf("Chunk(%d)|Map(sum%%13)", c), 2,
			func(in []int) res[int] {
				ch := refChunk(in, c)
				out := make([]int, len(ch.out))
				for i := range ch.out {
					out[i] = sum(ch.out[i])
				}
				return res[int]{out: out, need: ch.need}
			},
			func(it iterator.Iterator[int]) iterator.Iterator[int] {
				return iterator.Map(iterator.Chunk(it, c), sum)
			},
			func(s stream.Stream[int]) stream.Stream[int] {
				return stream.Map(stream.Chunk(s, c), func(_ context.Context, ch []int) (int, error) { return sum(ch), nil })
			}}
	case 7:
		// Runs then Map(drain the run): output j = (first item + length of run j) % 11. Draining a
		// run needs the first item of the next run (or the end of the source).
		e := randEq(rnd)
		g := func(run []int) int { return (run[0] + len(run)) % 11 }
		return stage{"Runs(" + e.name + ")|Map(drain)", 2,
			func(in []int) res[int] {
				r := res[int]{need: []int{0}}
				end := 0
				for _, run := range refRuns(in, e.f) {
					end += len(run)
					r.out = append(r.out, g(run))
					r.need = append(r.need, end+1)
				}
				r.need = append(r.need, len(in)+1)
				return r
			},
			func(it iterator.Iterator[int]) iterator.Iterator[int] {
				return iterator.Map(iterator.Runs(it, guardEq(a, e.f)), func(run iterator.Iterator[int]) int { return g(iterator.Collect(run)) })
			},
			func(s stream.Stream[int]) stream.Stream[int] {
				return stream.Map(stream.Runs(s, guardEq(a, e.f)), func(ctx context.Context, run stream.Stream[int]) (int, error) {
					xs, err := stream.Collect(ctx, run)
					if err != nil {
						return 0, err
					}
					return g(xs), nil
				})
			}}
	case 8:
		// Chunk then flatten again: identity, but items arrive a chunk at a time.
		c := vkit.Pick(rnd, []int{1, 2, 3, 5, 9})
		viaSlices := rnd.Bool(0.5)
		name := fmt.Sprintf("Chunk(%d)|Map(Slice)|Flatten", c)
		if viaSlices {
			name = fmt.Sprintf("Chunk(%d)|Map(Slice)|Flatten (stream: Chunk|FlattenSlices)", c)
		}
		return stage{name, 2,
			func(in []int) res[int] {
				n := len(in)
				r := res[int]{out: in, need: make([]int, n+2)}
				for j := 1; j <= n; j++ {
					hi := (j + c - 1) / c * c
					if hi > n {
						hi = n + 1
					}
					r.need[j] = hi
				}
				r.need[n+1] = n + 1
				return r
			},
			func(it iterator.Iterator[int]) iterator.Iterator[int] {
				return iterator.Flatten(iterator.Map(iterator.Chunk(it, c), func(ch []int) iterator.Iterator[int] { return iterator.Slice(ch) }))
			},
			func(s stream.Stream[int]) stream.Stream[int] {
				if viaSlices {
					return stream.FlattenSlices(stream.Chunk(s, c))
				}
				return stream.Flatten(stream.Map(stream.Chunk(s, c), func(_ context.Context, ch []int) (stream.Stream[int], error) {
					return stream.FromIterator(iterator.Slice(ch)), nil
				}))
			}}
	case 9:
		// Runs then Flatten: identity; Flatten drains each run before asking for the next.
		e := randEq(rnd)
		return stage{"Runs(" + e.name + ")|Flatten", 2,
			func(in []int) res[int] { return res[int]{out: in, need: needIdentity(len(in))} },
			func(it iterator.Iterator[int]) iterator.Iterator[int] {
				return iterator.Flatten(iterator.Runs(it, guardEq(a, e.f)))
			},
			func(s stream.Stream[int]) stream.Stream[int] { return stream.Flatten(stream.Runs(s, guardEq(a, e.f))) }}
	case 10:
		// Join with a fixed extra sequence after the source
		extra := randSeq(rnd, 6)
		return stage{fmt.Sprintf("Join(_, %v)", extra), 1,
			func(in []int) res[int] {
				n := len(in)
				r := res[int]{out: append(slices.Clone(in), extra...), need: make([]int, n+len(extra)+2)}
				for j := range r.need {
					r.need[j] = j
					if j > n {
						r.need[j] = n + 1
					}
				}
				return r
			},
			func(it iterator.Iterator[int]) iterator.Iterator[int] {
				return iterator.Join(it, iterator.Slice(extra))
			},
			func(s stream.Stream[int]) stream.Stream[int] {
				return stream.Join(s, stream.FromIterator(iterator.Slice(extra)))
			}}
	case 11:
		// Join with a fixed extra sequence before the source
		extra := randSeq(rnd, 6)
		return stage{fmt.Sprintf("Join(%v, _)", extra), 1,
			func(in []int) res[int] {
				n := len(in)
				r := res[int]{out: append(slices.Clone(extra), in...), need: make([]int, n+len(extra)+2)}
				for j := range r.need {
					if j > len(extra) {
						r.need[j] = j - len(extra)
					}
				}
				return r
			},
			func(it iterator.Iterator[int]) iterator.Iterator[int] {
				return iterator.Join(iterator.Slice(extra), it)
			},
			func(s stream.Stream[int]) stream.Stream[int] {
				return stream.Join(stream.FromIterator(iterator.Slice(extra)), s)
			}}
	default:
		return stage{"WithPeek", 1,
			func(in []int) res[int] { return res[int]{out: in, need: needIdentity(len(in))} },
			func(it iterator.Iterator[int]) iterator.Iterator[int] { return iterator.WithPeek(it) },
			func(s stream.Stream[int]) stream.Stream[int] { return stream.WithPeek(s) }}
	}
}

var stageKindStrip = regexp.MustCompile(`\([^()]*\)`)

// stageKind strips the parameters from a stage name: "Chunk(3)|Map(sum%13)" -> "Chunk|Map".
func stageKind(name string) string {
	for {
		next := stageKindStrip.ReplaceAllString(name, "")
		if next == name {
			return strings.TrimSpace(name)
		}
		name = next
	}
}

func randPipeline(a *acc, maxLen int) {
	rnd := a.c.Rand
	src := randSeq(rnd, maxLen)
	target := rnd.Range(2, 4)
	var stages []stage
	total := 0
	for total < target {
		st := randStage(a, rnd)
		if total+st.ncomb > 4 {
			continue
		}
		stages = append(stages, st)
		total += st.ncomb
	}
	names := make([]string, len(stages))
	refs := make([]res[int], len(stages))
	in := src
	for i, st := range stages {
		names[i] = st.name
		refs[i] = st.ref(in)
		in = refs[i].out
		a.count("pipeline stages used", stageKind(st.name), 1)
	}
	a.count("pipelines by number of combinators", fmt.Sprint(total), 1)
	ref := res[int]{out: in, need: composeNeed(refs)}
	if len(in) < 3 {
		a.sampleAt = 0 // a written-out sample should show a few outputs
	}
	runSingle(a, &single[int]{op: "pipeline", param: strings.Join(names, " -> "), src: src, ref: ref, same: eqInt,
		iter: func(it iterator.Iterator[int]) iterator.Iterator[int] {
			for _, st := range stages {
				it = st.it(it)
			}
			return it
		},
		strm: func(s stream.Stream[int]) stream.Stream[int] {
			for _, st := range stages {
				s = st.st(s)
			}
			return s
		},
		nontrivial: len(src) > 0 && !slices.Equal(in, src),
		note:       "reference = composition of the stage references; need = composed need on the original source",
	})
}
