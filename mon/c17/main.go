// C17 — xsync.Group: StopAndWait is a barrier; triggers are never lost or overlapped; periodic
// functions keep running.
//
// Oracle: offline history checker over run intervals (start/end ticks taken inside f), trigger
// calls (tick taken before invoking the trigger function) and the tick at which StopAndWait
// returned, all from one logical clock. The pause point between spawn's context check and
// wg.Add(1) is widened on a seeded subset of arrivals. Built with -race.
package main

import (
	"context"
	"errors"
	"fmt"
	"runtime"
	"sort"
	"strings"
	"sync"
	"sync/atomic"
	"time"

	"github.com/bradenaw/juniper/xsync"

	"verif/vkit"
)

type run struct {
	Start int64 `json:"start"`
	End   int64 `json:"end"` // 0 = still open
}

type reg struct {
	ID    int
	Kind  string // Do Periodic Trigger PeriodicOrTrigger
	RegAt int64  // tick before the registration call
	mu    sync.Mutex
	runs  []*run
	calls []int64 // trigger call ticks
	gauge vkit.Gauge
	fire  func()
	done  chan struct{} // receives one token per completed run (buffered generously)
	work  int           // what f does: 0 return at once, 1 short work, 2 wait for ctx.Done then short work
}

type round struct {
	clock   vkit.Clock
	mu      sync.Mutex
	regs    []*reg
	stopped atomic.Int64 // tick at which the first stop call began (0 = not yet)
}

func main() {
	vkit.Main("C17", "exploration", func(r *vkit.Report) {
		r.SetRule("case = one round on one Group: 2..6 goroutines register functions through Do / Periodic / Trigger / PeriodicOrTrigger and fire triggers (bursts, during a run, right after a run), " +
			"racing Stop / StopAndWait / parent-context cancellation ('racy' rounds) or followed by a settle phase in which every trigger call must have been answered by a complete later run ('settle' rounds). " +
			"Evaluation = one round whose event log was checked (barrier at the StopAndWait return tick, no overlap per function, trigger answered, periodic progress). " +
			"non-trivial = >= 2 registrations and (a registration or trigger call overlapped the stop call, or >= 2 trigger calls were made while a run was in progress); distinct = by interleaving signature of the tick-ordered event kinds.")
		r.Assume("run intervals are logged inside f (start tick at entry, end tick at exit), trigger calls before invoking: a run 'begins after the call' iff its start tick is larger")
		r.Assume("'periodic functions keep being invoked' is decided in bounded form: 3 runs must be seen; if they are not seen within 20 s (>= 10000 intervals) the verdict is a violation only if the periodic goroutine no longer exists, otherwise inconclusive")
		tab := make([]uint8, 4099)
		tr := r.Rand("hook")
		for i := range tab {
			if tr.Bool(0.25) {
				tab[i] = uint8(1 + tr.Intn(200))
			}
		}
		var hi atomic.Uint64
		xsync.VerifSetHook(func(point string) {
			if point != "group.spawn.checked" {
				return
			}
			if k := tab[int(hi.Add(1))%len(tab)]; k > 0 {
				time.Sleep(time.Duration(k) * time.Microsecond)
			}
		})
		defer xsync.VerifSetHook(nil)
		if r.VariantHas("sweep") {
			xsync.VerifSetHook(nil)
			r.Cases("trig-sweep", r.Scale(24, 100), 1, func(c *vkit.Case) { trigSweep(c) })
			r.Cases("trig-end-sweep", r.Scale(8, 64), 1, func(c *vkit.Case) { trigEndSweep(c) })
			r.Cases("trig-chain", r.Scale(4, 16), 1, func(c *vkit.Case) { trigChain(c) })
			r.Floor("trigger calls aimed at the end of a run by a caller that then blocks", r.Table("trig-sweep", "end-of-run rounds"), 50000)
			if r.Thorough() {
				r.Cases("trig-wrap32", 2, 1, func(c *vkit.Case) { trigWrap32(c) })
				r.Cases("slow-scale", 1, 1, func(c *vkit.Case) { slowScale(c) })
			}
			r.Floor("trigger sweep rounds", r.Table("trig-sweep", "rounds"), 300000)
			return
		}
		n := r.Scale(2500, 50000)
		r.Cases("round", n, 1, func(c *vkit.Case) { runRound(c) })
		// PeriodicOrTrigger with a tiny interval under trigger load: the periodic runs must go on after
		// the triggers stop (a mishandled timer Stop/Reset under trigger load leaves the timer dead).
		r.Cases("pot-small", r.Scale(60, 600), 1, func(c *vkit.Case) { potSmall(c) })
		r.Floor("racy rounds with GOMAXPROCS lowered during the group's life", r.Table("rounds", "GOMAXPROCS lowered during the group's life"), 50)
		r.Floor("rounds whose parent context expired by a deadline", r.Table("parent context", "WithTimeout (expires by itself during the round)"), 100)
		r.Floor("PeriodicOrTrigger rounds with a tiny interval under trigger load", r.Table("pot-small", "rounds"), 10)
		r.Floor("registrations that raced the stop call", r.Table("races", "registration overlapping or after the stop call"), 200)
		r.Floor("trigger calls made while a run was in progress", r.Table("triggers", "call during a run"), 200)
		r.Floor("settle rounds", r.Table("rounds", "settle"), int64(n/4))
		r.Floor("periodic progress checks", r.Table("periodic", "3 runs seen"), 50)
	})
}

func (rd *round) newReg(kind string, work int) *reg {
	g := &reg{Kind: kind, done: make(chan struct{}, 4096), work: work}
	rd.mu.Lock()
	g.ID = len(rd.regs)
	rd.regs = append(rd.regs, g)
	rd.mu.Unlock()
	return g
}

func (rd *round) body(g *reg, spinUS int) func(ctx context.Context) {
	return func(ctx context.Context) {
		rn := &run{Start: rd.clock.Tick()}
		g.mu.Lock()
		g.runs = append(g.runs, rn)
		g.mu.Unlock()
		g.gauge.Enter()
		switch g.work {
		case 1:
			vkit.SpinFor(time.Duration(spinUS) * time.Microsecond)
		case 2:
			<-ctx.Done()
			vkit.SpinFor(time.Duration(spinUS) * time.Microsecond)
		}
		g.gauge.Exit()
		end := rd.clock.Tick()
		g.mu.Lock()
		rn.End = end
		g.mu.Unlock()
		select {
		case g.done <- struct{}{}:
		default:
		}
	}
}

func runRound(c *vkit.Case) {
	r := c.R
	rnd := c.Rand
	rd := &round{}
	settle := rnd.Bool(0.45)
	// The parent context: in racy rounds it may also be one that ends on its own by a deadline
	// (the group's context then reports DeadlineExceeded, not Canceled) or carries a cause.
	parent, parentCancel := context.WithCancel(context.Background())
	parentEnd := parentCancel
	parentKind := "WithCancel"
	if !settle {
		switch rnd.Intn(7) {
		case 1:
			cctx, ccancel := context.WithCancelCause(context.Background())
			parent, parentCancel = cctx, func() { ccancel(errCause) }
			parentEnd = parentCancel
			parentKind = "WithCancelCause"
		case 2, 3:
			parent, parentCancel = context.WithTimeout(context.Background(), time.Duration(rnd.Range(20, 3000))*time.Microsecond)
			parentKind = "WithTimeout (expires by itself during the round)"
		case 4:
			parent, parentCancel = context.WithTimeoutCause(context.Background(), time.Duration(rnd.Range(20, 3000))*time.Microsecond, errCause)
			parentKind = "WithTimeoutCause (expires by itself during the round)"
		case 5:
			parent, parentCancel = context.WithDeadline(context.Background(), time.Now().Add(-time.Second))
			parentKind = "WithDeadline in the past"
		}
		if parentKind != "WithCancel" && parentKind != "WithCancelCause" {
			p := parent
			parentEnd = func() { <-p.Done() }
		}
	}
	defer parentCancel()
	r.Count("parent context", parentKind, 1)
	// GOMAXPROCS may change during a group's life (cases run one at a time, so this is safe): the
	// group is created under one value and registrations / the stop happen under another.
	if !settle && rnd.Bool(0.15) {
		orig := runtime.GOMAXPROCS(0)
		hi := orig
		if rnd.Bool(0.5) && orig < 64 {
			hi = orig * 2
		}
		lo := []int{1, 2, 3}[rnd.Intn(3)]
		runtime.GOMAXPROCS(hi)
		defer runtime.GOMAXPROCS(orig)
		time.AfterFunc(time.Duration(rnd.Range(5, 400))*time.Microsecond, func() { runtime.GOMAXPROCS(lo) })
		r.Count("rounds", "GOMAXPROCS lowered during the group's life", 1)
	}
	grp := xsync.NewGroup(parent)
	nReg := rnd.Range(2, 6)
	stopKind := rnd.Intn(3) // 0 StopAndWait, 1 Stop then StopAndWait, 2 parent cancel then StopAndWait
	var wg sync.WaitGroup
	var periodicReg *reg
	start := make(chan struct{})
	for a := 0; a < nReg; a++ {
		ar := rnd.Split()
		pert := vkit.NewPerturber(rnd.Split(), 29, 0.5)
		nActs := ar.Range(1, 5)
		type act struct {
			kind  int // 0 Do 1 Periodic 2 Trigger 3 PoT
			work  int
			spin  int
			fires []int // per fire: 0 plain, 1 during a run, 2 right after a run
		}
		var acts []act
		for i := 0; i < nActs; i++ {
			ac := act{kind: ar.Weighted([]int{3, 1, 4, 2}), work: ar.Intn(2), spin: ar.Range(20, 200)}
			if ac.kind == 0 {
				ac.work = ar.Intn(3)
			}
			for f := ar.Intn(6); f > 0; f-- {
				ac.fires = append(ac.fires, ar.Intn(3))
			}
			acts = append(acts, ac)
		}
		wg.Add(1)
		go func() {
			defer wg.Done()
			<-start
			for _, ac := range acts {
				pert.Do()
				var g *reg
				switch ac.kind {
				case 0:
					g = rd.newReg("Do", ac.work)
					g.RegAt = rd.clock.Tick()
					grp.Do(rd.body(g, ac.spin))
				case 1:
					g = rd.newReg("Periodic", ac.work)
					g.RegAt = rd.clock.Tick()
					grp.Periodic(time.Duration(200+ac.spin*5)*time.Microsecond, time.Duration(ac.spin)*time.Microsecond, rd.body(g, ac.spin/4))
					rd.mu.Lock()
					if periodicReg == nil {
						periodicReg = g
					}
					rd.mu.Unlock()
				case 2:
					g = rd.newReg("Trigger", ac.work)
					g.RegAt = rd.clock.Tick()
					g.fire = grp.Trigger(rd.body(g, ac.spin))
				default:
					g = rd.newReg("PeriodicOrTrigger", ac.work)
					g.RegAt = rd.clock.Tick()
					// interval of an hour: within a round only triggers make it run
					g.fire = grp.PeriodicOrTrigger(time.Hour, time.Minute, rd.body(g, ac.spin))
				}
				if g.fire == nil {
					continue
				}
				for _, how := range ac.fires {
					switch how {
					case 1: // during a run: fire, wait until a run is in progress, fire again
						g.mu.Lock()
						g.calls = append(g.calls, rd.clock.Tick())
						g.mu.Unlock()
						g.fire()
						for spin := 0; spin < 2000 && g.gauge.Cur() == 0 && rd.stopped.Load() == 0; spin++ {
							vkit.SpinFor(time.Microsecond)
						}
						if g.gauge.Cur() > 0 {
							r.Count("triggers", "call during a run", 1)
						}
					case 2: // right after a run
						select {
						case <-g.done:
						default:
						}
					}
					burst := 1
					if how == 0 {
						burst = 1 + len(ac.fires)%3
					}
					for b := 0; b < burst; b++ {
						g.mu.Lock()
						g.calls = append(g.calls, rd.clock.Tick())
						g.mu.Unlock()
						g.fire()
						r.Count("triggers", "calls", 1)
					}
					pert.Do()
				}
			}
		}()
	}
	registrarsDone := make(chan struct{})
	go func() { wg.Wait(); close(registrarsDone) }()
	close(start)

	var stopTick atomic.Int64 // the EARLIEST tick at which some StopAndWait call returned
	recordStopReturn := func() {
		t := rd.clock.Tick()
		for {
			cur := stopTick.Load()
			if (cur != 0 && cur <= t) || stopTick.CompareAndSwap(cur, t) {
				return
			}
		}
	}
	stop := func() {
		rd.stopped.CompareAndSwap(0, rd.clock.Tick())
		switch stopKind {
		case 1:
			grp.Stop()
		case 2:
			parentEnd()
		}
		grp.StopAndWait()
		recordStopReturn()
	}
	fail := func(sig, what string) {
		c.Violation(sig, what, map[string]any{"round": describe(rd), "settle": settle, "stop_kind": stopKind, "parent_context": parentKind, "stop_returned_at": stopTick.Load()})
	}

	if settle {
		r.Count("rounds", "settle", 1)
		if v, dump := vkit.Await(registrarsDone, vkit.AwaitOpts{Soft: 5 * time.Second, Gap: 300 * time.Millisecond, Hard: 60 * time.Second, Relevant: relevant}); v != vkit.AwaitDone {
			if v == vkit.AwaitStuck {
				c.Violation("registrar-stuck", "a registration or trigger call never returned", map[string]any{"goroutines": dump})
			} else {
				r.Inconclusive("registrars did not finish")
			}
			stop()
			return
		}
		// Every trigger call must be followed by a complete run that began after it.
		rd.mu.Lock()
		regs := append([]*reg(nil), rd.regs...)
		rd.mu.Unlock()
		for _, g := range regs {
			if g.fire == nil {
				continue
			}
			answered := func() bool {
				g.mu.Lock()
				defer g.mu.Unlock()
				if len(g.calls) == 0 {
					return true
				}
				last := g.calls[len(g.calls)-1]
				for _, rn := range g.runs {
					if rn.Start > last && rn.End != 0 {
						return true
					}
				}
				return false
			}
			waitDone := make(chan struct{})
			quit := make(chan struct{})
			go func() {
				defer close(waitDone)
				for !answered() {
					select {
					case <-g.done:
					case <-quit:
						return
					}
				}
			}()
			v, dump := vkit.Await(waitDone, vkit.AwaitOpts{Soft: 3 * time.Second, Gap: 300 * time.Millisecond, Hard: 60 * time.Second, Relevant: relevant})
			close(quit)
			r.Eval(1)
			if v == vkit.AwaitStuck {
				g.mu.Lock()
				last := g.calls[len(g.calls)-1]
				nruns := len(g.runs)
				g.mu.Unlock()
				c.Violation("trigger-lost", fmt.Sprintf("%s #%d: the trigger call at tick %d was not followed by a complete run of f that began after it (%d runs so far); the function's goroutine is parked", g.Kind, g.ID, last, nruns),
					map[string]any{"round": describe(rd), "goroutines": dump})
				stop()
				return
			} else if v == vkit.AwaitInconclusive {
				r.Inconclusive(fmt.Sprintf("case %s: trigger answer wait did not finish", c.ID()))
			} else {
				r.Count("triggers", "last call answered by a complete later run", 1)
			}
		}
		// Periodic progress.
		rd.mu.Lock()
		pg := periodicReg
		rd.mu.Unlock()
		if pg != nil {
			seen := func() int { pg.mu.Lock(); defer pg.mu.Unlock(); return len(pg.runs) }
			deadline := time.Now().Add(20 * time.Second)
			for seen() < 3 && time.Now().Before(deadline) {
				select {
				case <-pg.done:
				case <-time.After(5 * time.Millisecond):
				}
			}
			r.Eval(1)
			if seen() >= 3 {
				r.Count("periodic", "3 runs seen", 1)
			} else if vkit.CountGoroutines(func(g vkit.G) bool { return g.Has("xsync.(*Group).Periodic") }) == 0 {
				fail("periodic-died", fmt.Sprintf("Periodic #%d ran %d times and its goroutine no longer exists although the group has not been stopped", pg.ID, seen()))
				stop()
				return
			} else {
				r.Inconclusive(fmt.Sprintf("case %s: periodic function ran only %d times in 20 s", c.ID(), seen()))
			}
		}
		stop()
	} else {
		r.Count("rounds", "racy", 1)
		// stop at a seeded moment while the registrars are active
		p := vkit.NewPerturber(rnd.Split(), 13, 0.9)
		for i := rnd.Intn(12); i > 0; i-- {
			p.Do()
		}
		// Sometimes several goroutines stop the group at once: every StopAndWait that returns is a
		// barrier of its own.
		var extra sync.WaitGroup
		if rnd.Bool(0.5) {
			for k := rnd.Range(1, 3); k > 0; k-- {
				wait := rnd.Bool(0.6)
				ep := vkit.NewPerturber(rnd.Split(), 5, 0.6)
				extra.Add(1)
				go func() {
					defer extra.Done()
					ep.Do()
					rd.stopped.CompareAndSwap(0, rd.clock.Tick())
					if wait {
						grp.StopAndWait()
						recordStopReturn()
					} else {
						grp.Stop()
					}
				}()
			}
			r.Count("races", "rounds with several concurrent stoppers", 1)
		}
		stopDone := make(chan struct{})
		go func() { stop(); extra.Wait(); close(stopDone) }()
		if v, dump := vkit.Await(stopDone, vkit.AwaitOpts{Soft: 5 * time.Second, Gap: 300 * time.Millisecond, Hard: 60 * time.Second, Relevant: relevant}); v != vkit.AwaitDone {
			if v == vkit.AwaitStuck {
				c.Violation("stop-stuck", "StopAndWait never returned", map[string]any{"round": describe(rd), "goroutines": dump})
			} else {
				r.Inconclusive("StopAndWait did not return")
			}
			return
		}
	}
	// Let everything that is going to happen, happen: registrars finish (registrations after the
	// stop must not start anything), spawned goroutines exit.
	if v, _ := vkit.Await(registrarsDone, vkit.AwaitOpts{Soft: 5 * time.Second, Gap: 300 * time.Millisecond, Hard: 60 * time.Second, Relevant: relevant}); v != vkit.AwaitDone {
		r.Inconclusive("registrars did not finish after the stop")
		return
	}
	// A Do after the stop, for good measure.
	late := rd.newReg("Do", 0)
	late.RegAt = rd.clock.Tick()
	grp.Do(rd.body(late, 0))
	left := vkit.WaitNoGoroutine(func(g vkit.G) bool { return g.Has("xsync.(*Group)") }, 300*time.Millisecond, 50*time.Millisecond)
	T := stopTick.Load()
	r.Eval(1)
	rd.mu.Lock()
	regs := append([]*reg(nil), rd.regs...)
	rd.mu.Unlock()
	if len(left) > 0 {
		fail("goroutine-after-stop", fmt.Sprintf("%d goroutine(s) of the group are still parked after StopAndWait returned: %s", len(left), firstLines(left[0].Raw)))
		return
	}
	stopCall := rd.stopped.Load()
	var sig strings.Builder
	type evt struct {
		t int64
		s string
	}
	var evts []evt
	nontrivial := false
	for _, g := range regs {
		g.mu.Lock()
		if g.RegAt > stopCall {
			r.Count("races", "registration overlapping or after the stop call", 1)
			nontrivial = true
		}
		evts = append(evts, evt{g.RegAt, "reg:" + g.Kind})
		for _, t := range g.calls {
			evts = append(evts, evt{t, "fire"})
		}
		for _, rn := range g.runs {
			evts = append(evts, evt{rn.Start, "start"})
			if rn.End != 0 {
				evts = append(evts, evt{rn.End, "end"})
			}
			if rn.Start > T {
				g.mu.Unlock()
				fail("start-after-stop", fmt.Sprintf("%s #%d (registered at tick %d): a run of f started at tick %d, after StopAndWait had returned at tick %d", g.Kind, g.ID, g.RegAt, rn.Start, T))
				return
			}
			if rn.End == 0 || rn.End > T {
				g.mu.Unlock()
				fail("running-after-stop", fmt.Sprintf("%s #%d: a run of f that started at tick %d was still running when StopAndWait returned at tick %d (ended at %d)", g.Kind, g.ID, rn.Start, T, rn.End))
				return
			}
		}
		if g.Kind != "Do" && g.gauge.Max() > 1 {
			g.mu.Unlock()
			fail("overlap", fmt.Sprintf("%s #%d: %d runs of the same f were in progress at the same time", g.Kind, g.ID, g.gauge.Max()))
			return
		}
		if g.Kind == "Do" && len(g.runs) > 1 {
			g.mu.Unlock()
			fail("do-twice", fmt.Sprintf("Do #%d ran f %d times", g.ID, len(g.runs)))
			return
		}
		r.Count("registrations", g.Kind, 1)
		r.Count("runs", g.Kind, len(g.runs))
		g.mu.Unlock()
	}
	evts = append(evts, evt{stopCall, "stopcall"}, evt{T, "stopret"})
	sort.Slice(evts, func(i, j int) bool { return evts[i].t < evts[j].t })
	for _, e := range evts {
		sig.WriteString(e.s)
		sig.WriteByte(';')
	}
	r.Count("events", "logged", len(evts))
	if len(regs) >= 3 && (nontrivial || r.Table("triggers", "call during a run") > 0) {
		r.Distinct(fmt.Sprintf("%x", vkit.Hash64(sig.String())))
	}
	if r.WantSample() && len(evts) > 10 && len(evts) < 60 {
		var es []string
		for _, e := range evts {
			es = append(es, fmt.Sprintf("%d:%s", e.t, e.s))
		}
		r.Sample(map[string]any{"settle": settle, "stop_kind": stopKind, "events(tick:kind)": es})
	}
}

// relevant: goroutines of the scenario and of the group, except Periodic loops (they sit in a
// select with a running timer and look parked although they are not).
var errCause = errors.New("verif: cause of the parent cancellation")

func relevant(g vkit.G) bool {
	if g.Has("xsync.(*Group).Periodic.func1") {
		return false
	}
	return g.Has("github.com/bradenaw/juniper/") || g.Has("main.")
}

func firstLines(s string) string {
	ls := strings.Split(s, "\n")
	if len(ls) > 8 {
		ls = ls[:8]
	}
	return strings.Join(ls, " | ")
}

func describe(rd *round) []map[string]any {
	rd.mu.Lock()
	defer rd.mu.Unlock()
	var out []map[string]any
	for _, g := range rd.regs {
		g.mu.Lock()
		runs := make([]run, 0, len(g.runs))
		for _, rn := range g.runs {
			runs = append(runs, *rn)
		}
		if len(runs) > 20 {
			runs = runs[len(runs)-20:]
		}
		calls := g.calls
		if len(calls) > 20 {
			calls = calls[len(calls)-20:]
		}
		out = append(out, map[string]any{"id": g.ID, "kind": g.Kind, "registered_at": g.RegAt, "work": g.work, "trigger_calls": append([]int64(nil), calls...), "runs": runs})
		g.mu.Unlock()
	}
	return out
}

// potSmall: PeriodicOrTrigger(interval 10..50us) is hammered with trigger calls from two goroutines
// for a while; then the triggers stop and the function must keep being invoked by its timer.
// "Keeps being invoked" is judged in bounded form against a CONTROL time.Ticker with the same
// interval running in the harness: if the control ticker delivers 20000 ticks (timers and scheduler
// demonstrably work) while f does not run even once, the periodic invocation is dead.
func potSmall(c *vkit.Case) {
	r := c.R
	rnd := c.Rand
	interval := time.Duration([]int{10, 20, 10, 5, 50}[c.Index%5]) * time.Microsecond
	jitter := interval / 4
	grp := xsync.NewGroup(context.Background())
	var runs atomic.Int64
	var gauge vkit.Gauge
	fire := grp.PeriodicOrTrigger(interval, jitter, func(ctx context.Context) {
		gauge.Enter()
		runs.Add(1)
		gauge.Exit()
	})
	var wg sync.WaitGroup
	stopHammer := make(chan struct{})
	for h := 0; h < 2; h++ {
		p := vkit.NewPerturber(rnd.Split(), 11, 0.3)
		wg.Add(1)
		go func() {
			defer wg.Done()
			for {
				select {
				case <-stopHammer:
					return
				default:
				}
				fire()
				p.Do()
			}
		}()
	}
	time.Sleep(time.Duration(rnd.Range(15, 50)) * time.Millisecond)
	close(stopHammer)
	wg.Wait()
	during := runs.Load()
	// settle: one run may still be owed to the last trigger
	time.Sleep(2 * time.Millisecond)
	base := runs.Load()
	control := time.NewTicker(interval)
	ticks := 0
	for runs.Load() < base+3 && ticks < 20000 {
		<-control.C
		ticks++
	}
	control.Stop()
	after := runs.Load() - base
	r.Eval(1)
	r.Count("pot-small", "rounds", 1)
	r.Count("pot-small", "runs under trigger load", int(during))
	if gauge.Max() > 1 {
		c.Violation("overlap", fmt.Sprintf("pot-small: %d runs of the same f were in progress at the same time", gauge.Max()), nil)
	} else if after < 3 {
		c.Violation("periodic-stalled", fmt.Sprintf("PeriodicOrTrigger(interval %s): after the trigger calls stopped (f had run %d times), f ran %d more times while a control ticker with the same interval delivered %d ticks; the group had not been stopped",
			interval, base, after, ticks), map[string]any{"interval": interval.String()})
	} else {
		r.Count("pot-small", "periodic runs resumed after the triggers stopped", 1)
	}
	done := make(chan struct{})
	go func() { grp.StopAndWait(); close(done) }()
	if v, dump := vkit.Await(done, vkit.AwaitOpts{Soft: 5 * time.Second, Gap: 300 * time.Millisecond, Hard: 60 * time.Second, Relevant: relevant}); v == vkit.AwaitStuck {
		c.Violation("stop-stuck", "pot-small: StopAndWait never returned", map[string]any{"goroutines": dump})
	}
}
