package main

import (
	"context"
	"fmt"
	"os"
	"runtime"
	"strconv"
	"strings"
	"sync"
	"sync/atomic"
	"time"

	"github.com/bradenaw/juniper/xsync"

	"verif/vkit"
)

// trigSweep: several goroutines call ONE trigger function at (almost) the same instant while the
// group's goroutine is idle. Each caller reads the number of runs of f that have begun, calls the
// trigger function once, and must then see one more run begin: "every call of a trigger function
// is followed by a complete run of f that begins after that call". Nothing else triggers, so a
// call that queued nothing is never papered over. The callers are persistent goroutines released
// per round through a counter, with swept spin offsets; "no run ever begins" is decided from
// goroutine dumps (the function's goroutine parked in its select, twice, callers returned).
func trigSweep(c *vkit.Case) {
	r := c.R
	rnd := c.Rand
	rounds := r.Scale(25000, 100000)
	callers := 2 + c.Index%2
	pot := c.Index%5 == 4 // PeriodicOrTrigger with a period that never fires during the case
	yield := runtime.GOMAXPROCS(0) < 4
	if yield {
		rounds /= 10
	}
	grp := xsync.NewGroup(context.Background())
	var begun, ended atomic.Int64
	f := func(ctx context.Context) { begun.Add(1); ended.Add(1) }
	var trig func()
	if pot {
		trig = grp.PeriodicOrTrigger(time.Hour, 0, f)
	} else {
		trig = grp.Trigger(f)
	}
	var round, done atomic.Int64
	var quit atomic.Bool
	seenB := make([]atomic.Int64, callers)
	primes := []int{7, 11, 13, 17, 19, 23, 29, 31}
	var wg sync.WaitGroup
	for k := 0; k < callers; k++ {
		k := k
		prime := primes[rnd.Intn(len(primes))]
		scale := rnd.Range(1, 8)
		div := 1 + rnd.Intn(3)
		wg.Add(1)
		go func() {
			defer wg.Done()
			last := int64(0)
			sink := 0
			for {
				for round.Load() == last {
					if quit.Load() {
						return
					}
					if yield {
						runtime.Gosched()
					}
				}
				last++
				for i := (int(last) / div % prime) * scale; i > 0; i-- {
					sink += i
				}
				b := begun.Load()
				trig()
				seenB[k].Store(b)
				done.Add(1)
			}
		}()
	}
	stopAll := func() {
		quit.Store(true)
		wg.Wait()
		grp.StopAndWait()
	}
	spin := func(cond func() bool, d time.Duration) bool {
		t0 := time.Now()
		for i := 0; ; i++ {
			if cond() {
				return true
			}
			if yield {
				runtime.Gosched()
			}
			if i%64 == 63 && time.Since(t0) > d {
				return cond()
			}
		}
	}
	judged := 0
	for n := int64(1); n <= int64(rounds); n++ {
		// idle: every run that began has ended, and the function's goroutine has had a moment to
		// get back to its select
		spin(func() bool { return begun.Load() == ended.Load() }, time.Second)
		for i := rnd.Intn(300); i > 0; i-- {
			_ = i
		}
		round.Store(n)
		if !spin(func() bool { return done.Load() == n*int64(callers) }, 30*time.Second) {
			r.Inconclusive("trig-sweep: callers did not return from the trigger function within 30 s")
			stopAll()
			return
		}
		answered := func() bool {
			bg := begun.Load()
			for k := range seenB {
				if bg <= seenB[k].Load() {
					return false
				}
			}
			return true
		}
		if spin(answered, 5*time.Millisecond) {
			judged++
			continue
		}
		// slow path: decide between "late" and "never"
		verdict := "inconclusive"
		var dump string
		hard := time.Now().Add(60 * time.Second)
		for time.Now().Before(hard) {
			a, okA := loopParked()
			time.Sleep(200 * time.Millisecond)
			if answered() {
				verdict = "late"
				break
			}
			b, okB := loopParked()
			if okA && okB && a == b && !answered() {
				verdict = "never"
				dump = b
				break
			}
		}
		switch verdict {
		case "late":
			judged++
			continue
		case "never":
			kind := "Trigger"
			if pot {
				kind = "PeriodicOrTrigger(1h)"
			}
			var bs []string
			for k := range seenB {
				bs = append(bs, fmt.Sprint(seenB[k].Load()))
			}
			c.Violation("trigger-lost", fmt.Sprintf("trig-sweep: %d goroutines called the trigger function of one %s at about the same time while f was idle (round %d); runs of f begun before each call: [%s]; runs begun now: %d: a call was not followed by a run that began after it, and the function's goroutine is parked in its select", callers, kind, n, strings.Join(bs, " "), begun.Load()),
				map[string]any{"round": n, "callers": callers, "goroutines": dump})
		default:
			r.Inconclusive("trig-sweep: a trigger call was not answered and the function's goroutine was not provably parked")
		}
		stopAll()
		r.Eval(judged)
		r.Count("trig-sweep", "rounds", judged)
		return
	}
	stopAll()
	r.Eval(judged)
	r.Count("trig-sweep", "rounds", judged)
	r.Count("trig-sweep", fmt.Sprintf("cases with %d callers", callers), 1)
}

// loopParked reports the stack of the group's trigger goroutine(s) and whether all are parked in
// a select.
func loopParked() (string, bool) {
	var b strings.Builder
	n := 0
	ok := true
	for _, g := range vkit.Goroutines() {
		if !g.Has("xsync.(*Group).Trigger") && !g.Has("xsync.(*Group).PeriodicOrTrigger") {
			continue
		}
		n++
		b.WriteString(g.Raw)
		b.WriteString("\n\n")
		if g.State != "select" {
			ok = false
		}
	}
	return b.String(), ok && n > 0
}

// trigWrap32 (thorough only): exactly 2^32 calls of one trigger function land during ONE run of f
// (f is held at a gate; the calls come from 8 goroutines, 2^29 each; a non-blocking send on the
// full channel is a few nanoseconds). After the gate opens, a run that began after those calls
// must follow — a call counter narrower than the number of calls would forget the pending run.
func trigWrap32(c *vkit.Case) {
	r := c.R
	grp := xsync.NewGroup(context.Background())
	var begun atomic.Int64
	gate := make(chan struct{})
	inside := make(chan struct{}, 4)
	f := func(ctx context.Context) {
		n := begun.Add(1)
		if n == 1 {
			inside <- struct{}{}
			<-gate
		}
	}
	var trig func()
	kind := "Trigger"
	if c.Index == 1 {
		kind = "PeriodicOrTrigger(1h)"
		trig = grp.PeriodicOrTrigger(time.Hour, 0, f)
	} else {
		trig = grp.Trigger(f)
	}
	trig()
	<-inside // the first run is in progress
	total := uint64(1) << 32
	if v, err := strconv.ParseUint(os.Getenv("VERIF_WRAP32_TOTAL"), 10, 64); err == nil && v >= 8 {
		total = v
	}
	var wg sync.WaitGroup
	for w := 0; w < 8; w++ {
		wg.Add(1)
		go func() {
			defer wg.Done()
			for i := uint64(0); i < total/8; i++ {
				trig()
			}
		}()
	}
	wg.Wait()
	b := begun.Load()
	close(gate)
	answered := func() bool { return begun.Load() > b }
	t0 := time.Now()
	for !answered() && time.Since(t0) < 2*time.Second {
		time.Sleep(50 * time.Microsecond)
	}
	r.Eval(1)
	r.Count("trig-sweep", "exactly 2^32 trigger calls during one run", 1)
	if !answered() {
		verdict := "inconclusive"
		var dump string
		hard := time.Now().Add(60 * time.Second)
		for time.Now().Before(hard) && !answered() {
			a, okA := loopParked()
			time.Sleep(200 * time.Millisecond)
			b2, okB := loopParked()
			if okA && okB && a == b2 && !answered() {
				verdict, dump = "never", b2
				break
			}
		}
		if verdict == "never" {
			c.Violation("trigger-lost", fmt.Sprintf("trig-wrap32: exactly %d calls of the trigger function of one %s were made while one run of f was in progress; after that run ended no further run began (the function's goroutine is parked in its select)", total, kind),
				map[string]any{"goroutines": dump})
		} else if !answered() {
			r.Inconclusive("trig-wrap32: not answered and not provably parked")
		}
	}
	grp.StopAndWait()
}
