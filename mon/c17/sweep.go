package main

import (
	"context"
	"fmt"
	"os"
	"runtime"
	"strconv"
	"strings"
	"sync"
	"sync/atomic"
	"time"

	"github.com/bradenaw/juniper/xsync"

	"verif/vkit"
)

// trigSweep: several goroutines call ONE trigger function at (almost) the same instant while the
// group's goroutine is idle. Each caller reads the number of runs of f that have begun, calls the
// trigger function once, and must then see one more run begin: "every call of a trigger function
// is followed by a complete run of f that begins after that call". Nothing else triggers, so a
// call that queued nothing is never papered over. The callers are persistent goroutines released
// per round through a counter, with swept spin offsets; "no run ever begins" is decided from
// goroutine dumps (the function's goroutine parked in its select, twice, callers returned).
func trigSweep(c *vkit.Case) {
	r := c.R
	rnd := c.Rand
	rounds := r.Scale(25000, 100000)
	callers := 2 + c.Index%2
	pot := c.Index%5 == 4 // PeriodicOrTrigger with a period that never fires during the case
	yield := runtime.GOMAXPROCS(0) < 4
	if yield {
		rounds /= 10
	}
	grp := xsync.NewGroup(context.Background())
	var begun, ended atomic.Int64
	f := func(ctx context.Context) { begun.Add(1); ended.Add(1) }
	var trig func()
	if pot {
		trig = grp.PeriodicOrTrigger(time.Hour, 0, f)
	} else {
		trig = grp.Trigger(f)
	}
	var round, done atomic.Int64
	var quit atomic.Bool
	seenB := make([]atomic.Int64, callers)
	primes := []int{7, 11, 13, 17, 19, 23, 29, 31}
	var wg sync.WaitGroup
	for k := 0; k < callers; k++ {
		k := k
		prime := primes[rnd.Intn(len(primes))]
		scale := rnd.Range(1, 8)
		div := 1 + rnd.Intn(3)
		wg.Add(1)
		go func() {
			defer wg.Done()
			last := int64(0)
			sink := 0
			for {
				for round.Load() == last {
					if quit.Load() {
						return
					}
					if yield {
						runtime.Gosched()
					}
				}
				last++
				for i := (int(last) / div % prime) * scale; i > 0; i-- {
					sink += i
				}
				b := begun.Load()
				trig()
				seenB[k].Store(b)
				done.Add(1)
			}
		}()
	}
	stopAll := func() {
		quit.Store(true)
		wg.Wait()
		grp.StopAndWait()
	}
	spin := func(cond func() bool, d time.Duration) bool {
		t0 := time.Now()
		for i := 0; ; i++ {
			if cond() {
				return true
			}
			if yield {
				runtime.Gosched()
			}
			if i%64 == 63 && time.Since(t0) > d {
				return cond()
			}
		}
	}
	judged := 0
	for n := int64(1); n <= int64(rounds); n++ {
		// idle: every run that began has ended, and the function's goroutine has had a moment to
		// get back to its select
		spin(func() bool { return begun.Load() == ended.Load() }, time.Second)
		for i := rnd.Intn(300); i > 0; i-- {
			_ = i
		}
		round.Store(n)
		if !spin(func() bool { return done.Load() == n*int64(callers) }, 30*time.Second) {
			r.Inconclusive("trig-sweep: callers did not return from the trigger function within 30 s")
			stopAll()
			return
		}
		answered := func() bool {
			bg := begun.Load()
			for k := range seenB {
				if bg <= seenB[k].Load() {
					return false
				}
			}
			return true
		}
		if spin(answered, 5*time.Millisecond) {
			judged++
			continue
		}
		// slow path: decide between "late" and "never"
		verdict := "inconclusive"
		var dump string
		hard := time.Now().Add(60 * time.Second)
		for time.Now().Before(hard) {
			a, okA := loopParked()
			time.Sleep(200 * time.Millisecond)
			if answered() {
				verdict = "late"
				break
			}
			b, okB := loopParked()
			if okA && okB && a == b && !answered() {
				verdict = "never"
				dump = b
				break
			}
		}
		switch verdict {
		case "late":
			judged++
			continue
		case "never":
			kind := "Trigger"
			if pot {
				kind = "PeriodicOrTrigger(1h)"
			}
			var bs []string
			for k := range seenB {
				bs = append(bs, fmt.Sprint(seenB[k].Load()))
			}
			c.Violation("trigger-lost", fmt.Sprintf("trig-sweep: %d goroutines called the trigger function of one %s at about the same time while f was idle (round %d); runs of f begun before each call: [%s]; runs begun now: %d: a call was not followed by a run that began after it, and the function's goroutine is parked in its select", callers, kind, n, strings.Join(bs, " "), begun.Load()),
				map[string]any{"round": n, "callers": callers, "goroutines": dump})
		default:
			r.Inconclusive("trig-sweep: a trigger call was not answered and the function's goroutine was not provably parked")
		}
		stopAll()
		r.Eval(judged)
		r.Count("trig-sweep", "rounds", judged)
		return
	}
	stopAll()
	r.Eval(judged)
	r.Count("trig-sweep", "rounds", judged)
	r.Count("trig-sweep", fmt.Sprintf("cases with %d callers", callers), 1)
}

// loopParked reports the stack of the group's trigger goroutine(s) and whether all are parked in
// a select.
func loopParked() (string, bool) {
	var b strings.Builder
	n := 0
	ok := true
	for _, g := range vkit.Goroutines() {
		if !g.Has("xsync.(*Group).Trigger") && !g.Has("xsync.(*Group).PeriodicOrTrigger") {
			continue
		}
		n++
		b.WriteString(g.Raw)
		b.WriteString("\n\n")
		if g.State != "select" {
			ok = false
		}
	}
	return b.String(), ok && n > 0
}

// trigWrap32 (thorough only): exactly 2^32 calls of one trigger function land during ONE run of f
// (f is held at a gate; the calls come from 8 goroutines, 2^29 each; a non-blocking send on the
// full channel is a few nanoseconds). After the gate opens, a run that began after those calls
// must follow — a call counter narrower than the number of calls would forget the pending run.
func trigWrap32(c *vkit.Case) {
	r := c.R
	grp := xsync.NewGroup(context.Background())
	var begun atomic.Int64
	gate := make(chan struct{})
	inside := make(chan struct{}, 4)
	f := func(ctx context.Context) {
		n := begun.Add(1)
		if n == 1 {
			inside <- struct{}{}
			<-gate
		}
	}
	var trig func()
	kind := "Trigger"
	if c.Index == 1 {
		kind = "PeriodicOrTrigger(1h)"
		trig = grp.PeriodicOrTrigger(time.Hour, 0, f)
	} else {
		trig = grp.Trigger(f)
	}
	trig()
	<-inside // the first run is in progress
	total := uint64(1) << 32
	if v, err := strconv.ParseUint(os.Getenv("VERIF_WRAP32_TOTAL"), 10, 64); err == nil && v >= 8 {
		total = v
	}
	var wg sync.WaitGroup
	for w := 0; w < 8; w++ {
		wg.Add(1)
		go func() {
			defer wg.Done()
			for i := uint64(0); i < total/8; i++ {
				trig()
			}
		}()
	}
	wg.Wait()
	b := begun.Load()
	close(gate)
	answered := func() bool { return begun.Load() > b }
	t0 := time.Now()
	for !answered() && time.Since(t0) < 2*time.Second {
		time.Sleep(50 * time.Microsecond)
	}
	r.Eval(1)
	r.Count("trig-sweep", "exactly 2^32 trigger calls during one run", 1)
	if !answered() {
		verdict := "inconclusive"
		var dump string
		hard := time.Now().Add(60 * time.Second)
		for time.Now().Before(hard) && !answered() {
			a, okA := loopParked()
			time.Sleep(200 * time.Millisecond)
			b2, okB := loopParked()
			if okA && okB && a == b2 && !answered() {
				verdict, dump = "never", b2
				break
			}
		}
		if verdict == "never" {
			c.Violation("trigger-lost", fmt.Sprintf("trig-wrap32: exactly %d calls of the trigger function of one %s were made while one run of f was in progress; after that run ended no further run began (the function's goroutine is parked in its select)", total, kind),
				map[string]any{"goroutines": dump})
		} else if !answered() {
			r.Inconclusive("trig-wrap32: not answered and not provably parked")
		}
	}
	grp.StopAndWait()
}

// slowScale (thorough only): the same promises on the time scale of seconds, which the other
// groups never reach (idle reaping, long-interval code paths). Everything runs side by side, so
// the group costs one long wait, not one per observation.
//
//	(a) Periodic / PeriodicOrTrigger with intervals of 1 s, 2 s, 5 s and an f that outlasts the
//	    interval by 30 %: runs of one f never overlap, and a second and third run follow.
//	(b) trigger functions left idle for 1 s, 2 s, 5 s, 10 s and then called once at a swept offset
//	    (±60 us around the idle mark, hundreds of groups side by side): a run that began after the
//	    call must follow.
func slowScale(c *vkit.Case) {
	r := c.R
	marks := []time.Duration{time.Second, 2 * time.Second, 5 * time.Second, 10 * time.Second}
	perMark := r.Scale(60, 400)
	type trig struct {
		grp   *xsync.Group
		fn    func()
		begun atomic.Int64
		mark  time.Duration
		off   time.Duration
		seenB int64
		pot   bool
		// when the warm-up run of f ended (the idle period of this function starts there)
		lastEnd atomic.Int64
	}
	var trigs []*trig
	for _, m := range marks {
		for i := 0; i < perMark; i++ {
			t := &trig{grp: xsync.NewGroup(context.Background()), mark: m, off: time.Duration(c.Rand.Intn(120000)-60000) * time.Nanosecond, pot: i%4 == 3}
			f := func(ctx context.Context) { t.begun.Add(1); t.lastEnd.Store(time.Now().UnixNano()) }
			if t.pot {
				t.fn = t.grp.PeriodicOrTrigger(time.Hour, 0, f)
			} else {
				t.fn = t.grp.Trigger(f)
			}
			trigs = append(trigs, t)
		}
	}
	// one warm-up call each, so that the idle period starts from a common instant
	for _, t := range trigs {
		t.fn()
	}
	time.Sleep(50 * time.Millisecond)
	t0 := time.Now()
	// (a) periodic functions that outlast their interval
	type per struct {
		grp      *xsync.Group
		interval time.Duration
		gauge    atomic.Int32
		maxSeen  atomic.Int32
		runs     atomic.Int64
		kind     string
	}
	var pers []*per
	for _, iv := range []time.Duration{time.Second, 2 * time.Second, 5 * time.Second} {
		for k := 0; k < 2; k++ {
			p := &per{grp: xsync.NewGroup(context.Background()), interval: iv}
			f := func(ctx context.Context) {
				n := p.gauge.Add(1)
				for {
					m := p.maxSeen.Load()
					if n <= m || p.maxSeen.CompareAndSwap(m, n) {
						break
					}
				}
				select {
				case <-time.After(iv + iv*3/10):
				case <-ctx.Done():
				}
				p.gauge.Add(-1)
				p.runs.Add(1)
			}
			if k == 0 {
				p.kind = "Periodic"
				p.grp.Periodic(iv, 0, f)
			} else {
				p.kind = "PeriodicOrTrigger"
				p.grp.PeriodicOrTrigger(iv, 0, f)
			}
			pers = append(pers, p)
		}
	}
	// (b) aimed single calls after the idle marks
	var wg sync.WaitGroup
	for _, t := range trigs {
		t := t
		wg.Add(1)
		go func() {
			defer wg.Done()
			target := t0.Add(t.mark + t.off)
			if le := t.lastEnd.Load(); le != 0 {
				target = time.Unix(0, le).Add(t.mark + t.off)
			}
			if d := time.Until(target) - 300*time.Microsecond; d > 0 {
				time.Sleep(d)
			}
			for time.Now().Before(target) {
				runtime.Gosched()
			}
			t.seenB = t.begun.Load()
			t.fn()
		}()
	}
	wg.Wait()
	time.Sleep(300 * time.Millisecond)
	lost := 0
	for _, t := range trigs {
		r.Eval(1)
		if t.begun.Load() <= t.seenB {
			// give it the benefit of a long wait before calling it lost: nothing else will trigger it
			time.Sleep(2 * time.Second)
			if t.begun.Load() <= t.seenB {
				lost++
				if lost <= 3 {
					kind := "Trigger"
					if t.pot {
						kind = "PeriodicOrTrigger(1h)"
					}
					_, parked := loopParked()
					if parked {
						c.Violation("trigger-lost", fmt.Sprintf("slow-scale: the trigger function of one %s was left idle for %s and then called once (offset %s): no run of f began after that call within 2.3 s, and the function's goroutines are parked", kind, t.mark, t.off), nil)
					} else {
						r.Inconclusive("slow-scale: trigger not answered but goroutines not all parked")
					}
				}
			}
		}
		r.Count("slow-scale", fmt.Sprintf("single trigger call after %s idle", t.mark), 1)
	}
	// (a): wait until the 5 s functions have had time for three runs (3 * 6.5 s)
	if d := 21*time.Second - time.Since(t0); d > 0 {
		time.Sleep(d)
	}
	for _, p := range pers {
		r.Eval(1)
		if p.maxSeen.Load() > 1 {
			c.Violation("overlap", fmt.Sprintf("slow-scale: %s with interval %s and an f that takes 1.3 intervals: %d runs of f were in progress at the same time", p.kind, p.interval, p.maxSeen.Load()), nil)
		}
		need := int64(2)
		if p.runs.Load() < need && p.gauge.Load() == 0 {
			if vkit.CountGoroutines(func(g vkit.G) bool { return g.Has("xsync.(*Group)") && g.Has(p.kind) }) == 0 {
				c.Violation("periodic-died", fmt.Sprintf("slow-scale: %s with interval %s ran %d times in 21 s and no goroutine of it exists any more", p.kind, p.interval, p.runs.Load()), nil)
			}
		}
		r.Count("slow-scale", "long-interval periodic functions judged", 1)
	}
	for _, t := range trigs {
		t.grp.Stop()
	}
	for _, p := range pers {
		p.grp.Stop()
	}
	for _, t := range trigs {
		t.grp.StopAndWait()
	}
	for _, p := range pers {
		p.grp.StopAndWait()
	}
}

// trigEndSweep: one call of the trigger function is aimed at the END of a run of f (f spins for a
// short, swept time; the caller spins a swept offset after the run was triggered), and the caller
// then BLOCKS on a channel at once (it leaves its P, unlike the spinning callers of trigSweep).
// A run that began after that call must follow; nothing else triggers in the meantime.
func trigEndSweep(c *vkit.Case) {
	r := c.R
	rnd := c.Rand
	rounds := r.Scale(12000, 60000)
	yield := runtime.GOMAXPROCS(0) < 4
	if yield {
		rounds /= 10
	}
	grp := xsync.NewGroup(context.Background())
	var begun, ended atomic.Int64
	var fSpin atomic.Int64
	f := func(ctx context.Context) {
		begun.Add(1)
		sink := 0
		for i := fSpin.Load(); i > 0; i-- {
			sink += int(i)
		}
		_ = sink
		ended.Add(1)
	}
	pot := c.Index%4 == 3
	var trig func()
	if pot {
		trig = grp.PeriodicOrTrigger(time.Hour, 0, f)
	} else {
		trig = grp.Trigger(f)
	}
	var round, done atomic.Int64
	var quit atomic.Bool
	var off atomic.Int64
	var seenB atomic.Int64
	park := make(chan struct{})
	var wg sync.WaitGroup
	wg.Add(1)
	go func() {
		defer wg.Done()
		last := int64(0)
		for {
			for round.Load() == last {
				if quit.Load() {
					return
				}
				if yield {
					runtime.Gosched()
				}
			}
			last++
			sink := 0
			for i := off.Load(); i > 0; i-- {
				sink += int(i)
			}
			_ = sink
			b := begun.Load()
			trig()
			seenB.Store(b)
			done.Add(1)
			<-park // leave the P at once
		}
	}()
	stopAll := func() {
		quit.Store(true)
		wg.Wait()
		grp.StopAndWait()
	}
	spin := func(cond func() bool, d time.Duration) bool {
		t0 := time.Now()
		for i := 0; ; i++ {
			if cond() {
				return true
			}
			if yield {
				runtime.Gosched()
			}
			if i%64 == 63 && time.Since(t0) > d {
				return cond()
			}
		}
	}
	judged := 0
	for n := int64(1); n <= int64(rounds); n++ {
		spin(func() bool { return begun.Load() == ended.Load() }, time.Second)
		fs := int64(rnd.Intn(600))
		fSpin.Store(fs)
		off.Store(fs/2 + int64(rnd.Intn(int(fs)+200)))
		trig() // run A
		round.Store(n)
		if !spin(func() bool { return done.Load() == n }, 30*time.Second) {
			r.Inconclusive("trig-end-sweep: the caller did not return from the trigger function within 30 s")
			park <- struct{}{}
			stopAll()
			return
		}
		answered := func() bool { return begun.Load() > seenB.Load() }
		if !spin(answered, 5*time.Millisecond) {
			verdict := "inconclusive"
			var dump string
			hard := time.Now().Add(60 * time.Second)
			for time.Now().Before(hard) {
				a, okA := loopParked()
				time.Sleep(200 * time.Millisecond)
				if answered() {
					verdict = "late"
					break
				}
				b, okB := loopParked()
				if okA && okB && a == b && !answered() {
					verdict, dump = "never", b
					break
				}
				if !okA && !okB && !answered() && vkit.CountGoroutines(func(g vkit.G) bool {
					return g.Has("xsync.(*Group).Trigger") || g.Has("xsync.(*Group).PeriodicOrTrigger")
				}) == 0 {
					// an implementation without a resident goroutine: nothing is running and nothing will
					time.Sleep(300 * time.Millisecond)
					if !answered() {
						verdict, dump = "never", "(no goroutine of the group is running f or waiting to)"
						break
					}
				}
			}
			if verdict == "never" {
				kind := "Trigger"
				if pot {
					kind = "PeriodicOrTrigger(1h)"
				}
				c.Violation("trigger-lost", fmt.Sprintf("trig-end-sweep: round %d: a call of the trigger function of one %s was aimed at the end of a run of f (f spins %d iterations) and the caller blocked on a channel right after it; runs begun before the call: %d, begun now: %d: no run began after the call and none ever will", n, kind, fs, seenB.Load(), begun.Load()),
					map[string]any{"round": n, "goroutines": dump})
				park <- struct{}{}
				stopAll()
				r.Eval(judged)
				r.Count("trig-sweep", "end-of-run rounds", judged)
				return
			} else if verdict == "inconclusive" {
				r.Inconclusive("trig-end-sweep: not answered and not provably idle")
				park <- struct{}{}
				stopAll()
				return
			}
		}
		judged++
		park <- struct{}{}
	}
	stopAll()
	r.Eval(judged)
	r.Count("trig-sweep", "end-of-run rounds", judged)
}

// trigChain: a chain reaction per trigger function: its single caller makes the next call as soon
// as a run of f has announced itself, and f then lingers for a swept number of iterations, so that
// calls keep arriving around the moment a run ends; right after each call the caller yields its P.
// Afterwards the group is quiet and every trigger function must still work: one call, one run that
// begins after it (a trigger that has gone dead under the load answers nothing any more).
func trigChain(c *vkit.Case) {
	r := c.R
	n := 4
	iters := int64(r.Scale(250000, 400000))
	if runtime.GOMAXPROCS(0) < 4 {
		iters /= 10
	}
	grp := xsync.NewGroup(context.Background())
	type tr struct {
		runs atomic.Int64
		flag atomic.Int32
		_    [40]byte
		fn   func()
	}
	ts := make([]*tr, n)
	for i := range ts {
		t := &tr{}
		salt := int64(c.Rand.Intn(1500))
		f := func(ctx context.Context) {
			k := t.runs.Add(1)
			t.flag.Store(1)
			for spin := (k*37 + salt) % 1500; spin > 0; spin-- {
				runtime.KeepAlive(spin)
			}
		}
		if i == n-1 && c.Index%2 == 1 {
			t.fn = grp.PeriodicOrTrigger(time.Hour, 0, f)
		} else {
			t.fn = grp.Trigger(f)
		}
		ts[i] = t
	}
	var wg sync.WaitGroup
	var stalled atomic.Int32
	for _, t := range ts {
		t := t
		wg.Add(1)
		go func() {
			defer wg.Done()
			for i := int64(0); i < iters; i++ {
				t.fn()
				t0 := time.Now()
				for spins := 0; t.flag.Load() == 0; spins++ {
					runtime.Gosched()
					if spins%1024 == 1023 && time.Since(t0) > 2*time.Second {
						stalled.Add(1) // probably dead already: the final check decides
						return
					}
				}
				t.flag.Store(0)
			}
		}()
	}
	wg.Wait()
	time.Sleep(100 * time.Millisecond) // runs owed to the load
	for i, t := range ts {
		before := t.runs.Load()
		t.fn()
		ok := false
		for t0 := time.Now(); time.Since(t0) < 2*time.Second; {
			if t.runs.Load() > before {
				ok = true
				break
			}
			time.Sleep(200 * time.Microsecond)
		}
		r.Eval(1)
		if !ok {
			_, parked := loopParked()
			running := vkit.CountGoroutines(func(g vkit.G) bool { return g.Has("main.trigChain.func") && g.Has("xsync.") })
			if parked || running == 0 {
				c.Violation("trigger-lost", fmt.Sprintf("trig-chain: after %d chained calls (each made when a run had announced itself, f lingering a swept time) trigger function %d answers nothing any more: one call on the quiet group was not followed by a run of f within 2 s and nothing of the group is running", iters, i), nil)
			} else {
				r.Inconclusive("trig-chain: final call not answered but something is still running")
			}
		}
	}
	if stalled.Load() > 0 {
		r.Count("trig-sweep", "chains that stalled for 2 s under load", int(stalled.Load()))
	}
	r.Count("trig-sweep", "chained calls", int(iters)*n)
	grp.StopAndWait()
}
