package main

// Group "finish": the caller's context ends at (or around) the moment the last call finishes.
//
// Rule judged in every run (and, as rule "error-after-complete-success", in the main grid too): if
// every index was invoked exactly once and every invocation returned nil, DoContext / MapContext
// must return a nil error and MapContext's results must be complete and in position — whatever the
// state of the caller's context. An error needs a failed call or an index that was not run to blame.
// Runs in which some index was NOT invoked keep the usual leniency (nil or the caller's ctx error).

import (
	"context"
	"errors"
	"fmt"
	"runtime"
	"sync/atomic"
	"time"

	"github.com/bradenaw/juniper/parallel"

	"verif/vkit"
)

const (
	endCancel = iota
	endCancelCause
	endDeadline // WithTimeout; the triggering call waits inside f for the deadline to pass
)

var endNames = [...]string{"WithCancel", "WithCancelCause", "WithTimeout awaited inside the call"}

type finCase struct {
	api, par, n int
	kind        int
	k           int // the k-th call to finish (1-based) ends the caller's context; 0 = an outside goroutine does
	sweep       int // k == 0: spin iterations between "the last index has entered f" and the cancel
	work        int // spin iterations inside each call
}

func (fc finCase) String() string {
	s := fmt.Sprintf("%s n=%d parallelism=%d, caller ctx %s", apiNames[fc.api], fc.n, fc.par, endNames[fc.kind])
	if fc.k > 0 {
		what := "cancels it"
		if fc.kind == endDeadline {
			what = "waits for its deadline"
		}
		return s + fmt.Sprintf(": call no. %d to finish (of %d) %s and then returns nil", fc.k, fc.n, what)
	}
	return s + fmt.Sprintf(": another goroutine cancels it %d spins after the last index has entered f (each call spins %d)", fc.sweep, fc.work)
}

var errCause = errors.New("verif: cause given to the caller's CancelCauseFunc")

var spinSink atomic.Int64

func spin(k int) {
	x := 0
	for i := 0; i < k; i++ {
		x += i
	}
	if x == -1 {
		spinSink.Add(1)
	}
}

func executeFinish(c *vkit.Case, fc finCase) {
	rep := c.R
	n := fc.n
	var callerCtx context.Context
	var cancel func()
	switch fc.kind {
	case endCancelCause:
		cctx, cc := context.WithCancelCause(context.Background())
		callerCtx, cancel = cctx, func() { cc(errCause) }
	case endDeadline:
		// long enough for every other call to have finished first (otherwise the run is merely lenient)
		callerCtx, cancel = context.WithTimeout(context.Background(), 1500*time.Microsecond+time.Duration(n)*5*time.Microsecond)
	default:
		callerCtx, cancel = context.WithCancel(context.Background())
	}
	defer cancel()

	counts := make([]atomic.Int32, n)
	var entered, finished, bad, badFirst atomic.Int64
	var returned atomic.Bool
	body := func(i int) {
		if i < 0 || i >= n {
			if bad.Add(1) == 1 {
				badFirst.Store(int64(i))
			}
			return
		}
		counts[i].Add(1)
		entered.Add(1)
		spin(fc.work)
		if k := finished.Add(1); fc.k > 0 && int(k) == fc.k {
			if fc.kind == endDeadline {
				<-callerCtx.Done()
			} else {
				cancel()
			}
		}
	}

	// The outside canceller (sweep): waits, spinning, until the last index has entered f (or the call
	// is over), then spins on for the swept offset and cancels.
	cancellerDone := make(chan struct{})
	cancelBeforeReturn := false
	if fc.k == 0 {
		go func() {
			defer close(cancellerDone)
			for it := 0; entered.Load() < int64(n) && !returned.Load(); it++ {
				if it%256 == 255 {
					runtime.Gosched()
				}
			}
			spin(fc.sweep)
			cancel()
			cancelBeforeReturn = !returned.Load()
		}()
	} else {
		close(cancellerDone)
	}

	var err error
	var out []int
	ok := awaitCall(c, fc.String(), func() {
		switch fc.api {
		case apiDoContext:
			err = parallel.DoContext(callerCtx, fc.par, n, func(_ context.Context, i int) error { body(i); return nil })
		case apiMapContext:
			in := make([]int, n)
			for i := range in {
				in[i] = i
			}
			out, err = parallel.MapContext(callerCtx, fc.par, in, func(_ context.Context, i int) (int, error) { body(i); return i + 7, nil })
		}
		returned.Store(true)
	})
	if !ok {
		cancel()
		return
	}
	ctxEnded := callerCtx.Err() != nil // read before the canceller is joined: "had ended by the time the call returned" (or a moment later)
	<-cancellerDone

	kind := "k-th call to finish ends the caller's ctx"
	if fc.k == fc.n {
		kind = "last call to finish ends the caller's ctx"
	} else if fc.k == 0 {
		kind = "outside goroutine cancels around the end of the last call"
	}
	rep.Count("finish runs", kind, 1)
	rep.Count("finish runs by ctx kind", endNames[fc.kind], 1)
	rep.Count("runs by function", apiNames[fc.api], 1)
	rep.Count("invocations", "total", int(entered.Load()))
	errS := "<nil>"
	if err != nil {
		errS = err.Error()
	}
	wit := map[string]any{"api": apiNames[fc.api], "n": n, "parallelism": fc.par, "ctx": endNames[fc.kind], "k": fc.k,
		"sweep_spins": fc.sweep, "work_spins": fc.work, "invocations": entered.Load(), "returned_error": errS, "caller_ctx_ended": ctxEnded}

	rep.Eval(2 + n)
	if bad.Load() != 0 {
		c.Violation("index-range", fmt.Sprintf("%s: f was handed %d indexes outside [0, %d), the first was %d", fc, bad.Load(), n, badFirst.Load()), wit)
		return
	}
	allOnce := true
	for i := range counts {
		if counts[i].Load() != 1 {
			allOnce = false
			break
		}
	}
	if allOnce {
		// Every index invoked exactly once, every invocation returned nil (this f never fails).
		if err != nil {
			c.Violation("error-after-complete-success", fmt.Sprintf("%s: every index was invoked exactly once and every call returned nil, but the call returned %q", fc, errS), wit)
			return
		}
		if fc.api == apiMapContext {
			rep.Eval(n)
			if len(out) != n {
				c.Violation("result-length", fmt.Sprintf("%s: every call succeeded but %d results were returned for %d inputs", fc, len(out), n), wit)
				return
			}
			for i, v := range out {
				if v != i+7 {
					c.Violation("result-position", fmt.Sprintf("%s: out[%d] = %d, but f(in[%d]) = %d", fc, i, v, i, i+7), wit)
					return
				}
			}
		}
		rep.Count("clauses judged", "complete success => nil error and complete results", 1)
		if ctxEnded && (fc.k > 0 || cancelBeforeReturn) {
			rep.Count("runs", "caller's ctx ended while every index had been invoked and succeeded", 1)
		}
		rep.Distinct("finish|" + fc.String())
		return
	}
	// Some index was not invoked (or one more than once): the usual leniency.
	for i := range counts {
		if got := counts[i].Load(); got > 1 {
			rep.Count("not judged", "index invoked more than once in a run with a cancelled caller ctx", 1)
			break
		}
	}
	switch {
	case err == nil:
		c.Violation("count", fmt.Sprintf("%s: the call returned nil although not every index was invoked exactly once (%d invocations)", fc, entered.Load()), wit)
	case !(ctxEnded && errors.Is(err, callerCtx.Err())):
		c.Violation("error-unknown", fmt.Sprintf("%s: returned error %q, which no call returned and which is not the caller's context error", fc, errS), wit)
	default:
		rep.Count("finish runs", "some index not invoked, caller's ctx error returned (allowed)", 1)
	}
}

// finishCases lists the group: (a) the last call to finish ends the caller's context, over the whole
// parallelism x n x ctx-kind grid, twice; (b) the k-th call to finish does, for every k (n <= 6) or
// a few k (n = 50, 1000); (c) an outside goroutine cancels at a swept offset around the end of the
// last call.
func finishCases(r *vkit.Report, rnd *vkit.Rand, small bool) []finCase {
	var cases []finCase
	ns := []int{1, 2, 3, 4, 5, 6, 50, 1000}
	pars := func(n, alt int) []int { return []int{2, 3, 4, 8, n, n + 3, -(alt % 2)} }
	alt := 0
	for rep := 0; rep < r.Scale(2, 8); rep++ {
		for _, n := range ns {
			for _, p := range pars(n, rep) {
				for _, api := range []int{apiDoContext, apiMapContext} {
					for kind := 0; kind < 3; kind++ {
						cases = append(cases, finCase{api: api, par: p, n: n, kind: kind, k: n, work: rnd.Intn(200)})
					}
				}
			}
		}
	}
	for rep := 0; rep < r.Scale(1, 4); rep++ {
		for _, n := range ns {
			var ks []int
			if n <= 6 {
				for k := 1; k <= n; k++ {
					ks = append(ks, k)
				}
			} else {
				ks = []int{1, n / 2, n - 1, n - rnd.Intn(minInt(n, 8)), 1 + rnd.Intn(n)}
			}
			for _, p := range pars(n, rep+1) {
				for _, k := range ks {
					alt++
					cases = append(cases, finCase{api: []int{apiDoContext, apiMapContext}[alt%2], par: p, n: n, kind: alt % 3, k: k, work: rnd.Intn(200)})
				}
			}
		}
	}
	sweeps := r.Scale(2400, 40000)
	if small {
		sweeps = r.Scale(600, 6000)
	}
	for t := 0; t < sweeps; t++ {
		n := []int{2, 3, 4, 5, 6, 50}[t%6]
		p := []int{2, 3, 4, 8, n, 0}[(t/6)%6]
		work := 50 + 100*(t%7)
		cases = append(cases, finCase{api: []int{apiDoContext, apiMapContext}[(t/36)%2], par: p, n: n, kind: t % 2, k: 0,
			work: work, sweep: rnd.Intn(2*work + 400)})
	}
	return cases
}
