package main

// Group "deadline": caller contexts that carry a deadline but did not end because of it.
// The error the call returns must be exactly the caller's ctx.Err() (errors.Is and ==) unless it is
// an error some call returned; in particular a timeout context that was cancelled (or whose parent
// was cancelled) before its deadline reports context.Canceled for ever, also once the deadline
// instant has passed.

import (
	"context"
	"errors"
	"fmt"
	"sync/atomic"
	"time"

	"github.com/bradenaw/juniper/parallel"

	"verif/vkit"
)

const (
	dlTimeoutCancelled   = iota // WithTimeout(short), cancelled at once, used after the deadline instant
	dlDeadlineCancelled         // WithDeadline(short), the same
	dlParentCancelled           // WithTimeout(short) under a parent that is cancelled before the deadline, used after it
	dlPastUnderCancelled        // WithDeadline(in the past) created under an already-cancelled parent
	dlExpired                   // control: WithTimeout(short), used after it has expired
	dlLiveWithDeadline          // control: a deadline far in the future, context live
)

var dlNames = [...]string{
	"WithTimeout cancelled before its deadline, used after the deadline instant",
	"WithDeadline cancelled before its deadline, used after the deadline instant",
	"WithTimeout whose parent was cancelled before the deadline, used after the deadline instant",
	"WithDeadline in the past created under an already-cancelled parent",
	"WithTimeout that has expired",
	"WithTimeout far in the future (live)",
}

type dlCase struct {
	api, par, n int
	state       int
	honour      bool // f returns the error of the context it was handed when that context is done
}

func (dc dlCase) String() string {
	h := "f ignores its context"
	if dc.honour {
		h = "f returns its context's error"
	}
	return fmt.Sprintf("%s n=%d parallelism=%d, caller ctx: %s; %s", apiNames[dc.api], dc.n, dc.par, dlNames[dc.state], h)
}

func executeDeadline(c *vkit.Case, dc dlCase) {
	rep := c.R
	n := dc.n
	const short = 200 * time.Microsecond
	var ctx context.Context
	var cancels []func()
	defer func() {
		for _, f := range cancels {
			f()
		}
	}()
	waitPast := func(ctx context.Context) {
		if dl, ok := ctx.Deadline(); ok {
			for !time.Now().After(dl.Add(50 * time.Microsecond)) {
				time.Sleep(100 * time.Microsecond)
			}
		}
	}
	switch dc.state {
	case dlTimeoutCancelled:
		cx, cancel := context.WithTimeout(context.Background(), short)
		cancel()
		ctx = cx
		waitPast(ctx)
	case dlDeadlineCancelled:
		cx, cancel := context.WithDeadline(context.Background(), time.Now().Add(short))
		cancel()
		ctx = cx
		waitPast(ctx)
	case dlParentCancelled:
		parent, pcancel := context.WithCancel(context.Background())
		cx, cancel := context.WithTimeout(parent, short)
		pcancel()
		cancels = append(cancels, cancel)
		ctx = cx
		<-ctx.Done()
		waitPast(ctx)
	case dlPastUnderCancelled:
		parent, pcancel := context.WithCancel(context.Background())
		pcancel()
		cx, cancel := context.WithDeadline(parent, time.Now().Add(-time.Second))
		cancels = append(cancels, cancel)
		ctx = cx
	case dlExpired:
		cx, cancel := context.WithTimeout(context.Background(), short)
		cancels = append(cancels, cancel)
		ctx = cx
		<-ctx.Done()
		waitPast(ctx)
	default:
		cx, cancel := context.WithTimeout(context.Background(), time.Hour)
		cancels = append(cancels, cancel)
		ctx = cx
	}
	want := ctx.Err() // final: a done context's error never changes

	counts := make([]atomic.Int32, n)
	var bad, retCanceled, retDeadline, retOther, calls atomic.Int64
	body := func(cx context.Context, i int) error {
		if i < 0 || i >= n {
			bad.Add(1)
			return nil
		}
		counts[i].Add(1)
		calls.Add(1)
		if dc.honour {
			switch e := cx.Err(); e {
			case nil:
			case context.Canceled:
				retCanceled.Add(1)
				return e
			case context.DeadlineExceeded:
				retDeadline.Add(1)
				return e
			default:
				retOther.Add(1)
				return e
			}
		}
		return nil
	}
	var err error
	var out []int
	ok := awaitCall(c, dc.String(), func() {
		if dc.api == apiDoContext {
			err = parallel.DoContext(ctx, dc.par, n, body)
			return
		}
		in := make([]int, n)
		for i := range in {
			in[i] = i
		}
		out, err = parallel.MapContext(ctx, dc.par, in, func(cx context.Context, i int) (int, error) { return i + 7, body(cx, i) })
	})
	if !ok {
		return
	}
	rep.Count("deadline-context runs", dlNames[dc.state], 1)
	rep.Count("runs by function", apiNames[dc.api], 1)
	rep.Eval(2 + n)
	errS, wantS := "<nil>", "<nil>"
	if err != nil {
		errS = err.Error()
	}
	if want != nil {
		wantS = want.Error()
	}
	wit := map[string]any{"api": apiNames[dc.api], "n": n, "parallelism": dc.par, "caller_ctx": dlNames[dc.state], "f_honours_ctx": dc.honour,
		"caller_ctx_err": wantS, "returned_error": errS, "invocations": calls.Load()}
	if bad.Load() != 0 {
		c.Violation("index-range", fmt.Sprintf("%s: f was handed %d indexes outside [0, %d)", dc, bad.Load(), n), wit)
		return
	}
	failed := retCanceled.Load() + retDeadline.Load() + retOther.Load()
	allOnce := true
	for i := range counts {
		if counts[i].Load() != 1 {
			allOnce = false
			break
		}
	}
	switch {
	case err == nil && failed > 0:
		c.Violation("error-dropped", fmt.Sprintf("%s: %d calls returned an error but the call returned nil", dc, failed), wit)
	case err == nil && !allOnce:
		c.Violation("count", fmt.Sprintf("%s: the call returned nil although not every index was invoked exactly once (%d invocations)", dc, calls.Load()), wit)
	case err != nil && failed == 0 && allOnce:
		c.Violation("error-after-complete-success", fmt.Sprintf("%s: every index was invoked exactly once and every call returned nil, but the call returned %q", dc, errS), wit)
	case err != nil:
		fromCall := (retCanceled.Load() > 0 && err == context.Canceled) || (retDeadline.Load() > 0 && err == context.DeadlineExceeded)
		fromCtx := want != nil && err == want && errors.Is(err, want)
		if !fromCall && !fromCtx {
			c.Violation("error-unknown", fmt.Sprintf("%s: returned %q; no call returned that, and the caller's ctx.Err() is %q", dc, errS, wantS), wit)
			return
		}
		rep.Count("deadline-context outcomes", "caller's ctx.Err() or a call's error", 1)
	default:
		if dc.api == apiMapContext {
			if len(out) != n {
				c.Violation("result-length", fmt.Sprintf("%s: returned %d results for %d inputs", dc, len(out), n), wit)
				return
			}
			for i, v := range out {
				if v != i+7 {
					c.Violation("result-position", fmt.Sprintf("%s: out[%d] = %d, but f(in[%d]) = %d", dc, i, v, i, i+7), wit)
					return
				}
			}
		}
		rep.Count("deadline-context outcomes", "nil, every index invoked once", 1)
	}
	if want == context.Canceled && dc.state != dlExpired && dc.state != dlLiveWithDeadline {
		rep.Count("runs", "caller ctx has a passed deadline but Err() == Canceled", 1)
	}
	rep.Distinct("deadline|" + dc.String())
}

func deadlineCases(reps int) []dlCase {
	var cases []dlCase
	for rep := 0; rep < reps; rep++ {
		for state := 0; state <= dlLiveWithDeadline; state++ {
			for _, n := range []int{0, 1, 2, 5, 50} {
				for _, p := range []int{1, 2, 3, 8, 0, -1} {
					for _, api := range []int{apiDoContext, apiMapContext} {
						cases = append(cases, dlCase{api: api, par: p, n: n, state: state, honour: (len(cases)+rep)%2 == 0})
					}
				}
			}
		}
	}
	return cases
}
