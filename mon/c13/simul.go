package main

// Group "simul": several calls fail at the same instant, each with an error of a different concrete
// type. The failing calls wait inside f (spinning on a counter, with a timeout that decides nothing)
// until the last of them has entered, then return together. Oracle as everywhere: the call returns,
// does not panic, returns an error that one of the calls returned, nothing runs after the return.

import (
	"context"
	"errors"
	"fmt"
	"runtime"
	"sync/atomic"
	"time"

	"github.com/bradenaw/juniper/parallel"

	"verif/vkit"
)

type structErr struct{ idx int }

func (e structErr) Error() string { return fmt.Sprintf("verif: struct error of call %d", e.idx) }

type ptrErr struct{ idx int }

func (e *ptrErr) Error() string { return fmt.Sprintf("verif: pointer error of call %d", e.idx) }

type stringErr string

func (e stringErr) Error() string { return string(e) }

type wrapErr struct {
	idx   int
	inner error
}

func (e wrapErr) Error() string {
	return fmt.Sprintf("verif: wrapping error of call %d: %v", e.idx, e.inner)
}
func (e wrapErr) Unwrap() error { return e.inner }

var errTypeNames = [...]string{"errors.New", "fmt.Errorf(%w)", "struct", "pointer to struct", "string kind", "context.Canceled", "struct wrapping another"}

func makeErr(kind, idx int) error {
	switch kind % len(errTypeNames) {
	case 0:
		return errors.New(fmt.Sprintf("verif: plain error of call %d", idx))
	case 1:
		return fmt.Errorf("verif: call %d: %w", idx, errors.New("inner"))
	case 2:
		return structErr{idx}
	case 3:
		return &ptrErr{idx}
	case 4:
		return stringErr(fmt.Sprintf("verif: string error of call %d", idx))
	case 5:
		return context.Canceled
	default:
		return wrapErr{idx, &ptrErr{-idx}}
	}
}

type simCase struct {
	api, par, n int
	failers     []int // failing indexes
	kinds       []int // error kind per failer
}

func (sc simCase) String() string {
	ks := make([]string, len(sc.kinds))
	for i, k := range sc.kinds {
		ks[i] = errTypeNames[k%len(errTypeNames)]
	}
	return fmt.Sprintf("%s n=%d parallelism=%d, calls %v fail at the same instant with error types %v", apiNames[sc.api], sc.n, sc.par, sc.failers, ks)
}

func executeSimul(c *vkit.Case, sc simCase) {
	rep := c.R
	n := sc.n
	k := int64(len(sc.failers))
	errOf := make(map[int]error, len(sc.failers))
	for j, i := range sc.failers {
		errOf[i] = makeErr(sc.kinds[j], i)
	}
	counts := make([]atomic.Int32, n)
	returnedErr := make([]atomic.Bool, n)
	var arrived, bad, gaveUp, running, late atomic.Int64
	var returned atomic.Bool
	body := func(i int) error {
		if i < 0 || i >= n {
			bad.Add(1)
			return nil
		}
		running.Add(1)
		counts[i].Add(1)
		e := errOf[i]
		if e != nil {
			// Wait for the other failing calls, so that all of them return within nanoseconds of each
			// other. The timeout only keeps a library that runs them one after the other from
			// hanging here; it decides nothing.
			arrived.Add(1)
			start := time.Now()
			for spins := 1; arrived.Load() < k; spins++ {
				if spins%256 == 0 {
					runtime.Gosched()
					if time.Since(start) > 5*time.Millisecond {
						gaveUp.Add(1)
						break
					}
				}
			}
			returnedErr[i].Store(true)
		}
		running.Add(-1)
		if returned.Load() {
			late.Add(1)
		}
		return e
	}
	var err error
	curAtReturn := int64(0)
	ok := awaitCall(c, sc.String(), func() {
		if sc.api == apiDoContext {
			err = parallel.DoContext(context.Background(), sc.par, n, func(_ context.Context, i int) error { return body(i) })
		} else {
			in := make([]int, n)
			for i := range in {
				in[i] = i
			}
			_, err = parallel.MapContext(context.Background(), sc.par, in, func(_ context.Context, i int) (int, error) { return i, body(i) })
		}
		returned.Store(true)
		curAtReturn = running.Load()
	})
	if !ok {
		return
	}
	rep.Count("simultaneous-failure runs by number of failing calls", fmt.Sprint(k), 1)
	rep.Count("runs by function", apiNames[sc.api], 1)
	rep.Eval(3)
	errS := "<nil>"
	if err != nil {
		errS = fmt.Sprintf("%T %q", err, err.Error())
	}
	wit := map[string]any{"api": apiNames[sc.api], "n": n, "parallelism": sc.par, "failing_indexes": sc.failers, "returned_error": errS, "case": sc.String()}
	switch {
	case bad.Load() != 0:
		c.Violation("index-range", fmt.Sprintf("%s: f was handed %d indexes outside [0, %d)", sc, bad.Load(), n), wit)
		return
	case curAtReturn != 0 || late.Load() != 0:
		c.Violation("running-at-return", fmt.Sprintf("%s: %d invocations of f were still running when the call returned (%d finished later)", sc, curAtReturn, late.Load()), wit)
		return
	}
	failed := 0
	fromCall := false
	for _, i := range sc.failers {
		if returnedErr[i].Load() {
			failed++
			if err != nil && errors.Is(err, errOf[i]) {
				fromCall = true
			}
		}
	}
	switch {
	case failed > 0 && err == nil:
		c.Violation("error-dropped", fmt.Sprintf("%s: %d calls returned an error but the call returned nil", sc, failed), wit)
		return
	case err != nil && !fromCall:
		c.Violation("error-unknown", fmt.Sprintf("%s: returned %s, which none of the %d failed calls returned (the caller's context is live)", sc, errS, failed), wit)
		return
	case err == nil:
		for i := range counts {
			if counts[i].Load() != 1 {
				c.Violation("count", fmt.Sprintf("%s: the call returned nil although index %d was invoked %d times", sc, i, counts[i].Load()), wit)
				return
			}
		}
	}
	if gaveUp.Load() == 0 && int64(failed) == k {
		rep.Count("runs", "several calls failed at the same instant with errors of different types", 1)
		rep.Distinct("simul|" + sc.String())
	} else {
		rep.Count("runs", "simultaneous failure not achieved (a failing call gave up waiting or was never started)", 1)
	}
}

func simulCases(rnd *vkit.Rand, count int) []simCase {
	out := make([]simCase, count)
	for t := range out {
		k := 2 + t%3 // 2..4 simultaneous failers
		par := k + rnd.Intn(3)
		if t%11 == 0 {
			par = 8
		}
		n := k + rnd.Intn(12)
		sc := simCase{api: []int{apiDoContext, apiMapContext}[(t/3)%2], par: par, n: n}
		sc.failers = rnd.Perm(n)[:k]
		off := rnd.Intn(len(errTypeNames))
		for j := 0; j < k; j++ {
			sc.kinds = append(sc.kinds, off+j) // k < 7 consecutive kinds: all different
		}
		out[t] = sc
	}
	return out
}
