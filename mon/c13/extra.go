package main

// Two groups with an f that is as light as possible (the full instrumentation of run.body would
// dominate): "ramp" (large parallelism, cheap calls first, then a plateau of slow calls that all
// overlap) and "scale" (parallelism x n beyond 2^31, trivial f, exactly once over the whole range).

import (
	"context"
	"fmt"
	"sync"
	"sync/atomic"
	"time"

	"github.com/bradenaw/juniper/parallel"

	"verif/vkit"
)

type lightCase struct {
	api   int
	par   int
	n     int
	cheap int // ramp: indexes below this return at once; the others sleep while counted by the gauge
}

func (lc lightCase) String() string {
	if lc.cheap > 0 {
		return fmt.Sprintf("%s n=%d parallelism=%d (indexes < %d return at once, the other %d wait for each other)", apiNames[lc.api], lc.n, lc.par, lc.cheap, lc.n-lc.cheap)
	}
	return fmt.Sprintf("%s n=%d parallelism=%d (trivial f)", apiNames[lc.api], lc.n, lc.par)
}

// awaitCall runs call on its own goroutine under vkit.Await. ok = it returned.
func awaitCall(c *vkit.Case, desc string, call func()) (ok bool) {
	return awaitCallOpts(c, desc, vkit.AwaitOpts{}, call)
}

func awaitCallOpts(c *vkit.Case, desc string, opts vkit.AwaitOpts, call func()) (ok bool) {
	var pnc *vkit.Panic
	done := make(chan struct{})
	go func() {
		defer close(done)
		pnc = vkit.Try(call)
	}()
	verdict, dump := vkit.Await(done, opts)
	switch verdict {
	case vkit.AwaitStuck:
		if len(dump) > 12000 {
			dump = dump[:12000] + "\n...[truncated]"
		}
		c.Violation("stuck", desc+": the call never returns: every goroutine of the scenario is parked for good", map[string]any{"case": desc, "goroutines": dump})
		return false
	case vkit.AwaitInconclusive:
		c.R.Inconclusive(fmt.Sprintf("%s (%s): the call had not returned after 60 s but goroutines were still runnable", c.ID(), desc))
		return false
	}
	if pnc != nil {
		c.Violation("panic", desc+": the call panicked: "+pnc.Msg, map[string]any{"case": desc, "stack": pnc.Stack})
		return false
	}
	return true
}

// executeRamp: the first lc.cheap indexes cost nothing, so whatever the library does while its
// goroutines come up happens under a rapid fire of claims; the remaining indexes wait for each
// other (with a timeout) so that every goroutine the library has is inside f at the same time. Judged: the gauge over
// the slow calls never exceeds parallelism; exactly once; nothing running at return.
func executeRamp(c *vkit.Case, lc lightCase) {
	rep := c.R
	n := lc.n
	// Plain per-index marks (under the race detector an atomic costs about a microsecond once
	// hundreds of goroutines are alive, which would stretch the cheap phase): each index is written by
	// the one invocation that owns it and read after the call has returned.
	seen := make([]uint8, n)
	var gauge vkit.Gauge
	var bad, badFirst atomic.Int64
	var returned atomic.Bool
	var late atomic.Int64
	d := time.Duration(20+c.Rand.Intn(60)) * time.Microsecond
	gate := make(chan struct{})
	var gateOnce sync.Once
	var timeouts atomic.Int64
	body := func(i int) {
		if i < 0 || i >= n {
			if bad.Add(1) == 1 {
				badFirst.Store(int64(i))
			}
			return
		}
		seen[i]++
		if i >= lc.cheap {
			// Plateau: hold every call until as many are inside f as the caller allows (then all of
			// the library's goroutines overlap, and one goroutine too many shows on the gauge), or
			// until a timeout - a library that uses fewer goroutines is within its rights, so the
			// gate never decides anything; it only shapes the schedule.
			if gauge.Enter() >= int64(lc.par) {
				gateOnce.Do(func() { close(gate) })
			}
			select {
			case <-gate:
			default:
				t := time.NewTimer(5 * time.Millisecond)
				select {
				case <-gate:
				case <-t.C:
					timeouts.Add(1)
				}
				t.Stop()
			}
			time.Sleep(d) // long enough for a goroutine that is one too many to arrive as well
			gauge.Exit()
			if returned.Load() {
				late.Add(1)
			}
		}
	}
	var err error
	var out []int
	curAtReturn := int64(0)
	ok := awaitCall(c, lc.String(), func() {
		switch lc.api {
		case apiDo:
			parallel.Do(lc.par, n, body)
		case apiDoContext:
			err = parallel.DoContext(context.Background(), lc.par, n, func(_ context.Context, i int) error { body(i); return nil })
		case apiMap:
			in := make([]int, n)
			for i := range in {
				in[i] = i
			}
			out = parallel.Map(lc.par, in, func(i int) int { body(i); return i + 7 })
		}
		returned.Store(true)
		curAtReturn = gauge.Cur()
	})
	if !ok {
		return
	}
	wit := map[string]any{"api": apiNames[lc.api], "n": n, "parallelism": lc.par, "cheap_indexes": lc.cheap, "sleep_after_gate": d.String(), "gate_timeouts": timeouts.Load(), "gauge_max": gauge.Max()}
	rep.Count("ramp-up runs by parallelism", fmt.Sprint(lc.par), 1)
	rep.Count("runs by function", apiNames[lc.api], 1)
	rep.Max("gauge", fmt.Sprintf("parallelism=%d", lc.par), int(gauge.Max()))
	rep.Eval(3 + n)
	if bad.Load() != 0 {
		c.Violation("index-range", fmt.Sprintf("%s: f was handed %d indexes outside [0, %d), the first was %d", lc, bad.Load(), n, badFirst.Load()), wit)
		return
	}
	if m := gauge.Max(); m > int64(lc.par) {
		c.Violation("bound", fmt.Sprintf("%s: %d invocations of f ran at the same time, more than the parallelism %d", lc, m, lc.par), wit)
		return
	}
	if curAtReturn != 0 || late.Load() != 0 {
		c.Violation("running-at-return", fmt.Sprintf("%s: %d invocations of f were still running when the call returned (%d finished later)", lc, curAtReturn, late.Load()), wit)
		return
	}
	if err != nil {
		c.Violation("error-unknown", fmt.Sprintf("%s: returned error %q although no call failed and the caller's context is live", lc, err.Error()), wit)
		return
	}
	for i, got := range seen {
		if got != 1 {
			c.Violation("count", fmt.Sprintf("%s: index %d was invoked %d times", lc, i, got), wit)
			return
		}
	}
	if lc.api == apiMap {
		rep.Eval(n)
		if len(out) != n {
			c.Violation("result-length", fmt.Sprintf("%s: returned %d results for %d inputs", lc, len(out), n), wit)
			return
		}
		for i, v := range out {
			if v != i+7 {
				c.Violation("result-position", fmt.Sprintf("%s: out[%d] = %d, but f(in[%d]) = %d", lc, i, v, i, i+7), wit)
				return
			}
		}
	}
	if gauge.Max() == int64(lc.par) {
		rep.Count("runs", "ramp-up: every goroutine the caller allowed was inside f at once", 1)
	}
	if gauge.Max() >= 2 {
		rep.Distinct(fmt.Sprintf("ramp|%v|%v", lc, d))
	}
	if timeouts.Load() > 0 {
		rep.Count("runs", "ramp-up: some plateau calls gave up waiting for the others", 1)
	}
	rep.Count("runs", "cheap ramp-up then slow plateau", 1)
}

// executeScale: trivial f, n in the millions, parallelism in the thousands (parallelism x n beyond
// 2^31). Judged: every index in [0, n) exactly once, none outside.
func executeScale(c *vkit.Case, lc lightCase) {
	rep := c.R
	n := lc.n
	// Plain per-index marks: each is written by the one invocation that owns the index and read after
	// the call has returned (an index handed out twice at the same time would be a race report; twice
	// one after the other a count of 2).
	cnt := make([]uint8, n)
	var bad, badFirst atomic.Int64
	body := func(i int) {
		if i < 0 || i >= n {
			if bad.Add(1) == 1 {
				badFirst.Store(int64(i))
			}
			return
		}
		cnt[i]++
	}
	var err error
	ok := awaitCall(c, lc.String(), func() {
		switch lc.api {
		case apiDo:
			parallel.Do(lc.par, n, body)
		case apiDoContext:
			err = parallel.DoContext(context.Background(), lc.par, n, func(_ context.Context, i int) error { body(i); return nil })
		}
	})
	if !ok {
		return
	}
	rep.Count("product-scale runs", fmt.Sprintf("parallelism=%d n=%d", lc.par, n), 1)
	rep.Count("runs by function", apiNames[lc.api], 1)
	rep.Count("invocations", "total", n)
	rep.Eval(n + 2)
	wit := map[string]any{"api": apiNames[lc.api], "n": n, "parallelism": lc.par}
	if bad.Load() != 0 {
		c.Violation("index-range", fmt.Sprintf("%s: f was handed %d indexes outside [0, %d), the first was %d", lc, bad.Load(), n, badFirst.Load()), wit)
		return
	}
	if err != nil {
		c.Violation("error-unknown", fmt.Sprintf("%s: returned error %q although no call failed and the caller's context is live", lc, err.Error()), wit)
		return
	}
	// Plain reads: the call has returned, so every invocation's effect must be visible (a missing
	// barrier would be a race report here).
	missing, dup, first := 0, 0, -1
	for i, v := range cnt {
		if v != 1 {
			if first < 0 {
				first = i
			}
			if v == 0 {
				missing++
			} else {
				dup++
			}
		}
	}
	if first >= 0 {
		wit["never_invoked"], wit["invoked_more_than_once"], wit["first_wrong_index"] = missing, dup, first
		c.Violation("count", fmt.Sprintf("%s: %d indexes were never passed to f and %d were passed more than once (first: index %d, %d times)", lc, missing, dup, first, cnt[first]), wit)
		return
	}
	rep.Distinct(fmt.Sprintf("scale|%v", lc))
	rep.Count("runs", "product scale (parallelism x n >= 2^32)", 1)
}
