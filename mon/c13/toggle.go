package main

// Group "toggle": another goroutine flips runtime.GOMAXPROCS between known values as fast as it can
// WHILE Do / DoContext / Map / MapContext run with parallelism <= 0 (and a few positive values as a
// control). The library may read GOMAXPROCS whenever it likes during a call, so the bound is judged
// against the largest value that can be in force at any time during the call; everything else (the
// call returns, no panic, exactly once, results in position, nothing running after the return) does
// not depend on GOMAXPROCS at all. The group runs alone: GOMAXPROCS is process-global.

import (
	"context"
	"fmt"
	"runtime"
	"sync/atomic"
	"time"

	"github.com/bradenaw/juniper/parallel"

	"verif/vkit"
)

// toggler is excluded by name from the goroutines whose being parked means "stuck".
func toggler(vals []int, stop *atomic.Bool, flips *atomic.Int64, done chan struct{}, restore int) {
	defer close(done)
	for i := 0; !stop.Load(); i++ {
		runtime.GOMAXPROCS(vals[i%len(vals)])
		flips.Add(1)
		// Each flip stops the world for tens of microseconds; a short, varying pause lets the calls
		// make progress in between (a call then sees a handful of flips rather than hundreds).
		vkit.SpinFor(time.Duration(5+(i*13)%50) * time.Microsecond)
	}
	runtime.GOMAXPROCS(restore)
}

func relevantNotToggler(g vkit.G) bool {
	if g.In("main.toggler") {
		return false
	}
	return g.Has("github.com/bradenaw/juniper/") || g.Has("main.")
}

type togCase struct {
	api, par, n int
	vals        []int
	maxProcs    int // the largest GOMAXPROCS that can be in force during the call
	work        int
}

func (tc togCase) String() string {
	return fmt.Sprintf("%s n=%d parallelism=%d while another goroutine flips GOMAXPROCS between %v", apiNames[tc.api], tc.n, tc.par, tc.vals)
}

func executeToggle(c *vkit.Case, tc togCase) *retained {
	rep := c.R
	n := tc.n
	counts := make([]atomic.Int32, n)
	gauge := &vkit.Gauge{}
	late := &lateState{}
	var bad, badFirst atomic.Int64
	body := func(i int) {
		if i < 0 || i >= n {
			if bad.Add(1) == 1 {
				badFirst.Store(int64(i))
			}
			return
		}
		gauge.Enter()
		if late.returned.Load() {
			late.lateStart.Add(1)
		}
		counts[i].Add(1)
		spin(tc.work)
		gauge.Exit()
		if late.returned.Load() {
			late.lateExit.Add(1)
		}
	}
	wit := map[string]any{"api": apiNames[tc.api], "n": n, "parallelism": tc.par, "gomaxprocs_values": tc.vals, "work_spins": tc.work}
	keep := &retained{c: c, desc: tc.String(), late: late, gauge: gauge, wit: wit}
	violate := func(sig, what string) {
		keep.violated = true
		wit["gauge_max"] = gauge.Max()
		c.Violation(sig, tc.String()+": "+what, wit)
	}
	var err error
	var out []int
	curAtReturn := int64(0)
	ok := awaitCallOpts(c, tc.String(), vkit.AwaitOpts{Relevant: relevantNotToggler, Soft: time.Second}, func() {
		switch tc.api {
		case apiDo:
			parallel.Do(tc.par, n, body)
		case apiDoContext:
			err = parallel.DoContext(context.Background(), tc.par, n, func(_ context.Context, i int) error { body(i); return nil })
		case apiMap, apiMapContext:
			in := make([]int, n)
			for i := range in {
				in[i] = i
			}
			if tc.api == apiMap {
				out = parallel.Map(tc.par, in, func(i int) int { body(i); return i + 7 })
			} else {
				out, err = parallel.MapContext(context.Background(), tc.par, in, func(_ context.Context, i int) (int, error) { body(i); return i + 7, nil })
			}
		}
		late.returned.Store(true)
		curAtReturn = gauge.Cur()
	})
	if !ok {
		keep.violated = true
		return keep
	}
	rep.Count("toggle runs by function", apiNames[tc.api], 1)
	rep.Count("toggle runs by parallelism", fmt.Sprint(tc.par), 1)
	rep.Count("invocations", "total", n)
	rep.Eval(4 + n)
	bound := tc.par
	if bound <= 0 {
		bound = tc.maxProcs
	}
	switch {
	case bad.Load() != 0:
		violate("index-range", fmt.Sprintf("f was handed %d indexes outside [0, %d), the first was %d", bad.Load(), n, badFirst.Load()))
		return keep
	case curAtReturn != 0 || late.lateStart.Load() != 0 || late.lateExit.Load() != 0:
		violate("running-at-return", fmt.Sprintf("%d invocations of f were still running when the call returned (%d began, %d finished after the return)", curAtReturn, late.lateStart.Load(), late.lateExit.Load()))
		return keep
	case gauge.Max() > int64(bound):
		violate("bound", fmt.Sprintf("%d invocations of f ran at the same time; the parallelism asked for allows at most %d (for <= 0: the largest GOMAXPROCS in force at any time during the call)", gauge.Max(), bound))
		return keep
	case err != nil:
		violate("error-unknown", fmt.Sprintf("returned error %q although no call failed and the caller's context is live", err.Error()))
		return keep
	}
	for i := range counts {
		if got := counts[i].Load(); got != 1 {
			violate("count", fmt.Sprintf("index %d was invoked %d times", i, got))
			return keep
		}
	}
	if tc.api == apiMap || tc.api == apiMapContext {
		rep.Eval(n)
		if len(out) != n {
			violate("result-length", fmt.Sprintf("returned %d results for %d inputs", len(out), n))
			return keep
		}
		for i, v := range out {
			if v != i+7 {
				violate("result-position", fmt.Sprintf("out[%d] = %d, but f(in[%d]) = %d", i, v, i, i+7))
				return keep
			}
		}
	}
	if gauge.Max() >= 2 {
		rep.Distinct("toggle|" + tc.String())
	}
	rep.Count("runs", "while GOMAXPROCS was being flipped by another goroutine", 1)
	return keep
}

var toggleSets = [][]int{{2, 16}, {1, 4, 32}, {3, 8}}

func toggleCases(rnd *vkit.Rand, vals []int, inherited, count int) []togCase {
	maxP := inherited
	for _, v := range vals {
		if v > maxP {
			maxP = v
		}
	}
	ns := []int{1, 2, 3, 5, 8, 17, 33, 40, 64, 100, 200, 300}
	pars := []int{0, -1, -7, 0, -1, -7, 2, 0, -1, 5}
	out := make([]togCase, count)
	for i := range out {
		out[i] = togCase{api: i % 4, par: pars[(i/4)%len(pars)], n: ns[rnd.Intn(len(ns))], vals: vals, maxProcs: maxP, work: rnd.Intn(300)}
	}
	return out
}
