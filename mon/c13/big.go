package main

// Two groups:
//
// "dense": tens of thousands of cheap trials aimed at one clause - while the caller's context is
// live, at most parallelism-1 calls begin with an already-cancelled context. f is practically free
// (reads ctx.Err() at entry, returns nil; one chosen call fails), so a library that lets a goroutine
// run on for even a few hundred nanoseconds after it has cancelled the context shows up.
//
// "near-maxint32" (thorough, non-race, inherited GOMAXPROCS only; regression scenario for /repo
// commit a092d08): n within a few of MaxInt32 (and, on 64-bit, just above it). Exactly-once per index
// is too costly to store at 2^31; judged instead: no index outside [0, n), a checksum over all
// calls (number of calls and sum of indexes folded into one word, mod 2^64), the call returns.

import (
	"context"
	"errors"
	"fmt"
	"math"
	"os"
	"strconv"
	"sync/atomic"
	"time"

	"github.com/bradenaw/juniper/parallel"

	"verif/vkit"
)

// ---------------------------------------------------------------------------------------------
// dense

type denseTrial struct {
	api, par, n, failAt int
}

var errDense = errors.New("verif: the one failing call of a dense trial")

const denseBatch = 100 // trials per case

func executeDense(c *vkit.Case) {
	rep := c.R
	rnd := c.Rand
	trials := make([]denseTrial, denseBatch)
	for t := range trials {
		par := []int{2, 2, 3, 3, 4, 2 + rnd.Intn(7)}[rnd.Intn(6)] // mostly small: the bound parallelism-1 is tightest there
		n := 50 + rnd.Intn(1951)
		trials[t] = denseTrial{api: []int{apiDoContext, apiMapContext}[t%2], par: par, n: n, failAt: par + rnd.Intn(minInt(n-par, 40))}
	}
	var in []int
	judged, over := 0, 0
	for _, tr := range trials {
		tr := tr
		var atEntry atomic.Int64
		var failedCalls atomic.Int64
		body := func(ctx context.Context, i int) error {
			if ctx.Err() != nil {
				atEntry.Add(1)
			}
			if i == tr.failAt {
				failedCalls.Add(1)
				return errDense
			}
			return nil
		}
		desc := fmt.Sprintf("%s n=%d parallelism=%d, f free, call %d fails, caller's ctx live", apiNames[tr.api], tr.n, tr.par, tr.failAt)
		var err error
		ok := directCall(c, desc, func() {
			if tr.api == apiDoContext {
				err = parallel.DoContext(context.Background(), tr.par, tr.n, body)
				return
			}
			if len(in) < tr.n {
				in = make([]int, 2000)
				for i := range in {
					in[i] = i
				}
			}
			_, err = parallel.MapContext(context.Background(), tr.par, in[:tr.n], func(ctx context.Context, i int) (int, error) { return i, body(ctx, i) })
		})
		if !ok {
			return
		}
		judged++
		wit := map[string]any{"api": apiNames[tr.api], "n": tr.n, "parallelism": tr.par, "failing_index": tr.failAt, "began_with_cancelled_ctx": atEntry.Load()}
		if v := atEntry.Load(); v > int64(tr.par-1) {
			c.Violation("cancelled-at-entry", fmt.Sprintf("%s: %d calls began with an already-cancelled context; at most parallelism-1 = %d may", desc, v, tr.par-1), wit)
			return
		} else if v > 0 {
			over++
		}
		switch {
		case failedCalls.Load() > 0 && err == nil:
			c.Violation("error-dropped", desc+": a call returned an error but the call returned nil", wit)
			return
		case err != nil && !(failedCalls.Load() > 0 && errors.Is(err, errDense)):
			c.Violation("error-unknown", fmt.Sprintf("%s: returned %q, which no call returned (the caller's context is live)", desc, err.Error()), wit)
			return
		case err == nil:
			// the failing index was never reached?! then every index must have run: not the case
			c.Violation("count", desc+": the call returned nil although the failing call was never made", wit)
			return
		}
	}
	rep.Eval(2 * judged)
	rep.Count("dense trials", "judged", judged)
	rep.Count("dense trials", "some call began with an already-cancelled ctx (within the bound)", over)
}

// ---------------------------------------------------------------------------------------------
// near-maxint32

type nearCase struct {
	api, par int
	n        int
}

func (nc nearCase) String() string {
	return fmt.Sprintf("%s n=%d (MaxInt32%+d) parallelism=%d, f = range check + sharded checksum", apiNames[nc.api], nc.n, int64(nc.n)-math.MaxInt32, nc.par)
}

func nearCases() []nearCase {
	if strconv.IntSize == 32 {
		return []nearCase{{api: apiDo, par: 8, n: math.MaxInt32}}
	}
	m := int64(math.MaxInt32)
	above := int(m + 5)                                             // not a constant expression: this file also compiles for 32-bit ints
	cases := []nearCase{{api: apiDo, par: 8, n: math.MaxInt32 - 2}} // about 2 min: 2^31 trips to the library's shared counter
	if os.Getenv("VERIF_C13_NEAR_ALL") != "" {
		// Beyond the thorough budget (DoContext takes its context's lock once per index: about 5 min);
		// run by hand with VERIF_C13_NEAR_ALL=1.
		cases = append(cases,
			nearCase{api: apiDoContext, par: 8, n: math.MaxInt32 - 2},
			nearCase{api: apiDo, par: 16, n: math.MaxInt32 - 2},
			nearCase{api: apiDo, par: 8, n: above})
	}
	return cases
}

// One atomic add per call: each call adds (index + nearK) to its shard, so the grand total is
// sum(indexes) + calls*nearK (mod 2^64). A missing or extra call moves it by nearK + index, an index
// handed out twice in place of another by their difference.
type shard struct {
	tot atomic.Uint64
	_   [56]byte
}

const nearK = 0x9e3779b97f4a7c15

// nearWatcher is excluded by name from the goroutines whose being parked means "stuck".
func nearWatcher(bad *atomic.Int64, done <-chan struct{}, either chan<- struct{}) {
	defer close(either)
	for {
		select {
		case <-done:
			return
		case <-time.After(200 * time.Millisecond):
			if bad.Load() != 0 {
				return
			}
		}
	}
}

func executeNear(c *vkit.Case, nc nearCase) {
	rep := c.R
	n := nc.n
	shards := make([]shard, 64)
	var bad, badFirst atomic.Int64
	body := func(i int) {
		if i < 0 || i >= n {
			if bad.Add(1) == 1 {
				badFirst.Store(int64(i))
			}
			return
		}
		shards[i&63].tot.Add(uint64(i) + nearK)
	}
	start := time.Now()
	var err error
	var pnc *vkit.Panic
	done := make(chan struct{})
	either := make(chan struct{})
	go func() {
		defer close(done)
		pnc = vkit.Try(func() {
			if nc.api == apiDo {
				parallel.Do(nc.par, n, body)
			} else {
				err = parallel.DoContext(context.Background(), nc.par, n, func(_ context.Context, i int) error { body(i); return nil })
			}
		})
	}()
	go nearWatcher(&bad, done, either)
	verdict, dump := vkit.Await(either, vkit.AwaitOpts{Hard: 45 * time.Minute, Relevant: func(g vkit.G) bool {
		return !g.In("main.nearWatcher") && (g.Has("github.com/bradenaw/juniper/") || g.Has("main."))
	}})
	wit := map[string]any{"api": apiNames[nc.api], "n": n, "parallelism": nc.par, "wall_s": time.Since(start).Seconds()}
	total := func() (tot uint64) {
		for i := range shards {
			tot += shards[i].tot.Load()
		}
		return
	}
	if b := bad.Load(); b != 0 {
		// Judged as soon as it is seen: a call that hands out an index outside [0, n) may well never
		// return (it is left running; the process ends after this group).
		c.Violation("index-range", fmt.Sprintf("%s: f was handed an index outside [0, n): %d (after %.0f s)", nc, badFirst.Load(), time.Since(start).Seconds()), wit)
		return
	}
	switch verdict {
	case vkit.AwaitStuck:
		if len(dump) > 12000 {
			dump = dump[:12000]
		}
		wit["goroutines"] = dump
		c.Violation("stuck", nc.String()+": the call never returns: every goroutine of the scenario is parked for good", wit)
		return
	case vkit.AwaitInconclusive:
		rep.Inconclusive(fmt.Sprintf("%s (%s): the call had not returned after 45 min", c.ID(), nc))
		return
	}
	<-done
	rep.Eval(4)
	got := total()
	un := uint64(n)
	want := un*(un-1)/2 + un*nearK // n < 2^32: the first product does not overflow; the rest is mod 2^64
	switch {
	case pnc != nil:
		c.Violation("panic", nc.String()+": the call panicked: "+pnc.Msg, wit)
	case err != nil:
		c.Violation("error-unknown", fmt.Sprintf("%s: returned %q although no call failed and the caller's context is live", nc, err.Error()), wit)
	case got != want:
		c.Violation("count", fmt.Sprintf("%s: the checksum over all calls (sum of index + K, mod 2^64) is %#x, want %#x for exactly one call per index in [0, n): some index was not handed out, or handed out more than once", nc, got, want), wit)
	default:
		rep.Count("runs", "n within a few of MaxInt32", 1)
		rep.Count("near-maxint32 runs (wall seconds)", nc.String(), int(time.Since(start).Seconds()))
		rep.Distinct("near|" + nc.String())
	}
}

// directCall runs call on the calling goroutine (no goroutine, timer and channel per trial: the dense
// group makes tens of thousands of calls). A call that never returns is left to the groups that run
// under vkit.Await, and ultimately to check.sh's watchdog.
func directCall(c *vkit.Case, desc string, call func()) bool {
	if pnc := vkit.Try(call); pnc != nil {
		c.Violation("panic", desc+": the call panicked: "+pnc.Msg, map[string]any{"case": desc, "stack": pnc.Stack})
		return false
	}
	return true
}
