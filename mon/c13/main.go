// C13 — parallel.Do / DoContext / Map / MapContext: exactly once, bounded, barrier, first error.
//
// Oracle: history monitor. The callback handed to the library is instrumented (per-index invocation
// counters, a concurrency gauge, the state of the context at entry, what every call returned) and
// the return values are judged against that record.
//
// The barrier clause ("return only after every started call has finished with all of its effects
// visible") is checked in two ways: (1) every invocation performs a PLAIN, unsynchronised write to
// plain[i] as its last effect, and the goroutine that made the library call reads all of plain[]
// as the very first thing after the call returns — before it touches any atomic an invocation
// writes, so that the monitor itself adds no happens-before edge. A missing barrier is then a race
// report (variant "race"), which vkit turns into a violation. (2) By counters: a flag `returned`
// is set right after the return; an invocation that observes it at entry started after the return,
// one that observes it after leaving the gauge finished after the return.
//
// Everything else the monitor keeps is atomic. Callbacks use pre-drawn tables only.
package main

import (
	"context"
	"errors"
	"fmt"
	"os"
	"runtime"
	"strconv"
	"strings"
	"sync/atomic"
	"time"

	"github.com/bradenaw/juniper/parallel"

	"verif/vkit"
)

// ---------------------------------------------------------------------------------------------
// The grid

const (
	apiDo = iota
	apiDoContext
	apiMap
	apiMapContext
)

var apiNames = [...]string{"Do", "DoContext", "Map", "MapContext"}

const (
	latUniform = iota
	latStraggler
	latDecreasing
)

var latNames = [...]string{"uniform", "one-straggler", "decreasing"}

const (
	failNone = iota
	failFirst
	failLast
	failMiddle
	failSeveral
	failAll
)

var failNames = [...]string{"none", "first", "last", "middle", "several", "all"}

const (
	ctxLive = iota
	ctxPreCancelled
	ctxMidFlight
)

var ctxNames = [...]string{"live", "pre-cancelled", "cancelled-mid-flight"}

var gridN = []int{0, 1, 2, 3, 7, 64, 1000}
var gridP = []int{-1, 0, 1, 2, 3, 8, 100}

type combo struct {
	api, n, par, lat, fail, ctx int
	// special: spNone = a point of the grid; spLarge = very many trivial calls (f returns at once;
	// "first" there means one failing index drawn early in the range); spProcs = run after
	// GOMAXPROCS was changed inside the process (value in procs), with overlapping calls.
	special int
	procs   int
}

const (
	spNone = iota
	spLarge
	spProcs
)

func (cb combo) String() string {
	s := fmt.Sprintf("%s n=%d parallelism=%d latency=%s failing=%s ctx=%s",
		apiNames[cb.api], cb.n, cb.par, latNames[cb.lat], failNames[cb.fail], ctxNames[cb.ctx])
	switch cb.special {
	case spLarge:
		s += " (trivial f; the failing index is an early one)"
	case spProcs:
		s += fmt.Sprintf(" (after runtime.GOMAXPROCS(%d) in this process)", cb.procs)
	}
	return s
}

func (cb combo) hasCtx() bool { return cb.api == apiDoContext || cb.api == apiMapContext }

// buildGrid lists every grid point (the context-free functions three times, so that they are not
// drowned by the 18x larger grid of the context ones) in an order fixed by the seed.
func buildGrid(rnd *vkit.Rand) []combo {
	var g []combo
	for _, n := range gridN {
		for _, p := range gridP {
			for lat := 0; lat < 3; lat++ {
				for rep := 0; rep < 3; rep++ {
					g = append(g, combo{api: apiDo, n: n, par: p, lat: lat})
					g = append(g, combo{api: apiMap, n: n, par: p, lat: lat})
				}
				for fail := 0; fail < 6; fail++ {
					for cx := 0; cx < 3; cx++ {
						g = append(g, combo{api: apiDoContext, n: n, par: p, lat: lat, fail: fail, ctx: cx})
						g = append(g, combo{api: apiMapContext, n: n, par: p, lat: lat, fail: fail, ctx: cx})
					}
				}
			}
		}
	}
	perm := rnd.Perm(len(g))
	out := make([]combo, len(g))
	for i, j := range perm {
		out[i] = g[j]
	}
	return out
}

// ---------------------------------------------------------------------------------------------
// One run

type callErr struct {
	run string
	idx int
}

func (e *callErr) Error() string { return fmt.Sprintf("verif: call %d of %s failed", e.idx, e.run) }

type elem struct {
	idx int
	key uint64
}

type res struct {
	idx int
	val uint64
}

func mix(k uint64) uint64 { return (k^0x9e3779b97f4a7c15)*0xbf58476d1ce4e5b9 + 1 }

func token(i int) int { return int(uint32(i)*2654435761>>1) + 12345 } // positive on 32-bit ints too

// lateState outlives the run: it is looked at again once the whole group is over.
type lateState struct {
	returned  atomic.Bool
	lateStart atomic.Int64 // invocations that began after the library call had returned
	lateExit  atomic.Int64 // invocations that were still running after the library call had returned
}

type run struct {
	combo
	P    int // the parallelism the caller asked for (GOMAXPROCS when <= 0): the bound that is judged
	Peff int // min(P, n): what the library really uses (only for evidence and workload shaping)

	// pre-drawn tables (read-only once the call has begun)
	latTab    []time.Duration
	failTab   []bool
	errs      map[int]error // distinct error value per failing index
	wait      []bool        // once failure/cancellation is certain, block on ctx.Done() with no timeout
	honour    []bool        // return ctx.Err() if the context is done when the work is finished
	linger    time.Duration
	trivial   bool  // f returns at once and ignores its context: no latency / waiting / honouring tables
	cancelAt  int64 // the invocation (by order of entry) that cancels the caller's context; 0 = none
	in        []elem
	straggler int
	waitMode  string
	honMode   string
	latLevel  string

	callerCtx    context.Context
	callerCancel context.CancelFunc

	// monitor state: atomics only ...
	counts       []atomic.Int32
	retOwn       []atomic.Bool
	gauge        *vkit.Gauge
	started      atomic.Int64
	failedCalls  atomic.Int64 // calls that returned a non-nil error
	retCtx       atomic.Int64 // calls that returned their context's error
	doomed       atomic.Bool  // a failure or the caller's cancellation is certain to happen
	cancelIssued atomic.Bool
	atEntryDone  atomic.Int64 // calls that began with a done context
	atEntryLive  atomic.Int64 // ... while the caller's context was live
	waited       atomic.Int64 // calls that blocked on ctx.Done()
	released     atomic.Int64 // ... and saw it closed
	badSeen      atomic.Bool  // f was handed an index outside [0, n)
	badIndex     atomic.Int64 // the first such index
	hiIdx        atomic.Int64 // 1 + the highest index invoked (kept in trivial mode only)
	late         *lateState
	curAtReturn  int64
	startedAtRet int64
	// ... except this one, on purpose (barrier clause).
	plain []int
}

func (r *run) pause(d time.Duration) {
	switch {
	case d <= 0:
	case d < time.Microsecond:
		runtime.Gosched()
	case d < 30*time.Microsecond:
		vkit.SpinFor(d)
	default:
		time.Sleep(d)
	}
}

// body is the instrumented callback. ctx is nil for Do and Map.
func (r *run) body(ctx context.Context, i int) error {
	if i < 0 || i >= r.n {
		if r.badSeen.CompareAndSwap(false, true) {
			r.badIndex.Store(int64(i))
		}
		return nil
	}
	r.gauge.Enter()
	if r.late.returned.Load() {
		r.late.lateStart.Add(1)
	}
	r.counts[i].Add(1)
	k := r.started.Add(1)
	if r.trivial {
		for {
			h := r.hiIdx.Load()
			if int64(i) < h || r.hiIdx.CompareAndSwap(h, int64(i)+1) {
				break
			}
		}
	}
	setter := false
	if ctx != nil {
		// Order matters: first the context handed to f, then the caller's. Cancellation is
		// monotone, so "handed ctx done, caller's still live afterwards" means the caller's was
		// live when the handed one was seen done.
		if ctx.Err() != nil {
			r.atEntryDone.Add(1)
			if r.callerCtx.Err() == nil {
				r.atEntryLive.Add(1)
			}
		}
		if r.cancelAt > 0 && k == r.cancelAt {
			r.doomed.Store(true)
			r.cancelIssued.Store(true)
			r.callerCancel()
		}
		if r.failTab[i] {
			// The call that wins this CAS is the reason the others may wait for cancellation
			// without a timeout; it never waits itself, so it does return its error.
			setter = r.doomed.CompareAndSwap(false, true)
		}
	}
	var d time.Duration
	if !r.trivial {
		d = r.latTab[i]
	}
	if setter && d < r.linger {
		d = r.linger // give the other workers time to enter f and park on ctx.Done()
	}
	canWait := ctx != nil && !r.trivial && r.wait[i] && !setter
	if canWait && r.doomed.Load() {
		r.waited.Add(1)
		<-ctx.Done()
		r.released.Add(1)
	} else {
		r.pause(d)
		if canWait && r.doomed.Load() {
			r.waited.Add(1)
			<-ctx.Done()
			r.released.Add(1)
		}
	}
	var err error
	if ctx != nil {
		if !r.trivial && r.honour[i] && ctx.Err() != nil {
			err = ctx.Err()
			r.retCtx.Add(1)
		} else if r.failTab[i] {
			err = r.errs[i]
			r.retOwn[i].Store(true)
		}
		if err != nil {
			r.failedCalls.Add(1)
		}
	}
	// The effect the caller must see after the library call returns: a plain write.
	r.plain[i] = token(i)
	r.gauge.Exit()
	if r.late.returned.Load() {
		r.late.lateExit.Add(1)
	}
	return err
}

func minInt(a, b int) int {
	if a < b {
		return a
	}
	return b
}

func newRun(c *vkit.Case, cb combo) *run {
	rnd := c.Rand
	r := &run{combo: cb, late: &lateState{}, gauge: &vkit.Gauge{}}
	r.P = cb.par
	if r.P <= 0 {
		r.P = runtime.GOMAXPROCS(0)
	}
	r.Peff = minInt(r.P, cb.n)
	n := cb.n
	r.trivial = cb.special == spLarge
	if !r.trivial {
		r.latTab = make([]time.Duration, n)
		r.wait = make([]bool, n)
		r.honour = make([]bool, n)
	}
	r.failTab = make([]bool, n)
	r.errs = make(map[int]error)
	r.counts = make([]atomic.Int32, n)
	r.retOwn = make([]atomic.Bool, n)
	r.plain = make([]int, n)
	if (n > 0 || rnd.Bool(0.5)) && (cb.special != spLarge || cb.api == apiMap || cb.api == apiMapContext) {
		r.in = make([]elem, n)
	}
	for i := range r.in {
		r.in[i] = elem{idx: i, key: rnd.Uint64()}
	}
	runName := c.ID()

	// Latencies. budget = what the whole call would take if run sequentially.
	budget := 4 * time.Millisecond
	r.straggler = -1
	if r.trivial {
		r.latLevel = "zero"
	} else if n > 0 {
		u := budget / time.Duration(n)
		if u < 2*time.Microsecond {
			u = 2 * time.Microsecond
		}
		if u > 250*time.Microsecond {
			u = 250 * time.Microsecond
		}
		level := rnd.Intn(3)
		switch cb.special {
		case spLarge:
			level = 0
		case spProcs:
			level = 2 // calls must overlap
		}
		r.latLevel = [...]string{"zero", "yield", "full"}[level]
		base := [...]time.Duration{0, time.Nanosecond, u}[level]
		switch cb.lat {
		case latUniform:
			for i := range r.latTab {
				r.latTab[i] = base
			}
		case latStraggler:
			switch rnd.Intn(3) {
			case 0:
				r.straggler = 0
			case 1:
				r.straggler = n - 1
			default:
				r.straggler = rnd.Intn(n)
			}
			for i := range r.latTab {
				r.latTab[i] = base / 4
				if level == 1 {
					r.latTab[i] = base
				}
			}
			r.latTab[r.straggler] = budget / 2
		case latDecreasing:
			for i := range r.latTab {
				r.latTab[i] = 2 * u * time.Duration(n-i) / time.Duration(n)
			}
			r.latLevel = "full"
		}
	}

	// Failing set.
	if cb.hasCtx() && n > 0 {
		switch cb.fail {
		case failFirst:
			if cb.special == spLarge {
				// early, but late enough that every goroutine is at work when it fails
				r.failTab[200+rnd.Intn(2000)] = true
			} else {
				r.failTab[0] = true
			}
		case failLast:
			r.failTab[n-1] = true
		case failMiddle:
			r.failTab[n/2] = true
		case failSeveral:
			k := minInt(n, 2+rnd.Intn(4))
			for _, j := range rnd.Perm(n)[:k] {
				r.failTab[j] = true
			}
		case failAll:
			for i := range r.failTab {
				r.failTab[i] = true
			}
		}
	}

	for i, b := range r.failTab {
		if b {
			r.errs[i] = &callErr{run: runName, idx: i} // distinct values
		}
	}

	// Behaviour once failure / cancellation is under way.
	r.waitMode = "most"
	if rnd.Bool(0.25) {
		r.waitMode = "none"
	}
	r.honMode = [...]string{"honour-all", "ignore-all", "ignore-all", "mixed"}[rnd.Intn(4)]
	if cb.special == spLarge {
		// f returns at once and ignores its context, so that goroutines keep calling after a failure
		// for as long as the library lets them.
		r.waitMode, r.honMode = "none", "ignore-all"
	}
	for i := 0; i < n && !r.trivial; i++ {
		r.wait[i] = r.waitMode == "most" && rnd.Bool(0.8)
		switch r.honMode {
		case "honour-all":
			r.honour[i] = true
		case "mixed":
			r.honour[i] = rnd.Bool(0.5)
		}
	}
	r.linger = time.Duration(50+rnd.Intn(250)) * time.Microsecond

	r.callerCtx, r.callerCancel = context.WithCancel(context.Background())
	if cb.hasCtx() {
		switch cb.ctx {
		case ctxPreCancelled:
			r.doomed.Store(true)
			r.cancelIssued.Store(true)
			r.callerCancel()
		case ctxMidFlight:
			if n > 0 {
				if rnd.Bool(0.5) {
					r.cancelAt = int64(1 + rnd.Intn(minInt(n, r.Peff+1)))
				} else {
					r.cancelAt = int64(1 + rnd.Intn(n))
				}
			}
		}
	}
	return r
}

func (r *run) failing() []int {
	var f []int
	for i, b := range r.failTab {
		if b {
			f = append(f, i)
			if len(f) == 12 {
				break
			}
		}
	}
	return f
}

func (r *run) witness(extra map[string]any) map[string]any {
	w := map[string]any{
		"api": apiNames[r.api], "n": r.n, "parallelism": r.par, "parallelism_judged": r.P,
		"latency": latNames[r.lat], "latency_level": r.latLevel, "straggler": r.straggler,
		"failing": failNames[r.fail], "failing_indexes(first 12)": r.failing(),
		"caller_ctx": ctxNames[r.ctx], "cancel_at_entry_no": r.cancelAt,
		"wait_mode": r.waitMode, "honour_mode": r.honMode,
		"observed": map[string]any{
			"invocations": r.started.Load(), "gauge_max": r.gauge.Max(), "gauge_now": r.gauge.Cur(),
			"calls_failed": r.failedCalls.Load(), "calls_returned_ctx_err": r.retCtx.Load(),
			"began_with_done_ctx": r.atEntryDone.Load(), "began_with_done_ctx_caller_live": r.atEntryLive.Load(),
			"waited_on_ctx_done": r.waited.Load(), "released": r.released.Load(),
			"started_after_return": r.late.lateStart.Load(), "finished_after_return": r.late.lateExit.Load(),
		},
	}
	for k, v := range extra {
		w[k] = v
	}
	return w
}

// retained is what the final sweep needs of a run (not the run itself: its tables may be large).
type retained struct {
	c        *vkit.Case
	desc     string
	late     *lateState
	gauge    *vkit.Gauge
	wit      map[string]any
	violated bool
}

func parallelGoroutine(g vkit.G) bool { return g.Has("bradenaw/juniper/parallel.") }

// execute runs one grid point and judges it. It returns the record kept for the final sweep.
func execute(c *vkit.Case, cb combo) *retained {
	rep := c.R
	r := newRun(c, cb)
	keep := &retained{c: c, desc: cb.String(), late: r.late, gauge: r.gauge}
	defer func() { keep.wit = r.witness(nil) }()
	violate := func(sig, what string, extra map[string]any) {
		if keep.violated {
			return
		}
		keep.violated = true
		c.Violation(sig, cb.String()+": "+what, r.witness(extra))
	}

	var (
		out     []res
		outCopy []res
		outNil  bool
		err     error
		snap    []int
		pnc     *vkit.Panic
	)
	done := make(chan struct{})
	go func() {
		defer close(done)
		pnc = vkit.Try(func() {
			switch cb.api {
			case apiDo:
				parallel.Do(cb.par, cb.n, func(i int) { r.body(nil, i) })
			case apiDoContext:
				err = parallel.DoContext(r.callerCtx, cb.par, cb.n, func(ctx context.Context, i int) error {
					return r.body(ctx, i)
				})
			case apiMap:
				out = parallel.Map(cb.par, r.in, func(e elem) res {
					r.body(nil, e.idx)
					return res{e.idx, mix(e.key)}
				})
			case apiMapContext:
				out, err = parallel.MapContext(r.callerCtx, cb.par, r.in, func(ctx context.Context, e elem) (res, error) {
					if e := r.body(ctx, e.idx); e != nil {
						return res{}, e
					}
					return res{e.idx, mix(e.key)}, nil
				})
			}
		})
		// A store releases but does not acquire: it creates no edge from the invocations to us.
		r.late.returned.Store(true)
		// Plain reads first, before any atomic an invocation writes is loaded.
		snap = make([]int, len(r.plain))
		copy(snap, r.plain)
		outNil = out == nil
		outCopy = make([]res, len(out))
		copy(outCopy, out)
		r.curAtReturn = r.gauge.Cur()
		r.startedAtRet = r.started.Load()
	}()

	verdict, dump := vkit.Await(done, vkit.AwaitOpts{})
	switch verdict {
	case vkit.AwaitStuck:
		if len(dump) > 12000 {
			dump = dump[:12000] + "\n...[truncated]"
		}
		violate("stuck", fmt.Sprintf("the call never returns: every goroutine of the scenario is parked for good "+
			"(%d invocations are waiting on the ctx.Done() of the context they were given although a call has failed or the caller has cancelled; %d were released)",
			r.waited.Load()-r.released.Load(), r.released.Load()), map[string]any{"goroutines": dump})
		r.callerCancel()
		return keep
	case vkit.AwaitInconclusive:
		rep.Inconclusive(fmt.Sprintf("%s (%s): the call had not returned after 60 s but goroutines were still runnable", c.ID(), cb))
		r.callerCancel()
		keep.violated = true // nothing more can be judged for this run
		return keep
	}
	defer r.callerCancel()

	// Give an invocation that would start after the return the opportunity to do so; whether one did
	// is read from counters (again at the end of the group), never inferred from elapsed time.
	for k := 0; k < 4; k++ {
		runtime.Gosched()
	}

	n := cb.n
	rep.Count("runs by function", apiNames[cb.api], 1)
	rep.Count("runs by n", fmt.Sprint(n), 1)
	rep.Count("runs by parallelism", fmt.Sprint(cb.par), 1)
	rep.Count("runs by latency pattern", latNames[cb.lat], 1)
	if cb.hasCtx() {
		rep.Count("runs by failing set", failNames[cb.fail], 1)
		rep.Count("runs by caller ctx", ctxNames[cb.ctx], 1)
	}
	if r.Peff <= 1 {
		rep.Count("runs by path", "sequential", 1)
	} else {
		rep.Count("runs by path", "goroutines", 1)
	}
	started := r.started.Load()
	rep.Count("invocations", "total", int(started))
	rep.Max("gauge", fmt.Sprintf("parallelism=%d", cb.par), int(r.gauge.Max()))

	if pnc != nil {
		violate("panic", "the call panicked: "+pnc.Msg, map[string]any{"stack": pnc.Stack})
		return keep
	}
	if r.badSeen.Load() {
		rep.Eval(1)
		violate("index-range", fmt.Sprintf("f was handed index %d, outside [0, %d)", r.badIndex.Load(), n), nil)
		return keep
	}

	// Barrier, by counters.
	rep.Eval(3)
	if r.curAtReturn != 0 {
		violate("running-at-return", fmt.Sprintf("%d invocations of f were still running when the call returned", r.curAtReturn), nil)
		return keep
	}
	if v := r.late.lateStart.Load(); v != 0 {
		violate("start-after-return", fmt.Sprintf("%d invocations of f began after the call had returned", v), nil)
		return keep
	}
	if v := r.late.lateExit.Load(); v != 0 {
		violate("finish-after-return", fmt.Sprintf("%d invocations of f finished only after the call had returned", v), nil)
		return keep
	}
	if v := r.gauge.Cur(); v != 0 || r.started.Load() != r.startedAtRet {
		violate("start-after-return", fmt.Sprintf("after the call returned the gauge is %d and %d more invocations have begun", v, r.started.Load()-r.startedAtRet), nil)
		return keep
	}

	// Bound.
	rep.Eval(1)
	if m := r.gauge.Max(); m > int64(r.P) {
		violate("bound", fmt.Sprintf("%d invocations of f ran at the same time, more than the parallelism %d", m, r.P), nil)
		return keep
	}

	// In trivial mode no index at or above hiIdx was ever invoked: the per-index loops that only look
	// at invoked indexes can stop there.
	touched := n
	if r.trivial {
		touched = minInt(n, int(r.hiIdx.Load()))
	}
	callerDone := r.callerCtx.Err() != nil
	failed := r.failedCalls.Load()

	// Exactly once (when no call fails and the call reports success).
	if !cb.hasCtx() || (err == nil && failed == 0) {
		rep.Eval(n)
		for i := 0; i < n; i++ {
			if got := r.counts[i].Load(); got != 1 {
				violate("count", fmt.Sprintf("index %d was invoked %d times (no call failed, the call returned success)", i, got), map[string]any{"index": i, "times": got})
				return keep
			}
		}
		rep.Count("clauses judged", "exactly once", 1)
	} else {
		dups := 0
		for i := 0; i < touched; i++ {
			if r.counts[i].Load() > 1 {
				dups++
			}
		}
		if dups > 0 {
			rep.Count("not judged", "index invoked more than once in a run with failures", dups)
		}
	}

	// Effects of every started invocation are visible (value form; the race detector sees the rest).
	rep.Eval(touched)
	for i := 0; i < touched; i++ {
		if r.counts[i].Load() >= 1 && snap[i] != token(i) {
			violate("effects-not-visible", fmt.Sprintf("invocation %d had begun but its write was not visible to the caller right after the return", i), map[string]any{"index": i})
			return keep
		}
	}
	rep.Count("clauses judged", "barrier", 1)

	// Positional results.
	if cb.api == apiMap || (cb.api == apiMapContext && err == nil) {
		rep.Eval(n + 1)
		if len(outCopy) != n {
			violate("result-length", fmt.Sprintf("returned %d results for %d inputs", len(outCopy), n), nil)
			return keep
		}
		for i := 0; i < n; i++ {
			if want := (res{i, mix(r.in[i].key)}); outCopy[i] != want {
				violate("result-position", fmt.Sprintf("out[%d] = %+v, but f(in[%d]) = %+v", i, outCopy[i], i, want), map[string]any{"index": i})
				return keep
			}
		}
		rep.Count("clauses judged", "out[i] = f(in[i])", 1)
	} else if cb.api == apiMapContext {
		if outNil {
			rep.Count("not judged", "MapContext returned (nil, err)", 1)
		} else {
			rep.Count("not judged", "MapContext returned (partial results, err)", 1)
		}
	}

	// Complete success is not an error: every index invoked exactly once and every invocation
	// returned nil => nil error (whatever the caller's context has done meanwhile).
	if cb.hasCtx() && failed == 0 && err != nil {
		rep.Eval(n)
		allOnce := true
		for i := 0; i < n; i++ {
			if r.counts[i].Load() != 1 {
				allOnce = false
				break
			}
		}
		if allOnce {
			violate("error-after-complete-success", fmt.Sprintf("every index was invoked exactly once and every call returned nil, but the call returned %q", err.Error()), map[string]any{"error": err.Error()})
			return keep
		}
	}

	// Error contract.
	if cb.hasCtx() {
		rep.Eval(1)
		switch {
		case err == nil && failed > 0:
			violate("error-dropped", fmt.Sprintf("%d calls returned an error but the call returned nil", failed), nil)
			return keep
		case err != nil:
			ok := false
			src := ""
			for i := range r.errs {
				if ok {
					break
				}
				if r.retOwn[i].Load() && errors.Is(err, r.errs[i]) {
					ok, src = true, "error of a call"
				}
			}
			if !ok && r.retCtx.Load() > 0 && errors.Is(err, context.Canceled) {
				ok, src = true, "context error returned by a call"
			}
			if !ok && callerDone && errors.Is(err, r.callerCtx.Err()) {
				ok, src = true, "caller's context error"
			}
			if !ok {
				violate("error-unknown", fmt.Sprintf("returned error %q, which no call returned and which is not the caller's context error (caller's ctx cancelled: %v; %d calls failed)", err.Error(), callerDone, failed), map[string]any{"error": err.Error()})
				return keep
			}
			rep.Count("outcomes", src, 1)
		default:
			rep.Count("outcomes", "nil", 1)
		}
		rep.Count("clauses judged", "error contract", 1)

		rep.Eval(1)
		if v := r.atEntryLive.Load(); v > int64(r.P-1) {
			violate("cancelled-at-entry", fmt.Sprintf("%d calls began with an already-cancelled context while the caller's context was live; at most parallelism-1 = %d may", v, r.P-1), nil)
			return keep
		}
		rep.Count("clauses judged", "cancelled-at-entry bound", 1)
		rep.Count("calls that began with a done ctx", "caller live", int(r.atEntryLive.Load()))
		rep.Count("calls that began with a done ctx", "any", int(r.atEntryDone.Load()))
		rep.Max("calls that began with a done ctx, caller live", "per run", int(r.atEntryLive.Load()))
		if w := r.released.Load(); w > 0 {
			rep.Count("in-flight calls", "waited on ctx.Done() without timeout and were released", int(w))
			if failed > 0 {
				rep.Count("runs", "a call failed and others, parked on ctx.Done(), were released", 1)
			}
		}
		if r.cancelAt > 0 && r.cancelIssued.Load() {
			rep.Count("runs", "caller cancelled while calls were in flight", 1)
		}
		if failed > 0 {
			rep.Count("runs", "with a failed call", 1)
			if int(started) < n {
				rep.Count("runs", "stopped early after a failure", 1)
			}
		}
	}

	if r.gauge.Max() >= 2 {
		rep.Count("runs", ">= 2 invocations overlapped", 1)
	}
	if started >= 2 && (r.gauge.Max() >= 2 || r.Peff == 1) {
		var h strings.Builder
		fmt.Fprintf(&h, "%v|%s|%s|%s|%d|%d|%v", cb, r.latLevel, r.waitMode, r.honMode, r.straggler, r.cancelAt, r.failing())
		rep.Distinct(h.String())
		rep.Count("runs", "non-trivial", 1)
	}
	if rep.WantSample() && started >= 3 && (cb.fail != failNone || cb.ctx != ctxLive) && r.Peff >= 2 {
		errs := "<nil>"
		if err != nil {
			errs = err.Error()
		}
		rep.Sample(r.witness(map[string]any{"case": c.ID(), "returned_error": errs}))
	}
	return keep
}

// trials of the ramp-up group in the quick tier, per parallelism
const (
	rampTrials128 = 60
	rampTrials64  = 40
	rampTrials256 = 16
	rampTrials32  = 160
)

func main() {
	vkit.Main("C13", "exploration", func(r *vkit.Report) {
		r.SetRule("case = one call of Do / DoContext / Map / MapContext at one point of the grid " +
			"n in {0,1,2,3,7,64,1000} x parallelism in {-1,0,1,2,3,8,100} x latency pattern {uniform, one straggler, decreasing} " +
			"x failing set {none, first, last, middle, several, all} x caller ctx {live, pre-cancelled, cancelled mid-flight} " +
			"(failing set and ctx only for the Context functions), with per-index latency / waiting / ctx-honouring tables drawn from the seed. " +
			"non-trivial = f was invoked at least twice AND (two invocations overlapped in time OR the effective parallelism was 1, i.e. the sequential path ran); " +
			"distinct = by (grid point, latency level, waiting mode, honouring mode, straggler position, cancel position, failing indexes).")
		r.Assume("f does not panic and does not return an error unless the scenario plans it")
		r.Assume("the judged bound is the parallelism the caller asked for (GOMAXPROCS when <= 0), not the library's tighter min(parallelism, n)")
		r.Assume("with failures or a cancelled caller ctx, which indexes were (not) invoked is recorded, not judged; MapContext's results alongside an error are not judged")
		r.Assume("GOMAXPROCS changes only where the monitor changes it itself (group \"procs\", which runs alone); 'GOMAXPROCS when <= 0' is judged against the value in force when the call is made")

		grid := buildGrid(r.Rand("grid"))
		// 32-bit variant ("386", no race detector): a reduced set of groups - the main grid, finish,
		// deadline and toggle. What needs 64-bit ints (parallelism x n >= 2^31) or the race detector
		// runs in the other variants.
		small := r.VariantHas("386") || strconv.IntSize == 32
		nruns := r.Scale(2000, 4*len(grid))
		if small {
			nruns = r.Scale(600, 3000)
		}
		var kept []*retained
		r.Cases("run", nruns, 1, func(c *vkit.Case) {
			if r.NViolations() >= 5 {
				r.Count("runs", "skipped after 5 violations", 1)
				return
			}
			kept = append(kept, execute(c, grid[c.Index%len(grid)]))
		})

		// Very many trivial calls: whatever the library does per index (or per batch of indexes) is
		// exercised thousands of times per goroutine; a failing index early in the range, f ignoring
		// its context, so every call the library still starts after the failure is counted.
		var large []combo
		for rep := 0; rep < r.Scale(2, 12); rep++ {
			for _, n := range []int{20000, 40000, 70000} {
				for _, p := range []int{2, 3, 4} {
					large = append(large, combo{api: apiDoContext, n: n, par: p, lat: latUniform, fail: failFirst, special: spLarge})
					large = append(large, combo{api: apiMapContext, n: n, par: p, lat: latUniform, fail: failFirst, special: spLarge})
				}
			}
		}
		for i, n := range []int{20000, 40000, 70000} { // and complete runs: exactly once over the whole range
			if n == 70000 && !r.Thorough() {
				continue
			}
			for rep := 0; rep < r.Scale(1, 4); rep++ {
				large = append(large, combo{api: []int{apiDo, apiDoContext, apiMap, apiMapContext}[(i+rep)%4], n: n, par: 2 + (i+rep)%3, lat: latUniform, special: spLarge})
			}
		}
		if small {
			large = nil
		}
		r.Cases("large", len(large), 1, func(c *vkit.Case) {
			if r.NViolations() >= 5 {
				return
			}
			kept = append(kept, execute(c, large[c.Index]))
			r.Count("runs", "very many trivial calls", 1)
		})

		// Large parallelism, cheap calls while the library's goroutines come up, then a plateau of
		// slow calls in which all of them overlap. Repeated: what is looked for may be rare per trial.
		var ramp []lightCase
		addRamp := func(par, trials int) {
			for t := 0; t < trials; t++ {
				i := len(ramp)
				api := []int{apiDo, apiMap, apiDo, apiMap, apiDoContext}[i%5]
				cheap := 256 + 8*par // well past the point where the library has all its goroutines up
				ramp = append(ramp, lightCase{api: api, par: par, cheap: cheap, n: cheap + (2+i%3)*par})
			}
		}
		addRamp(128, r.Scale(rampTrials128, 2000))
		addRamp(64, r.Scale(rampTrials64, 600))
		addRamp(256, r.Scale(rampTrials256, 400))
		addRamp(32, r.Scale(rampTrials32, 400))
		if small {
			ramp = nil
		}
		r.Cases("ramp", len(ramp), 1, func(c *vkit.Case) {
			if r.NViolations() >= 5 {
				return
			}
			executeRamp(c, ramp[c.Index])
		})

		// parallelism x n beyond 2^31 with a trivial f: exactly once over the whole range. The race
		// detector cannot follow more than 8128 goroutines, so the widest case runs without it only.
		var scale []lightCase
		for _, pn := range [][2]int{{4096, 1 << 20}, {2048, 1 << 21}, {1 << 15, 1 << 21}, {1 << 12, 1 << 22}} {
			if vkit.RaceEnabled && pn[0] > 4096 {
				r.Count("not run", "product-scale case with more goroutines than the race detector supports (runs in the non-race variants)", 1)
				continue
			}
			// Quick tier (race detector on: about a microsecond per call with thousands of goroutines
			// alive, DoContext four times that): Do with the first pair in every variant, the second
			// pair in the variant that keeps the inherited GOMAXPROCS; everything in thorough.
			if !r.Thorough() && (pn[1] > 1<<21 || (pn[1] == 1<<21 && os.Getenv("GOMAXPROCS") != "")) {
				continue
			}
			scale = append(scale, lightCase{api: apiDo, par: pn[0], n: pn[1]})
			if r.Thorough() {
				scale = append(scale, lightCase{api: apiDoContext, par: pn[0], n: pn[1]})
			}
		}
		if small {
			scale = nil
		}
		r.Cases("scale", len(scale), 1, func(c *vkit.Case) {
			if r.NViolations() >= 5 {
				return
			}
			executeScale(c, scale[c.Index])
		})

		// The caller's context ends at or around the moment the last call finishes (finish.go).
		finish := finishCases(r, r.Rand("finish"), small)
		r.Cases("finish", len(finish), 1, func(c *vkit.Case) {
			if r.NViolations() >= 5 {
				return
			}
			executeFinish(c, finish[c.Index])
		})

		// Caller contexts with a deadline that ended for another reason (deadline.go).
		deadline := deadlineCases(r.Scale(1, 4))
		r.Cases("deadline", len(deadline), 1, func(c *vkit.Case) {
			if r.NViolations() >= 5 {
				return
			}
			executeDeadline(c, deadline[c.Index])
		})

		// Several calls fail at the same instant with errors of different concrete types (simul.go).
		nsim := r.Scale(3000, 40000)
		if small {
			nsim = r.Scale(1000, 8000)
		}
		simul := simulCases(r.Rand("simul"), nsim)
		r.Cases("simul", len(simul), 1, func(c *vkit.Case) {
			if r.NViolations() >= 5 {
				return
			}
			executeSimul(c, simul[c.Index])
		})

		// Dense cheap trials for the cancelled-at-entry bound (big.go).
		ndense := r.Scale(20000, 200000) / denseBatch
		if small {
			ndense = r.Scale(5000, 40000) / denseBatch
		}
		r.Cases("dense", ndense, 1, func(c *vkit.Case) {
			if r.NViolations() >= 5 {
				return
			}
			executeDense(c)
		})

		// n within a few of MaxInt32 (big.go): thorough only, one variant only (without the race
		// detector and with the inherited GOMAXPROCS; the 32-bit variant runs its own case).
		var near []nearCase
		if r.Thorough() && !vkit.RaceEnabled && os.Getenv("GOMAXPROCS") == "" {
			near = nearCases()
		}
		r.Cases("near-maxint32", len(near), 1, func(c *vkit.Case) {
			if r.NViolations() >= 5 {
				return
			}
			executeNear(c, near[c.Index])
		})

		// GOMAXPROCS changed inside the process. "GOMAXPROCS when <= 0" means the value in force when
		// the call is made. GOMAXPROCS is process-global: this group runs alone, one case at a time,
		// after everything above has finished, and every case restores the inherited value.
		inherited := runtime.GOMAXPROCS(0)
		procsVals := []int{2, 3, 5}
		if h := inherited / 2; h >= 1 && h != 2 && h != 3 && h != 5 {
			procsVals = append(procsVals, h)
		}
		var procs []combo
		for rep := 0; rep < r.Scale(1, 8); rep++ {
			for gi, g := range procsVals {
				for api := range apiNames {
					procs = append(procs, combo{api: api, n: []int{64, 200}[(rep+api)%2], par: []int{0, -1}[(rep+api+gi)%2], lat: []int{latUniform, latDecreasing}[(api+g+rep)%2], special: spProcs, procs: g})
				}
			}
		}
		if small {
			procs = nil
		}
		r.Cases("procs", len(procs), 1, func(c *vkit.Case) {
			if r.NViolations() >= 5 {
				return
			}
			cb := procs[c.Index]
			// Use the default parallelism once under the inherited setting (so a library that
			// remembers it has something to remember), then change the setting.
			parallel.Do(0, 2, func(int) {})
			_ = parallel.DoContext(context.Background(), -1, 2, func(context.Context, int) error { return nil })
			old := runtime.GOMAXPROCS(cb.procs)
			defer runtime.GOMAXPROCS(old)
			kept = append(kept, execute(c, cb))
			r.Count("runs", "after GOMAXPROCS was changed in-process", 1)
			switch {
			case cb.procs < old:
				r.Count("runs after GOMAXPROCS was changed in-process", "lowered", 1)
			case cb.procs > old:
				r.Count("runs after GOMAXPROCS was changed in-process", "raised", 1)
			default:
				r.Count("runs after GOMAXPROCS was changed in-process", "same value", 1)
			}
		})
		if got := runtime.GOMAXPROCS(0); got != inherited {
			runtime.GOMAXPROCS(inherited)
		}

		// Another goroutine flips GOMAXPROCS while the calls run (toggle.go). Last group, alone; each
		// toggler restores the inherited value when it stops.
		var flips atomic.Int64
		nToggle := 0
		for si, vals := range toggleSets {
			ntog := r.Scale(500, 6000)
			if small {
				ntog = r.Scale(200, 1000)
			}
			tcs := toggleCases(r.Rand("toggle", si), vals, inherited, ntog)
			nToggle += len(tcs)
			var stop atomic.Bool
			tdone := make(chan struct{})
			go toggler(vals, &stop, &flips, tdone, inherited)
			r.Cases(fmt.Sprintf("toggle%d", si), len(tcs), 1, func(c *vkit.Case) {
				if r.NViolations() >= 5 {
					return
				}
				kept = append(kept, executeToggle(c, tcs[c.Index]))
			})
			stop.Store(true)
			<-tdone
		}
		r.Count("toggle", "GOMAXPROCS flips while the group ran", int(flips.Load()))

		// Final sweep: once no goroutine of the parallel package is left (dump-based, so the counters
		// below are final), no run may have seen an invocation start or finish after its return.
		left := vkit.WaitNoGoroutine(parallelGoroutine, time.Second, 100*time.Millisecond)
		if len(left) > 0 {
			r.Count("final sweep", "goroutines of package parallel parked for good", len(left))
		}
		for _, k := range kept {
			r.Eval(1)
			if k.violated {
				continue
			}
			ls, le := k.late.lateStart.Load(), k.late.lateExit.Load()
			if ls != 0 || le != 0 || k.gauge.Cur() != 0 {
				k.violated = true
				k.wit["final_sweep"] = map[string]any{"started_after_return": ls, "finished_after_return": le, "gauge_now": k.gauge.Cur()}
				k.c.Violation("start-after-return", fmt.Sprintf("%s: after the call had returned, %d invocations of f began and %d finished (gauge now %d)",
					k.desc, ls, le, k.gauge.Cur()), k.wit)
			}
		}
		r.Count("final sweep", "runs re-checked", len(kept))

		if small && !r.Replaying() {
			r.Floor("runs of the main grid in the 32-bit variant", r.Table("runs by function", "Do")+r.Table("runs by function", "Map"), 50)
			r.Floor("32-bit variant: runs while GOMAXPROCS was being flipped", r.Table("runs", "while GOMAXPROCS was being flipped by another goroutine"), int64(nToggle))
		}
		if !small && !r.Replaying() {
			q := int64(r.Scale(1, 10))
			for a := range apiNames {
				r.Floor("runs of "+apiNames[a], r.Table("runs by function", apiNames[a]), 60*q)
			}
			for _, n := range gridN {
				r.Floor(fmt.Sprintf("runs with n=%d", n), r.Table("runs by n", fmt.Sprint(n)), 100*q)
			}
			for _, p := range gridP {
				r.Floor(fmt.Sprintf("runs with parallelism=%d", p), r.Table("runs by parallelism", fmt.Sprint(p)), 100*q)
			}
			for _, s := range latNames {
				r.Floor("runs with latency pattern "+s, r.Table("runs by latency pattern", s), 300*q)
			}
			for _, s := range failNames {
				r.Floor("Context runs with failing set "+s, r.Table("runs by failing set", s), 100*q)
			}
			for _, s := range ctxNames {
				r.Floor("Context runs with caller ctx "+s, r.Table("runs by caller ctx", s), 200*q)
			}
			r.Floor("runs in which >= 2 invocations overlapped", r.Table("runs", ">= 2 invocations overlapped"), 200*q)
			r.Floor("runs in which a call failed and others, parked on ctx.Done(), were released", r.Table("runs", "a call failed and others, parked on ctx.Done(), were released"), 20*q)
			r.Floor("runs in which the caller cancelled while calls were in flight", r.Table("runs", "caller cancelled while calls were in flight"), 20*q)
			r.Floor("runs that stopped early after a failure", r.Table("runs", "stopped early after a failure"), 20*q)
			r.Floor("runs with very many trivial calls", r.Table("runs", "very many trivial calls"), int64(len(large)))
			r.Floor("runs with a cheap ramp-up then a slow plateau", r.Table("runs", "cheap ramp-up then slow plateau"), int64(len(ramp)))
			r.Floor("runs in which the caller's ctx ended while every index had been invoked and succeeded", r.Table("runs", "caller's ctx ended while every index had been invoked and succeeded"), int64(r.Scale(500, 2000)))
			r.Floor("runs in which the last call to finish ends the caller's ctx", r.Table("finish runs", "last call to finish ends the caller's ctx"), int64(r.Scale(600, 2400)))
			r.Floor("runs in which an outside goroutine cancels around the end of the last call", r.Table("finish runs", "outside goroutine cancels around the end of the last call"), int64(r.Scale(2400, 40000)))
			r.Floor("runs while GOMAXPROCS was being flipped by another goroutine", r.Table("runs", "while GOMAXPROCS was being flipped by another goroutine"), int64(nToggle))
			r.Floor("GOMAXPROCS flips while the toggle group ran", r.Table("toggle", "GOMAXPROCS flips while the group ran"), int64(nToggle))
			r.Floor("runs with a caller ctx whose deadline has passed but whose Err() is Canceled", r.Table("runs", "caller ctx has a passed deadline but Err() == Canceled"), int64(len(deadline)*4/6))
			r.Floor("runs in which several calls failed at the same instant with errors of different types", r.Table("runs", "several calls failed at the same instant with errors of different types"), int64(len(simul)/2))
			r.Floor("dense cheap trials judged for the cancelled-at-entry bound", r.Table("dense trials", "judged"), int64(ndense*denseBatch))
			r.Floor("product-scale runs", r.Table("runs", "product scale (parallelism x n >= 2^32)"), int64(len(scale)))
			r.Floor("runs after GOMAXPROCS was changed in-process", r.Table("runs", "after GOMAXPROCS was changed in-process"), int64(len(procs)))
		}
	})
}
