// C16 — xsync.ContextCond never loses a wake-up.
//
// Oracle: wake-up accounting under a deterministic schedule controller. The sync.Locker handed to
// NewContextCond is a gateLocker: its Unlock really unlocks and then holds the calling waiter at
// a gate, i.e. exactly in the window between Wait's lock release and its select. Opening the gate
// lets the waiter park; "parked" is confirmed from the goroutine dump (inside ContextCond.Wait, in
// state select). Scenario = (k waiters, stage of each, cancellations, a sequence of Signals or a
// Broadcast); after quiescence the returns are counted. Plus an ungated stress mode. Built with -race.
package main

import (
	"context"
	"errors"
	"fmt"
	"strings"
	"sync"
	"sync/atomic"
	"time"

	"github.com/bradenaw/juniper/xsync"

	"verif/vkit"
)

const (
	stWindow = iota // held between L.Unlock() and the select while the signals are sent
	stParked        // parked in the select while the signals are sent
)

const (
	cancelNone = iota
	cancelBefore
	cancelAfter
)

var errAppCause = errors.New("verif: application cause of the cancellation")

type scenario struct {
	K       int   `json:"k"`
	Stages  []int `json:"stages"`  // per waiter: 0 in-window, 1 parked
	Cancels []int `json:"cancels"` // per waiter: 0 none, 1 before the signals, 2 after the signals (before the gates open)
	Signals int   `json:"signals"`
	Bcast   bool  `json:"broadcast"` // a Broadcast after the signals
	Gated   bool  `json:"gated"`
	// PreBcast: a Broadcast is issued before any waiter arrives (the waiters then use the
	// replacement wake-up channel that Broadcast installed).
	PreBcast bool   `json:"broadcast_before_waiters"`
	Note     string `json:"note,omitempty"`
}

func (s scenario) String() string {
	var b strings.Builder
	for i := 0; i < s.K; i++ {
		b.WriteByte("WP"[s.Stages[i]])
		b.WriteString([]string{"", "c", "C"}[s.Cancels[i]])
	}
	if s.PreBcast {
		b.WriteString("/afterB")
	}
	fmt.Fprintf(&b, "/S%d", s.Signals)
	if s.Bcast {
		b.WriteString("+B")
	}
	if !s.Gated {
		b.WriteString("/stress")
	}
	return b.String()
}

// gateLocker is the sync.Locker given to the ContextCond.
type gateLocker struct {
	mu      sync.Mutex
	current int // waiter about to call Wait (set while holding mu), -1 for a plain unlock
	gated   bool
	reached []chan struct{} // closed when waiter w has released the lock inside Wait
	gates   []chan struct{} // closed to let waiter w go on to the select
	locks   atomic.Int64
	pert    *vkit.Perturber
}

func (g *gateLocker) Lock() {
	g.mu.Lock()
	g.locks.Add(1)
}

func (g *gateLocker) Unlock() {
	w := g.current
	g.current = -1
	g.mu.Unlock()
	if w >= 0 {
		close(g.reached[w])
		if g.gated {
			<-g.gates[w]
		} else {
			g.pert.Do()
		}
	}
}

type waiterState struct {
	phase    atomic.Int32 // 0 not started, 1 in Wait, 2 returned nil, 3 returned err, 4 checking lock after err
	err      error
	heldLock bool // after a nil return: was the mutex held?
	locksBy  int64
}

func main() {
	vkit.Main("C16", "exploration", func(r *vkit.Report) {
		r.SetRule("case = one scenario (k <= 4 waiters; each in-window or parked when the signals are sent; at most one waiter cancelled before or after the signals; " +
			"m <= 4 Signals and/or a Broadcast), executed under the gated-Locker controller, then ungated stress rounds with concurrent signallers. Evaluation = one executed scenario whose returns were counted at quiescence. " +
			"non-trivial = k >= 2 and at least one Signal or Broadcast; distinct = by scenario string (stages, cancels, signals, broadcast, gated).")
		r.Assume("a waiter counts as having entered Wait once Wait has released the lock (the Locker's Unlock was called by Wait)")
		r.Assume("expected wake-ups: #nil-returns >= min(m, k - #ctx-error-returns) for m Signals; after a Broadcast every waiter that had released the lock before it returns; nil => lock held; error => ctx.Err(), lock not held")
		r.Assume("known finding D11 (KNOWN_FINDINGS.txt key signals-coalesced): attributed only when no waiter was cancelled, >= 2 waiters were in the window, m - parked >= 2 and exactly min(parked, m)+1 waiters woke; every other shortfall is a violation")
		all := enumerate(r.Scale(3, 4))
		r.SetExhaustive(false)
		r.Cases("gated", len(all), 1, func(c *vkit.Case) { execute(c, all[c.Index]) })
		reps := r.Scale(1, 5)
		r.Cases("gated-repeat", len(all)*(reps-1), 1, func(c *vkit.Case) { execute(c, all[c.Index%len(all)]) })
		r.Cases("stress", r.Scale(600, 6000), 1, func(c *vkit.Case) {
			k := c.Rand.Range(1, 6)
			s := scenario{K: k, Stages: make([]int, k), Cancels: make([]int, k), Signals: c.Rand.Range(0, 6), Bcast: c.Rand.Bool(0.2)}
			if c.Rand.Bool(0.3) {
				s.Cancels[c.Rand.Intn(k)] = 1 + c.Rand.Intn(2)
			}
			s.PreBcast = c.Rand.Bool(0.3)
			execute(c, s)
		})
		r.Cases("bcast-race", r.Scale(4000, 20000), 1, func(c *vkit.Case) { bcastRace(c) })
		r.Cases("phases", r.Scale(500, 3000), 1, func(c *vkit.Case) { phases(c) })
		r.Cases("shared", r.Scale(400, 2500), 1, func(c *vkit.Case) { shared(c) })
		r.Cases("late-entrant", r.Scale(400, 2500), 1, func(c *vkit.Case) { lateEntrant(c) })
		r.Cases("bcast-overlap", r.Scale(3000, 10000), 1, func(c *vkit.Case) { bcastOverlap(c) })
		r.Cases("deadline-entry", r.Scale(3000, 12000), 1, func(c *vkit.Case) { deadlineEntry(c) })
		r.Floor("waits entered around the deadline of their context", r.Table("deadline-entry", "rounds"), 2000)
		r.Cases("gen-mix", r.Scale(400, 2500), 1, func(c *vkit.Case) { genMix(c) })
		r.Floor("rounds with waiters of two generations (Broadcast, newcomer, Signal)", r.Table("gen-mix", "rounds"), 300)
		r.Cases("bcast-vs-reader", r.Scale(3000, 10000), 1, func(c *vkit.Case) { bcastVsReader(c) })
		r.Floor("rounds with a Broadcast racing a Signal or a newcomer's entry while older waiters are parked", r.Table("bcast-vs-reader", "rounds"), 2000)
		r.Floor("late-entrant rounds", r.Table("late-entrant", "rounds"), 300)
		r.Floor("rounds with two overlapping Broadcasts around a waiter's entry", r.Table("bcast-overlap", "rounds"), 2000)
		r.Floor("multi-phase histories on one cond", r.Table("phases", "histories"), 300)
		r.Floor("histories with a shared Locker", r.Table("shared", "histories"), 300)
		r.Floor("lone Signals followed by a wake-up (phases)", r.Table("phases", "lone Signals to waiting goroutines, each followed by a wake-up"), 300)
		r.Floor("rounds with lock-less Broadcasts racing a waiter's entry into Wait", r.Table("bcast-race", "rounds"), 1000)
		r.Floor("gated scenarios executed", r.Table("scenarios", "gated"), int64(len(all)))
		r.Floor("waiters confirmed parked through the goroutine dump", r.Table("waiters", "confirmed parked before the signals"), 100)
		r.Floor("waiters held in the window while signals were sent", r.Table("waiters", "held in the window during the signals"), 100)
		r.Floor("wake-ups by Signal observed", r.Table("returns", "nil after Signal(s) only"), 100)
	})
}

func enumerate(maxK int) []scenario {
	var out []scenario
	for k := 1; k <= maxK; k++ {
		for stages := 0; stages < 1<<k; stages++ {
			// at most one cancelled waiter: none, or waiter i cancelled before / after
			for ci := -1; ci < k; ci++ {
				for _, ck := range []int{cancelBefore, cancelAfter} {
					if ci == -1 && ck == cancelAfter {
						continue
					}
					for m := 0; m <= 4; m++ {
						for _, bc := range []bool{false, true} {
							if m > k+1 && !bc {
								// more signals than could matter; keep one surplus level
								continue
							}
							s := scenario{K: k, Gated: true, Signals: m, Bcast: bc}
							for i := 0; i < k; i++ {
								s.Stages = append(s.Stages, (stages>>i)&1)
								c := cancelNone
								if i == ci {
									c = ck
								}
								s.Cancels = append(s.Cancels, c)
							}
							out = append(out, s)
							if k <= 2 {
								s2 := s
								s2.PreBcast = true
								out = append(out, s2)
							}
						}
					}
				}
			}
		}
	}
	return out
}

func inWait(g vkit.G) bool {
	return g.In("xsync.(*ContextCond).Wait")
}

func execute(c *vkit.Case, s scenario) {
	r := c.R
	k := s.K
	gl := &gateLocker{current: -1, gated: s.Gated, pert: vkit.NewPerturber(c.Rand.Split(), 37, 0.7)}
	for i := 0; i < k; i++ {
		gl.reached = append(gl.reached, make(chan struct{}))
		gl.gates = append(gl.gates, make(chan struct{}))
	}
	cond := xsync.NewContextCond(gl)
	if s.PreBcast {
		cond.Broadcast()
	}
	var chk sync.Mutex // serialises the waiters' post-return lock checks
	ws := make([]*waiterState, k)
	ctxs := make([]context.Context, k)
	cancels := make([]context.CancelFunc, k)
	var wg sync.WaitGroup
	goids := make([]atomic.Int64, k)
	fail := func(sig, what string, extra map[string]any) {
		w := map[string]any{"scenario": s, "scenario_string": s.String()}
		for k, v := range extra {
			w[k] = v
		}
		c.Violation(sig, s.String()+": "+what, w)
	}
	for i := 0; i < k; i++ {
		i := i
		ws[i] = &waiterState{}
		if (c.Index+i)%2 == 0 {
			ctxs[i], cancels[i] = context.WithCancel(context.Background())
		} else {
			// a context that carries a cancellation CAUSE: Wait must still return ctx.Err()
			cctx, ccancel := context.WithCancelCause(context.Background())
			ctxs[i], cancels[i] = cctx, func() { ccancel(errAppCause) }
		}
		wg.Add(1)
		go func() {
			defer wg.Done()
			gl.Lock()
			gl.current = i
			before := gl.locks.Load()
			ws[i].phase.Store(1)
			err := cond.Wait(ctxs[i])
			if err == nil {
				// Must hold the lock again: the mutex is locked (TryLock fails) and a Lock call was made.
				ws[i].locksBy = gl.locks.Load() - before
				chk.Lock()
				if gl.mu.TryLock() {
					ws[i].heldLock = false
					gl.mu.Unlock()
				} else {
					ws[i].heldLock = true
					gl.current = -1
					gl.mu.Unlock()
				}
				chk.Unlock()
				ws[i].phase.Store(2)
				return
			}
			ws[i].err = err
			ws[i].phase.Store(4)
			// Must NOT hold the lock: taking it must succeed (if Wait kept it, this parks forever
			// and is reported at quiescence).
			gl.mu.Lock()
			gl.mu.Unlock()
			ws[i].phase.Store(3)
		}()
		// wait until this waiter has released the lock inside Wait (so that the next can lock)
		if !awaitChan(gl.reached[i]) {
			fail("wait-did-not-unlock", fmt.Sprintf("waiter %d never released the lock inside Wait", i), nil)
			return
		}
	}
	_ = goids
	// Stage: parked waiters get their gate opened now and are confirmed parked.
	nParked, nWindow := 0, 0
	if s.Gated {
		for i := 0; i < k; i++ {
			if s.Stages[i] == stParked {
				close(gl.gates[i])
				nParked++
			} else {
				nWindow++
			}
		}
		if nParked > 0 {
			if !waitParked(nParked) {
				r.Inconclusive(fmt.Sprintf("case %s %s: could not confirm %d parked waiters", c.ID(), s, nParked))
				release(gl, s, cancels, &wg, cond)
				return
			}
			r.Count("waiters", "confirmed parked before the signals", nParked)
		}
		r.Count("waiters", "held in the window during the signals", nWindow)
	}
	anyCancel := false
	_ = anyCancel
	for i := 0; i < k; i++ {
		if s.Cancels[i] == cancelBefore {
			cancels[i]()
			anyCancel = true
		}
	}
	// The signals.
	if s.Gated {
		for j := 0; j < s.Signals; j++ {
			cond.Signal()
		}
	} else {
		// stress: concurrent signallers, sometimes holding the lock as allowed
		var sg sync.WaitGroup
		for j := 0; j < s.Signals; j++ {
			hold := c.Rand.Bool(0.3)
			p := vkit.NewPerturber(c.Rand.Split(), 5, 0.5)
			sg.Add(1)
			go func() {
				defer sg.Done()
				p.Do()
				if hold {
					gl.Lock()
					cond.Signal()
					gl.current = -1
					gl.Unlock()
				} else {
					cond.Signal()
				}
			}()
		}
		sg.Wait()
	}
	if s.Bcast {
		cond.Broadcast()
	}
	for i := 0; i < k; i++ {
		if s.Cancels[i] == cancelAfter {
			cancels[i]()
			anyCancel = true
		}
	}
	// Open the remaining gates and wait for quiescence: every waiter has returned or is parked.
	if s.Gated {
		for i := 0; i < k; i++ {
			if s.Stages[i] == stWindow {
				close(gl.gates[i])
			}
		}
	}
	if !quiesce(ws) {
		r.Inconclusive(fmt.Sprintf("case %s %s: waiters did not quiesce", c.ID(), s))
		release(gl, s, cancels, &wg, cond)
		return
	}
	r.Eval(1)
	nilRet, errRet := 0, 0
	var states []string
	for i, w := range ws {
		switch w.phase.Load() {
		case 2:
			nilRet++
			states = append(states, "nil")
			if !w.heldLock || w.locksBy < 1 {
				fail("nil-without-lock", fmt.Sprintf("waiter %d returned nil from Wait without holding the lock", i), nil)
				release(gl, s, cancels, &wg, cond)
				return
			}
		case 3:
			errRet++
			states = append(states, "err")
			if s.Cancels[i] == cancelNone || w.err != ctxs[i].Err() || !errors.Is(w.err, context.Canceled) {
				fail("wrong-error", fmt.Sprintf("waiter %d returned %v; its context's error is %v (cancelled by the scenario: %v)", i, w.err, ctxs[i].Err(), s.Cancels[i] != cancelNone), nil)
				release(gl, s, cancels, &wg, cond)
				return
			}
		case 4:
			states = append(states, "err-holding-lock")
			fail("error-with-lock", fmt.Sprintf("waiter %d returned %v from Wait still holding the lock", i, w.err), nil)
			gl.mu.Unlock() // free the lock the library left locked, so that the clean-up can finish
			release(gl, s, cancels, &wg, cond)
			return
		default:
			states = append(states, "parked")
		}
	}
	r.Count("scenarios", map[bool]string{true: "gated", false: "stress"}[s.Gated], 1)
	witness := map[string]any{"waiters": states, "nil_returns": nilRet, "err_returns": errRet}
	// Cancelled waiters must have returned (promptly = by quiescence).
	for i, w := range ws {
		if s.Cancels[i] != cancelNone && w.phase.Load() == 1 {
			fail("cancel-ignored", fmt.Sprintf("waiter %d is still parked in Wait although its context was cancelled", i), witness)
			release(gl, s, cancels, &wg, cond)
			return
		}
	}
	if s.Bcast {
		if nilRet+errRet != k {
			fail("broadcast-missed", fmt.Sprintf("after a Broadcast %d of %d waiters that had released the lock are still waiting", k-nilRet-errRet, k), witness)
			release(gl, s, cancels, &wg, cond)
			return
		}
		r.Count("returns", "nil after Broadcast", nilRet)
	} else {
		want := min(s.Signals, k-errRet)
		if nilRet < want {
			// shortfall: known finding D11 or a violation
			sig := "lost-wakeup"
			isD11 := false
			if s.Gated {
				// What the one-slot wake-up channel explains, and nothing more: signals are handed
				// to the waiters that are parked and live at that moment (h of them); of the
				// remaining m-h signals the first is remembered in the slot and the others are
				// dropped. The remembered one wakes an in-window waiter if there is one whose
				// context is not cancelled (a cancelled one may take either way out).
				parkedLive, windowLive := 0, 0
				for i := 0; i < k; i++ {
					if s.Stages[i] == stParked && s.Cancels[i] != cancelBefore {
						parkedLive++
					}
					if s.Stages[i] == stWindow && s.Cancels[i] == cancelNone {
						windowLive++
					}
				}
				h := min(parkedLive, s.Signals)
				dropped := s.Signals - h - 1
				oneSlotMin := h
				if s.Signals > h && windowLive > 0 {
					oneSlotMin++
				}
				isD11 = dropped >= 1 && nilRet >= oneSlotMin && want-nilRet <= dropped
			} else {
				isD11 = k >= 2 && s.Signals >= 2 && nilRet >= 1
			}
			if isD11 {
				sig = "signals-coalesced"
			}
			fail(sig, fmt.Sprintf("%d Signals with %d waiters having released the lock (%d parked, %d in the window, %d returned a context error): only %d woke, want >= %d",
				s.Signals, k, nParked, nWindow, errRet, nilRet, want), witness)
			if sig == "lost-wakeup" {
				release(gl, s, cancels, &wg, cond)
				return
			}
		}
		if nilRet > 0 {
			r.Count("returns", "nil after Signal(s) only", nilRet)
		}
	}
	r.Count("returns", "ctx error", errRet)
	if k >= 2 && (s.Signals > 0 || s.Bcast) {
		r.Distinct(s.String())
	}
	if r.WantSample() && k >= 2 && s.Signals >= 1 {
		r.Sample(map[string]any{"scenario": s.String(), "k": k, "stages(0=window,1=parked)": s.Stages, "cancels": s.Cancels, "signals": s.Signals, "broadcast": s.Bcast, "outcome": states})
	}
	release(gl, s, cancels, &wg, cond)
}

func min(a, b int) int {
	if a < b {
		return a
	}
	return b
}

func awaitChan(ch chan struct{}) bool {
	v, _ := vkit.Await(ch, vkit.AwaitOpts{Soft: 5 * time.Second, Gap: 200 * time.Millisecond, Hard: 60 * time.Second})
	return v == vkit.AwaitDone
}

// waitParked waits until at least n goroutines are parked in ContextCond.Wait's select.
func waitParked(n int) bool {
	deadline := time.Now().Add(60 * time.Second)
	for time.Now().Before(deadline) {
		cnt := 0
		for _, g := range vkit.Goroutines() {
			if inWait(g) && g.State == "select" {
				cnt++
			}
		}
		if cnt >= n {
			return true
		}
		time.Sleep(200 * time.Microsecond)
	}
	return false
}

// quiesce waits until every waiter has returned or is parked (in Wait's select, or — the defect
// "error with the lock held" — in the harness's mutex Lock after an error return), seen twice.
func quiesce(ws []*waiterState) bool {
	deadline := time.Now().Add(90 * time.Second)
	stable := 0
	for time.Now().Before(deadline) {
		pending := 0
		for _, w := range ws {
			if p := w.phase.Load(); p == 1 || p == 4 || p == 0 {
				pending++
			}
		}
		if pending == 0 {
			return true
		}
		parked := 0
		for _, g := range vkit.Goroutines() {
			if (inWait(g) && g.State == "select") || (g.In("main.execute.func") && (g.State == "sync.Mutex.Lock" || g.State == "semacquire")) {
				parked++
			}
		}
		// re-read after the dump: a waiter may have returned meanwhile
		pending2 := 0
		for _, w := range ws {
			if p := w.phase.Load(); p == 1 || p == 4 || p == 0 {
				pending2++
			}
		}
		if pending2 == pending && parked >= pending {
			stable++
			if stable >= 3 {
				return true
			}
		} else {
			stable = 0
		}
		time.Sleep(300 * time.Microsecond)
	}
	return false
}

// release ends the scenario: everything still waiting is cancelled and broadcast to, and all
// waiter goroutines must finish (a goroutine that cannot is a stuck verdict of its own).
func release(gl *gateLocker, s scenario, cancels []context.CancelFunc, wg *sync.WaitGroup, cond *xsync.ContextCond) {
	for _, c := range cancels {
		c()
	}
	cond.Broadcast()
	for i := range gl.gates {
		select {
		case <-gl.gates[i]:
		default:
			close(gl.gates[i])
		}
	}
	done := make(chan struct{})
	go func() { wg.Wait(); close(done) }()
	vkit.Await(done, vkit.AwaitOpts{Soft: 5 * time.Second, Gap: 200 * time.Millisecond, Hard: 30 * time.Second})
}

// bcastRace: Broadcasts issued WITHOUT holding L race a waiter's entry into Wait (the statements
// before Wait releases the lock, which no Locker and no pause point can reach). Whatever happened
// during the entry, a Broadcast issued after the waiter has released the lock must wake it.
func bcastRace(c *vkit.Case) {
	r := c.R
	gl := &gateLocker{current: -1, pert: vkit.NewPerturber(c.Rand.Split(), 7, 0.3)}
	gl.reached = []chan struct{}{make(chan struct{})}
	gl.gates = []chan struct{}{make(chan struct{})}
	cond := xsync.NewContextCond(gl)
	if c.Rand.Bool(0.5) {
		cond.Broadcast()
	}
	nb := c.Rand.Range(1, 40)
	stop := make(chan struct{})
	var hammer sync.WaitGroup
	hammers := c.Rand.Range(1, 2)
	for h := 0; h < hammers; h++ {
		hammer.Add(1)
		go func() {
			defer hammer.Done()
			for i := 0; i < nb; i++ {
				select {
				case <-stop:
					return
				default:
				}
				cond.Broadcast()
			}
		}()
	}
	var ws waiterState
	ctx, cancel := context.WithCancel(context.Background())
	defer cancel()
	done := make(chan struct{})
	go func() {
		defer close(done)
		gl.Lock()
		gl.current = 0
		ws.phase.Store(1)
		err := cond.Wait(ctx)
		if err == nil {
			gl.current = -1
			gl.mu.Unlock()
			ws.phase.Store(2)
			return
		}
		ws.err = err
		ws.phase.Store(3)
	}()
	if !awaitChan(gl.reached[0]) {
		c.Violation("wait-did-not-unlock", "bcast-race: the waiter never released the lock inside Wait", nil)
		return
	}
	close(stop)
	hammer.Wait()
	cond.Broadcast() // after the waiter has released the lock: must wake it
	r.Eval(1)
	r.Count("bcast-race", "rounds", 1)
	v, dump := vkit.Await(done, vkit.AwaitOpts{Soft: 2 * time.Second, Gap: 200 * time.Millisecond, Hard: 60 * time.Second})
	switch v {
	case vkit.AwaitStuck:
		c.Violation("broadcast-missed", fmt.Sprintf("bcast-race: a Broadcast issued after the waiter had released the lock did not wake it (%d lock-less Broadcasts from %d goroutine(s) had raced its entry into Wait)", nb, hammers),
			map[string]any{"goroutines": dump})
		cancel()
		<-done
	case vkit.AwaitInconclusive:
		r.Inconclusive("bcast-race: waiter neither returned nor provably parked")
		cancel()
	default:
		if ws.phase.Load() != 2 {
			c.Violation("wrong-error", fmt.Sprintf("bcast-race: Wait returned %v although its context was live", ws.err), nil)
		}
	}
}
