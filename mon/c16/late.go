package main

import (
	"context"
	"fmt"
	"sync"
	"sync/atomic"
	"time"

	"github.com/bradenaw/juniper/xsync"

	"verif/vkit"
)

// lateEntrant: k waiters are held in the window between releasing the lock and parking (or are
// parked); m <= k Signals are sent; THEN further waiters enter Wait (they entered after the
// Signals, so they are owed nothing, but they must not take away what the first k are owed);
// then every gate opens. At least min(k, 1) goroutines must return nil for m >= 1 — precisely:
// nil returns among ALL waiters >= 1 (one slot is all the pinned cond remembers, D11), and when
// the first k were parked and the Signals were sent one at a time, nil returns >= m.
func lateEntrant(c *vkit.Case) {
	r := c.R
	rnd := c.Rand
	k := rnd.Range(1, 3)
	late := rnd.Range(1, 3)
	parkFirst := rnd.Bool(0.4)
	total := k + late
	gl := &gateLocker{current: -1, gated: true, pert: vkit.NewPerturber(rnd.Split(), 7, 0.3)}
	for i := 0; i < total; i++ {
		gl.reached = append(gl.reached, make(chan struct{}))
		gl.gates = append(gl.gates, make(chan struct{}))
	}
	cond := xsync.NewContextCond(gl)
	if rnd.Bool(0.3) {
		cond.Broadcast()
	}
	var nils atomic.Int64
	var wg sync.WaitGroup
	ctx, cancel := context.WithCancel(context.Background())
	defer cancel()
	start := func(i int) bool {
		wg.Add(1)
		go func() {
			defer wg.Done()
			gl.Lock()
			gl.current = i
			if err := cond.Wait(ctx); err == nil {
				nils.Add(1)
				gl.current = -1
				gl.mu.Unlock()
			}
		}()
		return awaitChan(gl.reached[i])
	}
	desc := fmt.Sprintf("late-entrant: %d waiter(s) %s, then Signal(s), then %d more waiter(s) entered Wait, then all were let go", k, map[bool]string{true: "parked", false: "held between releasing the lock and parking"}[parkFirst], late)
	finish := func() {
		cancel()
		cond.Broadcast()
		for i := range gl.gates {
			select {
			case <-gl.gates[i]:
			default:
				close(gl.gates[i])
			}
		}
		done := make(chan struct{})
		go func() { wg.Wait(); close(done) }()
		vkit.Await(done, vkit.AwaitOpts{Soft: 5 * time.Second, Gap: 200 * time.Millisecond, Hard: 30 * time.Second})
	}
	for i := 0; i < k; i++ {
		if !start(i) {
			c.Violation("wait-did-not-unlock", desc+": a waiter never released the lock inside Wait", nil)
			finish()
			return
		}
	}
	if parkFirst {
		for i := 0; i < k; i++ {
			close(gl.gates[i])
		}
		if !waitParked(k) {
			r.Inconclusive("late-entrant: waiters not confirmed parked")
			finish()
			return
		}
	}
	m := 1
	want := 1
	if parkFirst {
		m = rnd.Range(1, k)
		want = m
	}
	for s := 0; s < m; s++ {
		before := nils.Load()
		cond.Signal()
		if parkFirst {
			// one at a time: the woken waiter must return before the next Signal (no coalescing)
			t0 := time.Now()
			for nils.Load() == before && time.Since(t0) < 2*time.Second {
				time.Sleep(20 * time.Microsecond)
			}
		}
	}
	for i := k; i < total; i++ {
		if !start(i) {
			c.Violation("wait-did-not-unlock", desc+": a late waiter never released the lock inside Wait", nil)
			finish()
			return
		}
	}
	for i := range gl.gates {
		select {
		case <-gl.gates[i]:
		default:
			close(gl.gates[i])
		}
	}
	// quiescence: everybody returned or parked for good
	ok := func() bool { return int(nils.Load()) >= want }
	t0 := time.Now()
	for !ok() && time.Since(t0) < 2*time.Second {
		time.Sleep(50 * time.Microsecond)
	}
	r.Eval(1)
	r.Count("late-entrant", "rounds", 1)
	if !ok() {
		// all remaining waiters parked in Wait's select, twice, 200 ms apart?
		stuck := false
		var dump string
		hard := time.Now().Add(60 * time.Second)
		for time.Now().Before(hard) && !ok() {
			n1, p1, a := lateSnap()
			time.Sleep(200 * time.Millisecond)
			n2, p2, b := lateSnap()
			if n1 > 0 && n1 == p1 && n2 == p2 && a == b && !ok() {
				stuck, dump = true, b
				break
			}
		}
		if stuck {
			c.Violation("signal-missed", fmt.Sprintf("%s: %d Signal(s) were sent after the first %d waiter(s) had released the lock, yet only %d goroutine(s) returned nil (at least %d must); everybody else is parked in Wait", desc, m, k, nils.Load(), want),
				map[string]any{"goroutines": dump})
		} else if !ok() {
			r.Inconclusive("late-entrant: neither woken nor provably parked")
		}
	}
	finish()
}

func lateSnap() (n, parked int, raw string) {
	for _, g := range vkit.Goroutines() {
		if !g.In("main.lateEntrant") && !g.In("main.bcastOverlap") && !g.In("main.genMix") {
			continue
		}
		if !inWait(g) {
			continue
		}
		n++
		raw += g.Raw + "\n\n"
		if g.State == "select" {
			parked++
		}
	}
	return
}

// bcastOverlap: two Broadcasts overlap. B1 is issued (lock-less, from another goroutine, at a
// swept offset) around the moment waiter W enters Wait, with `old` earlier waiters parked so that
// B1 has work to do; B2 is issued by the harness right after W has released the lock, without
// waiting for B1 to finish. B2 was called after W entered Wait, so W must wake, whatever B1 is
// still doing; and every old waiter must wake too.
func bcastOverlap(c *vkit.Case) {
	r := c.R
	rnd := c.Rand
	old := []int{0, 4, 16, 64, 256}[rnd.Intn(5)]
	total := old + 1
	gl := &gateLocker{current: -1, gated: false, pert: vkit.NewPerturber(rnd.Split(), 3, 0.0)}
	for i := 0; i < total; i++ {
		gl.reached = append(gl.reached, make(chan struct{}))
		gl.gates = append(gl.gates, make(chan struct{}))
	}
	cond := xsync.NewContextCond(gl)
	var nils atomic.Int64
	var wg sync.WaitGroup
	ctx, cancel := context.WithCancel(context.Background())
	defer cancel()
	start := func(i int) {
		wg.Add(1)
		go func() {
			defer wg.Done()
			gl.Lock()
			gl.current = i
			if err := cond.Wait(ctx); err == nil {
				nils.Add(1)
				gl.current = -1
				gl.mu.Unlock()
			}
		}()
	}
	for i := 0; i < old; i++ {
		start(i)
		if !awaitChan(gl.reached[i]) {
			r.Inconclusive("bcast-overlap: old waiter did not enter")
			cancel()
			return
		}
	}
	if old > 0 && !waitParked(old) {
		r.Inconclusive("bcast-overlap: old waiters not parked")
		cancel()
		return
	}
	spin := rnd.Intn(3000)
	var go1 atomic.Bool
	b1done := make(chan struct{})
	go func() {
		defer close(b1done)
		for !go1.Load() {
		}
		sink := 0
		for i := 0; i < spin; i++ {
			sink += i
		}
		_ = sink
		cond.Broadcast() // B1
	}()
	go1.Store(true)
	start(old) // W
	if !awaitChan(gl.reached[old]) {
		r.Inconclusive("bcast-overlap: W did not enter")
		cancel()
		return
	}
	cond.Broadcast() // B2: called after W released the lock
	<-b1done
	done := make(chan struct{})
	go func() { wg.Wait(); close(done) }()
	v, dump := vkit.Await(done, vkit.AwaitOpts{Soft: 2 * time.Second, Gap: 200 * time.Millisecond, Hard: 60 * time.Second})
	r.Eval(1)
	r.Count("bcast-overlap", "rounds", 1)
	switch v {
	case vkit.AwaitStuck:
		c.Violation("broadcast-missed", fmt.Sprintf("bcast-overlap: %d waiters were parked, Broadcast B1 was issued from another goroutine around the moment waiter W entered Wait, Broadcast B2 was called after W had released the lock (B1 possibly still in progress): %d of %d goroutines returned, the rest is parked in Wait for good", old, nils.Load(), total),
			map[string]any{"old_waiters": old, "goroutines": dump})
		cancel()
		cond.Broadcast()
		<-done
	case vkit.AwaitInconclusive:
		r.Inconclusive("bcast-overlap: waiters neither returned nor provably parked")
		cancel()
	}
}

// deadlineEntry: a waiter enters Wait with a context whose DEADLINE passes around the moment of
// entry (swept from a few microseconds before to a few after; the context's own timer may not
// have fired yet, so ctx.Err() can still be nil although the deadline has passed). Nobody
// signals. Wait may only return the context's error without the lock; a nil return would have
// to hold the lock (and nobody woke it: recorded as spurious, judged only for the lock).
func deadlineEntry(c *vkit.Case) {
	r := c.R
	rnd := c.Rand
	mu := &sync.Mutex{}
	l := &cntLocker{inner: mu}
	cond := xsync.NewContextCond(l)
	if rnd.Bool(0.3) {
		cond.Broadcast()
	}
	lead := time.Duration(rnd.Range(20, 120)) * time.Microsecond
	off := time.Duration(rnd.Intn(16000)-4000) * time.Nanosecond // entry at deadline -4us .. +12us
	var ctx context.Context
	var cancel context.CancelFunc
	dl := time.Now().Add(lead)
	switch rnd.Intn(3) {
	case 0:
		ctx, cancel = context.WithDeadline(context.Background(), dl)
	case 1:
		ctx, cancel = context.WithTimeout(context.Background(), time.Until(dl))
	default:
		ctx, cancel = context.WithDeadlineCause(context.Background(), dl, errAppCause)
	}
	defer cancel()
	done := make(chan struct{})
	var err error
	heldAfterNil := true
	go func() {
		defer close(done)
		target := dl.Add(off)
		for time.Now().Before(target) {
		}
		mu.Lock()
		err = cond.Wait(ctx)
		if err == nil {
			if mu.TryLock() {
				heldAfterNil = false
				mu.Unlock()
			} else {
				mu.Unlock()
			}
		}
	}()
	v, dump := vkit.Await(done, vkit.AwaitOpts{Soft: 2 * time.Second, Gap: 200 * time.Millisecond, Hard: 60 * time.Second})
	r.Eval(1)
	r.Count("deadline-entry", "rounds", 1)
	what := fmt.Sprintf("deadline-entry: Wait entered %s relative to the context's deadline, nobody signals", off)
	switch v {
	case vkit.AwaitStuck:
		c.Violation("expired-wait-stuck", what+": Wait never returned although the context's deadline has passed", map[string]any{"goroutines": dump})
		cond.Broadcast()
		return
	case vkit.AwaitInconclusive:
		r.Inconclusive("deadline-entry: neither returned nor parked")
		return
	}
	switch {
	case err == nil && !heldAfterNil:
		c.Violation("nil-without-lock", what+": Wait returned nil WITHOUT holding the lock (and nobody had signalled)", nil)
	case err == nil:
		r.Count("deadline-entry", "nil return with the lock held (spurious wake-up, not judged)", 1)
	case err != context.DeadlineExceeded:
		c.Violation("wrong-error", fmt.Sprintf("%s: Wait returned %v, want the context's error %v", what, err, context.DeadlineExceeded), nil)
	default:
		if !mu.TryLock() {
			c.Violation("error-with-lock", what+": Wait returned the context's error but still holds the lock", nil)
		} else {
			mu.Unlock()
		}
		r.Count("deadline-entry", "context error without the lock", 1)
	}
}

// genMix: waiters of two generations. k waiters release the lock and are held in the window (or
// parked); a Broadcast is issued (it is theirs: all k must return nil); THEN one more waiter
// enters Wait and is held in the window (or parked); ONE Signal is sent — the only goroutine that
// still needs a wake-up is the newcomer, the first generation has already been woken by the
// Broadcast even though it has not yet got round to noticing; then every gate opens. All k+1 must
// return nil.
func genMix(c *vkit.Case) {
	r := c.R
	rnd := c.Rand
	k := rnd.Range(1, 3)
	total := k + 1
	parkOld := rnd.Bool(0.3)
	gl := &gateLocker{current: -1, gated: true, pert: vkit.NewPerturber(rnd.Split(), 7, 0.3)}
	for i := 0; i < total; i++ {
		gl.reached = append(gl.reached, make(chan struct{}))
		gl.gates = append(gl.gates, make(chan struct{}))
	}
	cond := xsync.NewContextCond(gl)
	var nils atomic.Int64
	var wg sync.WaitGroup
	ctx, cancel := context.WithCancel(context.Background())
	defer cancel()
	start := func(i int) bool {
		wg.Add(1)
		go func() {
			defer wg.Done()
			gl.Lock()
			gl.current = i
			if err := cond.Wait(ctx); err == nil {
				nils.Add(1)
				gl.current = -1
				gl.mu.Unlock()
			}
		}()
		return awaitChan(gl.reached[i])
	}
	openAll := func() {
		for i := range gl.gates {
			select {
			case <-gl.gates[i]:
			default:
				close(gl.gates[i])
			}
		}
	}
	finish := func() {
		cancel()
		cond.Broadcast()
		openAll()
		done := make(chan struct{})
		go func() { wg.Wait(); close(done) }()
		vkit.Await(done, vkit.AwaitOpts{Soft: 5 * time.Second, Gap: 200 * time.Millisecond, Hard: 30 * time.Second})
	}
	for i := 0; i < k; i++ {
		if !start(i) {
			r.Inconclusive("gen-mix: waiter did not enter")
			finish()
			return
		}
	}
	if parkOld {
		// an old waiter that is PARKED would return at once on the Broadcast; keep the first one in
		// the window and park the others
		for i := 1; i < k; i++ {
			close(gl.gates[i])
		}
		if k > 1 && !waitParked(k-1) {
			r.Inconclusive("gen-mix: old waiters not parked")
			finish()
			return
		}
	}
	cond.Broadcast()
	if !start(k) {
		r.Inconclusive("gen-mix: newcomer did not enter")
		finish()
		return
	}
	cond.Signal()
	openAll()
	ok := func() bool { return int(nils.Load()) >= total }
	t0 := time.Now()
	for !ok() && time.Since(t0) < 2*time.Second {
		time.Sleep(50 * time.Microsecond)
	}
	r.Eval(1)
	r.Count("gen-mix", "rounds", 1)
	if !ok() {
		stuck := false
		var dump string
		hard := time.Now().Add(60 * time.Second)
		for time.Now().Before(hard) && !ok() {
			n1, p1, a := lateSnap()
			time.Sleep(200 * time.Millisecond)
			n2, p2, b := lateSnap()
			if n1 > 0 && n1 == p1 && n2 == p2 && a == b && !ok() {
				stuck, dump = true, b
				break
			}
		}
		if stuck {
			c.Violation("signal-missed", fmt.Sprintf("gen-mix: %d waiter(s) had released the lock, a Broadcast was issued (theirs), then one more waiter entered Wait and ONE Signal was sent (nobody else still needed a wake-up): only %d of %d goroutines returned nil, the rest is parked in Wait", k, nils.Load(), total),
				map[string]any{"goroutines": dump})
		} else if !ok() {
			r.Inconclusive("gen-mix: neither woken nor provably parked")
		}
	}
	finish()
}

// bcastVsReader: k waiters are parked; then a Broadcast is issued at (almost) the same instant as
// another operation that only reads the cond's state — a Signal, or a newcomer entering Wait (swept
// spin offsets between the two). The Broadcast was called after the k waiters had released the
// lock, so all k must return nil whatever the other operation does; and both calls must return.
func bcastVsReader(c *vkit.Case) {
	r := c.R
	rnd := c.Rand
	k := rnd.Range(2, 4)
	reader := c.Index % 2 // 0: a concurrent Signal, 1: a newcomer entering Wait
	total := k + 1
	gl := &gateLocker{current: -1, gated: false, pert: vkit.NewPerturber(rnd.Split(), 3, 0.0)}
	for i := 0; i < total; i++ {
		gl.reached = append(gl.reached, make(chan struct{}))
		gl.gates = append(gl.gates, make(chan struct{}))
	}
	cond := xsync.NewContextCond(gl)
	var nils atomic.Int64
	var wg sync.WaitGroup
	ctx, cancel := context.WithCancel(context.Background())
	defer cancel()
	nctx, ncancel := context.WithCancel(context.Background())
	defer ncancel()
	start := func(i int, cx context.Context, oldWaiter bool) {
		wg.Add(1)
		go func() {
			defer wg.Done()
			gl.Lock()
			gl.current = i
			if err := cond.Wait(cx); err == nil {
				if oldWaiter {
					nils.Add(1)
				}
				gl.current = -1
				gl.mu.Unlock()
			}
		}()
	}
	for i := 0; i < k; i++ {
		start(i, ctx, true)
		if !awaitChan(gl.reached[i]) {
			r.Inconclusive("bcast-vs-reader: waiter did not enter")
			cancel()
			return
		}
	}
	if !waitParked(k) {
		r.Inconclusive("bcast-vs-reader: waiters not parked")
		cancel()
		return
	}
	var gate atomic.Bool
	offA, offB := rnd.Intn(400), rnd.Intn(400)
	calls := make(chan struct{})
	go func() {
		defer close(calls)
		var cw sync.WaitGroup
		cw.Add(2)
		go func() {
			defer cw.Done()
			for !gate.Load() {
			}
			for i := 0; i < offA; i++ {
			}
			cond.Broadcast()
		}()
		go func() {
			defer cw.Done()
			for !gate.Load() {
			}
			for i := 0; i < offB; i++ {
			}
			if reader == 0 {
				cond.Signal()
			} else {
				start(k, nctx, false)
			}
		}()
		cw.Wait()
	}()
	gate.Store(true)
	what := fmt.Sprintf("bcast-vs-reader: %d waiters parked; then a Broadcast and %s at the same instant", k, []string{"a Signal", "a newcomer entering Wait"}[reader])
	if v, dump := vkit.Await(calls, vkit.AwaitOpts{Soft: 2 * time.Second, Gap: 200 * time.Millisecond, Hard: 60 * time.Second}); v == vkit.AwaitStuck {
		c.Violation("call-stuck", what+": the Broadcast or the Signal never returned", map[string]any{"goroutines": dump})
		return // the cond is wedged: nothing can be flushed
	} else if v != vkit.AwaitDone {
		r.Inconclusive("bcast-vs-reader: calls neither returned nor parked")
		return
	}
	ok := func() bool { return int(nils.Load()) >= k }
	t0 := time.Now()
	for !ok() && time.Since(t0) < 2*time.Second {
		time.Sleep(50 * time.Microsecond)
	}
	r.Eval(1)
	r.Count("bcast-vs-reader", "rounds", 1)
	if !ok() {
		stuck := false
		var dump string
		hard := time.Now().Add(60 * time.Second)
		for time.Now().Before(hard) && !ok() {
			n1, p1, a := bvrSnap()
			time.Sleep(200 * time.Millisecond)
			n2, p2, b := bvrSnap()
			if n1 > 0 && n1 == p1 && n2 == p2 && a == b && !ok() {
				stuck, dump = true, b
				break
			}
		}
		if stuck {
			c.Violation("broadcast-missed", fmt.Sprintf("%s: only %d of the %d parked waiters returned nil, the rest is parked in Wait for good", what, nils.Load(), k), map[string]any{"goroutines": dump})
		} else if !ok() {
			r.Inconclusive("bcast-vs-reader: neither woken nor provably parked")
		}
	}
	ncancel()
	cancel()
	cond.Broadcast()
	done := make(chan struct{})
	go func() { wg.Wait(); close(done) }()
	vkit.Await(done, vkit.AwaitOpts{Soft: 5 * time.Second, Gap: 200 * time.Millisecond, Hard: 30 * time.Second})
}

func bvrSnap() (n, parked int, raw string) {
	for _, g := range vkit.Goroutines() {
		if !g.In("main.bcastVsReader") || !inWait(g) {
			continue
		}
		n++
		raw += g.Raw + "\n\n"
		if g.State == "select" {
			parked++
		}
	}
	return
}
