package main

import (
	"context"
	"fmt"
	"strings"
	"sync"
	"sync/atomic"
	"time"

	"github.com/bradenaw/juniper/xsync"

	"verif/vkit"
)

// cntLocker is the Locker handed to the cond in the shared and phases groups: it counts the Unlock
// calls that come through it. Only ContextCond.Wait unlocks through it (the harness unlocks the
// inner locker directly), so entered == n means n waiters have released the lock inside Wait.
type cntLocker struct {
	inner   sync.Locker
	entered atomic.Int64
}

func (l *cntLocker) Lock() { l.inner.Lock() }
func (l *cntLocker) Unlock() {
	l.inner.Unlock()
	l.entered.Add(1)
}

type nopLocker struct{}

func (nopLocker) Lock()   {}
func (nopLocker) Unlock() {}

// rig runs successive generations of waiters on ONE cond.
type rig struct {
	c       *vkit.Case
	group   string
	cond    *xsync.ContextCond
	l       *cntLocker
	excl    *sync.Mutex // non-nil when the Locker is exclusive
	history []string
	nilRet  atomic.Int64
	errRet  atomic.Int64
	badLock atomic.Int64
}

type gen struct {
	k       int
	wg      sync.WaitGroup
	cancels []context.CancelFunc
	base    int64 // l.entered before the generation
	nil0    int64
	err0    int64
}

func (g *rig) fail(sig, what string, dump string) {
	w := map[string]any{"history": append([]string(nil), g.history...)}
	if dump != "" {
		w["goroutines"] = dump
	}
	g.c.Violation(sig, g.group+": "+what+" — history on this cond: "+strings.Join(g.history, "; "), w)
}

// start launches k waiters that enter Wait as simultaneously as a barrier allows.
func (g *rig) start(k int) *gen {
	ge := &gen{k: k, base: g.l.entered.Load(), nil0: g.nilRet.Load(), err0: g.errRet.Load()}
	var gate sync.WaitGroup
	gate.Add(1)
	for i := 0; i < k; i++ {
		ctx, cancel := context.WithCancel(context.Background())
		if i%2 == 1 {
			ctx = vkit.ByValue(ctx) // a by-value context of a non-comparable dynamic type
		}
		ge.cancels = append(ge.cancels, cancel)
		ge.wg.Add(1)
		go func() {
			defer ge.wg.Done()
			gate.Wait()
			g.l.Lock()
			err := g.cond.Wait(ctx)
			if err == nil {
				if g.excl != nil && g.excl.TryLock() {
					// Wait returned nil without holding the (exclusive) lock
					g.badLock.Add(1)
					g.excl.Unlock()
				} else {
					g.l.inner.Unlock()
				}
				g.nilRet.Add(1)
			} else {
				g.errRet.Add(1)
			}
		}()
	}
	gate.Done()
	return ge
}

func (g *rig) nils(ge *gen) int     { return int(g.nilRet.Load() - ge.nil0) }
func (g *rig) errs(ge *gen) int     { return int(g.errRet.Load() - ge.err0) }
func (g *rig) returned(ge *gen) int { return g.nils(ge) + g.errs(ge) }

// awaitEntered waits until all k waiters of the generation have released the lock inside Wait.
func (g *rig) awaitEntered(ge *gen) bool {
	deadline := time.Now().Add(60 * time.Second)
	for g.l.entered.Load()-ge.base < int64(ge.k) {
		if time.Now().After(deadline) {
			return false
		}
		time.Sleep(20 * time.Microsecond)
	}
	return true
}

func waitersInSelect() (n, parked int, raw string) {
	var b strings.Builder
	for _, gr := range vkit.Goroutines() {
		if !gr.In("main.(*rig).start") {
			continue
		}
		n++
		b.WriteString(gr.Raw)
		b.WriteString("\n\n")
		if inWait(gr) && gr.State == "select" {
			parked++
		}
	}
	return n, parked, b.String()
}

// awaitParked: every waiter of the generation that has not returned is parked in Wait's select.
func (g *rig) awaitParked(ge *gen) bool {
	deadline := time.Now().Add(60 * time.Second)
	for time.Now().Before(deadline) {
		need := ge.k - g.returned(ge)
		_, parked, _ := waitersInSelect()
		if parked >= need && need == ge.k-g.returned(ge) {
			return true
		}
		time.Sleep(100 * time.Microsecond)
	}
	return false
}

// awaitCond: done when cond() holds; stuck when every waiter goroutine still alive is parked in
// Wait's select with an unchanged stack in two dumps 200 ms apart (nothing can wake it any more:
// the harness sends nothing while it waits); otherwise inconclusive after 60 s.
func awaitCond(cond func() bool) (vkit.AwaitVerdict, string) {
	t0 := time.Now()
	for time.Since(t0) < 2*time.Second {
		if cond() {
			return vkit.AwaitDone, ""
		}
		time.Sleep(20 * time.Microsecond)
	}
	hard := time.Now().Add(60 * time.Second)
	for time.Now().Before(hard) {
		na, pa, a := waitersInSelect()
		time.Sleep(200 * time.Millisecond)
		if cond() {
			return vkit.AwaitDone, ""
		}
		nb, pb, b := waitersInSelect()
		if na > 0 && na == pa && nb == pb && a == b {
			if cond() {
				return vkit.AwaitDone, ""
			}
			return vkit.AwaitStuck, b
		}
	}
	return vkit.AwaitInconclusive, ""
}

// finish flushes the generation: cancel everything, Broadcast; all goroutines must go away.
func (g *rig) finish(ge *gen) bool {
	for _, c := range ge.cancels {
		c()
	}
	g.cond.Broadcast()
	done := make(chan struct{})
	go func() { ge.wg.Wait(); close(done) }()
	v, dump := vkit.Await(done, vkit.AwaitOpts{Soft: 2 * time.Second, Gap: 200 * time.Millisecond, Hard: 60 * time.Second})
	if v == vkit.AwaitStuck {
		g.fail("cancelled-wait-stuck", "after every context was cancelled and a Broadcast sent, a waiter is still inside Wait", dump)
	}
	return v == vkit.AwaitDone
}

// step runs one generation: k waiters enter; optionally they are confirmed parked; then actions:
//
//	'S' Signal, 'B' Broadcast, 'C' cancel waiter 0, 's' a Signal on its own whose wake-up is awaited.
//
// Judgement (only what the statement promises, given that every waiter had released the lock
// before the first action): a Broadcast => every non-cancelled waiter returns nil; Signals => at
// least one nil return for one 'S', one more nil return per 's' while somebody still waits.
// Several back-to-back Signals to unparked waiters (the known finding D11) are never sent here.
func (g *rig) step(name string, k int, park bool, actions string) bool {
	r := g.c.R
	g.history = append(g.history, fmt.Sprintf("%s(k=%d,parked=%v,actions=%q)", name, k, park, actions))
	ge := g.start(k)
	if !g.awaitEntered(ge) {
		r.Inconclusive(g.group + ": waiters did not all enter Wait within 60 s")
		g.finish(ge)
		return false
	}
	if park {
		if !g.awaitParked(ge) {
			r.Inconclusive(g.group + ": waiters not confirmed parked within 60 s")
			g.finish(ge)
			return false
		}
		r.Count(g.group, "generations confirmed parked before the actions", 1)
	}
	cancelled := 0
	bigS := 0
	bcast := false
	for _, a := range actions {
		switch a {
		case 'S':
			g.cond.Signal()
			bigS++
		case 'B':
			g.cond.Broadcast()
			bcast = true
		case 'C':
			ge.cancels[0]()
			cancelled = 1
		case 's':
			before := g.nils(ge)
			if g.returned(ge) >= k {
				continue
			}
			g.cond.Signal()
			v, dump := awaitCond(func() bool { return g.nils(ge) > before || g.returned(ge) >= k })
			if v == vkit.AwaitStuck {
				g.fail("signal-missed", fmt.Sprintf("%d waiter(s) had released the lock inside Wait, %d of them still waiting; one Signal was sent and woke none of them", k, k-g.returned(ge)), dump)
				g.finish(ge)
				return false
			} else if v == vkit.AwaitInconclusive {
				r.Inconclusive(g.group + ": after a lone Signal the waiters neither returned nor were provably parked")
				g.finish(ge)
				return false
			}
			r.Count(g.group, "lone Signals to waiting goroutines, each followed by a wake-up", 1)
		}
	}
	want := 0
	if bcast {
		want = k - cancelled
	} else if bigS > 0 && k-cancelled >= 1 {
		want = 1
	}
	if want > 0 {
		v, dump := awaitCond(func() bool { return g.nils(ge) >= want || g.returned(ge) >= k })
		nils := g.nils(ge)
		if v == vkit.AwaitStuck || (v == vkit.AwaitDone && nils < want && g.errs(ge) <= cancelled) {
			sig := "signal-missed"
			if bcast {
				sig = "broadcast-missed"
			}
			g.fail(sig, fmt.Sprintf("%d waiter(s) had released the lock inside Wait (%d cancelled) before the actions %q; %d returned nil, at least %d must", k, cancelled, actions, nils, want), dump)
			g.finish(ge)
			return false
		} else if v == vkit.AwaitInconclusive {
			r.Inconclusive(g.group + ": waiters neither returned nor provably parked")
			g.finish(ge)
			return false
		}
		if bcast {
			r.Count(g.group, "Broadcasts after which every waiter returned", 1)
		}
	}
	if e := g.errs(ge); e > cancelled {
		g.fail("wrong-error", fmt.Sprintf("%d waiters returned an error although only %d context(s) had been cancelled", e, cancelled), "")
		g.finish(ge)
		return false
	}
	if !g.finish(ge) {
		return false
	}
	if g.badLock.Load() > 0 {
		g.fail("nil-without-lock", "Wait returned nil without holding the lock", "")
		return false
	}
	r.Eval(1)
	r.Count(g.group, "generations judged", 1)
	return true
}

var stepKinds = []struct {
	name    string
	actions string
	maxK    int
	park    int // 0 never, 1 always, 2 random
}{
	{"lone-signal", "s", 1, 2},
	{"signal", "S", 3, 2},
	{"signals-one-by-one", "sss", 4, 1},
	{"signal-then-broadcast", "SB", 3, 2},
	{"broadcast-then-signal", "BS", 3, 2},
	{"broadcast", "B", 5, 2},
	{"cancel", "C", 1, 2},
	{"cancel-then-broadcast", "CB", 3, 2},
	{"signal-cancel", "SC", 2, 1},
	{"stray-signal", "S", 0, 0},
	{"stray-broadcast", "B", 0, 0},
	{"stray-signal-broadcast", "SB", 0, 0},
}

// phases: a multi-phase history on ONE cond with an exclusive Locker: earlier generations (Signal
// tokens overtaken by a Broadcast, stray Signals and Broadcasts, cancelled waiters) must not spoil
// what later generations are promised.
func phases(c *vkit.Case) {
	mu := &sync.Mutex{}
	l := &cntLocker{inner: mu}
	g := &rig{c: c, group: "phases", cond: xsync.NewContextCond(l), l: l, excl: mu}
	n := c.Rand.Range(3, 8)
	for i := 0; i < n; i++ {
		sk := stepKinds[c.Rand.Intn(len(stepKinds))]
		if i == n-1 {
			sk = stepKinds[c.Rand.Intn(3)] // the last phase is a pure Signal promise
		}
		if sk.maxK == 0 {
			g.history = append(g.history, sk.name)
			for _, a := range sk.actions {
				if a == 'S' {
					g.cond.Signal()
				} else {
					g.cond.Broadcast()
				}
			}
			continue
		}
		k := c.Rand.Range(1, sk.maxK)
		park := sk.park == 1 || (sk.park == 2 && c.Rand.Bool(0.6))
		if !g.step(sk.name, k, park, sk.actions) {
			return
		}
	}
	c.R.Count("phases", "histories", 1)
}

// shared: the Locker is a shared one (rw.RLocker(), or a no-op Locker): several goroutines can be
// in Wait's entry section at the same time. The promises are the same: once k waiters have
// released the lock, a Broadcast wakes all and lone Signals wake one each.
func shared(c *vkit.Case) {
	var l *cntLocker
	kind := "RWMutex.RLocker()"
	if c.Rand.Bool(0.7) {
		l = &cntLocker{inner: (&sync.RWMutex{}).RLocker()}
	} else {
		kind = "no-op Locker"
		l = &cntLocker{inner: nopLocker{}}
	}
	g := &rig{c: c, group: "shared", cond: xsync.NewContextCond(l), l: l}
	g.history = append(g.history, "Locker="+kind)
	n := c.Rand.Range(2, 5)
	for i := 0; i < n; i++ {
		if c.Rand.Bool(0.5) {
			g.history = append(g.history, "stray-broadcast")
			g.cond.Broadcast()
		}
		k := c.Rand.Range(2, 8)
		var ok bool
		switch c.Rand.Intn(3) {
		case 0:
			ok = g.step("broadcast", k, c.Rand.Bool(0.5), "B")
		case 1:
			ok = g.step("signals-one-by-one", k, true, strings.Repeat("s", c.Rand.Range(1, k)))
		default:
			ok = g.step("signals-then-broadcast", k, true, strings.Repeat("s", c.Rand.Range(1, k))+"B")
		}
		if !ok {
			return
		}
	}
	c.R.Count("shared", "histories", 1)
}
