// C03 — the tree stays balanced and half-full; no retained garbage; O(log n) comparisons.
//
// Oracle: invariant monitor at the build-tagged hook VerifWalk(): after every single operation the
// raw nodes are copied out and judged by tk.Judge (occupancy, leaf depth, links, order, single
// reachability, key count, depth bound, zeroed vacated slots, no token the ideal map does not
// hold), and Get/Contains are run with a counting comparator against 15 comparisons per level.
// Keys and values are pointer tokens with unique ids.
package main

import (
	"fmt"
	"runtime"
	"sync/atomic"
	"time"

	"github.com/bradenaw/juniper/container/tree"

	"verif/tk"
	"verif/vkit"
)

type Tok = tk.Tok

func cmpTok(a, b *Tok) int {
	switch {
	case a.ID < b.ID:
		return -1
	case a.ID > b.ID:
		return 1
	}
	return 0
}

// cmpProbe is what the counting comparators report to.
type cmpProbe struct {
	n    int64
	rec  bool
	seen []*Tok // every argument of every comparator call while rec is set
}

func (p *cmpProbe) note(a, b *Tok) {
	p.n++
	if p.rec {
		p.seen = append(p.seen, a, b)
	}
}

type cfgT[V any] struct {
	name    string
	newSUT  func(ctr *cmpProbe) tk.SUT[*Tok, V]
	valOf   func(id int) V
	valEq   func(a, b V) bool
	isZeroV func(V) bool
	perCmp  int // counted calls per key comparison (upper bound)
}

func mapCmpCfg() cfgT[*Tok] {
	return cfgT[*Tok]{
		name: "Map[*Tok,*Tok]/NewMapCmp((a-b)*7)",
		newSUT: func(ctr *cmpProbe) tk.SUT[*Tok, *Tok] {
			// arbitrary magnitudes, not just -1/0/+1: any three-way compare function is allowed
			return tk.NewMapSUT(tree.NewMapCmp[*Tok, *Tok](func(a, b *Tok) int { ctr.note(a, b); return (a.ID - b.ID) * 7 }))
		},
		valOf:   func(id int) *Tok { return &Tok{ID: id} },
		valEq:   func(a, b *Tok) bool { return a == b },
		isZeroV: func(v *Tok) bool { return v == nil },
		perCmp:  1,
	}
}

func mapLessCfg() cfgT[*Tok] {
	return cfgT[*Tok]{
		name: "Map[*Tok,*Tok]/NewMap(less)",
		newSUT: func(ctr *cmpProbe) tk.SUT[*Tok, *Tok] {
			return tk.NewMapSUT(tree.NewMap[*Tok, *Tok](func(a, b *Tok) bool { ctr.note(a, b); return a.ID < b.ID }))
		},
		valOf:   func(id int) *Tok { return &Tok{ID: id} },
		valEq:   func(a, b *Tok) bool { return a == b },
		isZeroV: func(v *Tok) bool { return v == nil },
		perCmp:  2,
	}
}

func setCfg() cfgT[struct{}] {
	return cfgT[struct{}]{
		name: "Set[*Tok]/NewSet(less)",
		newSUT: func(ctr *cmpProbe) tk.SUT[*Tok, struct{}] {
			return tk.NewSetSUT(tree.NewSet[*Tok](func(a, b *Tok) bool { ctr.note(a, b); return a.ID < b.ID }))
		},
		valOf:   func(int) struct{} { return struct{}{} },
		valEq:   func(a, b struct{}) bool { return true },
		isZeroV: func(struct{}) bool { return true },
		perCmp:  2,
	}
}

func main() {
	vkit.Main("C03", "exploration", func(r *vkit.Report) {
		r.SetRule("case = one fill/drain history; after EVERY operation the raw node walk is judged (one evaluation per judged walk, " +
			"plus one per Get/Contains comparator-count check). Each operation is classified by diffing the walks before and after it " +
			"(split xk, root-split, merge xk, root-collapse, steal-left/right at leaf or internal level, replace-separator). " +
			"distinct non-trivial = distinct (event class, depth of the affected node, its position among its siblings first/middle/last/root) tuples " +
			"with a structural event, counted over the whole run.")
		r.Assume("VerifWalk (container/tree/verif_export.go) copies node fields faithfully; the monitor judges them with its own copy of the bounds (7..15 keys, fan-out 16)")
		r.Assume("'can be garbage collected' is decided as: no slot of any reachable node references a key/value token the ideal map does not hold, and every vacated slot is zero")
		if vkit.Try(func() {
			if tree.VerifBranchFactor != tk.SpecFanout || tree.VerifMaxKVs != tk.SpecMaxKeys {
				r.Violation("fanout", fmt.Sprintf("shipped fan-out is %d (max %d keys per node), the property is stated for 16/15", tree.VerifBranchFactor, tree.VerifMaxKVs), "", nil)
			}
		}) != nil {
			r.Inconclusive("could not read the fan-out constants")
		}
		n := r.Scale(120, 1300)
		r.Cases("hist", n, runtime.GOMAXPROCS(0), func(c *vkit.Case) {
			switch c.Index % 3 {
			case 0:
				run(c, mapCmpCfg())
			case 1:
				run(c, mapLessCfg())
			default:
				run(c, setCfg())
			}
		})
		// A position memo or cursor stamped with a counter narrower than the tree's goes stale only
		// after exactly 2^k generations: make the same leaf rebalance twice, exactly 2^8 / 2^16
		// generations apart, with its position among its siblings shifted in between.
		r.Cases("wrap", r.Scale(16, 160), runtime.GOMAXPROCS(0), func(c *vkit.Case) { wrapCase(c) })
		r.Floor("second rebalancing of the same leaf exactly 2^k generations after the first", r.Table("wrap", "second rebalancing reached"), 8)
		// Trees of 7+ levels (per-level code that is only wrong beyond some depth).
		r.Cases("deep", r.Scale(2, 5), 3, func(c *vkit.Case) { deepTrees(c) })
		r.Floor("trees of at least 7 levels judged", r.Table("deep", "trees judged with 7 levels"), 1)
		// Real collectability (the statement's own words): finalizers on key and value tokens.
		r.Cases("gc", r.Scale(6, 40), 1, func(c *vkit.Case) { gcCase(c) })
		r.Floor("collectability probes", r.Table("gc", "probes"), 4)
		for _, cls := range []string{"split", "root-split", "merge", "root-collapse", "steal-left", "steal-right",
			"cascade: merge of >= 2 nodes in one delete", "cascade: split of >= 2 nodes in one insert",
			"steal-left@internal", "steal-right@internal", "replace-separator", "merge with left sibling", "merge with right sibling"} {
			r.Floor("structural event "+cls, r.Table("events", cls), 3)
		}
	})
}

type drv[V any] struct {
	c       *vkit.Case
	r       *vkit.Report
	rnd     *vkit.Rand
	cfg     cfgT[V]
	sut     tk.SUT[*Tok, V]
	model   *tk.Model[*Tok, V]
	ctr     cmpProbe
	valID   int
	ops     []string
	nops    int
	failed  bool
	prev    *tk.WalkView[*Tok, V]
	kn      map[int]any
	probed  map[any]bool
	inProbe bool
	knFor   *tk.WalkView[*Tok, V]
	keys    []int // positions present (for choosing)
	kidx    map[int]int
	univ    int
}

func (d *drv[V]) fail(sig, what string) {
	if d.failed {
		return
	}
	d.failed = true
	tail := d.ops
	if len(tail) > 60 {
		tail = tail[len(tail)-60:]
	}
	d.c.Violation(sig, what, map[string]any{"config": d.cfg.name, "ops_so_far": d.nops, "last_ops": tail, "keys_now": d.model.Len()})
}

func (d *drv[V]) log(op string, j int) {
	d.nops++
	d.ops = append(d.ops, fmt.Sprintf("%s(%d)", op, j))
	if len(d.ops) > 4000 {
		d.ops = d.ops[2000:]
	}
	d.r.Count("ops", op, 1)
}

func (d *drv[V]) judge(op string, j int) {
	w := tk.NewWalkView(d.sut.Walk())
	jd := tk.Judge[*Tok, V]{
		Cmp:     cmpTok,
		IsZeroK: func(k *Tok) bool { return k == nil },
		IsZeroV: d.cfg.isZeroV,
		Lookup:  func(k *Tok) (V, bool) { return d.model.Get(k) },
		ValEq:   d.cfg.valEq,
		WantLen: d.model.Len(),
	}
	d.r.Eval(1)
	d.r.Count("walk", "nodes judged", len(w.T.Nodes))
	problems := jd.Check(w)
	if len(problems) > 0 {
		d.fail(problems[0][0], fmt.Sprintf("%s: after %s(%d) with %d keys: %s", d.cfg.name, op, j, d.model.Len(), problems[0][1]))
		return
	}
	if got := d.sut.Len(); got != d.model.Len() {
		d.fail("len", fmt.Sprintf("%s: Len() = %d after %s(%d), ideal map has %d", d.cfg.name, got, op, j, d.model.Len()))
		return
	}
	d.r.Max("tree", "levels", w.Depth)
	d.r.Max("tree", "keys", d.model.Len())
	removedNodes := false
	if d.prev != nil && len(w.Index) < len(d.prev.Index) {
		removedNodes = true
	}
	if removedNodes || d.nops%16 == 0 {
		if d.deepScan(op, j) {
			return
		}
	}
	if d.prev != nil {
		ev := tk.Classify(d.prev, w)
		if ev.Class != "none" {
			d.r.Count("events", ev.Class, 1)
			d.r.Distinct(fmt.Sprintf("%s|d%d|%s", ev.Class, ev.Depth, ev.Position))
			d.r.Count("events by depth", fmt.Sprintf("%s @depth %d", ev.Class, ev.Depth), 1)
			// aggregate classes for the floors
			if ev.Removed >= 2 && op == "Delete" {
				k := ev.Removed
				if d.prev.T.Root != w.T.Root {
					k--
				}
				if k >= 2 {
					d.r.Count("events", "cascade: merge of >= 2 nodes in one delete", 1)
				}
			}
			if ev.Added >= 2 && op == "Put" {
				k := ev.Added
				if d.prev.T.Root != w.T.Root {
					k--
				}
				if k >= 2 {
					d.r.Count("events", "cascade: split of >= 2 nodes in one insert", 1)
				}
			}
			for _, base := range []string{"split", "root-split", "merge", "root-collapse", "steal-left", "steal-right", "steal-left@internal", "steal-right@internal", "replace-separator"} {
				if ev.Class != base && containsPart(ev.Class, base) {
					d.r.Count("events", base, 1)
				}
			}
			if ev.Removed > 0 && op == "Delete" {
				// direction of the leaf-level merge: did the under-full leaf survive (merged with its
				// right sibling) or vanish (merged into its left sibling)? The leaf that held the key
				// (or its predecessor) is found in the previous walk.
				if leaf := leafOf(d.prev, cmpTok, j); leaf != nil {
					if _, still := w.Index[leaf]; still {
						d.r.Count("events", "merge with right sibling", 1)
					} else {
						d.r.Count("events", "merge with left sibling", 1)
					}
				}
			}
		} else {
			d.r.Count("events", "none", 1)
		}
	}
	d.prev = w
	// A node that has just become full is where a search costs the most: look up a key in each of
	// its children's ranges right now (random lookups almost never find a full internal node).
	if !d.inProbe {
		for _, nd := range w.T.Nodes {
			if nd.Revisited || nd.Leaf || nd.N != tk.SpecMaxKeys || d.probed[nd.Ptr] {
				continue
			}
			if d.probed == nil {
				d.probed = make(map[any]bool)
			}
			d.probed[nd.Ptr] = true
			d.inProbe = true
			d.r.Count("comparator", "full internal nodes probed", 1)
			for c := 0; c <= nd.N && !d.failed; c++ {
				ci, ok := w.Index[nd.Children[c]]
				if !ok {
					continue
				}
				child := w.T.Nodes[ci]
				if child.N > 0 && child.Keys[0] != nil {
					d.lookup(child.Keys[0].ID)
				}
				if child.N > 1 && child.Keys[child.N-1] != nil {
					d.lookup(child.Keys[child.N-1].ID)
				}
			}
			for sidx := 0; sidx < nd.N && !d.failed; sidx++ {
				d.lookup(nd.Keys[sidx].ID)
			}
			d.inProbe = false
		}
	}
}

// deepScan decides "no longer referenced from the live structure" without knowing the structure:
// every token reachable from the Map/Set value through any field must be one the ideal map holds.
func (d *drv[V]) deepScan(op string, j int) bool {
	live := make(map[*Tok]struct{}, 2*d.model.Len())
	for _, e := range d.model.E {
		live[e.K] = struct{}{}
		if vt, ok := any(e.V).(*Tok); ok && vt != nil {
			live[vt] = struct{}{}
		}
	}
	var stale *Tok
	nstale := 0
	found := 0
	objs := tk.DeepToks(d.sut.Raw(), func(t *Tok) {
		found++
		if _, ok := live[t]; !ok {
			nstale++
			if stale == nil {
				stale = t
			}
		}
	})
	d.r.Eval(1)
	d.r.Count("reachability scan", "scans", 1)
	d.r.Count("reachability scan", "objects visited", objs)
	d.r.Count("reachability scan", "tokens found", found)
	if nstale > 0 {
		d.fail("retained-unreachable-from-root", fmt.Sprintf("%s: after %s(%d) with %d keys: %d key/value token(s) that the ideal map no longer holds (e.g. %v) are still referenced from the collection value, outside the nodes reachable from the root or in a slot the walk does not know",
			d.cfg.name, op, j, d.model.Len(), nstale, stale))
		return true
	}
	if want := len(live); found < want {
		d.fail("deep-scan-short", fmt.Sprintf("%s: the reachability scan found %d tokens, the ideal map holds %d", d.cfg.name, found, want))
		return true
	}
	return false
}

func containsPart(class, part string) bool {
	// parts are joined by "+", and may carry " xN"
	start := 0
	for i := 0; i <= len(class); i++ {
		if i == len(class) || class[i] == '+' {
			p := class[start:i]
			if p == part || (len(p) > len(part) && p[:len(part)] == part && p[len(part)] == ' ') {
				return true
			}
			start = i + 1
		}
	}
	return false
}

// leafOf returns the identity of the leaf from which a Delete of position j physically removes a
// key in the given walk: the leaf holding it, or the rightmost leaf of the left subtree when the
// key sits in an internal node.
func leafOf[V any](w *tk.WalkView[*Tok, V], cmp func(a, b *Tok) int, j int) any {
	key := &Tok{ID: j}
	p := w.T.Root
	for steps := 0; steps < 64; steps++ {
		i, ok := w.Index[p]
		if !ok {
			return nil
		}
		n := w.T.Nodes[i]
		s := 0
		found := false
		for s < n.N {
			c := cmp(key, n.Keys[s])
			if c == 0 {
				found = true
				break
			}
			if c < 0 {
				break
			}
			s++
		}
		if n.Leaf {
			if found {
				return p
			}
			return nil
		}
		if found {
			// rightmost leaf of child s
			q := n.Children[s]
			for steps2 := 0; steps2 < 64; steps2++ {
				qi, ok := w.Index[q]
				if !ok {
					return nil
				}
				qn := w.T.Nodes[qi]
				if qn.Leaf {
					return q
				}
				q = qn.Children[qn.N]
			}
			return nil
		}
		p = n.Children[s]
	}
	return nil
}

func (d *drv[V]) put(j int) {
	if d.failed {
		return
	}
	k := &Tok{ID: j}
	d.valID++
	v := d.cfg.valOf(d.valID)
	d.log("Put", j)
	if p := vkit.Try(func() { d.sut.Put(k, v) }); p != nil {
		d.fail("panic", fmt.Sprintf("%s: Put(%d) panicked: %s", d.cfg.name, j, p.Msg))
		return
	}
	if d.model.Put(k, v) {
		d.kidx[j] = len(d.keys)
		d.keys = append(d.keys, j)
	}
	d.judge("Put", j)
}

func (d *drv[V]) del(j int) {
	if d.failed {
		return
	}
	k := &Tok{ID: j}
	d.log("Delete", j)
	if p := vkit.Try(func() { d.sut.Delete(k) }); p != nil {
		d.fail("panic", fmt.Sprintf("%s: Delete(%d) panicked: %s", d.cfg.name, j, p.Msg))
		return
	}
	if d.model.Delete(k) {
		i := d.kidx[j]
		last := len(d.keys) - 1
		d.keys[i] = d.keys[last]
		d.kidx[d.keys[i]] = i
		d.keys = d.keys[:last]
		delete(d.kidx, j)
	}
	d.judge("Delete", j)
}

// lookup runs Get and Contains with the counting comparator and checks the comparison budget.
func (d *drv[V]) lookup(j int) {
	if d.failed || d.prev == nil {
		return
	}
	k := &Tok{ID: j}
	levels := d.prev.Depth
	budget := int64(d.cfg.perCmp * tk.SpecMaxKeys * levels)
	d.log("Lookup", j)
	want, present := d.model.Get(k)
	before := d.ctr.n
	d.ctr.rec, d.ctr.seen = true, d.ctr.seen[:0]
	got := d.sut.Contains(k)
	d.ctr.rec = false
	used := d.ctr.n - before
	// Attribute every comparison to the node that stores the key it was made against: the
	// statement bounds the comparisons PER LEVEL (15 keys per node), not only in total.
	perNode := make(map[any]int)
	keyNode := d.keyNodes()
	for _, t := range d.ctr.seen {
		if t != k {
			if nd, ok := keyNode[t.ID]; ok {
				perNode[nd]++
			}
		}
	}
	for nd, cnt := range perNode {
		d.r.Max("comparator", fmt.Sprintf("max counted calls against one node's keys (x%d per comparison)", d.cfg.perCmp), cnt)
		if cnt > d.cfg.perCmp*tk.SpecMaxKeys {
			idx := d.prev.Index[nd]
			d.fail("comparisons-per-level", fmt.Sprintf("%s: Contains(%d) made %d comparator calls against the keys of one node (depth %d, n=%d); at most %d key comparisons per level are allowed (%d counted calls)",
				d.cfg.name, j, cnt, d.prev.T.Nodes[idx].Depth, d.prev.T.Nodes[idx].N, tk.SpecMaxKeys, d.cfg.perCmp*tk.SpecMaxKeys))
			return
		}
	}
	d.r.Eval(2)
	d.r.Max("comparator", fmt.Sprintf("max counted calls per level (x%d per comparison)", d.cfg.perCmp), int((used+int64(levels)-1)/int64(levels)))
	if got != present {
		d.fail("contains", fmt.Sprintf("%s: Contains(%d) = %v, ideal map says %v", d.cfg.name, j, got, present))
		return
	}
	if used > budget {
		d.fail("comparisons", fmt.Sprintf("%s: Contains(%d) on a tree of %d levels called the comparator %d times, bound %d", d.cfg.name, j, levels, used, budget))
		return
	}
	if !d.sut.IsSet() {
		before = d.ctr.n
		v := d.sut.Get(k)
		used = d.ctr.n - before
		if !d.cfg.valEq(v, want) {
			d.fail("get", fmt.Sprintf("%s: Get(%d) = %v, ideal map has %v", d.cfg.name, j, v, want))
			return
		}
		if used > budget {
			d.fail("comparisons", fmt.Sprintf("%s: Get(%d) on a tree of %d levels called the comparator %d times, bound %d", d.cfg.name, j, levels, used, budget))
		}
	}
}

// keyNodes maps key id -> identity of the node holding it in the latest walk (cached per walk).
func (d *drv[V]) keyNodes() map[int]any {
	if d.kn != nil && d.knFor == d.prev {
		return d.kn
	}
	m := make(map[int]any, d.model.Len())
	for _, nd := range d.prev.T.Nodes {
		if nd.Revisited {
			continue
		}
		for s := 0; s < nd.N && s < tk.SpecMaxKeys; s++ {
			if nd.Keys[s] != nil {
				m[nd.Keys[s].ID] = nd.Ptr
			}
		}
	}
	d.kn, d.knFor = m, d.prev
	return m
}

func (d *drv[V]) lookups(n int) {
	for i := 0; i < n && !d.failed; i++ {
		switch {
		case len(d.keys) > 0 && d.rnd.Bool(0.6):
			d.lookup(vkit.Pick(d.rnd, d.keys))
		default:
			d.lookup(d.rnd.Range(-3, d.univ+3))
		}
	}
}

func fillOrder(rnd *vkit.Rand, kind, n int) []int {
	var order []int
	switch kind {
	case 0: // ascending
		for i := 0; i < n; i++ {
			order = append(order, i)
		}
	case 1: // descending
		for i := n - 1; i >= 0; i-- {
			order = append(order, i)
		}
	case 2: // sawtooth
		for lo, hi := 0, n-1; lo <= hi; lo, hi = lo+1, hi-1 {
			order = append(order, lo)
			if hi != lo {
				order = append(order, hi)
			}
		}
	case 3: // middle-out
		for a, b := n/2, n/2+1; a >= 0 || b < n; a, b = a-1, b+1 {
			if a >= 0 {
				order = append(order, a)
			}
			if b < n {
				order = append(order, b)
			}
		}
	default:
		order = rnd.Perm(n)
	}
	return order
}

var sizes = []int{15, 16, 17, 30, 31, 32, 127, 128, 129, 255, 256, 257, 500, 1023, 1024, 1100, 2047, 2048, 2100, 3000}

func run[V any](c *vkit.Case, cfg cfgT[V]) {
	r := c.R
	d := &drv[V]{c: c, r: r, rnd: c.Rand, cfg: cfg, model: tk.NewModel[*Tok, V](cmpTok), kidx: make(map[int]int)}
	d.sut = cfg.newSUT(&d.ctr)
	d.judge("New", 0)
	// Size: mostly small (walks are O(n)), some up to the three/four-level boundaries.
	var n int
	switch x := d.rnd.Intn(20); {
	case x < 9:
		n = sizes[d.rnd.Intn(9)]
	case x < 16:
		n = sizes[9+d.rnd.Intn(5)]
	case x < 19:
		n = sizes[14+d.rnd.Intn(4)]
	default:
		n = sizes[18+d.rnd.Intn(2)]
	}
	if r.Thorough() && d.rnd.Bool(0.05) {
		n = []int{4095, 4096, 8191, 9000}[d.rnd.Intn(4)]
	}
	n += d.rnd.Range(-1, 1) * d.rnd.Intn(2)
	d.univ = n
	fillKind := d.rnd.Intn(5)
	r.Count("fills", [...]string{"ascending", "descending", "sawtooth", "middle-out", "random"}[fillKind], 1)
	every := 1 + n/10
	for i, j := range fillOrder(d.rnd, fillKind, n) {
		d.put(j)
		if i%every == 0 {
			d.lookups(2)
		}
		if d.failed {
			return
		}
	}
	d.lookups(5)
	// overwrite a few (must not change the structure)
	for i := 0; i < 3 && len(d.keys) > 0; i++ {
		d.put(vkit.Pick(d.rnd, d.keys))
	}
	// Drain orders. "separators" deletes keys that sit in internal nodes first, repeatedly.
	drainKind := d.rnd.Intn(7)
	r.Count("drains", [...]string{"ascending", "descending", "sawtooth", "middle-out", "random", "separators-first", "every-other-then-rest"}[drainKind], 1)
	var drain []int
	switch drainKind {
	case 0, 1, 2, 3, 4:
		drain = fillOrder(d.rnd, drainKind, n)
	case 5:
		// delete current separators until none are left, then the rest at random
		for round := 0; round < 6 && !d.failed; round++ {
			var seps []int
			for _, nd := range d.prev.T.Nodes {
				if nd.Leaf || nd.Revisited {
					continue
				}
				for s := 0; s < nd.N && s < tk.SpecMaxKeys; s++ {
					if nd.Keys[s] != nil {
						seps = append(seps, nd.Keys[s].ID)
					}
				}
			}
			if len(seps) == 0 {
				break
			}
			for _, j := range seps {
				d.del(j)
				if d.rnd.Bool(0.1) {
					d.lookups(1)
				}
			}
		}
		drain = d.rnd.Perm(n)
	default:
		for i := 0; i < n; i += 2 {
			drain = append(drain, i)
		}
		for i := 1; i < n; i += 2 {
			drain = append(drain, i)
		}
	}
	reinsert := d.rnd.Bool(0.3)
	for i, j := range drain {
		d.del(j)
		if i%every == 0 {
			d.lookups(2)
		}
		if reinsert && d.rnd.Bool(0.05) {
			d.put(d.rnd.Intn(n))
		}
		if d.failed {
			return
		}
	}
	// drain what re-inserts left, so the root shrinks back to an empty leaf
	for len(d.keys) > 0 && !d.failed {
		d.del(d.keys[len(d.keys)-1])
	}
	// churn at the minimum-occupancy boundary: refill a little and mix
	m := d.rnd.Range(0, 120)
	for i := 0; i < m && !d.failed; i++ {
		if d.rnd.Bool(0.55) || len(d.keys) == 0 {
			d.put(d.rnd.Intn(64))
		} else {
			d.del(vkit.Pick(d.rnd, d.keys))
		}
	}
	r.Count("histories", cfg.name, 1)
	if r.WantSample() {
		first := d.ops
		if len(first) > 30 {
			first = first[:30]
		}
		r.Sample(map[string]any{"config": cfg.name, "fill": fillKind, "drain": drainKind, "keys": n, "operations": d.nops, "ops_window": first})
	}
}

// wrapCase: see the comment at the group. Generations are read through the hook (VerifGen).
func wrapCase(c *vkit.Case) {
	r := c.R
	cfg := mapCmpCfg()
	if c.Index%2 == 1 {
		cfg = mapLessCfg()
	}
	d := &drv[*Tok]{c: c, r: r, rnd: c.Rand, cfg: cfg, model: tk.NewModel[*Tok, *Tok](cmpTok), kidx: make(map[int]int)}
	d.sut = cfg.newSUT(&d.ctr)
	W := []int{256, 65536}[c.Index/2%2]
	nkeys := 61 + 16*d.rnd.Intn(4)
	d.univ = nkeys * 10
	for i := 1; i <= nkeys; i++ {
		d.put(i * 10)
	}
	if d.failed {
		return
	}
	// leaves in key order
	leafKeys := func() [][]int {
		var out [][]int
		for _, nd := range d.prev.T.Nodes {
			if nd.Leaf && !nd.Revisited {
				var ks []int
				for s := 0; s < nd.N; s++ {
					ks = append(ks, nd.Keys[s].ID)
				}
				out = append(out, ks)
			}
		}
		return out
	}
	leaves := leafKeys()
	if len(leaves) < 5 {
		return
	}
	li := 2 + d.rnd.Intn(len(leaves)-3)
	target := leaves[li]
	// 1. make the target leaf rebalance (steal) once
	firstAt := -1
	used := 0
	for _, k := range target {
		nodesBefore := len(d.prev.Index)
		d.del(k)
		used++
		if d.failed {
			return
		}
		if len(d.prev.Index) != nodesBefore {
			return // it merged instead of stealing: not the scenario
		}
		if used >= 2 {
			firstAt = d.sut.Gen()
			break
		}
	}
	if firstAt < 0 {
		return
	}
	// 2. shift the position of every later leaf: split (or, alternately, merge away) an earlier leaf
	first := leaves[0]
	if c.Index/4%2 == 0 {
		for k := first[0] + 1; k < first[0]+9 && !d.failed; k++ {
			d.put(k)
		}
	} else {
		for _, k := range append(append([]int{}, leaves[0]...), leaves[1][:2]...) {
			if d.failed {
				return
			}
			d.del(k)
		}
	}
	if d.failed {
		return
	}
	// 3. neutral churn in the last leaf until exactly W-1 generations have passed since step 1
	pad := d.univ + 5
	padTok := &Tok{ID: pad}
	present := false
	for d.sut.Gen() < firstAt+W-1 {
		if present {
			d.sut.Delete(&Tok{ID: pad})
			d.model.Delete(padTok)
		} else {
			v := d.cfg.valOf(1 << 30)
			d.sut.Put(padTok, v)
			d.model.Put(padTok, v)
		}
		present = !present
	}
	if d.sut.Gen() != firstAt+W-1 {
		return // overshot (the shift used more generations than W): not the scenario
	}
	d.prev = nil
	d.judge("pad", pad)
	if d.failed {
		return
	}
	// 4. make the same leaf rebalance again: this is generation firstAt+W
	rest := target[used:]
	if len(rest) == 0 {
		return
	}
	d.del(rest[0])
	r.Count("wrap", "second rebalancing reached", 1)
	r.Count("wrap", fmt.Sprintf("W=%d", W), 1)
	for _, k := range rest[1:] {
		if d.failed {
			return
		}
		d.del(k)
	}
	d.lookups(20)
}

type gcTok struct {
	ID   int
	self *gcTok // a pointer field keeps the object out of the tiny allocator (finalizers are unreliable there)
}

// gcCase: keys and values carry finalizers; after entries are deleted (in orders that merge nodes
// away) the garbage collector must be able to reclaim their tokens. The harness keeps no reference
// to stored tokens. Finalizers run asynchronously, so the probe repeats GC cycles and only a
// shortfall that persists after many cycles, far above the handful of objects a dead stack slot can
// pin, is a verdict.
func gcCase(c *vkit.Case) {
	r := c.R
	rnd := c.Rand
	n := []int{600, 2000, 4000}[c.Index%3]
	var keysFin, valsFin atomic.Int64
	m := tree.NewMapCmp[*gcTok, *gcTok](func(a, b *gcTok) int { return a.ID - b.ID })
	order := rnd.Perm(n)
	if c.Index%2 == 0 {
		for i := range order {
			order[i] = i
		}
	}
	func() {
		for _, i := range order {
			k := &gcTok{ID: i}
			v := &gcTok{ID: -i - 1}
			runtime.SetFinalizer(k, func(*gcTok) { keysFin.Add(1) })
			runtime.SetFinalizer(v, func(*gcTok) { valsFin.Add(1) })
			m.Put(k, v)
		}
	}()
	// delete most entries: contiguous ranges (merges, cascades), every other key, random
	deleted := 0
	del := func(i int) {
		probe := gcTok{ID: i}
		if m.Contains(&probe) {
			m.Delete(&probe)
			deleted++
		}
	}
	switch c.Index / 2 % 3 {
	case 0:
		for i := n / 20; i < n-n/20; i++ {
			del(i)
		}
	case 1:
		for i := 0; i < n; i += 2 {
			del(i)
		}
		for i := 1; i < n-40; i += 2 {
			del(i)
		}
	default:
		for _, i := range rnd.Perm(n)[:n-n/10] {
			del(i)
		}
	}
	want := int64(deleted)
	const slack = 24
	rounds := 0
	for rounds = 0; rounds < 40; rounds++ {
		runtime.GC()
		time.Sleep(2 * time.Millisecond)
		if keysFin.Load() >= want-slack && valsFin.Load() >= want-slack {
			break
		}
	}
	r.Eval(1)
	r.Count("gc", "probes", 1)
	r.Count("gc", "entries deleted", deleted)
	r.Max("gc", "GC cycles needed", rounds+1)
	kf, vf := keysFin.Load(), valsFin.Load()
	if m.Len() != n-deleted {
		c.Violation("len", fmt.Sprintf("gc probe: Len() = %d, want %d", m.Len(), n-deleted), nil)
		return
	}
	if kf < want-slack || vf < want-slack {
		c.Violation("not-collectable", fmt.Sprintf("gc probe: %d entries were deleted from a map of %d; after %d garbage collections only %d of their key tokens and %d of their value tokens had been reclaimed (the harness holds no reference to them; up to %d may be pinned by dead stack slots)",
			deleted, n, rounds, kf, vf, slack), map[string]any{"n": n, "pattern": c.Index / 2 % 3})
		return
	}
	runtime.KeepAlive(m)
}
