package main

import (
	"fmt"

	"github.com/bradenaw/juniper/container/tree"

	"verif/tk"
	"verif/vkit"
)

// deepTrees: trees of 7 and more levels (a strictly descending or ascending fill leaves every
// node half full, so 2*8^6-1 = 524287 keys already give 7 levels; random fills of the same size
// give 5-6). The walk is judged after the fill, after a partial drain and after a refill, not
// after every operation (a walk of 10^5 nodes per operation is unaffordable); every key is looked
// up each time, which is what "reachable on exactly one search path" means operationally.
func deepTrees(c *vkit.Case) {
	r := c.R
	kinds := []string{"descending", "random", "ascending", "descending", "zigzag"}
	kind := kinds[c.Index%len(kinds)]
	n := 600000
	if r.Thorough() && c.Index%len(kinds) == 3 {
		n = 4200000 // 2*8^7-1 = 4194303: 8 levels
	}
	if kind == "random" || kind == "zigzag" || kind == "ascending" {
		n = 300000
	}
	m := tree.NewMapCmp[int, int](func(a, b int) int { return a - b })
	sut := tk.NewMapSUT(m)
	val := func(k int) int { return k*3 + 1 }
	u := 4 * n // key universe: the fills use every fourth key, interior insertions the rest
	present := make([]bool, u)
	count := 0
	put := func(k int) {
		m.Put(k+1, val(k)) // keys 1..n: the zero key is never a live key
		if !present[k] {
			present[k] = true
			count++
		}
	}
	del := func(k int) {
		m.Delete(k + 1)
		if present[k] {
			present[k] = false
			count--
		}
	}
	check := func(phase string) bool {
		w := tk.NewWalkView(sut.Walk())
		jd := tk.Judge[int, int]{
			Cmp:     func(a, b int) int { return a - b },
			IsZeroK: func(k int) bool { return k == 0 },
			IsZeroV: func(v int) bool { return v == 0 },
			Lookup: func(key int) (int, bool) {
				k := key - 1
				if k < 0 || k >= u || !present[k] {
					return 0, false
				}
				return val(k), true
			},
			ValEq:   func(a, b int) bool { return a == b },
			WantLen: count,
		}
		r.Eval(1)
		r.Max("tree", "levels (deep group)", w.Depth)
		if ps := jd.Check(w); len(ps) > 0 {
			c.Violation(ps[0][0], fmt.Sprintf("deep tree (%s fill of %d keys), %s, %d keys held: %s", kind, n, phase, count, ps[0][1]), nil)
			return false
		}
		if got := m.Len(); got != count {
			c.Violation("len", fmt.Sprintf("deep tree (%s fill of %d keys), %s: Len() = %d, ideal map holds %d", kind, n, phase, got, count), nil)
			return false
		}
		for k := 0; k < u; k++ {
			v := m.Get(k + 1)
			has := m.Contains(k + 1)
			if has != present[k] || (present[k] && v != val(k)) {
				c.Violation("lookup", fmt.Sprintf("deep tree (%s fill of %d keys, %d levels), %s: Contains(%d) = %v, Get = %d; the ideal map: present=%v value=%d", kind, n, w.Depth, phase, k+1, has, v, present[k], val(k)), nil)
				return false
			}
		}
		r.Count("deep", fmt.Sprintf("trees judged with %d levels", w.Depth), 1)
		return true
	}
	p := vkit.Try(func() {
		switch kind {
		case "descending":
			for k := n - 1; k >= 0; k-- {
				put(4 * k)
			}
		case "ascending":
			for k := 0; k < n; k++ {
				put(4 * k)
			}
		case "zigzag":
			for i := 0; i < n/2; i++ {
				put(4 * i)
				put(4 * (n - 1 - i))
			}
		default:
			for i := 0; i < n; i++ {
				put(4 * c.Rand.Intn(n))
			}
		}
		if !check("after the fill") {
			return
		}
		// insertions in the INTERIOR of the deep tree: runs of neighbouring new keys, so that
		// leaves all over the tree fill up and split (splits away from the edge, cascading upwards)
		base := 0
		for i := 0; i < n/3; i++ {
			if i%20 == 0 {
				base = 4 * c.Rand.Intn(n-20)
			}
			k := base + i%20
			put(k)
			if !m.Contains(k + 1) {
				c.Violation("lookup", fmt.Sprintf("deep tree (%s fill of %d keys): key %d is not found right after Put (interior insertion no. %d)", kind, n, k+1, i), nil)
				return
			}
		}
		if !check("after interior insertions") {
			return
		}
		// drain three quarters in stripes (merges cascade through all levels), then refill
		for k := 0; k < u; k++ {
			if k%16 >= 4 {
				del(k)
			}
		}
		if !check("after deleting twelve keys out of sixteen") {
			return
		}
		for k := u - 1; k >= 0; k -= 8 {
			put(k)
		}
		check("after the refill")
	})
	if p != nil {
		c.Violation("panic", fmt.Sprintf("deep tree (%s fill of %d keys): panicked: %v", kind, n, p.Value), map[string]any{"stack": p.Stack})
	}
}
