package main

import (
	"context"
	"fmt"
	"runtime"
	"sync"
	"sync/atomic"
	"time"

	"github.com/bradenaw/juniper/xsync"

	"verif/vkit"
)

// Three-party phase sweeps for Future and Lazy, in the style of wsweep.go: three persistent
// goroutines released once per round through an atomic round counter, each entering its one call
// after its own swept spin, a fresh object per round, the round judged as soon as the three calls
// have returned. The fast path takes no lock. Only when a round has not completed after about a
// millisecond of spinning does the coordinator leave the fast path: it then waits with vkit.Await,
// whose STUCK verdict (every goroutine that is inside a call of the object parked with an
// identical stack in two dumps) is the only way "never returns" is decided; slowness alone just
// continues the round.

type sweep3 struct {
	round     atomic.Int64
	done      atomic.Int64
	stop      atomic.Bool
	partyDone [3]atomic.Int64 // last round whose call has returned, per party
	pan       [3]atomic.Pointer[vkit.Panic]
	sink      atomic.Int64
	wg        sync.WaitGroup
	mod       [3]int64
	div       [3]int64
	scale     [3]int64
	yield     bool
	slowPaths int
	idleSpin  int // idle iterations a party spins before it starts yielding
}

func newSweep3(rnd *vkit.Rand, maxScale int) *sweep3 {
	s := &sweep3{yield: runtime.GOMAXPROCS(0) < 4, idleSpin: 5000}
	primes := []int64{7, 11, 13, 17, 19, 23, 29, 31}
	perm := rnd.Perm(len(primes))
	s.mod = [3]int64{primes[perm[0]], primes[perm[1]], primes[perm[2]]}
	s.div = [3]int64{1, s.mod[0], s.mod[0] * s.mod[1]}
	for i := range s.scale {
		s.scale[i] = int64(rnd.Range(1, maxScale))
	}
	return s
}

func (s *sweep3) offset(id int, rd int64) int64 { return ((rd / s.div[id]) % s.mod[id]) * s.scale[id] }

func (s *sweep3) spin(n int64) {
	x := int64(0)
	for i := int64(0); i < n; i++ {
		x += i
	}
	s.sink.Add(x)
}

func (s *sweep3) start(calls [3]func(rd int64)) {
	for id := range calls {
		id, f := id, calls[id]
		s.wg.Add(1)
		go func() {
			defer s.wg.Done()
			last := int64(0)
			for {
				var rd int64
				for idle := 0; ; idle++ {
					if s.stop.Load() {
						return
					}
					if rd = s.round.Load(); rd != last {
						break
					}
					if s.yield || idle > s.idleSpin {
						runtime.Gosched()
					}
				}
				last = rd
				s.spin(s.offset(id, rd))
				if p := vkit.Try(func() { f(rd) }); p != nil {
					s.pan[id].Store(p)
				}
				s.partyDone[id].Store(rd)
				s.done.Add(1)
				// let whatever this call made runnable (waiters woken by a Fill) run now, not
				// after this goroutine's idle spin
				runtime.Gosched()
			}
		}()
	}
}

// finish stops the parties (those that can still be stopped).
func (s *sweep3) finish(join bool) {
	s.stop.Store(true)
	if join {
		s.wg.Wait()
	}
}

// runRound releases the parties for round rd and waits for the three calls to return.
// must: parties whose call has to have returned before parked goroutines may be judged (e.g. the
// Fill party); inCall: which goroutines are inside a call of the object.
// Returns the Await verdict (AwaitDone when the round completed) and the dump.
func (s *sweep3) runRound(rd int64, must []int, inCall func(vkit.G) bool) (vkit.AwaitVerdict, string) {
	s.done.Store(0)
	s.round.Store(rd)
	t0 := time.Time{}
	for it := 1; s.done.Load() != 3; it++ {
		runtime.Gosched()
		if it%128 != 0 {
			continue
		}
		if t0.IsZero() {
			t0 = time.Now()
			continue
		}
		if time.Since(t0) < time.Millisecond {
			continue
		}
		// slow path, first stage: give the processor away in short sleeps (on an oversubscribed
		// machine the party that lags needs it) for up to 200 ms
		s.slowPaths++
		begin := time.Now()
		for s.done.Load() != 3 && time.Since(begin) < 200*time.Millisecond {
			time.Sleep(20 * time.Microsecond)
		}
		if s.done.Load() == 3 {
			return vkit.AwaitDone, ""
		}
		// second stage: the goroutine-dump verdict
		for {
			ready := true
			for _, id := range must {
				if s.partyDone[id].Load() != rd {
					ready = false
				}
			}
			if ready || s.done.Load() == 3 {
				break
			}
			if time.Since(begin) > 90*time.Second {
				return vkit.AwaitInconclusive, ""
			}
			time.Sleep(50 * time.Microsecond)
		}
		ch := make(chan struct{})
		quit := make(chan struct{})
		go func() {
			for s.done.Load() != 3 {
				select {
				case <-quit:
					return
				default:
				}
				time.Sleep(50 * time.Microsecond)
			}
			close(ch)
		}()
		v, dump := vkit.Await(ch, vkit.AwaitOpts{Relevant: inCall, Soft: time.Second, Gap: 300 * time.Millisecond, Hard: 90 * time.Second})
		close(quit)
		return v, dump
	}
	return vkit.AwaitDone, ""
}

// scale4 picks a case count by tier and by whether this binary carries the race detector (whose
// rounds cost about ten times as much).
func scale4(r *vkit.Report, quickRace, quickNoRace, thoroughRace, thoroughNoRace int) int {
	if vkit.RaceEnabled {
		return r.Scale(quickRace, thoroughRace)
	}
	return r.Scale(quickNoRace, thoroughNoRace)
}

// ---------------------------------------------------------------------------------------------
// Future: {Wait | WaitContext, Wait | WaitContext, Fill} on one fresh Future per round.

// A sweep plan entry: which parties, which value type, how many rounds per batch.
type fsweepPlan struct {
	variant string // parties
	vtype   string // int64 | 4KiB | 64KiB
	rounds  int
}

var fsweepPlans = []fsweepPlan{
	{"Wait+Wait+Fill", "int64", 10000},
	{"WaitContext(live)+Wait+Fill", "int64", 10000},
	{"Wait+WaitContext(expiring)+Fill", "int64", 10000},
	{"WaitContext(cancelled around Fill)+cancel+Fill", "64KiB", 1500},
	{"WaitContext(cancelled around Fill)+cancel+Fill", "int64", 10000},
	{"WaitContext(cancelled around Fill)+cancel+Fill", "4KiB", 4000},
	{"Wait+Wait+Fill", "64KiB", 1500},
	{"Wait+WaitContext(expiring)+Fill", "4KiB", 4000},
}

type big4k [512]uint64
type big64k [8192]uint64

type fsweepRes[T any] struct {
	v      T
	err    error
	ctxErr error
}

type fsweepRound[T any] struct {
	f      *xsync.Future[T]
	ctx    context.Context
	cancel context.CancelFunc
}

func futureSweep(r *vkit.Report) {
	n := scale4(r, 14, 24, 42, 96) // batches
	if runtime.GOMAXPROCS(0) < 4 {
		n = (n + 9) / 10
	}
	// order of the plans: under the race detector the large-value rounds cost milliseconds, so
	// the one-word plans take most of the batches there
	order := []int{0, 1, 2, 3, 4, 5, 6, 7}
	if vkit.RaceEnabled {
		order = []int{0, 1, 2, 3, 0, 1, 2, 5, 0, 1, 2, 6, 4, 7}
	}
	var abort bool
	r.Cases("f-sweep", n, 1, func(c *vkit.Case) {
		if abort {
			return
		}
		p := fsweepPlans[order[c.Index%len(order)]]
		if vkit.RaceEnabled && p.vtype != "int64" {
			p.rounds /= 3
		}
		ok := true
		switch p.vtype {
		case "int64":
			ok = futureSweepCase(c, p, func(m uint64) int64 { return int64(m) }, func(v *int64, m uint64) string {
				if *v != int64(m) {
					return fmt.Sprintf("%d", *v)
				}
				return ""
			})
		case "4KiB":
			ok = futureSweepCase(c, p, func(m uint64) (b big4k) {
				for i := range b {
					b[i] = m
				}
				return b
			}, func(v *big4k, m uint64) string { return tornCells(v[:], m) })
		case "64KiB":
			ok = futureSweepCase(c, p, func(m uint64) (b big64k) {
				for i := range b {
					b[i] = m
				}
				return b
			}, func(v *big64k, m uint64) string { return tornCells(v[:], m) })
		}
		if !ok {
			abort = true
		}
	})
	if abort {
		return
	}
	r.Floor("Future three-party sweep batches", r.Table("future-sweep", "batches"), int64(n))
	if runtime.GOMAXPROCS(0) >= 4 {
		r.Floor("Future sweep: waiters that were inside their call when Fill was called and when it returned", r.Table("future-sweep", "waiter calls overlapping Fill"), 1000)
		r.Floor("Future sweep: contexts cancelled while Fill was running", r.Table("future-sweep", "cancel calls overlapping Fill"), 20)
	}
}

// tornCells describes a value that is not "every cell equal to the marker" ("" if it is).
func tornCells(v []uint64, m uint64) string {
	bad, zero, first := 0, 0, -1
	for i, x := range v {
		if x != m {
			bad++
			if x == 0 {
				zero++
			}
			if first < 0 {
				first = i
			}
		}
	}
	if bad == 0 {
		return ""
	}
	return fmt.Sprintf("%d of %d cells differ from the marker %#x (%d of them zero; first at cell %d)", bad, len(v), m, zero, first)
}

// futureSweepCase runs one batch. mk makes the value for a marker; bad describes a value that is
// not exactly that value.
func futureSweepCase[T any](c *vkit.Case, plan fsweepPlan, mk func(m uint64) T, bad func(v *T, m uint64) string) bool {
	r := c.R
	rnd := c.Rand
	variant := plan.variant + " / " + plan.vtype
	s := newSweep3(rnd, 10)
	deadline := time.Duration(rnd.Range(20, 300)) * time.Microsecond
	live, cancelLive := context.WithCancel(context.Background())
	defer cancelLive()
	var rp atomic.Pointer[fsweepRound[T]]
	var res [2]fsweepRes[T]
	var wCall, wRet [2]int64 // logical ticks, for the overlap counts only
	var clock vkit.Clock
	var fc, fr atomic.Int64
	kinds := [2]string{"Wait", "Wait"}
	switch plan.variant {
	case "WaitContext(live)+Wait+Fill":
		kinds[0] = "WaitContext(live)"
	case "Wait+WaitContext(expiring)+Fill":
		kinds[1] = "WaitContext(expiring)"
	case "WaitContext(cancelled around Fill)+cancel+Fill":
		kinds[0], kinds[1] = "WaitContext(cancelled around Fill)", "cancel"
	}
	nWaiters := 2
	must := []int{2}
	if kinds[1] == "cancel" {
		nWaiters = 1
		must = []int{1, 2}
	}
	base := uint64(c.Index+1)<<32 | 0x5a5a000000000000
	var values atomic.Pointer[T] // the value the Fill party fills with (made before the release)
	waiter := func(slot int) func(rd int64) {
		return func(rd int64) {
			rs := rp.Load()
			res[slot].err, res[slot].ctxErr = nil, nil
			wCall[slot] = clock.Tick()
			switch kinds[slot] {
			case "Wait":
				res[slot].v = rs.f.Wait()
			case "WaitContext(live)":
				res[slot].v, res[slot].err = rs.f.WaitContext(live)
			case "WaitContext(cancelled around Fill)":
				res[slot].v, res[slot].err = rs.f.WaitContext(rs.ctx)
				res[slot].ctxErr = rs.ctx.Err()
			case "cancel":
				rs.cancel()
			default:
				ctx, cancel := context.WithTimeout(context.Background(), deadline)
				res[slot].v, res[slot].err = rs.f.WaitContext(ctx)
				res[slot].ctxErr = ctx.Err()
				cancel()
			}
			wRet[slot] = clock.Tick()
		}
	}
	s.start([3]func(rd int64){waiter(0), waiter(1), func(rd int64) {
		rs := rp.Load()
		x := values.Load()
		fc.Store(clock.Tick())
		rs.f.Fill(*x)
		fr.Store(clock.Tick())
	}})
	inFuture := func(g vkit.G) bool { return g.In("xsync.(*Future") }
	overlaps, cancelOverlaps, gaveUp := 0, 0, 0
	for rd := int64(1); rd <= int64(plan.rounds); rd++ {
		marker := base + uint64(rd)
		x := mk(marker)
		values.Store(&x)
		rs := &fsweepRound[T]{f: xsync.NewFuture[T]()}
		if kinds[1] == "cancel" {
			rs.ctx, rs.cancel = context.WithCancel(context.Background())
		}
		rp.Store(rs)
		verdict, dump := s.runRound(rd, must, inFuture)
		witness := func(extra map[string]any) map[string]any {
			m := map[string]any{"variant": variant, "round": rd, "spin_before_call": []int64{s.offset(0, rd), s.offset(1, rd), s.offset(2, rd)},
				"filled_with_marker": fmt.Sprintf("%#x", marker), "expiring_deadline_us": deadline.Microseconds()}
			for k, v := range extra {
				m[k] = v
			}
			return m
		}
		switch verdict {
		case vkit.AwaitStuck:
			who := ""
			for i := 0; i < 2; i++ {
				if s.partyDone[i].Load() != rd {
					who += fmt.Sprintf(" %s(party %d)", kinds[i], i)
				}
			}
			c.Violation("future-waiter-stuck", fmt.Sprintf("Future three-party sweep %s, round %d (spins %d/%d/%d): Fill has returned but%s never returns: parked forever",
				variant, rd, s.offset(0, rd), s.offset(1, rd), s.offset(2, rd), who), witness(map[string]any{"goroutines": dump}))
			s.finish(false)
			return false
		case vkit.AwaitInconclusive:
			r.Inconclusive(fmt.Sprintf("case %s: Future sweep round %d did not complete, goroutines still runnable at the hard limit", c.ID(), rd))
			s.finish(false)
			return false
		}
		if rs.cancel != nil {
			rs.cancel()
		}
		for id := range s.pan {
			if p := s.pan[id].Load(); p != nil {
				c.Violation("future-sweep-panic", fmt.Sprintf("Future three-party sweep %s, round %d: party %d panicked: %s [%s]", variant, rd, id, p.Msg, p.JuniperFrame()), witness(nil))
				s.finish(true)
				return true
			}
		}
		for i := 0; i < nWaiters; i++ {
			r.Eval(1)
			if res[i].err != nil {
				if (kinds[i] != "WaitContext(expiring)" && kinds[i] != "WaitContext(cancelled around Fill)") || res[i].err != res[i].ctxErr {
					c.Violation("spurious-error", fmt.Sprintf("Future three-party sweep %s, round %d: %s returned error %v", variant, rd, kinds[i], res[i].err), witness(nil))
					s.finish(true)
					return true
				}
				gaveUp++
			} else if what := bad(&res[i].v, marker); what != "" {
				// a nil error must come with exactly the filled value
				c.Violation("wrong-value", fmt.Sprintf("Future three-party sweep %s, round %d (spins %d/%d/%d): %s returned a nil error with a value that is not the one the Future was filled with: %s",
					variant, rd, s.offset(0, rd), s.offset(1, rd), s.offset(2, rd), kinds[i], what), witness(nil))
				s.finish(true)
				return true
			}
			if wCall[i] < fc.Load() && wRet[i] > fr.Load() {
				overlaps++
			}
		}
		if kinds[1] == "cancel" && wCall[1] < fr.Load() && wRet[1] > fc.Load() {
			cancelOverlaps++
		}
	}
	s.finish(true)
	r.Count("future-sweep", "batches", 1)
	r.Count("future-sweep", "rounds", plan.rounds)
	r.Count("future-sweep", "rounds "+variant, plan.rounds)
	r.Count("future-sweep", "waiter calls overlapping Fill", overlaps)
	r.Count("future-sweep", "cancel calls overlapping Fill", cancelOverlaps)
	r.Count("future-sweep", "WaitContext gave up with ctx.Err()", gaveUp)
	r.Count("future-sweep", "rounds that left the fast path (slow machine), completed normally", s.slowPaths)
	r.Distinct(fmt.Sprintf("fs:%s:%v:%v", variant, s.mod, s.scale))
	return true
}

// ---------------------------------------------------------------------------------------------
// Lazy: three parties make the first calls of a fresh Lazy whose f takes a swept few hundred ns.

const lsweepBatch = 10000

func lazySweep(r *vkit.Report) {
	n := scale4(r, 2, 6, 8, 20)
	if runtime.GOMAXPROCS(0) < 4 {
		n = (n + 9) / 10
	}
	var abort bool
	r.Cases("l-sweep", n, 1, func(c *vkit.Case) {
		if abort {
			return
		}
		if !lazySweepCase(c) {
			abort = true
		}
	})
	if abort {
		return
	}
	r.Floor("Lazy three-party sweep rounds", r.Table("lazy-sweep", "rounds"), int64(n*lsweepBatch))
}

func lazySweepCase(c *vkit.Case) bool {
	r := c.R
	rnd := c.Rand
	s := newSweep3(rnd, 10)
	fMod, fScale := int64(rnd.Range(3, 11)), int64(rnd.Range(5, 40))
	type lz struct {
		get   func() int64
		calls atomic.Int64
	}
	var lp atomic.Pointer[lz]
	var res [3]int64
	base := int64(c.Index+1) * 10 * lsweepBatch
	var calls [3]func(rd int64)
	for i := range calls {
		i := i
		calls[i] = func(rd int64) { res[i] = lp.Load().get() }
	}
	s.start(calls)
	inLazy := func(g vkit.G) bool {
		return g.In("xsync.Lazy") || g.In("sync.OnceValue") || g.In("sync.(*Once)")
	}
	for rd := int64(1); rd <= lsweepBatch; rd++ {
		l := &lz{}
		rd := rd
		l.get = xsync.Lazy(func() int64 {
			n := l.calls.Add(1)
			s.spin((rd % fMod) * fScale)
			return base + rd*4 + n - 1
		})
		lp.Store(l)
		verdict, dump := s.runRound(rd, nil, inLazy)
		witness := map[string]any{"round": rd, "spin_before_call": []int64{s.offset(0, rd), s.offset(1, rd), s.offset(2, rd)}, "f_spin": (rd % fMod) * fScale}
		switch verdict {
		case vkit.AwaitStuck:
			witness["goroutines"] = dump
			c.Violation("lazy-stuck", fmt.Sprintf("Lazy three-party sweep, round %d: a first call never returns: parked forever", rd), witness)
			s.finish(false)
			return false
		case vkit.AwaitInconclusive:
			r.Inconclusive(fmt.Sprintf("case %s: Lazy sweep round %d did not complete, goroutines still runnable at the hard limit", c.ID(), rd))
			s.finish(false)
			return false
		}
		for id := range s.pan {
			if p := s.pan[id].Load(); p != nil {
				c.Violation("lazy-panic", fmt.Sprintf("Lazy three-party sweep, round %d: party %d panicked: %s", rd, id, p.Msg), witness)
				s.finish(true)
				return true
			}
		}
		r.Eval(2)
		witness["results"] = res[:]
		if n := l.calls.Load(); n != 1 {
			c.Violation("lazy-f-count", fmt.Sprintf("Lazy three-party sweep, round %d (spins %d/%d/%d): f ran %d times for 3 concurrent first calls (want exactly once)", rd, s.offset(0, rd), s.offset(1, rd), s.offset(2, rd), n), witness)
			s.finish(true)
			return true
		}
		for i := range res {
			if res[i] != base+rd*4 {
				c.Violation("lazy-result", fmt.Sprintf("Lazy three-party sweep, round %d (spins %d/%d/%d): caller %d got %d, f returned %d", rd, s.offset(0, rd), s.offset(1, rd), s.offset(2, rd), i, res[i], base+rd*4), witness)
				s.finish(true)
				return true
			}
		}
	}
	s.finish(true)
	r.Count("lazy-sweep", "rounds", lsweepBatch)
	r.Count("lazy-sweep", "rounds that left the fast path (slow machine), completed normally", s.slowPaths)
	r.Distinct(fmt.Sprintf("ls:%v:%v:%d:%d", s.mod, s.scale, fMod, fScale))
	return true
}
