package main

import (
	"fmt"
	"runtime"
	"sort"
	"strings"
	"sync"
	"sync/atomic"
	"time"

	"github.com/anishathalye/porcupine"
	"github.com/bradenaw/juniper/xsync"

	"verif/vkit"
)

// Concurrent xsync.Map histories checked for linearizability (sync.Map's methods are atomic per
// key, and the typed wrapper has to keep that: "returns exactly what sync.Map returns" holds for
// concurrent callers too). Many tiny histories: 1-2 keys, 3-4 goroutines, 6-10 operations each,
// unique values per storing operation, call and return ticks from one counter at the client
// boundary; porcupine with the model "one optional value per key", partitioned by key. Range is
// not part of these histories (it is not atomic). Plus two invariant sweeps with the three-party
// engine of fsweep.go.

type mlIn struct {
	Kind int    `json:"-"`
	Op   string `json:"op"`
	Key  int    `json:"key"`
	Old  int64  `json:"old,omitempty"`
	New  int64  `json:"new,omitempty"`
}

type mlOut struct {
	V  int64 `json:"v"`
	OK bool  `json:"ok"`
}

type mlOp struct {
	Client int   `json:"client"`
	In     mlIn  `json:"in"`
	Out    mlOut `json:"out"`
	Call   int64 `json:"call"`
	Ret    int64 `json:"ret"`
}

type mlState struct {
	present bool
	v       int64
}

var mapModel = porcupine.Model{
	Partition: func(history []porcupine.Operation) [][]porcupine.Operation {
		byKey := make(map[int][]porcupine.Operation)
		var keys []int
		for _, op := range history {
			k := op.Input.(mlIn).Key
			if _, ok := byKey[k]; !ok {
				keys = append(keys, k)
			}
			byKey[k] = append(byKey[k], op)
		}
		sort.Ints(keys)
		var out [][]porcupine.Operation
		for _, k := range keys {
			out = append(out, byKey[k])
		}
		return out
	},
	Init: func() interface{} { return mlState{} },
	Step: func(state, input, output interface{}) (bool, interface{}) {
		s, in, out := state.(mlState), input.(mlIn), output.(mlOut)
		switch in.Kind {
		case opLoad:
			return out.OK == s.present && out.V == s.v, s
		case opStore:
			return true, mlState{true, in.New}
		case opLoadOrStore:
			if s.present {
				return out.OK && out.V == s.v, s
			}
			return !out.OK && out.V == in.New, mlState{true, in.New}
		case opLoadAndDelete:
			return out.OK == s.present && out.V == s.v, mlState{}
		case opDelete:
			return true, mlState{}
		case opSwap:
			return out.OK == s.present && out.V == s.v, mlState{true, in.New}
		case opCAS:
			hit := s.present && s.v == in.Old
			if hit {
				return out.OK, mlState{true, in.New}
			}
			return !out.OK, s
		case opCAD:
			hit := s.present && s.v == in.Old
			if hit {
				return out.OK, mlState{}
			}
			return !out.OK, s
		}
		return false, s
	},
	Equal: func(a, b interface{}) bool { return a.(mlState) == b.(mlState) },
	DescribeOperation: func(input, output interface{}) string {
		return describeMl(input.(mlIn), output.(mlOut))
	},
}

func describeMl(in mlIn, out mlOut) string {
	switch in.Kind {
	case opLoad, opLoadAndDelete:
		return fmt.Sprintf("%s(%d)=(%d,%v)", in.Op, in.Key, out.V, out.OK)
	case opStore:
		return fmt.Sprintf("Store(%d,%d)", in.Key, in.New)
	case opDelete:
		return fmt.Sprintf("Delete(%d)", in.Key)
	case opLoadOrStore, opSwap:
		return fmt.Sprintf("%s(%d,%d)=(%d,%v)", in.Op, in.Key, in.New, out.V, out.OK)
	case opCAS:
		return fmt.Sprintf("CompareAndSwap(%d,%d,%d)=%v", in.Key, in.Old, in.New, out.OK)
	}
	return fmt.Sprintf("CompareAndDelete(%d,%d)=%v", in.Key, in.Old, out.OK)
}

func mapLinear(r *vkit.Report) {
	// self-test of the model: a legal history is accepted, the two classic anomalies are rejected
	{
		op := func(client, kind, key int, old, nw, v int64, ok bool, call, ret int64) porcupine.Operation {
			return porcupine.Operation{ClientId: client, Input: mlIn{Kind: kind, Op: opNames[kind], Key: key, Old: old, New: nw}, Output: mlOut{v, ok}, Call: call, Return: ret}
		}
		legal := []porcupine.Operation{op(0, opStore, 1, 0, 5, 0, false, 1, 2), op(1, opLoadAndDelete, 1, 0, 0, 5, true, 3, 6), op(2, opLoadAndDelete, 1, 0, 0, 0, false, 4, 5), op(0, opLoad, 2, 0, 0, 0, false, 7, 8)}
		twoTakers := []porcupine.Operation{op(0, opStore, 1, 0, 5, 0, false, 1, 2), op(1, opLoadAndDelete, 1, 0, 0, 5, true, 3, 6), op(2, opLoadAndDelete, 1, 0, 0, 5, true, 4, 5)}
		lostStore := []porcupine.Operation{op(0, opStore, 1, 0, 5, 0, false, 1, 2), op(1, opCAD, 1, 5, 0, 0, true, 3, 6), op(2, opStore, 1, 0, 7, 0, false, 4, 5), op(0, opLoad, 1, 0, 0, 0, false, 7, 8)}
		got := int64(0)
		if porcupine.CheckOperationsTimeout(mapModel, legal, 30*time.Second) == porcupine.Ok {
			got++
		}
		if porcupine.CheckOperationsTimeout(mapModel, twoTakers, 30*time.Second) == porcupine.Illegal {
			got++
		}
		if porcupine.CheckOperationsTimeout(mapModel, lostStore, 30*time.Second) == porcupine.Illegal {
			got++
		}
		r.Floor("map model self-test (1 legal history accepted, 2 illegal ones rejected)", got, 3)
	}
	n := scale4(r, 8000, 12000, 60000, 100000)
	workers := 4
	if runtime.GOMAXPROCS(0) < 4 {
		workers = 1
	}
	r.Cases("map-lin", n, workers, mapLinearCase)
	r.Floor("concurrent map histories judged linearizable by porcupine", r.Table("map-lin", "histories: porcupine Ok"), int64(n*9/10))
}

func mapLinearCase(c *vkit.Case) {
	r := c.R
	rnd := c.Rand
	nKeys := rnd.Range(1, 2)
	nG := rnd.Range(3, 4)
	var m xsync.Map[int, int64]
	var clock vkit.Clock
	var ops []mlOp // sequential prefix; the goroutines append to their own slices
	do := func(client int, in mlIn) mlOp {
		in.Op = opNames[in.Kind]
		o := mlOp{Client: client, In: in}
		o.Call = clock.Tick()
		switch in.Kind {
		case opLoad:
			o.Out.V, o.Out.OK = m.Load(in.Key)
		case opStore:
			m.Store(in.Key, in.New)
		case opLoadOrStore:
			o.Out.V, o.Out.OK = m.LoadOrStore(in.Key, in.New)
		case opLoadAndDelete:
			o.Out.V, o.Out.OK = m.LoadAndDelete(in.Key)
		case opDelete:
			m.Delete(in.Key)
		case opSwap:
			o.Out.V, o.Out.OK = m.Swap(in.Key, in.New)
		case opCAS:
			o.Out.OK = m.CompareAndSwap(in.Key, in.Old, in.New)
		case opCAD:
			o.Out.OK = m.CompareAndDelete(in.Key, in.Old)
		}
		o.Ret = clock.Tick()
		return o
	}
	// values: unique per storing operation; "old" arguments are drawn from the values that some
	// operation of this history stores under that key (so comparisons can hit)
	stored := make([][]int64, nKeys)
	for k := 0; k < nKeys; k++ {
		if rnd.Bool(0.7) {
			v := int64(900 + k)
			stored[k] = append(stored[k], v)
			ops = append(ops, do(nG, mlIn{Kind: opStore, Key: k, New: v}))
		}
	}
	plans := make([][]mlIn, nG)
	weights := []int{3, 3, 2, 4, 2, 2, 2, 4} // Load Store LoadOrStore LoadAndDelete Delete Swap CAS CAD
	for g := range plans {
		for i, nOps := 0, rnd.Range(6, 10); i < nOps; i++ {
			in := mlIn{Kind: rnd.Weighted(weights), Key: rnd.Intn(nKeys)}
			switch in.Kind {
			case opStore, opLoadOrStore, opSwap, opCAS:
				in.New = int64(g+1)*100 + int64(i)
				stored[in.Key] = append(stored[in.Key], in.New)
			}
			plans[g] = append(plans[g], in)
		}
	}
	for g := range plans {
		for i := range plans[g] {
			in := &plans[g][i]
			if in.Kind == opCAS || in.Kind == opCAD {
				if len(stored[in.Key]) > 0 && rnd.Bool(0.9) {
					in.Old = vkit.Pick(rnd, stored[in.Key])
				} else {
					in.Old = 7
				}
			}
		}
	}
	start := make(chan struct{})
	logs := make([][]mlOp, nG)
	panics := make([]*vkit.Panic, nG)
	var wg sync.WaitGroup
	for g := 0; g < nG; g++ {
		g := g
		pert := vkit.NewPerturber(rnd.Split(), 7, []float64{0, 0.2, 0.5}[rnd.Intn(3)])
		wg.Add(1)
		go func() {
			defer wg.Done()
			<-start
			panics[g] = vkit.Try(func() {
				for _, in := range plans[g] {
					logs[g] = append(logs[g], do(g, in))
					pert.Do()
				}
			})
		}()
	}
	close(start)
	wg.Wait() // no method of the map blocks
	for g := range logs {
		ops = append(ops, logs[g]...)
	}
	sort.Slice(ops, func(i, j int) bool { return ops[i].Call < ops[j].Call })
	witness := func() map[string]any { return map[string]any{"keys": nKeys, "goroutines": nG, "ops": ops} }
	for g, p := range panics {
		if p != nil {
			c.Violation("map-lin-panic", fmt.Sprintf("concurrent xsync.Map history: goroutine %d panicked: %s [%s]", g, p.Msg, p.JuniperFrame()), witness())
			return
		}
	}
	hist := make([]porcupine.Operation, len(ops))
	for i, o := range ops {
		hist[i] = porcupine.Operation{ClientId: o.Client, Input: o.In, Output: o.Out, Call: o.Call, Return: o.Ret}
	}
	r.Eval(1)
	switch porcupine.CheckOperationsTimeout(mapModel, hist, 30*time.Second) {
	case porcupine.Illegal:
		var b strings.Builder
		for _, o := range ops {
			fmt.Fprintf(&b, " g%d:%s[%d,%d]", o.Client, describeMl(o.In, o.Out), o.Call, o.Ret)
		}
		c.Violation("map-not-linearizable", fmt.Sprintf("a concurrent history of %d xsync.Map operations on %d key(s) is not linearizable (sync.Map's operations are atomic per key):%s", len(ops), nKeys, b.String()), witness())
		return
	case porcupine.Unknown:
		r.Inconclusive(fmt.Sprintf("case %s: porcupine timed out on a map history of %d operations", c.ID(), len(ops)))
		return
	}
	r.Count("map-lin", "histories: porcupine Ok", 1)
	r.Count("map-lin", "operations", len(ops))
	overlap := false
	for i := range ops {
		for j := i + 1; j < len(ops) && ops[j].Call < ops[i].Ret; j++ {
			if ops[i].In.Key == ops[j].In.Key {
				overlap = true
			}
		}
	}
	if overlap {
		r.Count("map-lin", "histories with overlapping operations on one key", 1)
		var sig strings.Builder
		for _, o := range ops {
			fmt.Fprintf(&sig, "%d.%d.%d.%v;", o.Client, o.In.Kind, o.In.Key, o.Out.OK)
		}
		r.Distinct("ml:" + sig.String())
	}
}

// ---------------------------------------------------------------------------------------------
// Invariant sweeps on xsync.Map (three-party engine):
//   "LAD": three goroutines LoadAndDelete the same present key at the same instant: exactly one
//          gets (v, true), the others (0, false);
//   "CAD": CompareAndDelete(k, v1) racing Store(k, v2) (and a Load): whatever CompareAndDelete
//          answered, v2 is stored afterwards (nobody else deletes): if CAD hit v1 it removed v1, not v2.

const msweepBatch = 10000

func mapSweep(r *vkit.Report) {
	n := scale4(r, 4, 10, 16, 40)
	if runtime.GOMAXPROCS(0) < 4 {
		n = (n + 9) / 10
	}
	r.Cases("m-sweep", n, 1, func(c *vkit.Case) { mapSweepCase(c, []string{"LAD", "CAD"}[c.Index%2]) })
	r.Floor("map three-party sweep rounds", r.Table("map-sweep", "rounds"), int64(n*msweepBatch))
}

func mapSweepCase(c *vkit.Case, variant string) {
	r := c.R
	s := newSweep3(c.Rand, 6)
	var mp atomic.Pointer[xsync.Map[int, int64]]
	type res struct {
		v  int64
		ok bool
	}
	var out [3]res
	base := int64(c.Index+1) * 10 * msweepBatch
	const key = 1
	lad := func(i int) func(rd int64) {
		return func(rd int64) { out[i].v, out[i].ok = mp.Load().LoadAndDelete(key) }
	}
	if variant == "LAD" {
		s.start([3]func(rd int64){lad(0), lad(1), lad(2)})
	} else {
		s.start([3]func(rd int64){
			func(rd int64) { out[0].ok = mp.Load().CompareAndDelete(key, base+2*rd) },
			func(rd int64) { mp.Load().Store(key, base+2*rd+1) },
			func(rd int64) { out[2].v, out[2].ok = mp.Load().Load(key) },
		})
	}
	defer s.finish(true)
	never := func(vkit.G) bool { return false }
	hits := 0
	for rd := int64(1); rd <= msweepBatch; rd++ {
		m := new(xsync.Map[int, int64])
		v1, v2 := base+2*rd, base+2*rd+1
		m.Store(key, v1)
		mp.Store(m)
		if v, _ := s.runRound(rd, nil, never); v != vkit.AwaitDone {
			r.Inconclusive(fmt.Sprintf("case %s: map sweep round %d did not complete", c.ID(), rd))
			return
		}
		witness := map[string]any{"variant": variant, "round": rd, "spin_before_call": []int64{s.offset(0, rd), s.offset(1, rd), s.offset(2, rd)}}
		for id := range s.pan {
			if p := s.pan[id].Load(); p != nil {
				c.Violation("map-sweep-panic", fmt.Sprintf("map sweep %s, round %d: party %d panicked: %s", variant, rd, id, p.Msg), witness)
				return
			}
		}
		r.Eval(1)
		if variant == "LAD" {
			got := 0
			for i := range out {
				if out[i].ok {
					got++
				}
				if (out[i].ok && out[i].v != v1) || (!out[i].ok && out[i].v != 0) {
					c.Violation("map-loadanddelete-value", fmt.Sprintf("map sweep LAD, round %d: LoadAndDelete returned (%d,%v); the key held %d", rd, out[i].v, out[i].ok, v1), witness)
					return
				}
			}
			witness["results"] = fmt.Sprint(out)
			if got != 1 {
				c.Violation("map-loadanddelete-twice", fmt.Sprintf("map sweep LAD, round %d (spins %d/%d/%d): %d of 3 concurrent LoadAndDelete calls on one present key returned (%d, true); exactly one can have taken it",
					rd, s.offset(0, rd), s.offset(1, rd), s.offset(2, rd), got, v1), witness)
				return
			}
			continue
		}
		fv, fok := m.Load(key)
		witness["CompareAndDelete"] = out[0].ok
		witness["concurrent_Load"] = fmt.Sprint(out[2])
		witness["final_Load"] = fmt.Sprintf("(%d,%v)", fv, fok)
		if !fok || fv != v2 {
			c.Violation("map-compareanddelete-deleted-other-value", fmt.Sprintf("map sweep CAD, round %d (spins %d/%d/%d): CompareAndDelete(k,%d)=%v raced Store(k,%d); afterwards Load(k)=(%d,%v) — the stored %d is gone although nobody deleted it",
				rd, s.offset(0, rd), s.offset(1, rd), s.offset(2, rd), v1, out[0].ok, v2, fv, fok, v2), witness)
			return
		}
		if lv := out[2]; !((lv.ok && (lv.v == v1 || lv.v == v2)) || (!lv.ok && lv.v == 0)) {
			c.Violation("map-sweep-load", fmt.Sprintf("map sweep CAD, round %d: the concurrent Load returned (%d,%v)", rd, lv.v, lv.ok), witness)
			return
		}
		if out[0].ok {
			hits++
		}
	}
	r.Count("map-sweep", "rounds", msweepBatch)
	r.Count("map-sweep", "rounds "+variant, msweepBatch)
	if variant == "CAD" {
		r.Count("map-sweep", "CAD: CompareAndDelete won against the Store", hits)
	}
	r.Distinct(fmt.Sprintf("msw:%s:%v:%v", variant, s.mod, s.scale))
}
