package main

import (
	"fmt"
	"sync"
	"sync/atomic"

	"github.com/bradenaw/juniper/xsync"

	"verif/vkit"
)

// Nested / dependent Lazy values: a Lazy is an independent object. The function of one Lazy may
// make the first call of another (whatever else was created in between, in either creation
// order), chains of Lazies may depend on each other, and two unrelated Lazies first-called from
// different goroutines must not block each other. "Never returns" is decided by vkit.Await only
// (STUCK = all goroutines parked with identical stacks in two dumps).

type nestScenario struct {
	Kind         string `json:"kind"` // nested | chain | independent
	J            int    `json:"other_lazies_created_between,omitempty"`
	InnerFirst   bool   `json:"inner_created_first,omitempty"`
	K            int    `json:"chain_length,omitempty"`
	ReverseOrder bool   `json:"created_in_reverse_order,omitempty"`
	Throwaway    int    `json:"throwaway_lazies_created_first"`
}

func nestScenarios() []nestScenario {
	var out []nestScenario
	for j := 0; j <= 40; j++ {
		for _, innerFirst := range []bool{false, true} {
			out = append(out, nestScenario{Kind: "nested", J: j, InnerFirst: innerFirst})
		}
	}
	for k := 2; k <= 48; k++ {
		for _, rev := range []bool{false, true} {
			out = append(out, nestScenario{Kind: "chain", K: k, ReverseOrder: rev})
		}
	}
	for j := 0; j <= 40; j++ {
		out = append(out, nestScenario{Kind: "independent", J: j})
	}
	return out
}

func lazyNested(r *vkit.Report) {
	all := nestScenarios()
	reps := r.Scale(1, 5)
	n := len(all) * reps
	var abort bool
	r.Cases("lazy-nested", n, 1, func(c *vkit.Case) {
		if abort {
			return
		}
		s := all[c.Index%len(all)]
		if !lazyNestedCase(c, s) {
			// a stuck case leaves goroutines (and, in a broken library, whatever they hold) behind
			abort = true
		}
	})
	if abort {
		return
	}
	for _, k := range []string{"nested", "chain", "independent"} {
		want := 0
		for _, s := range all {
			if s.Kind == k {
				want++
			}
		}
		r.Floor("dependent-Lazy scenarios: "+k, r.Table("lazy-nested", k), int64(want*reps))
	}
}

// counted makes a Lazy[int64] whose function counts its runs.
type countedLazy struct {
	get   func() int64
	calls *atomic.Int64
}

func newCounted(f func() int64) countedLazy {
	calls := new(atomic.Int64)
	return countedLazy{calls: calls, get: xsync.Lazy(func() int64 {
		calls.Add(1)
		return f()
	})}
}

func lazyNestedCase(c *vkit.Case, s nestScenario) bool {
	r := c.R
	rnd := c.Rand
	s.Throwaway = rnd.Range(0, 15)
	for i := 0; i < s.Throwaway; i++ {
		i := i
		_ = xsync.Lazy(func() int { return i })
	}
	filler := func(n int) {
		for i := 0; i < n; i++ {
			i := i
			g := xsync.Lazy(func() int { return i })
			if i%7 == 3 {
				g() // some of the bystanders are used, most are not
			}
		}
	}
	base := int64(c.Index)*100000 + 7

	// problems noticed inside library-called functions / worker goroutines
	var mu sync.Mutex
	var problems []string
	note := func(format string, a ...any) {
		mu.Lock()
		problems = append(problems, fmt.Sprintf(format, a...))
		mu.Unlock()
	}
	call := func(what string, get func() int64) int64 {
		var v int64
		if p := vkit.Try(func() { v = get() }); p != nil {
			note("%s panicked: %s", what, p.Msg)
		}
		return v
	}

	var lazies []countedLazy
	var want []int64      // expected value of lazies[i]
	var run func()        // the scenario's calls; runs on its own goroutine(s)
	var wg sync.WaitGroup // joined by the Await below
	results := map[string]int64{}
	setResult := func(k string, v int64) { mu.Lock(); results[k] = v; mu.Unlock() }

	switch s.Kind {
	case "nested":
		// outer's function makes the first call of inner
		var inner, outer countedLazy
		mkInner := func() { inner = newCounted(func() int64 { return base }) }
		mkOuter := func() {
			outer = newCounted(func() int64 { return call("inner Lazy called from the outer Lazy's function", inner.get) + 1000 })
		}
		if s.InnerFirst {
			mkInner()
			filler(s.J)
			mkOuter()
		} else {
			mkOuter()
			filler(s.J)
			mkInner()
		}
		lazies = []countedLazy{outer, inner}
		want = []int64{base + 1000, base}
		wg.Add(1)
		run = func() {
			defer wg.Done()
			setResult("outer", call("outer Lazy", outer.get))
			setResult("inner", call("inner Lazy", inner.get))
		}
	case "chain":
		lazies = make([]countedLazy, s.K)
		want = make([]int64, s.K)
		mk := func(i int) {
			if i == s.K-1 {
				lazies[i] = newCounted(func() int64 { return base })
			} else {
				lazies[i] = newCounted(func() int64 {
					return call(fmt.Sprintf("Lazy %d of the chain, called from the function of Lazy %d", i+1, i), lazies[i+1].get) + 1
				})
			}
			want[i] = base + int64(s.K-1-i)
		}
		if s.ReverseOrder {
			for i := s.K - 1; i >= 0; i-- {
				mk(i)
			}
		} else {
			for i := 0; i < s.K; i++ {
				mk(i)
			}
		}
		wg.Add(1)
		run = func() {
			defer wg.Done()
			setResult("head", call("head of the chain", lazies[0].get))
		}
	case "independent":
		// A's function waits until B's result has been delivered to another goroutine, which only
		// asks for it once A's function is running. A and B have nothing to do with each other.
		aStarted := make(chan struct{})
		bDelivered := make(chan struct{})
		a := newCounted(func() int64 {
			close(aStarted)
			<-bDelivered
			return base + 1
		})
		filler(s.J)
		b := newCounted(func() int64 { return base + 2 })
		lazies = []countedLazy{a, b}
		want = []int64{base + 1, base + 2}
		wg.Add(2)
		run = func() {
			go func() {
				defer wg.Done()
				setResult("A", call("Lazy A", a.get))
			}()
			go func() {
				defer wg.Done()
				<-aStarted
				setResult("B", call("Lazy B (first call, while Lazy A's function is running)", b.get))
				close(bDelivered)
			}()
		}
	}

	if s.Kind == "independent" {
		run()
	} else {
		go run()
	}
	done := make(chan struct{})
	go func() { wg.Wait(); close(done) }()
	verdict, dump := vkit.Await(done, awaitOpts)
	witness := func(extra map[string]any) map[string]any {
		mu.Lock()
		defer mu.Unlock()
		var runs []int64
		for _, l := range lazies {
			runs = append(runs, l.calls.Load())
		}
		m := map[string]any{"scenario": s, "results": fmt.Sprint(results), "f_runs_per_lazy": runs, "problems": append([]string(nil), problems...)}
		for k, v := range extra {
			m[k] = v
		}
		return m
	}
	describe := func() string {
		switch s.Kind {
		case "nested":
			order := "outer created first"
			if s.InnerFirst {
				order = "inner created first"
			}
			return fmt.Sprintf("a Lazy whose function makes the first call of another Lazy (%s, %d other Lazy values created in between, %d before)", order, s.J, s.Throwaway)
		case "chain":
			return fmt.Sprintf("a chain of %d Lazy values, each function calling the next (reverse creation order: %v, %d Lazy values created before)", s.K, s.ReverseOrder, s.Throwaway)
		}
		return fmt.Sprintf("two unrelated Lazy values (%d others created in between, %d before): A's function waits until B's result has been delivered to another goroutine", s.J, s.Throwaway)
	}
	switch verdict {
	case vkit.AwaitStuck:
		c.Violation("lazy-blocks-other-lazy", "the first call never returns: "+describe()+"; all goroutines parked", witness(map[string]any{"goroutines": dump}))
		return false
	case vkit.AwaitInconclusive:
		r.Inconclusive(fmt.Sprintf("case %s: %s did not finish, goroutines still runnable at the hard limit", c.ID(), describe()))
		return false
	}
	r.Eval(1)
	if len(problems) > 0 {
		c.Violation("lazy-nested-panic", describe()+": "+problems[0], witness(nil))
		return true
	}
	// values, now and on later calls, and run counts
	for i, l := range lazies {
		r.Eval(1)
		for rep := 0; rep < 2; rep++ {
			if got := call("later call", l.get); got != want[i] || len(problems) > 0 {
				c.Violation("lazy-nested-result", fmt.Sprintf("%s: Lazy %d returned %d, its function's result is %d %v", describe(), i, got, want[i], problems), witness(nil))
				return true
			}
		}
		if n := l.calls.Load(); n != 1 {
			c.Violation("lazy-f-count", fmt.Sprintf("%s: the function of Lazy %d ran %d times (want exactly once)", describe(), i, n), witness(nil))
			return true
		}
	}
	for k, v := range results {
		var w int64
		switch k {
		case "outer", "head", "A":
			w = want[0]
		default:
			w = want[1]
		}
		r.Eval(1)
		if v != w {
			c.Violation("lazy-nested-result", fmt.Sprintf("%s: the first call of %s returned %d, want %d", describe(), k, v, w), witness(nil))
			return true
		}
	}
	r.Count("lazy-nested", s.Kind, 1)
	r.Max("lazy-nested", "chain length", s.K)
	r.Distinct(fmt.Sprintf("ln:%s:%d:%v:%d:%v", s.Kind, s.J, s.InnerFirst, s.K, s.ReverseOrder))
	if r.WantSample() && c.Index == 31 {
		r.Sample(map[string]any{"kind": "dependent lazies", "scenario": s, "what": describe(), "first_call_results": fmt.Sprint(results)})
	}
	return true
}
