package main

import (
	"fmt"
	"runtime"
	"sync"
	"sync/atomic"
	"time"

	"github.com/bradenaw/juniper/xsync"

	"verif/vkit"
)

// Lazy: 16 goroutines behind a barrier call the returned function; f ran exactly once, everybody
// got f's result, later calls too. Result types: non-interface T with distinct-per-call and with
// zero-value results, interface T (error, any, a method interface) with a nil result, a non-nil
// result and a typed nil pointer inside the interface; and an f that panics.

type cell struct {
	ID int `json:"id"`
}

// reader is a small method interface (io.Reader-like); *rd implements it.
type reader interface {
	Read(p []byte) (int, error)
}

type rd struct{ id int64 }

func (r *rd) Read(p []byte) (int, error) { return 0, nil }

const lazyCallers = 16

type lazyVariant struct {
	name string
	run  func(c *vkit.Case, name string) bool
}

func lz[T comparable](mk func(c *vkit.Case, call int64) T) func(c *vkit.Case, name string) bool {
	return func(c *vkit.Case, name string) bool {
		return lazyCase(c, name, func(call int64) T { return mk(c, call) }, false)
	}
}

var lazyVariants = []lazyVariant{
	// results that differ per call of f (a second run of f shows in the results as well)
	{"int64 / distinct", lz(func(c *vkit.Case, call int64) int64 { return int64(c.Index)*1000 + call })},
	{"string / distinct", lz(func(c *vkit.Case, call int64) string { return fmt.Sprintf("lazy-%d-call-%d", c.Index, call) })},
	{"*cell / distinct", lz(func(c *vkit.Case, call int64) *cell { return &cell{ID: int(call)} })},
	// zero-value results of non-interface types
	{"int64 / zero value", lz(func(c *vkit.Case, call int64) int64 { return 0 })},
	{"string / zero value", lz(func(c *vkit.Case, call int64) string { return "" })},
	{"*cell / zero value", lz(func(c *vkit.Case, call int64) *cell { return nil })},
	{"struct{} / zero value", lz(func(c *vkit.Case, call int64) struct{} { return struct{}{} })},
	// interface result types
	{"error / nil", lz(func(c *vkit.Case, call int64) error { return nil })},
	{"error / non-nil", lz(func(c *vkit.Case, call int64) error { return &perr{c.Index, int(call)} })},
	{"error / typed nil pointer", lz(func(c *vkit.Case, call int64) error { return (*perr)(nil) })},
	{"any / nil", lz(func(c *vkit.Case, call int64) any { return nil })},
	{"any / non-nil", lz(func(c *vkit.Case, call int64) any {
		if c.Index%2 == 0 {
			return int(call) + 10*c.Index
		}
		return &cell{ID: int(call)}
	})},
	{"any / typed nil pointer", lz(func(c *vkit.Case, call int64) any { return (*cell)(nil) })},
	{"reader / nil", lz(func(c *vkit.Case, call int64) reader { return nil })},
	{"reader / non-nil", lz(func(c *vkit.Case, call int64) reader { return &rd{id: call} })},
	{"reader / typed nil pointer", lz(func(c *vkit.Case, call int64) reader { return (*rd)(nil) })},
	// f panics
	{"int64 / f panics", func(c *vkit.Case, name string) bool {
		return lazyCase(c, name, func(call int64) int64 { panic(fmt.Sprintf("lazy-f-panic-%d", call)) }, true)
	}},
	{"error / f panics", func(c *vkit.Case, name string) bool {
		return lazyCase(c, name, func(call int64) error { panic(fmt.Sprintf("lazy-f-panic-%d", call)) }, true)
	}},
}

func lazies(r *vkit.Report) {
	per := r.Scale(20, 170)
	n := per * len(lazyVariants)
	r.Assume("Lazy with a panicking f: only 'f ran exactly once' is demanded (the statement: runs its function once); what the callers of such a Lazy get (the same panic again, as sync.OnceValue does) is recorded, not judged")
	var abort bool
	r.Cases("lazy", n, 1, func(c *vkit.Case) {
		if abort {
			return
		}
		v := lazyVariants[c.Index%len(lazyVariants)]
		if !v.run(c, v.name) {
			abort = true
		}
	})
	if abort {
		return
	}
	r.Floor("Lazy barrier rounds", r.Table("lazy", "rounds"), int64(n))
	r.Floor("Lazy rounds in which callers arrived while f was running", r.Table("lazy", "rounds with callers arriving while f ran"), int64(n/4))
	for _, v := range lazyVariants {
		r.Floor("Lazy rounds with result "+v.name, r.Table("lazy-variants", v.name), int64(per))
	}
}

// summarize renders a list of outcomes as "16x A" / "3x A, 13x B" (first few classes).
func summarize(out []string) string {
	var order []string
	cnt := make(map[string]int)
	for _, o := range out {
		if cnt[o] == 0 {
			order = append(order, o)
		}
		cnt[o]++
	}
	s := ""
	for i, o := range order {
		if i == 3 {
			s += fmt.Sprintf(", ... (%d distinct outcomes)", len(order))
			break
		}
		if i > 0 {
			s += ", "
		}
		s += fmt.Sprintf("%dx %q", cnt[o], o)
	}
	return s
}

// lazyCase runs one barrier round. mk makes f's result from the ordinal of the call of f;
// fPanics: mk panics instead.
func lazyCase[T comparable](c *vkit.Case, tname string, mk func(call int64) T, fPanics bool) bool {
	r := c.R
	rnd := c.Rand
	var calls, arrived atomic.Int64
	var arrivedAtEntry, arrivedAtExit int64
	// what f does while it runs is fixed before the round (it runs on whichever caller wins)
	fDelay := []int{0, 0, 1, 100, 400, 1500}[rnd.Intn(6)] // microseconds; 1 = yield
	var first T
	get := xsync.Lazy(func() T {
		n := calls.Add(1)
		a := arrived.Load()
		switch {
		case fDelay == 1:
			runtime.Gosched()
		case fDelay > 1:
			time.Sleep(time.Duration(fDelay) * time.Microsecond)
		}
		if n == 1 {
			arrivedAtEntry, arrivedAtExit = a, arrived.Load()
		}
		v := mk(n)
		if n == 1 {
			first = v
		}
		return v
	})
	start := make(chan struct{})
	results := make([]T, lazyCallers)
	panics := make([]*vkit.Panic, lazyCallers)
	var wg sync.WaitGroup
	for i := 0; i < lazyCallers; i++ {
		i := i
		stagger := 0
		if rnd.Bool(0.4) {
			stagger = rnd.Range(1, 300)
		}
		wg.Add(1)
		go func() {
			defer wg.Done()
			<-start
			if stagger > 0 {
				time.Sleep(time.Duration(stagger) * time.Microsecond)
			}
			arrived.Add(1)
			panics[i] = vkit.Try(func() { results[i] = get() })
		}()
	}
	close(start)
	done := make(chan struct{})
	go func() { wg.Wait(); close(done) }()
	verdict, dump := vkit.Await(done, awaitOpts)
	witness := func(extra map[string]any) map[string]any {
		m := map[string]any{"result_type_and_kind": tname, "callers": lazyCallers, "f_delay_us": fDelay, "f_calls": calls.Load(), "f_panics": fPanics}
		for k, v := range extra {
			m[k] = v
		}
		return m
	}
	switch verdict {
	case vkit.AwaitStuck:
		c.Violation("lazy-stuck", fmt.Sprintf("Lazy[%s]: a caller never returned: all goroutines parked", tname), witness(map[string]any{"goroutines": dump}))
		return false
	case vkit.AwaitInconclusive:
		r.Inconclusive(fmt.Sprintf("case %s: Lazy callers did not return, goroutines still runnable at the hard limit", c.ID()))
		return false
	}
	outcomes := func() []string {
		var out []string
		for i := range results {
			if panics[i] != nil {
				out = append(out, "panic: "+panics[i].Msg)
			} else {
				out = append(out, desc(any(results[i])))
			}
		}
		return out
	}
	r.Eval(1)
	if n := calls.Load(); n != 1 {
		c.Violation("lazy-f-count", fmt.Sprintf("Lazy[%s]: f ran %d times for %d concurrent first calls (want exactly once); callers got %s", tname, n, lazyCallers, summarize(outcomes())),
			witness(map[string]any{"outcomes": outcomes()}))
		return true
	}
	samePanic := true
	check := func(i int, v T, p *vkit.Panic, when string) bool {
		r.Eval(1)
		if fPanics {
			// not judged: recorded
			if p == nil || p.Msg != "lazy-f-panic-1" {
				samePanic = false
			}
			return true
		}
		if p != nil {
			c.Violation("lazy-panic", fmt.Sprintf("Lazy[%s]: %s call %d panicked although f returned %s: %s", tname, when, i, desc(any(first)), p.Msg), witness(map[string]any{"outcomes": outcomes()}))
			return false
		}
		if v != first {
			c.Violation("lazy-result", fmt.Sprintf("Lazy[%s]: %s call %d returned %s, f returned %s", tname, when, i, desc(any(v)), desc(any(first))), witness(map[string]any{"outcomes": outcomes()}))
			return false
		}
		return true
	}
	for i := range results {
		if !check(i, results[i], panics[i], "concurrent first") {
			return true
		}
	}
	// later calls: some sequential, some concurrent
	for i := 0; i < 3; i++ {
		var v T
		p := vkit.Try(func() { v = get() })
		if !check(i, v, p, "later") {
			return true
		}
	}
	late := make([]T, 4)
	latePanics := make([]*vkit.Panic, 4)
	var wg2 sync.WaitGroup
	for i := range late {
		i := i
		wg2.Add(1)
		go func() { defer wg2.Done(); latePanics[i] = vkit.Try(func() { late[i] = get() }) }()
	}
	wg2.Wait()
	for i := range late {
		if !check(i, late[i], latePanics[i], "later concurrent") {
			return true
		}
	}
	r.Eval(1)
	if n := calls.Load(); n != 1 {
		c.Violation("lazy-f-count", fmt.Sprintf("Lazy[%s]: f had run %d times after the later calls (want exactly once)", tname, n), witness(nil))
		return true
	}
	r.Count("lazy", "rounds", 1)
	r.Count("lazy-variants", tname, 1)
	if fPanics {
		r.Count("lazy-outside-statement", map[bool]string{true: "f panics: every caller gets the same panic again (recorded, not judged)", false: "f panics: callers got differing outcomes (recorded, not judged)"}[samePanic], 1)
	}
	if arrivedAtExit > arrivedAtEntry {
		r.Count("lazy", "rounds with callers arriving while f ran", 1)
	}
	r.Max("lazy", "callers that had arrived before f returned", int(arrivedAtExit))
	r.Distinct(fmt.Sprintf("l:%s:%d:%d", tname, fDelay, arrivedAtExit))
	if r.WantSample() && c.Index == 7 {
		r.Sample(map[string]any{"kind": "lazy round", "result_type_and_kind": tname, "callers": lazyCallers, "f_delay_us": fDelay, "f_calls": 1,
			"callers_arrived_when_f_started": arrivedAtEntry, "callers_arrived_when_f_returned": arrivedAtExit, "result": desc(any(first))})
	}
	return true
}
