package main

import (
	"fmt"
	"runtime"
	"sync"
	"sync/atomic"
	"time"

	"github.com/bradenaw/juniper/xsync"

	"verif/vkit"
)

// Lazy: 16 goroutines behind a barrier call the returned function; f ran exactly once, everybody
// got f's result, later calls too.

type cell struct {
	ID int `json:"id"`
}

const lazyCallers = 16

func lazies(r *vkit.Report) {
	n := r.Scale(300, 3000)
	var abort bool
	r.Cases("lazy", n, 1, func(c *vkit.Case) {
		if abort {
			return
		}
		ok := true
		switch c.Index % 3 {
		case 0:
			ok = lazyCase(c, "int64", func(call int64) int64 { return int64(c.Index)*1000 + call })
		case 1:
			ok = lazyCase(c, "string", func(call int64) string { return fmt.Sprintf("lazy-%d-call-%d", c.Index, call) })
		case 2:
			ok = lazyCase(c, "*cell", func(call int64) *cell { return &cell{ID: int(call)} })
		}
		if !ok {
			abort = true
		}
	})
	if abort {
		return
	}
	r.Floor("Lazy barrier rounds", r.Table("lazy", "rounds"), int64(n))
	r.Floor("Lazy rounds in which callers arrived while f was running", r.Table("lazy", "rounds with callers arriving while f ran"), int64(n/4))
}

func lazyCase[T comparable](c *vkit.Case, tname string, mk func(call int64) T) bool {
	r := c.R
	rnd := c.Rand
	var calls, arrived atomic.Int64
	var arrivedAtEntry, arrivedAtExit int64
	// what f does while it runs is fixed before the round (it runs on whichever caller wins)
	fDelay := []int{0, 0, 1, 100, 400, 1500}[rnd.Intn(6)] // microseconds; 1 = yield
	var first T
	get := xsync.Lazy(func() T {
		n := calls.Add(1)
		a := arrived.Load()
		switch {
		case fDelay == 1:
			runtime.Gosched()
		case fDelay > 1:
			time.Sleep(time.Duration(fDelay) * time.Microsecond)
		}
		v := mk(n)
		if n == 1 {
			first = v
			arrivedAtEntry, arrivedAtExit = a, arrived.Load()
		}
		return v
	})
	start := make(chan struct{})
	results := make([]T, lazyCallers)
	panics := make([]*vkit.Panic, lazyCallers)
	var wg sync.WaitGroup
	for i := 0; i < lazyCallers; i++ {
		i := i
		stagger := 0
		if rnd.Bool(0.4) {
			stagger = rnd.Range(1, 300)
		}
		wg.Add(1)
		go func() {
			defer wg.Done()
			<-start
			if stagger > 0 {
				time.Sleep(time.Duration(stagger) * time.Microsecond)
			}
			arrived.Add(1)
			panics[i] = vkit.Try(func() { results[i] = get() })
		}()
	}
	close(start)
	done := make(chan struct{})
	go func() { wg.Wait(); close(done) }()
	verdict, dump := vkit.Await(done, awaitOpts)
	witness := func(extra map[string]any) map[string]any {
		m := map[string]any{"type": tname, "callers": lazyCallers, "f_delay_us": fDelay, "f_calls": calls.Load()}
		for k, v := range extra {
			m[k] = v
		}
		return m
	}
	switch verdict {
	case vkit.AwaitStuck:
		c.Violation("lazy-stuck", fmt.Sprintf("Lazy[%s]: a caller never returned: all goroutines parked", tname), witness(map[string]any{"goroutines": dump}))
		return false
	case vkit.AwaitInconclusive:
		r.Inconclusive(fmt.Sprintf("case %s: Lazy callers did not return, goroutines still runnable at the hard limit", c.ID()))
		return false
	}
	r.Eval(1)
	if n := calls.Load(); n != 1 {
		c.Violation("lazy-f-count", fmt.Sprintf("Lazy[%s]: f ran %d times for %d concurrent first calls (want exactly once)", tname, n, lazyCallers), witness(nil))
		return true
	}
	check := func(i int, v T, p *vkit.Panic, when string) bool {
		r.Eval(1)
		if p != nil {
			c.Violation("lazy-panic", fmt.Sprintf("Lazy[%s]: %s call %d panicked: %s", tname, when, i, p.Msg), witness(nil))
			return false
		}
		if v != first {
			c.Violation("lazy-result", fmt.Sprintf("Lazy[%s]: %s call %d returned %v, f returned %v", tname, when, i, v, first), witness(map[string]any{"results": fmt.Sprint(results)}))
			return false
		}
		return true
	}
	for i := range results {
		if !check(i, results[i], panics[i], "concurrent first") {
			return true
		}
	}
	// later calls: some sequential, some concurrent
	for i := 0; i < 3; i++ {
		var v T
		p := vkit.Try(func() { v = get() })
		if !check(i, v, p, "later") {
			return true
		}
	}
	late := make([]T, 4)
	latePanics := make([]*vkit.Panic, 4)
	var wg2 sync.WaitGroup
	for i := range late {
		i := i
		wg2.Add(1)
		go func() { defer wg2.Done(); latePanics[i] = vkit.Try(func() { late[i] = get() }) }()
	}
	wg2.Wait()
	for i := range late {
		if !check(i, late[i], latePanics[i], "later concurrent") {
			return true
		}
	}
	r.Eval(1)
	if n := calls.Load(); n != 1 {
		c.Violation("lazy-f-count", fmt.Sprintf("Lazy[%s]: f ran %d times after later calls (want exactly once)", tname, n), witness(nil))
		return true
	}
	r.Count("lazy", "rounds", 1)
	if arrivedAtExit > arrivedAtEntry {
		r.Count("lazy", "rounds with callers arriving while f ran", 1)
	}
	r.Max("lazy", "callers that had arrived before f returned", int(arrivedAtExit))
	r.Distinct(fmt.Sprintf("l:%s:%d:%d", tname, fDelay, arrivedAtExit))
	if r.WantSample() && c.Index == 4 {
		r.Sample(map[string]any{"kind": "lazy round", "type": tname, "callers": lazyCallers, "f_delay_us": fDelay, "f_calls": 1,
			"callers_arrived_when_f_started": arrivedAtEntry, "callers_arrived_when_f_returned": arrivedAtExit, "result": fmt.Sprint(first)})
	}
	return true
}
