package main

import (
	"fmt"
	"math"
	"sort"
	"strconv"
	"strings"
	"sync"
	"sync/atomic"

	"github.com/bradenaw/juniper/xsync"

	"verif/vkit"
)

// xsync.Map[int,V] against sync.Map: the same operation applied to both, outcome = results or
// "panicked" (vkit.Try on both), results compared with "absent => zero V".

// Value kinds used for the interface-typed instantiations.
type perr struct{ key, id int } // used by pointer: comparable by identity

func (e *perr) Error() string { return fmt.Sprintf("perr(%d,%d)", e.key, e.id) }

type verr struct{ code int } // comparable struct

func (e verr) Error() string { return fmt.Sprintf("verr(%d)", e.code) }

type serr struct{ tags []string } // NOT comparable: == on two of these panics at run time

func (e serr) Error() string { return "serr" + strings.Join(e.tags, ",") }

// fs is a comparable struct for which == does not imply identical bits.
type fs struct {
	f float64
	n int
}

var negZero = math.Copysign(0, -1)

// desc renders a value (as sync.Map sees it: an interface value) canonically.
func desc(x any) string {
	switch v := x.(type) {
	case nil:
		return "nil"
	case int:
		return "int:" + strconv.Itoa(v)
	case string:
		return "string:" + strconv.Quote(v)
	case float64:
		// bit-exact: +0 and -0 are == but not the same value, NaN is not == to itself
		return fmt.Sprintf("float64:%v[%#x]", v, math.Float64bits(v))
	case fs:
		return fmt.Sprintf("fs{%v[%#x],%d}", v.f, math.Float64bits(v.f), v.n)
	case *cell:
		if v == nil {
			return "*cell:nil"
		}
		return fmt.Sprintf("*cell#%d@%p", v.ID, v)
	case *perr:
		if v == nil {
			return "*perr:nil"
		}
		return fmt.Sprintf("*perr(%d,%d)@%p", v.key, v.id, v)
	case verr:
		return fmt.Sprintf("verr{%d}", v.code)
	case serr:
		return fmt.Sprintf("serr{%s}", strings.Join(v.tags, ","))
	case []int:
		return fmt.Sprintf("[]int%v", v)
	case *sk:
		if v == nil {
			return "*sk:nil"
		}
		return fmt.Sprintf("*sk#%d", v.id)
	case sv:
		return fmt.Sprintf("sv{%d}", v.id)
	case snc:
		return fmt.Sprintf("snc%v", v.ids)
	}
	return fmt.Sprintf("%T:%v", x, x)
}

// descOrZero is the expectation derived from sync.Map's answer: the stored value, or the zero V
// when sync.Map reports the key absent.
func descOrZero[V any](x any, present bool) string {
	if !present {
		var zero V
		return desc(any(zero))
	}
	return desc(x)
}

const (
	opLoad = iota
	opStore
	opLoadOrStore
	opLoadAndDelete
	opDelete
	opSwap
	opCAS
	opCAD
	opRange
	opRangeStop
	nMapOps
)

var opNames = [...]string{"Load", "Store", "LoadOrStore", "LoadAndDelete", "Delete", "Swap", "CompareAndSwap", "CompareAndDelete", "Range", "Range(stop)"}

type mop struct {
	Kind int
	Key  int
	A, B int // indices into the value pool
}

func describeOp[K comparable, V any](op mop, keys []K, pool []V) string {
	key := desc(any(keys[op.Key%len(keys)]))
	switch op.Kind {
	case opLoad, opLoadAndDelete, opDelete:
		return fmt.Sprintf("%s(%s)", opNames[op.Kind], key)
	case opStore, opLoadOrStore, opSwap, opCAD:
		return fmt.Sprintf("%s(%s, %s)", opNames[op.Kind], key, desc(any(pool[op.A])))
	case opCAS:
		return fmt.Sprintf("%s(%s, %s, %s)", opNames[op.Kind], key, desc(any(pool[op.A])), desc(any(pool[op.B])))
	case opRange:
		return "Range(all)"
	}
	return fmt.Sprintf("Range(stop after %d)", op.A)
}

func rangeOutcome(pairs []string, stopAfter int, full bool) string {
	if full {
		sort.Strings(pairs)
		return "{" + strings.Join(pairs, " ") + "}"
	}
	// the order of Range is unspecified: for an early stop only the number of calls is compared
	// (each visited pair is checked against the contents separately)
	return fmt.Sprintf("f called %d times", len(pairs))
}

// applyX applies op to the typed map. visited = pairs seen by a Range.
func applyX[K comparable, V any](m *xsync.Map[K, V], op mop, keys []K, pool []V) (out string, p *vkit.Panic, visited []string) {
	key := keys[op.Key%len(keys)]
	p = vkit.Try(func() {
		switch op.Kind {
		case opLoad:
			v, ok := m.Load(key)
			out = fmt.Sprintf("(%s, %v)", desc(any(v)), ok)
		case opStore:
			m.Store(key, pool[op.A])
			out = "()"
		case opLoadOrStore:
			v, loaded := m.LoadOrStore(key, pool[op.A])
			out = fmt.Sprintf("(%s, %v)", desc(any(v)), loaded)
		case opLoadAndDelete:
			v, loaded := m.LoadAndDelete(key)
			out = fmt.Sprintf("(%s, %v)", desc(any(v)), loaded)
		case opDelete:
			m.Delete(key)
			out = "()"
		case opSwap:
			v, loaded := m.Swap(key, pool[op.A])
			out = fmt.Sprintf("(%s, %v)", desc(any(v)), loaded)
		case opCAS:
			out = fmt.Sprintf("(%v)", m.CompareAndSwap(key, pool[op.A], pool[op.B]))
		case opCAD:
			out = fmt.Sprintf("(%v)", m.CompareAndDelete(key, pool[op.A]))
		case opRange, opRangeStop:
			m.Range(func(k K, v V) bool {
				visited = append(visited, fmt.Sprintf("%s=%s", desc(any(k)), desc(any(v))))
				return op.Kind == opRange || len(visited) < op.A
			})
			out = rangeOutcome(visited, op.A, op.Kind == opRange)
		}
	})
	return out, p, visited
}

// applyR applies the same op to a plain sync.Map holding the same values as interface values.
func applyR[K comparable, V any](m *sync.Map, op mop, keys []K, pool []V) (out string, p *vkit.Panic, visited []string) {
	key := keys[op.Key%len(keys)]
	p = vkit.Try(func() {
		switch op.Kind {
		case opLoad:
			v, ok := m.Load(key)
			out = fmt.Sprintf("(%s, %v)", descOrZero[V](v, ok), ok)
		case opStore:
			m.Store(key, pool[op.A])
			out = "()"
		case opLoadOrStore:
			v, loaded := m.LoadOrStore(key, pool[op.A])
			out = fmt.Sprintf("(%s, %v)", desc(v), loaded)
		case opLoadAndDelete:
			v, loaded := m.LoadAndDelete(key)
			out = fmt.Sprintf("(%s, %v)", descOrZero[V](v, loaded), loaded)
		case opDelete:
			m.Delete(key)
			out = "()"
		case opSwap:
			v, loaded := m.Swap(key, pool[op.A])
			out = fmt.Sprintf("(%s, %v)", descOrZero[V](v, loaded), loaded)
		case opCAS:
			out = fmt.Sprintf("(%v)", m.CompareAndSwap(key, pool[op.A], pool[op.B]))
		case opCAD:
			out = fmt.Sprintf("(%v)", m.CompareAndDelete(key, pool[op.A]))
		case opRange, opRangeStop:
			m.Range(func(k, v any) bool {
				visited = append(visited, fmt.Sprintf("%s=%s", desc(k), desc(v)))
				return op.Kind == opRange || len(visited) < op.A
			})
			out = rangeOutcome(visited, op.A, op.Kind == opRange)
		}
	})
	return out, p, visited
}

func outcome(out string, p *vkit.Panic) string {
	if p != nil {
		return "panicked"
	}
	return out
}

// pairMaps is one xsync.Map and its sync.Map twin.
type pairMaps[K comparable, V any] struct {
	name string // "K,V"
	keys []K
	pool []V
	x    xsync.Map[K, V]
	ref  sync.Map
	log  []string
}

// step applies op to both, compares the outcomes and then the contents (Load of every key on
// both). It returns the violation text ("" if none) and the set of present keys.
func (pm *pairMaps[K, V]) step(r *vkit.Report, op mop) (sig, what string, present []bool) {
	present = make([]bool, len(pm.keys))
	ox, px, vx := applyX(&pm.x, op, pm.keys, pm.pool)
	or, pr, _ := applyR(&pm.ref, op, pm.keys, pm.pool)
	d := describeOp(op, pm.keys, pm.pool)
	pm.log = append(pm.log, fmt.Sprintf("%s -> xsync %s | sync %s", d, outcome(ox, px), outcome(or, pr)))
	r.Eval(1)
	if outcome(ox, px) != outcome(or, pr) {
		msg := ""
		if px != nil {
			msg = " (panic: " + px.Msg + ")"
		}
		if pr != nil {
			msg += " (sync.Map panic: " + pr.Msg + ")"
		}
		return "map-" + opNames[op.Kind] + "-differs", fmt.Sprintf("xsync.Map[%s].%s gave %s%s, sync.Map gives %s", pm.name, d, outcome(ox, px), msg, outcome(or, pr)), present
	}
	if px != nil {
		r.Count("map", "ops on which both sync.Map and xsync.Map panic (non-comparable old value or key)", 1)
	}
	// contents
	for k := range pm.keys {
		lop := mop{Kind: opLoad, Key: k}
		lx, lpx, _ := applyX(&pm.x, lop, pm.keys, pm.pool)
		lr, lpr, _ := applyR(&pm.ref, lop, pm.keys, pm.pool)
		r.Eval(1)
		if outcome(lx, lpx) != outcome(lr, lpr) {
			msg := ""
			if lpx != nil {
				msg = " (panic: " + lpx.Msg + ")"
			}
			return "map-state-differs", fmt.Sprintf("after %s on xsync.Map[%s]: Load(%s) gives %s%s, sync.Map gives %s", d, pm.name, desc(any(pm.keys[k])), outcome(lx, lpx), msg, outcome(lr, lpr)), present
		}
		if strings.HasSuffix(lr, ", true)") {
			present[k] = true
		}
	}
	// the same contents through Range on both (bit-exact rendering of the values)
	rx, rpx, _ := applyX(&pm.x, mop{Kind: opRange}, pm.keys, pm.pool)
	rr, rpr, all := applyR(&pm.ref, mop{Kind: opRange}, pm.keys, pm.pool)
	r.Eval(1)
	if outcome(rx, rpx) != outcome(rr, rpr) {
		return "map-state-differs", fmt.Sprintf("after %s on xsync.Map[%s]: Range gives %s, sync.Map's Range gives %s", d, pm.name, outcome(rx, rpx), outcome(rr, rpr)), present
	}
	// a Range that stopped early: every pair it visited is in the map (as it was before the op,
	// which a Range does not change)
	if op.Kind == opRangeStop && px == nil {
		for _, pair := range vx {
			found := false
			for _, cpair := range all {
				if pair == cpair {
					found = true
				}
			}
			if !found {
				return "map-Range-phantom", fmt.Sprintf("xsync.Map[%s].Range visited %s which is not in the map %v", pm.name, pair, all), present
			}
		}
	}
	return "", "", present
}

type vrunner interface {
	vname() string
	script(c *vkit.Case, method int)
	random(c *vkit.Case)
}

type vrun[K comparable, V any] struct {
	name string // cell name: the value type, or "K=<key type>" for the interface-key instantiations
	kv   string // "K,V" for messages
	keys []K
	pool []V // pool[0] is the zero value
	// script: indices of the keys that take the role of the key under test, and of findable
	// bystander keys; unfindable: indices of keys no Load can ever find (NaN) or that cannot be
	// hashed at all (a slice inside an interface: every keyed method panics, in both maps)
	mainKeys   []int
	auxKeys    []int
	unfindable map[int]bool
}

func (v vrun[K, V]) vname() string { return v.name }

func intKeys[V any](name string, pool []V) vrun[int, V] {
	return vrun[int, V]{name: name, kv: "int," + name, keys: []int{0, 1, 2, 3, 4}, pool: pool, mainKeys: []int{1}, auxKeys: []int{3, 2}}
}

// stringer keys
type sk struct{ id int }

func (s *sk) String() string { return fmt.Sprintf("sk%d", s.id) }

type sv struct{ id int }

func (s sv) String() string { return fmt.Sprintf("sv%d", s.id) }

type snc struct{ ids []int } // not comparable

func (s snc) String() string { return "snc" }

var (
	cellA, cellB = &cell{ID: 1}, &cell{ID: 2}
	perrA, perrB = &perr{0, 1}, &perr{0, 2}
	skA          = &sk{1}
	vrunners     = []vrunner{
		intKeys[int]("int", []int{0, 1, 2, 7}),
		intKeys[string]("string", []string{"", "a", "b"}),
		intKeys[*cell]("*cell", []*cell{nil, cellA, cellB}),
		intKeys[error]("error", []error{nil, perrA, perrB, verr{1}, verr{2}, serr{[]string{"x"}}, serr{[]string{"y"}}}),
		intKeys[any]("any", []any{nil, 0, 7, "", "s", cellA, (*cell)(nil), []int{1}, []int{2}, verr{1}, 0.0, negZero, math.NaN(), fs{negZero, 0}, fs{0, 0}}),
		intKeys[float64]("float64", []float64{0, negZero, 1.5, math.NaN()}),
		intKeys[fs]("struct{float64;int}", []fs{{0, 0}, {negZero, 0}, {1.5, 1}, {math.NaN(), 2}, {0, 1}}),
		vrun[any, int]{name: "K=any", kv: "any,int", pool: []int{0, 1, 2},
			keys:     []any{7, nil, "a", 1.5, cellA, (*cell)(nil), verr{1}, fs{0, 1}, "", 0.0, negZero, math.NaN(), []int{1}},
			mainKeys: []int{0, 1, 2, 3, 4, 5, 6, 7, 8, 9, 10, 11, 12}, auxKeys: []int{0, 1, 2}, unfindable: map[int]bool{11: true, 12: true}},
		vrun[fmt.Stringer, string]{name: "K=fmt.Stringer", kv: "fmt.Stringer,string", pool: []string{"", "a", "b"},
			keys:     []fmt.Stringer{skA, nil, sv{1}, (*sk)(nil), sv{2}, snc{[]int{1}}},
			mainKeys: []int{0, 1, 2, 3, 4, 5}, auxKeys: []int{0, 1, 2}, unfindable: map[int]bool{5: true}},
	}
)

func stateName(present bool) string {
	if present {
		return "present"
	}
	return "absent"
}

// script: complete single-operation scope for one (V, method): every key state (absent in an
// empty map, absent in a non-empty map, present with each pool value incl. the zero value / a
// stored nil) x every argument tuple from the pool.
func (v vrun[K, V]) script(c *vkit.Case, method int) {
	for _, mainKey := range v.mainKeys {
		if !v.scriptKey(c, method, mainKey) {
			return
		}
	}
}

// scriptKey runs the single-operation scope with key index mainKey as the key under test.
func (v vrun[K, V]) scriptKey(c *vkit.Case, method int, mainKey int) bool {
	r := c.R
	P := len(v.pool)
	argsA, argsB := 1, 1
	switch method {
	case opStore, opLoadOrStore, opSwap, opCAD:
		argsA = P
	case opCAS:
		argsA, argsB = P, P
	case opRangeStop:
		argsA = 2 // stop after 1, stop after 2
	}
	for state := -2; state < P; state++ {
		for a := 0; a < argsA; a++ {
			for b := 0; b < argsB; b++ {
				pm := &pairMaps[K, V]{name: v.kv, keys: v.keys, pool: v.pool}
				var aux []int
				for _, k := range v.auxKeys {
					if k != mainKey {
						aux = append(aux, k)
					}
				}
				// set-up goes through the same differential step (Store is itself under test)
				var setup []mop
				if state >= -1 {
					setup = append(setup, mop{Kind: opStore, Key: aux[0], A: 1})
				}
				if state >= 0 {
					setup = append(setup, mop{Kind: opStore, Key: mainKey, A: state})
					if method == opRange || method == opRangeStop {
						setup = append(setup, mop{Kind: opStore, Key: aux[1], A: (state + 1) % P})
					}
				}
				op := mop{Kind: method, Key: mainKey, A: a, B: b}
				if method == opRangeStop {
					op.A = a + 1
				}
				for _, o := range append(setup, op) {
					if sig, what, _ := pm.step(r, o); sig != "" {
						c.Violation(sig, what, map[string]any{"K,V": v.kv, "ops": pm.log})
						return false
					}
				}
				if v.unfindable[mainKey] {
					r.Count("map", "single-op cases on a key that cannot be found (NaN) or hashed (slice in an interface): both maps agree", 1)
					continue
				}
				cellState := stateName(state >= 0)
				if method == opRange || method == opRangeStop {
					cellState = map[bool]string{true: "non-empty", false: "empty"}[state >= -1]
				}
				r.Count("map-cells", v.name+" / "+opNames[method]+" / "+cellState, 1)
				if method == opSwap && state < 0 {
					r.Count("regression", "D12: Swap on an absent key", 1)
				}
				var zero V
				if state == 0 && any(zero) == nil && method != opStore && method != opDelete && method != opCAS && method != opCAD {
					r.Count("regression", "D13: stored nil interface value read back by "+opNames[method], 1)
				}
				r.Distinct(fmt.Sprintf("ms:%s:%d:%d:%d:%d:%d", v.name, method, mainKey, state, a, b))
				var zk K
				if any(zk) == nil && any(v.keys[mainKey]) == nil && state >= 0 && (method == opRange || method == opRangeStop) {
					r.Count("regression", "nil key of an interface key type visited by Range", 1)
				}
			}
		}
	}
	return true
}

func (v vrun[K, V]) random(c *vkit.Case) {
	r := c.R
	rnd := c.Rand
	pm := &pairMaps[K, V]{name: v.kv, keys: v.keys, pool: v.pool}
	n := rnd.Range(10, 60)
	present := make([]bool, len(v.keys))
	sawAbsent, sawPresent := false, false
	var seq strings.Builder
	for i := 0; i < n; i++ {
		op := mop{Kind: rnd.Intn(nMapOps), A: rnd.Intn(len(v.pool)), B: rnd.Intn(len(v.pool))}
		// aim at a present or an absent key on purpose
		var in, out []int
		for k, p := range present {
			if p {
				in = append(in, k)
			} else {
				out = append(out, k)
			}
		}
		wantPresent := rnd.Bool(0.55)
		switch {
		case wantPresent && len(in) > 0:
			op.Key = vkit.Pick(rnd, in)
		case !wantPresent && len(out) > 0:
			op.Key = vkit.Pick(rnd, out)
		default:
			op.Key = rnd.Intn(len(v.keys))
		}
		if op.Kind == opCAS || op.Kind == opCAD {
			// half of the time compare with what is really stored... by pool index we cannot know
			// it, so draw old from a small prefix to make hits likely
			if rnd.Bool(0.5) {
				op.A = rnd.Intn(2)
			}
		}
		if op.Kind == opRangeStop {
			op.A = rnd.Range(1, 3)
		}
		st := stateName(present[op.Key])
		if op.Kind == opRange || op.Kind == opRangeStop {
			st = map[bool]string{true: "non-empty", false: "empty"}[len(in) > 0]
		} else if present[op.Key] {
			sawPresent = true
		} else {
			sawAbsent = true
		}
		fmt.Fprintf(&seq, "%d.%d.%d.%d;", op.Kind, op.Key, op.A, op.B)
		sig, what, now := pm.step(r, op)
		if sig != "" {
			c.Violation(sig, what, map[string]any{"K,V": v.kv, "ops": pm.log})
			return
		}
		present = now
		r.Count("map-cells", v.name+" / "+opNames[op.Kind]+" / "+st, 1)
		r.Count("map-ops", opNames[op.Kind], 1)
	}
	// final contents through Range on both
	if sig, what, _ := pm.step(r, mop{Kind: opRange}); sig != "" {
		c.Violation(sig, what, map[string]any{"K,V": v.kv, "ops": pm.log})
		return
	}
	if sawAbsent && sawPresent {
		r.Distinct("mr:" + v.name + ":" + seq.String())
	}
	if r.WantSample() && c.Index == 3 {
		r.Sample(map[string]any{"kind": "map op list", "K,V": v.kv, "ops (op -> xsync outcome | sync.Map outcome)": pm.log})
	}
}

func mapScript(r *vkit.Report) {
	n := len(vrunners) * nMapOps
	r.Cases("map-script", n, 1, func(c *vkit.Case) {
		vrunners[c.Index/nMapOps].script(c, c.Index%nMapOps)
	})
	cells := 0
	for _, v := range vrunners {
		for m := 0; m < nMapOps; m++ {
			for _, st := range []string{"absent", "present"} {
				if m == opRange || m == opRangeStop {
					st = map[string]string{"absent": "empty", "present": "non-empty"}[st]
				}
				if r.Table("map-cells", v.vname()+" / "+opNames[m]+" / "+st) > 0 {
					cells++
				}
			}
		}
	}
	r.Floor("(V, method, key state) cells exercised", int64(cells), int64(len(vrunners)*nMapOps*2))
	r.Floor("regression: nil key of an interface key type visited by Range", r.Table("regression", "nil key of an interface key type visited by Range"), 4)
	r.Floor("D12 regression: Swap on an absent key", r.Table("regression", "D12: Swap on an absent key"), 5)
	for _, m := range []int{opLoad, opLoadAndDelete, opLoadOrStore, opRange, opSwap} {
		r.Floor("D13 regression: stored nil read back by "+opNames[m], r.Table("regression", "D13: stored nil interface value read back by "+opNames[m]), 2)
	}
}

func mapRandom(r *vkit.Report) {
	n := r.Scale(1500, 10000)
	r.Cases("map-random", n, 4, func(c *vkit.Case) {
		vrunners[c.Index%len(vrunners)].random(c)
	})
	r.Floor("random map op lists", r.Table("map-ops", "Load")+r.Table("map-ops", "Swap"), int64(n))
}

// ---------------------------------------------------------------------------------------------
// Concurrent smoke workload: goroutines working on disjoint keys, each checking every result
// against its own per-key sequential expectation, while readers Range over the whole map.

func mapSmoke(r *vkit.Report) {
	n := r.Scale(12, 60)
	var abort bool
	r.Cases("map-smoke", n, 1, func(c *vkit.Case) {
		if abort {
			return
		}
		ok := true
		if c.Index%2 == 0 {
			ok = mapSmokeCase(c, "int",
				func(key, seq int) int { return key<<20 | seq },
				func(key int, v int) bool { return v>>20 == key })
		} else {
			ok = mapSmokeCase(c, "error",
				func(key, seq int) error {
					if seq%5 == 0 {
						return nil
					}
					return &perr{key, seq}
				},
				func(key int, v error) bool {
					if v == nil {
						return true
					}
					p, ok := v.(*perr)
					return ok && p.key == key
				})
		}
		if !ok {
			abort = true
		}
	})
	if abort {
		return
	}
	r.Floor("concurrent map smoke ops", r.Table("map-smoke", "ops checked"), int64(n*1000))
}

func mapSmokeCase[V comparable](c *vkit.Case, vname string, mk func(key, seq int) V, belongs func(key int, v V) bool) bool {
	r := c.R
	const G, keysPer = 8, 6
	nOps := r.Scale(400, 1500)
	var m xsync.Map[int, V]
	var wg sync.WaitGroup
	var mu sync.Mutex
	var firstSig, firstWhat string
	var stop atomic.Bool
	fail := func(sig, what string) {
		mu.Lock()
		if firstSig == "" {
			firstSig, firstWhat = sig, what
		}
		mu.Unlock()
		stop.Store(true)
	}
	var opsDone atomic.Int64
	for g := 0; g < G; g++ {
		g := g
		rnd := c.Rand.Split()
		wg.Add(1)
		go func() {
			defer wg.Done()
			type slot struct {
				v       V
				present bool
			}
			model := make([]slot, keysPer)
			var zero V
			seq := 0
			for i := 0; i < nOps && !stop.Load(); i++ {
				ki := rnd.Intn(keysPer)
				key := g*100 + ki
				s := &model[ki]
				seq++
				nv := mk(key, seq)
				kind := rnd.Intn(8)
				var got, want string
				p := vkit.Try(func() {
					switch kind {
					case opLoad:
						v, ok := m.Load(key)
						got = fmt.Sprint(desc(any(v)), ok)
						want = fmt.Sprint(desc(any(s.v)), s.present)
					case opStore:
						m.Store(key, nv)
						s.v, s.present = nv, true
					case opLoadOrStore:
						v, loaded := m.LoadOrStore(key, nv)
						got = fmt.Sprint(desc(any(v)), loaded)
						if s.present {
							want = fmt.Sprint(desc(any(s.v)), true)
						} else {
							want = fmt.Sprint(desc(any(nv)), false)
							s.v, s.present = nv, true
						}
					case opLoadAndDelete:
						v, loaded := m.LoadAndDelete(key)
						got = fmt.Sprint(desc(any(v)), loaded)
						want = fmt.Sprint(desc(any(s.v)), s.present)
						s.v, s.present = zero, false
					case opDelete:
						m.Delete(key)
						s.v, s.present = zero, false
					case opSwap:
						v, loaded := m.Swap(key, nv)
						got = fmt.Sprint(desc(any(v)), loaded)
						want = fmt.Sprint(desc(any(s.v)), s.present)
						s.v, s.present = nv, true
					case opCAS:
						old := s.v
						hit := s.present
						if rnd.Bool(0.3) {
							old, hit = mk(key, (seq+100000)*5+1), false
						}
						got = fmt.Sprint(m.CompareAndSwap(key, old, nv))
						want = fmt.Sprint(hit)
						if hit {
							s.v = nv
						}
					case opCAD:
						old := s.v
						hit := s.present
						if rnd.Bool(0.3) {
							old, hit = mk(key, (seq+100000)*5+1), false
						}
						got = fmt.Sprint(m.CompareAndDelete(key, old))
						want = fmt.Sprint(hit)
						if hit {
							s.v, s.present = zero, false
						}
					}
				})
				r.Eval(1)
				opsDone.Add(1)
				if p != nil {
					fail("map-smoke-panic", fmt.Sprintf("concurrent workload on xsync.Map[int,%s]: %s(%d) panicked: %s", vname, opNames[kind], key, p.Msg))
					return
				}
				if got != want {
					fail("map-smoke-result", fmt.Sprintf("concurrent workload on xsync.Map[int,%s] (goroutines own disjoint keys): %s(%d) returned %s, the key's own history implies %s", vname, opNames[kind], key, got, want))
					return
				}
			}
		}()
	}
	// readers
	var writersDone atomic.Bool
	var rwg sync.WaitGroup
	var ranged atomic.Int64
	for i := 0; i < 2; i++ {
		rwg.Add(1)
		go func() {
			defer rwg.Done()
			for !writersDone.Load() && !stop.Load() {
				p := vkit.Try(func() {
					m.Range(func(k int, v V) bool {
						ranged.Add(1)
						if !belongs(k, v) {
							fail("map-smoke-range", fmt.Sprintf("concurrent Range over xsync.Map[int,%s] visited key %d with value %s, which was never stored under that key", vname, k, desc(any(v))))
							return false
						}
						return true
					})
				})
				if p != nil {
					fail("map-smoke-panic", fmt.Sprintf("concurrent Range over xsync.Map[int,%s] panicked: %s", vname, p.Msg))
					return
				}
			}
		}()
	}
	done := make(chan struct{})
	go func() { wg.Wait(); writersDone.Store(true); rwg.Wait(); close(done) }()
	verdict, dump := vkit.Await(done, awaitOpts)
	switch verdict {
	case vkit.AwaitStuck:
		c.Violation("map-smoke-stuck", "concurrent workload on xsync.Map never finished: all goroutines parked", map[string]any{"goroutines": dump})
		return false
	case vkit.AwaitInconclusive:
		r.Inconclusive(fmt.Sprintf("case %s: concurrent map workload did not finish, goroutines still runnable at the hard limit", c.ID()))
		return false
	}
	if firstSig != "" {
		c.Violation(firstSig, firstWhat, map[string]any{"V": vname, "goroutines": G, "keys_per_goroutine": keysPer})
		return true
	}
	r.Count("map-smoke", "ops checked", int(opsDone.Load()))
	r.Count("map-smoke", "pairs visited by concurrent Range", int(ranged.Load()))
	r.Distinct(fmt.Sprintf("msm:%s:%d", vname, c.Index))
	return true
}
