// C18 — Watchable / Future / Lazy / xsync.Map: latest value always seen, typed map = sync.Map.
//
// Oracles (files of this directory):
//
//	main.go    Watchable: sequential model rules; concurrent histories (Set / Value operations with
//	           call and return ticks of one logical clock, taken at the client boundary) checked for
//	           linearizability against a one-register model with porcupine; channel rules; every
//	           observer loop reaches the final value (goroutine-dump quiescence verdict). The pause
//	           points "watchable.value.unset" and "watchable.set.swapped" hold a seeded subset of
//	           Value / Set calls inside their windows.
//	future.go  Future: waiters before / during / after Fill, Wait and WaitContext, give-up decided
//	           by the quiescence verdict; second Fill panics.
//	lazy.go    Lazy: 16 goroutines behind a barrier, f ran once, one result for everybody.
//	xmap.go    xsync.Map against sync.Map: exhaustive single-operation scope, random sequences,
//	           concurrent disjoint-key smoke workload.
//
// Built with -race in the "race" variants (race reports become violations through vkit).
package main

import (
	"fmt"
	"runtime"
	"sort"
	"strings"
	"sync"
	"sync/atomic"
	"time"

	"github.com/anishathalye/porcupine"
	"github.com/bradenaw/juniper/xsync"

	"verif/vkit"
)

func main() {
	vkit.Main("C18", "exploration", func(r *vkit.Report) {
		r.SetRule("case = one Watchable history (sequential op list, or concurrent: 0-3 setters with unique values, 1-3 observers running the documented loop, 0-2 pollers, " +
			"pause points held for a seeded subset of arrivals), one batch of 10000 three-party phase-sweep rounds on fresh Watchables (two Values and a Set, also on a never-Set Watchable, or one Value and two Sets, released together with swept spins; channels judged once all three calls have returned), one batch of 10000 three-party sweep rounds on fresh Futures ({Wait|WaitContext, Wait|WaitContext, Fill}) or on fresh Lazies (three first calls, f taking a swept spin), one Future scenario (waiters before / during / after Fill, Wait and WaitContext with live, cancelled and expiring contexts), " +
			"one Lazy barrier round (result type int64, string, *T, struct{}, error, any or a method interface; result distinct per call of f, the zero value, nil, non-nil, a typed nil pointer inside the interface, or f panics), one dependent-Lazy scenario (a Lazy whose function first-calls another with 0..40 others created in between in both creation orders; chains of 2..48; two unrelated Lazies first-called concurrently, one function waiting for the other's delivery), one concurrent xsync.Map history (1-2 keys, 3-4 goroutines, 6-10 ops each, checked for per-key linearizability with porcupine), one batch of map invariant sweep rounds, or one xsync.Map operation list applied to xsync.Map[int,V] and sync.Map (V in int, string, *T, error, any, float64 with +0/-0/NaN, struct{float64;int}; also interface key types K = any and K = fmt.Stringer with nil, typed-nil, NaN and non-comparable dynamic keys; contents compared bit-exactly through Load and Range after every op). " +
			"Evaluation = one oracle comparison (one op against the sequential model, one history against the register model, one channel-rule sweep, one waiter result, one map op outcome or state comparison). " +
			"non-trivial = Watchable history with >= 2 Sets in which a Value overlapped a Set in logical time; sweep round in which the two Values returned different values (distinct by variant and spin triple); Future scenario with waiters before and after Fill; Lazy round; " +
			"map op list that touched an absent and a present key, and each (V, method, key state, arguments) cell of the single-operation scope. distinct = by interleaving signature (return-tick ordered (client, op, value) sequence) for concurrent histories, " +
			"by (scenario, outcome pattern) for Future, by hash of (V, op list) for the map.")
		r.Assume("Watchable: a channel counts as observed closed only when a receive from it completed at the client; the Set that justifies it only needs to have been INVOKED before that observation")
		r.Assume("Watchable: at quiescence means: every setter has returned and no Set is in flight; the final value is the one a quiescent Value() returns, and that return is itself part of the history checked against the register model")
		r.Assume("Future: WaitContext with a context that is already done on a filled Future may return either the value or ctx.Err(); a second Fill must panic and must leave the value unchanged")
		r.Assume("xsync.Map: compared with sync.Map on outcome = results or panicked; where sync.Map itself panics (CompareAndSwap / CompareAndDelete with a non-comparable old value against a stored value of the same type) xsync.Map must panic too")

		walls := make(map[string]float64)
		timed := func(name string, f func(*vkit.Report)) {
			t := time.Now()
			f(r)
			walls[name] = float64(int(time.Since(t).Seconds()*10)) / 10
		}
		checkerSelfTest(r)
		timed("watchable-seq", watchableSeq)
		timed("watchable-conc", watchableConc)
		timed("watchable-sweep", watchableSweep)
		timed("future", futures)
		timed("future-sweep", futureSweep)
		timed("lazy", lazies)
		timed("lazy-nested", lazyNested)
		timed("lazy-sweep", lazySweep)
		timed("map-script", mapScript)
		timed("map-random", mapRandom)
		timed("map-smoke", mapSmoke)
		timed("map-lin", mapLinear)
		timed("map-sweep", mapSweep)
		r.SetExtra("group_wall_s:"+r.Variant(), walls)
	})
}

// ---------------------------------------------------------------------------------------------
// Watchable, sequential rules

func isClosed(ch chan struct{}) bool {
	if ch == nil {
		return false
	}
	select {
	case <-ch:
		return true
	default:
		return false
	}
}

func watchableSeq(r *vkit.Report) {
	n := r.Scale(400, 4000)
	r.Cases("w-seq", n, 1, func(c *vkit.Case) {
		if c.Index%2 == 0 {
			watchableSeqCase(c, "int64", func(i int) int64 { return int64(i) })
		} else {
			watchableSeqCase(c, "string", func(i int) string {
				if i == 0 {
					return ""
				}
				return fmt.Sprintf("v%d", i)
			})
		}
	})
	r.Floor("sequential Watchable ops compared", r.Table("watchable-seq", "ops"), int64(n))
}

// watchableSeqCase applies a random list of Set / Value calls to a fresh Watchable from one
// goroutine. Model: current value (zero before the first Set) and the number of Sets so far; a
// channel returned by Value after k Sets is open while the count is k and closed afterwards.
func watchableSeqCase[T comparable](c *vkit.Case, tname string, mk func(i int) T) {
	r := c.R
	rnd := c.Rand
	var w xsync.Watchable[T]
	type seen struct {
		ch    chan struct{}
		epoch int
	}
	var cur T
	epoch := 0
	var chans []seen
	var log []string
	nOps := rnd.Range(1, 40)
	pSet := []float64{0.15, 0.4, 0.7}[rnd.Intn(3)]
	bad := func(sig, what string) {
		c.Violation(sig, fmt.Sprintf("Watchable[%s] sequential: %s (ops: %s)", tname, what, strings.Join(log, " ")), map[string]any{"type": tname, "ops": log})
	}
	for i := 0; i < nOps; i++ {
		if rnd.Bool(pSet) {
			// values may repeat: a Set of an equal value is still a later Set
			v := mk(rnd.Intn(6))
			log = append(log, fmt.Sprintf("Set(%v)", v))
			if p := vkit.Try(func() { w.Set(v) }); p != nil {
				bad("seq-panic", "Set panicked: "+p.Msg)
				return
			}
			cur = v
			epoch++
		} else {
			var v T
			var ch chan struct{}
			if p := vkit.Try(func() { v, ch = w.Value() }); p != nil {
				log = append(log, "Value()")
				bad("seq-panic", "Value panicked: "+p.Msg)
				return
			}
			log = append(log, fmt.Sprintf("Value()=%v", v))
			r.Eval(1)
			if v != cur {
				bad("seq-value", fmt.Sprintf("Value returned %v, most recently Set value is %v (after %d Sets)", v, cur, epoch))
				return
			}
			if ch == nil {
				bad("seq-nil-channel", "Value returned a nil channel")
				return
			}
			chans = append(chans, seen{ch, epoch})
			if epoch == 0 {
				r.Count("watchable-seq", "Value before the first Set", 1)
			}
		}
		r.Eval(1)
		r.Count("watchable-seq", "ops", 1)
		for _, s := range chans {
			closed := isClosed(s.ch)
			if s.epoch < epoch && !closed {
				bad("seq-channel-open-after-set", fmt.Sprintf("a channel returned by Value after %d Sets is still open after %d Sets", s.epoch, epoch))
				return
			}
			if s.epoch == epoch && closed {
				bad("seq-channel-closed-without-set", fmt.Sprintf("a channel returned by Value after %d Sets is closed although no later Set happened", s.epoch))
				return
			}
		}
	}
}

// ---------------------------------------------------------------------------------------------
// Watchable, concurrent histories

const sentinelValue = int64(9999)

type wop struct {
	Client      int    `json:"client"`
	Role        string `json:"role"`
	Kind        string `json:"kind"` // set | value
	In          int64  `json:"in,omitempty"`
	Out         int64  `json:"out"`
	Call        int64  `json:"call"`
	Ret         int64  `json:"ret"`
	ClosedAtRet bool   `json:"channel_closed_right_after_return,omitempty"`
	ProbeTick   int64  `json:"probe_tick,omitempty"`
	WaitRet     int64  `json:"receive_from_channel_returned_at,omitempty"`
	ChanID      int    `json:"chan"` // identity of the returned channel within this history
	ch          chan struct{}
}

type regIn struct {
	set bool
	v   int64
}

var registerModel = porcupine.Model{
	Init: func() interface{} { return int64(0) },
	Step: func(state, input, output interface{}) (bool, interface{}) {
		in := input.(regIn)
		if in.set {
			return true, in.v
		}
		return output.(int64) == state.(int64), state
	},
	Equal: func(a, b interface{}) bool { return a.(int64) == b.(int64) },
	DescribeOperation: func(input, output interface{}) string {
		in := input.(regIn)
		if in.set {
			return fmt.Sprintf("Set(%d)", in.v)
		}
		return fmt.Sprintf("Value()=%d", output.(int64))
	},
}

// checkerSelfTest makes sure the history checker, as it is used here, accepts a legal history and
// rejects an illegal one (a stale read after a completed Set); otherwise "held" would mean nothing.
func checkerSelfTest(r *vkit.Report) {
	op := func(client int, set bool, v, call, ret int64) porcupine.Operation {
		if set {
			return porcupine.Operation{ClientId: client, Input: regIn{set: true, v: v}, Output: int64(0), Call: call, Return: ret}
		}
		return porcupine.Operation{ClientId: client, Input: regIn{}, Output: v, Call: call, Return: ret}
	}
	legal := []porcupine.Operation{op(0, true, 101, 1, 6), op(1, false, 0, 2, 3), op(1, false, 101, 4, 5), op(0, true, 102, 7, 10), op(1, false, 101, 8, 9), op(1, false, 102, 11, 12)}
	stale := []porcupine.Operation{op(0, true, 101, 1, 2), op(1, false, 101, 3, 4), op(0, true, 102, 5, 6), op(1, false, 101, 7, 8)}
	backwards := []porcupine.Operation{op(0, true, 101, 1, 8), op(1, false, 101, 2, 3), op(2, false, 0, 4, 5)}
	got := int64(0)
	if porcupine.CheckOperationsTimeout(registerModel, legal, 30*time.Second) == porcupine.Ok {
		got++
	}
	if porcupine.CheckOperationsTimeout(registerModel, stale, 30*time.Second) == porcupine.Illegal {
		got++
	}
	if porcupine.CheckOperationsTimeout(registerModel, backwards, 30*time.Second) == porcupine.Illegal {
		got++
	}
	r.Floor("history checker self-test (1 legal history accepted, 2 illegal ones rejected)", got, 3)
}

// hookState is the pause-point function of one case. It runs on library-calling goroutines, so it
// only uses tables drawn before the case started and atomics.
type hookState struct {
	tabUnset   []uint16 // 0 nothing, 1 yield, else sleep that many microseconds
	tabSwapped []uint16
	nUnset     atomic.Int64
	nSwapped   atomic.Int64
	valueCalls *atomic.Int64 // bumped by the clients before every Value call
	// windows really exercised
	unsetWhileSet   atomic.Int64 // a Value sat between Load()==nil and the CAS while a Set swapped
	swappedWhileSet atomic.Int64 // a Set sat between Swap and close while another Set swapped
	swappedWhileVal atomic.Int64 // a Set sat between Swap and close while a Value was called
}

func drawHookTable(rnd *vkit.Rand, n int, pSleep float64) []uint16 {
	t := make([]uint16, n)
	for i := range t {
		switch {
		case rnd.Bool(pSleep):
			t[i] = uint16(rnd.Range(50, 500))
		case rnd.Bool(0.3):
			t[i] = 1
		}
	}
	return t
}

func hookAct(k uint16) {
	switch {
	case k == 0:
	case k == 1:
		runtime.Gosched()
	default:
		time.Sleep(time.Duration(k) * time.Microsecond)
	}
}

func (h *hookState) fn(point string) {
	switch point {
	case "watchable.value.unset":
		n := h.nUnset.Add(1)
		before := h.nSwapped.Load()
		hookAct(h.tabUnset[int(n-1)%len(h.tabUnset)])
		if h.nSwapped.Load() != before {
			h.unsetWhileSet.Add(1)
		}
	case "watchable.set.swapped":
		n := h.nSwapped.Add(1)
		beforeV := h.valueCalls.Load()
		hookAct(h.tabSwapped[int(n-1)%len(h.tabSwapped)])
		if h.nSwapped.Load() != n {
			h.swappedWhileSet.Add(1)
		}
		if h.valueCalls.Load() != beforeV {
			h.swappedWhileVal.Add(1)
		}
	}
}

type wcase struct {
	c          *vkit.Case
	w          *xsync.Watchable[int64]
	clock      vkit.Clock
	valueCalls atomic.Int64

	mu        sync.Mutex
	ops       []wop
	chanIDs   map[chan struct{}]int
	failSig   string
	failWhat  string
	announced bool
	vf        int64
	last      map[int]int64 // observer client id -> last value seen
	counted   map[int]bool
	remaining int
	allSeen   chan struct{}
	seenOnce  sync.Once
}

func (wc *wcase) add(op wop) int {
	wc.mu.Lock()
	defer wc.mu.Unlock()
	if op.ch != nil {
		id, ok := wc.chanIDs[op.ch]
		if !ok {
			id = len(wc.chanIDs) + 1
			wc.chanIDs[op.ch] = id
		}
		op.ChanID = id
	}
	wc.ops = append(wc.ops, op)
	return len(wc.ops) - 1
}

func (wc *wcase) setWaitRet(idx int, t int64) {
	wc.mu.Lock()
	wc.ops[idx].WaitRet = t
	wc.mu.Unlock()
}

func (wc *wcase) snapshot() []wop {
	wc.mu.Lock()
	defer wc.mu.Unlock()
	return append([]wop(nil), wc.ops...)
}

// fail records the first failure seen by a client goroutine and releases the controller.
func (wc *wcase) fail(sig, what string) {
	wc.mu.Lock()
	if wc.failSig == "" {
		wc.failSig, wc.failWhat = sig, what
	}
	wc.mu.Unlock()
	wc.seenOnce.Do(func() { close(wc.allSeen) })
}

func (wc *wcase) failure() (string, string) {
	wc.mu.Lock()
	defer wc.mu.Unlock()
	return wc.failSig, wc.failWhat
}

// noteSeen records that observer id has just been handed value v.
func (wc *wcase) noteSeen(id int, v int64) {
	wc.mu.Lock()
	wc.last[id] = v
	fire := false
	if wc.announced && v == wc.vf && !wc.counted[id] {
		wc.counted[id] = true
		wc.remaining--
		fire = wc.remaining == 0
	}
	wc.mu.Unlock()
	if fire {
		wc.seenOnce.Do(func() { close(wc.allSeen) })
	}
}

// announce publishes the final value; observers that had already seen it are counted here.
func (wc *wcase) announce(vf int64, observers []int) {
	wc.mu.Lock()
	wc.announced = true
	wc.vf = vf
	wc.remaining = 0
	for _, id := range observers {
		if last, ok := wc.last[id]; ok && last == vf {
			wc.counted[id] = true
		} else {
			wc.remaining++
		}
	}
	fire := wc.remaining == 0
	wc.mu.Unlock()
	if fire {
		wc.seenOnce.Do(func() { close(wc.allSeen) })
	}
}

// value performs one logged Value call for a client. ok=false: the call panicked (already reported).
func (wc *wcase) value(client int, role string) (v int64, ch chan struct{}, idx int, ok bool) {
	op := wop{Client: client, Role: role, Kind: "value"}
	wc.valueCalls.Add(1)
	op.Call = wc.clock.Tick()
	p := vkit.Try(func() { v, ch = wc.w.Value() })
	op.Ret = wc.clock.Tick()
	if p != nil {
		wc.fail("value-panic", fmt.Sprintf("Value panicked in client %d (%s): %s [%s]", client, role, p.Msg, p.JuniperFrame()))
		return 0, nil, -1, false
	}
	op.Out, op.ch = v, ch
	op.ClosedAtRet = isClosed(ch)
	op.ProbeTick = wc.clock.Tick()
	return v, ch, wc.add(op), true
}

func (wc *wcase) set(client int, role string, v int64) bool {
	op := wop{Client: client, Role: role, Kind: "set", In: v}
	op.Call = wc.clock.Tick()
	p := vkit.Try(func() { wc.w.Set(v) })
	op.Ret = wc.clock.Tick()
	if p != nil {
		wc.fail("set-panic", fmt.Sprintf("Set(%d) panicked in client %d: %s [%s]", v, client, p.Msg, p.JuniperFrame()))
		return false
	}
	wc.add(op)
	return true
}

var awaitOpts = vkit.AwaitOpts{Soft: 2 * time.Second, Gap: 300 * time.Millisecond, Hard: 90 * time.Second}

func watchableConc(r *vkit.Report) {
	n := scale4(r, 1500, 600, 9000, 10000)
	var abort atomic.Bool
	r.Cases("w-conc", n, 1, func(c *vkit.Case) {
		if abort.Load() {
			return
		}
		if !watchableConcCase(c) {
			// A stuck / undecided case leaves parked goroutines behind and costs seconds: the
			// evidence is in, the rest of the group is skipped.
			abort.Store(true)
		}
	})
	if abort.Load() {
		return
	}
	floor := int64(r.Scale(20, 200))
	r.Floor("Watchable histories judged linearizable by porcupine", r.Table("watchable-conc", "histories: porcupine Ok"), int64(n*9/10))
	r.Floor("Value held between Load()==nil and the CAS while a Set swapped", r.Table("watchable-windows", "Value in the unset window while a Set swapped"), floor)
	r.Floor("Set held between Swap and close while another Set swapped", r.Table("watchable-windows", "Set before close while another Set swapped"), floor)
	r.Floor("Set held between Swap and close while a Value was called", r.Table("watchable-windows", "Set before close while a Value was called"), floor)
	r.Floor("observers woken by a closed channel", r.Table("watchable-conc", "observer wake-ups by channel close"), int64(n))
}

// watchableConcCase runs one concurrent history. It returns false if the case ended stuck or
// undecided (goroutines may have been left behind).
func watchableConcCase(c *vkit.Case) bool {
	r := c.R
	rnd := c.Rand

	nSetters := rnd.Weighted([]int{1, 6, 6, 4}) // 0..3
	nObservers := rnd.Range(1, 3)
	nPollers := rnd.Range(0, 2)
	pSleep := []float64{0.25, 0.6, 0.9}[rnd.Intn(3)]
	intensity := []float64{0, 0.3, 0.7}[rnd.Intn(3)]
	setsPer := make([]int, nSetters)
	totalSets := 0
	for i := range setsPer {
		setsPer[i] = rnd.Range(1, 4)
		totalSets += setsPer[i]
	}
	pollsPer := make([]int, nPollers)
	for i := range pollsPer {
		pollsPer[i] = rnd.Range(1, 4)
	}
	params := map[string]any{"setters": nSetters, "sets_per_setter": setsPer, "observers": nObservers, "pollers": nPollers, "polls": pollsPer,
		"hook_sleep_share": pSleep, "perturbation": intensity}

	wc := &wcase{c: c, w: new(xsync.Watchable[int64]), chanIDs: make(map[chan struct{}]int),
		last: make(map[int]int64), counted: make(map[int]bool), allSeen: make(chan struct{})}
	hs := &hookState{tabUnset: drawHookTable(rnd, 16, pSleep), tabSwapped: drawHookTable(rnd, 32, pSleep*0.7), valueCalls: &wc.valueCalls}
	xsync.VerifSetHook(hs.fn)
	defer xsync.VerifSetHook(nil)

	start := make(chan struct{})
	var writersWG, observersWG sync.WaitGroup
	client := 0
	startDelay := func() time.Duration {
		if rnd.Bool(0.5) {
			return 0
		}
		return time.Duration(rnd.Range(1, 250)) * time.Microsecond
	}

	for s := 0; s < nSetters; s++ {
		id, s := client, s
		client++
		d := startDelay()
		pert := vkit.NewPerturber(rnd.Split(), 13, intensity)
		writersWG.Add(1)
		go func() {
			defer writersWG.Done()
			<-start
			if d > 0 {
				time.Sleep(d)
			}
			for i := 0; i < setsPer[s]; i++ {
				if !wc.set(id, "setter", int64(s+1)*100+int64(i+1)) {
					return
				}
				pert.Do()
			}
		}()
	}
	for p := 0; p < nPollers; p++ {
		id, p := client, p
		client++
		d := startDelay()
		pert := vkit.NewPerturber(rnd.Split(), 11, intensity)
		writersWG.Add(1)
		go func() {
			defer writersWG.Done()
			<-start
			if d > 0 {
				time.Sleep(d)
			}
			for i := 0; i < pollsPer[p]; i++ {
				if _, _, _, ok := wc.value(id, "poller"); !ok {
					return
				}
				pert.Do()
			}
		}()
	}
	var observers []int
	maxIter := 4 * (totalSets + 4)
	for o := 0; o < nObservers; o++ {
		id := client
		client++
		observers = append(observers, id)
		d := startDelay()
		pert := vkit.NewPerturber(rnd.Split(), 11, intensity)
		observersWG.Add(1)
		go func() {
			defer observersWG.Done()
			<-start
			if d > 0 {
				time.Sleep(d)
			}
			// The documented loop:  for { v, changed := w.Value(); ...; <-changed }
			var prev int64
			for it := 0; ; it++ {
				v, changed, idx, ok := wc.value(id, "observer")
				if !ok {
					return
				}
				wc.noteSeen(id, v)
				if v == sentinelValue {
					return
				}
				if it > 0 && v == prev {
					wc.fail("stale-after-close", fmt.Sprintf("observer %d: the channel paired with value %d was closed, yet the next Value still returned %d", id, prev, v))
					return
				}
				if it > maxIter {
					wc.fail("observer-spin", fmt.Sprintf("observer %d went round its loop %d times for %d Sets", id, it, totalSets+1))
					return
				}
				pert.Do()
				<-changed
				wc.setWaitRet(idx, wc.clock.Tick())
				prev = v
			}
		}()
	}
	controller := client
	close(start)

	witness := func(extra map[string]any) map[string]any {
		ops := wc.snapshot()
		sort.Slice(ops, func(i, j int) bool { return ops[i].Call < ops[j].Call })
		w := map[string]any{"params": params, "ops": ops, "final_value": wc.vf}
		for k, v := range extra {
			w[k] = v
		}
		return w
	}
	// leave: best effort to let parked observers go (so that they are not left behind)
	leave := func() {
		vkit.Try(func() { wc.w.Set(sentinelValue) })
		done := make(chan struct{})
		go func() { observersWG.Wait(); writersWG.Wait(); close(done) }()
		vkit.Await(done, vkit.AwaitOpts{Soft: time.Second, Gap: 200 * time.Millisecond, Hard: 5 * time.Second})
	}
	waitFor := func(done chan struct{}, sig, what string) bool {
		verdict, dump := vkit.Await(done, awaitOpts)
		switch verdict {
		case vkit.AwaitStuck:
			c.Violation(sig, what, witness(map[string]any{"goroutines": dump}))
			return false
		case vkit.AwaitInconclusive:
			r.Inconclusive(fmt.Sprintf("case %s: %s — not decided: goroutines were still runnable at the hard limit", c.ID(), what))
			return false
		}
		return true
	}
	reportFailure := func() bool {
		if sig, what := wc.failure(); sig != "" {
			c.Violation(sig, what, witness(nil))
			leave()
			return true
		}
		return false
	}

	// 1. all setters and pollers return (Set and Value never block)
	{
		done := make(chan struct{})
		go func() { writersWG.Wait(); close(done) }()
		if !waitFor(done, "set-or-value-stuck", "a Set or Value call never returned: all goroutines parked") {
			return false
		}
	}
	if reportFailure() {
		return true
	}
	// 2. quiescent Value: the final value and its channel
	vf, chf, _, ok := wc.value(controller, "controller")
	if !ok {
		reportFailure()
		return true
	}
	wc.announce(vf, observers)
	// 3. every observer loop reaches the final value
	if !waitFor(wc.allSeen, "observer-stuck",
		fmt.Sprintf("an observer loop never reached the final value %d: it is parked forever on a channel that nobody will close (all Sets have returned)", vf)) {
		return false
	}
	if reportFailure() {
		return true
	}
	r.Eval(1)
	// 4. channel rule at quiescence
	ops := wc.snapshot()
	for _, op := range ops {
		if op.Kind != "value" {
			continue
		}
		closed := isClosed(op.ch)
		if op.Out != vf && !closed {
			c.Violation("channel-open-after-later-set", fmt.Sprintf("at quiescence the channel returned with value %d is still open although the value is now %d (all Sets have returned)", op.Out, vf), witness(nil))
			leave()
			return true
		}
		if op.Out == vf && closed {
			c.Violation("channel-closed-without-later-set", fmt.Sprintf("at quiescence the channel returned with the final value %d is closed although no later Set happened", vf), witness(nil))
			leave()
			return true
		}
	}
	if isClosed(chf) {
		c.Violation("channel-closed-without-later-set", fmt.Sprintf("the channel of the quiescent Value()=%d is closed", vf), witness(nil))
		leave()
		return true
	}
	r.Eval(1)
	// 5. one more Set: wakes every parked observer; they see it and leave
	if !wc.set(controller, "controller", sentinelValue) {
		reportFailure()
		return true
	}
	{
		done := make(chan struct{})
		go func() { observersWG.Wait(); close(done) }()
		if !waitFor(done, "observer-stuck", fmt.Sprintf("after the final Set(%d) returned an observer is still parked on the channel it got with value %d", sentinelValue, vf)) {
			return false
		}
	}
	if reportFailure() {
		return true
	}
	ops = wc.snapshot()
	for _, op := range ops {
		if op.Kind != "value" {
			continue
		}
		closed := isClosed(op.ch)
		if op.Out != sentinelValue && !closed {
			c.Violation("channel-open-after-later-set", fmt.Sprintf("the channel returned with value %d is still open after the later Set(%d) returned", op.Out, sentinelValue), witness(nil))
			return true
		}
		if op.Out == sentinelValue && closed {
			c.Violation("channel-closed-without-later-set", fmt.Sprintf("the channel returned with the last value %d is closed", sentinelValue), witness(nil))
			return true
		}
	}
	r.Eval(1)

	// 6. offline checks on the complete history
	sort.Slice(ops, func(i, j int) bool { return ops[i].Call < ops[j].Call })
	// 6a. a channel observed closed => a Set other than the one that produced the paired value had
	// been invoked before the observation
	firstOtherSet := func(v int64) int64 {
		best := int64(-1)
		for _, s := range ops {
			if s.Kind == "set" && s.In != v && (best < 0 || s.Call < best) {
				best = s.Call
			}
		}
		return best
	}
	wakeups := 0
	for _, op := range ops {
		if op.Kind != "value" {
			continue
		}
		for _, t := range []int64{op.WaitRet, map[bool]int64{true: op.ProbeTick}[op.ClosedAtRet]} {
			if t == 0 {
				continue
			}
			r.Eval(1)
			if fs := firstOtherSet(op.Out); fs < 0 || fs > t {
				c.Violation("closed-before-any-later-set", fmt.Sprintf("the channel returned with value %d was observed closed at tick %d, before any Set of another value had been invoked", op.Out, t), witness(nil))
				return true
			}
		}
		if op.WaitRet != 0 {
			wakeups++
		}
	}
	r.Count("watchable-conc", "observer wake-ups by channel close", wakeups)
	// 6b. linearizability against the one-register model
	var hist []porcupine.Operation
	for _, op := range ops {
		o := porcupine.Operation{ClientId: op.Client, Call: op.Call, Return: op.Ret}
		if op.Kind == "set" {
			o.Input, o.Output = regIn{set: true, v: op.In}, int64(0)
		} else {
			o.Input, o.Output = regIn{}, op.Out
		}
		hist = append(hist, o)
	}
	r.Eval(1)
	r.Max("watchable-conc", "ops in one history", len(hist))
	switch res := porcupine.CheckOperationsTimeout(registerModel, hist, 30*time.Second); res {
	case porcupine.Illegal:
		_, info := porcupine.CheckOperationsVerbose(registerModel, hist, 30*time.Second)
		longest := 0
		for _, part := range info.PartialLinearizations() {
			for _, l := range part {
				if len(l) > longest {
					longest = len(l)
				}
			}
		}
		c.Violation("not-linearizable", fmt.Sprintf("the history of %d Set/Value operations is not linearizable as a register (Value did not return the most recently Set value); longest linearizable prefix has %d operations: %s",
			len(hist), longest, describeHistory(ops)), witness(map[string]any{"longest_partial_linearization": longest}))
		return true
	case porcupine.Unknown:
		r.Inconclusive(fmt.Sprintf("case %s: porcupine timed out on a history of %d operations", c.ID(), len(hist)))
		return true
	}
	r.Count("watchable-conc", "histories: porcupine Ok", 1)

	// evidence
	r.Count("watchable-conc", "ops: Set", totalSets+1)
	r.Count("watchable-conc", "ops: Value", len(ops)-totalSets-1)
	r.Count("watchable-windows", "arrivals at watchable.value.unset", int(hs.nUnset.Load()))
	r.Count("watchable-windows", "arrivals at watchable.set.swapped", int(hs.nSwapped.Load()))
	r.Count("watchable-windows", "Value in the unset window while a Set swapped", int(hs.unsetWhileSet.Load()))
	r.Count("watchable-windows", "Set before close while another Set swapped", int(hs.swappedWhileSet.Load()))
	r.Count("watchable-windows", "Set before close while a Value was called", int(hs.swappedWhileVal.Load()))
	if hs.nUnset.Load() >= 2 {
		r.Count("watchable-windows", "histories with >= 2 Values racing to install the empty cell", 1)
	}
	if vf == 0 {
		r.Count("watchable-conc", "histories without any Set before quiescence", 1)
	}
	overlap := false
	for _, v := range ops {
		if v.Kind != "value" {
			continue
		}
		for _, s := range ops {
			if s.Kind == "set" && v.Call < s.Ret && s.Call < v.Ret {
				overlap = true
			}
		}
	}
	if overlap {
		r.Count("watchable-conc", "histories with a Value overlapping a Set", 1)
	}
	if totalSets >= 2 && overlap {
		byRet := append([]wop(nil), ops...)
		sort.Slice(byRet, func(i, j int) bool { return byRet[i].Ret < byRet[j].Ret })
		var sig strings.Builder
		for _, op := range byRet {
			fmt.Fprintf(&sig, "%d%c%d;", op.Client, op.Kind[0], op.In+op.Out)
		}
		r.Distinct("w:" + sig.String())
	}
	if r.WantSample() && c.Index == 3 && len(ops) >= 6 {
		r.Sample(map[string]any{"kind": "watchable history", "params": params, "final_value": vf, "ops": ops})
	}
	return true
}

func describeHistory(ops []wop) string {
	var b strings.Builder
	for i, op := range ops {
		if i > 0 {
			b.WriteString(" ")
		}
		if op.Kind == "set" {
			fmt.Fprintf(&b, "c%d:Set(%d)[%d,%d]", op.Client, op.In, op.Call, op.Ret)
		} else {
			fmt.Fprintf(&b, "c%d:Value()=%d[%d,%d]", op.Client, op.Out, op.Call, op.Ret)
		}
	}
	return b.String()
}
