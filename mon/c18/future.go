package main

import (
	"context"
	"fmt"
	"strings"
	"sync"
	"sync/atomic"
	"time"

	"github.com/bradenaw/juniper/xsync"

	"verif/vkit"
)

// Future: every waiter, started before, during or after Fill, gets exactly the one value; it never
// changes afterwards; WaitContext gives up with ctx.Err() when its context ends before Fill (decided
// by the quiescence verdict: the controller calls Fill only after those waiters have returned);
// a second Fill panics.

const (
	fkWait         = iota // Wait()
	fkLive                // WaitContext, context never done while waiting
	fkGiveUp              // WaitContext, context cancelled by the controller before Fill is called
	fkDeadline            // WaitContext, short deadline that may expire before or after Fill
	fkPreCancelled        // WaitContext, context already cancelled at the call
)

var fkNames = []string{"Wait", "WaitContext(live)", "WaitContext(cancelled-before-Fill)", "WaitContext(short-deadline)", "WaitContext(already-cancelled)"}

type fwaiter struct {
	ID     int    `json:"id"`
	Kind   string `json:"kind"`
	Phase  string `json:"phase"` // before | during | after
	Call   int64  `json:"call"`
	Ret    int64  `json:"ret"`
	Value  string `json:"value,omitempty"`
	Err    string `json:"err,omitempty"`
	Panic  string `json:"panic,omitempty"`
	kind   int
	gotVal bool
	valOK  bool
	errOK  bool // the returned error is the context's own error
	d      time.Duration
	ctx    context.Context
	cancel context.CancelFunc
}

func futures(r *vkit.Report) {
	n := r.Scale(2000, 12000)
	var abort bool
	r.Cases("future", n, 1, func(c *vkit.Case) {
		if abort {
			return
		}
		ok := true
		switch c.Index % 3 {
		case 0:
			ok = futureCase(c, "int64", int64(c.Index)+1, int64(-7))
		case 1:
			ok = futureCase(c, "string", fmt.Sprintf("value-%d-of-some-length", c.Index), "second")
		case 2:
			x, y := &cell{ID: c.Index}, &cell{ID: -1}
			ok = futureCase(c, "*cell", x, y)
		}
		if !ok {
			abort = true
		}
	})
	if abort {
		return
	}
	r.Floor("Future scenarios", r.Table("future", "scenarios"), int64(n))
	r.Floor("waiters parked before Fill that received the value", r.Table("future", "before Fill: got the value"), int64(n/2))
	r.Floor("WaitContext calls that gave up before Fill", r.Table("future", "before Fill: gave up with ctx.Err()"), int64(n/4))
	r.Floor("second Fill panicked", r.Table("future", "second Fill panicked"), int64(n))
	r.Floor("value unchanged after the refused second Fill", r.Table("future", "value unchanged after the refused second Fill"), int64(n))
}

func futureCase[T comparable](c *vkit.Case, tname string, x, y T) bool {
	r := c.R
	rnd := c.Rand
	f := xsync.NewFuture[T]()
	var clock vkit.Clock
	var mu sync.Mutex
	var all []*fwaiter
	intensity := []float64{0, 0.4, 0.8}[rnd.Intn(3)]

	newWaiter := func(kind int, phase string) *fwaiter {
		w := &fwaiter{ID: len(all), kind: kind, Kind: fkNames[kind], Phase: phase}
		switch kind {
		case fkLive, fkGiveUp:
			w.ctx, w.cancel = context.WithCancel(context.Background())
		case fkDeadline:
			w.d = time.Duration(rnd.Range(20, 2000)) * time.Microsecond
			w.ctx, w.cancel = context.WithTimeout(context.Background(), w.d)
		case fkPreCancelled:
			w.ctx, w.cancel = context.WithCancel(context.Background())
			w.cancel()
		}
		all = append(all, w)
		return w
	}
	run := func(w *fwaiter) {
		var v T
		var err error
		call := clock.Tick()
		p := vkit.Try(func() {
			if w.kind == fkWait {
				v = f.Wait()
			} else {
				v, err = f.WaitContext(w.ctx)
			}
		})
		ret := clock.Tick()
		mu.Lock()
		defer mu.Unlock()
		w.Call, w.Ret = call, ret
		switch {
		case p != nil:
			w.Panic = p.Msg
		case err != nil:
			w.Err = err.Error()
			w.errOK = w.ctx != nil && err == w.ctx.Err()
		default:
			w.gotVal = true
			w.valOK = v == x
			w.Value = fmt.Sprint(v)
		}
	}
	defer func() {
		for _, w := range all {
			if w.cancel != nil {
				w.cancel()
			}
		}
	}()

	var fillCallA, fillRetA atomic.Int64
	witness := func(extra map[string]any) map[string]any {
		mu.Lock()
		defer mu.Unlock()
		ws := make([]fwaiter, 0, len(all))
		for _, w := range all {
			ws = append(ws, *w)
		}
		m := map[string]any{"type": tname, "filled_with": fmt.Sprint(x), "fill_call": fillCallA.Load(), "fill_ret": fillRetA.Load(), "waiters": ws}
		for k, v := range extra {
			m[k] = v
		}
		return m
	}
	await := func(wg *sync.WaitGroup, sig, what string) bool {
		done := make(chan struct{})
		go func() { wg.Wait(); close(done) }()
		verdict, dump := vkit.Await(done, awaitOpts)
		switch verdict {
		case vkit.AwaitStuck:
			c.Violation(sig, fmt.Sprintf("Future[%s]: %s", tname, what), witness(map[string]any{"goroutines": dump}))
			return false
		case vkit.AwaitInconclusive:
			r.Inconclusive(fmt.Sprintf("case %s: Future: %s — not decided, goroutines still runnable at the hard limit", c.ID(), what))
			return false
		}
		return true
	}

	// Phase 1: waiters before Fill.
	var stayWG, giveUpWG sync.WaitGroup
	nBefore := rnd.Range(1, 5)
	var giveUps []*fwaiter
	for i := 0; i < nBefore; i++ {
		kind := rnd.Weighted([]int{3, 3, 3, 2, 2})
		w := newWaiter(kind, "before")
		wg := &stayWG
		if kind == fkGiveUp || kind == fkPreCancelled {
			wg = &giveUpWG
			giveUps = append(giveUps, w)
		}
		wg.Add(1)
		go func() { defer wg.Done(); run(w) }()
	}
	pert := vkit.NewPerturber(rnd.Split(), 7, 0.8)
	pert.Do()
	for _, w := range giveUps {
		w.cancel()
	}
	// Those whose context has ended must return although nobody has filled the Future.
	if !await(&giveUpWG, "waitcontext-does-not-give-up", "WaitContext is still waiting although its context was cancelled and Fill has not been called: all goroutines parked") {
		return false
	}

	// Phase 2: Fill racing more waiters.
	nDuring := rnd.Range(0, 5)
	start := make(chan struct{})
	var fillPanic *vkit.Panic
	stayWG.Add(1)
	fp := vkit.NewPerturber(rnd.Split(), 3, intensity)
	go func() {
		defer stayWG.Done()
		<-start
		fp.Do()
		fillCallA.Store(clock.Tick())
		fillPanic = vkit.Try(func() { f.Fill(x) })
		fillRetA.Store(clock.Tick())
	}()
	for i := 0; i < nDuring; i++ {
		kind := []int{fkWait, fkLive, fkDeadline, fkPreCancelled}[rnd.Weighted([]int{4, 3, 2, 1})]
		w := newWaiter(kind, "during")
		wp := vkit.NewPerturber(rnd.Split(), 3, intensity)
		stayWG.Add(1)
		go func() { defer stayWG.Done(); <-start; wp.Do(); run(w) }()
	}
	close(start)
	if !await(&stayWG, "waiter-stuck", "Fill has returned but a Wait / WaitContext call never returned: all goroutines parked") {
		return false
	}
	if fillPanic != nil {
		c.Violation("fill-panic", fmt.Sprintf("Future[%s]: the first Fill panicked: %s", tname, fillPanic.Msg), witness(nil))
		return true
	}

	fillCall := fillCallA.Load()

	// Phase 3: after Fill, one call after the other. The value never changes.
	nAfter := rnd.Range(2, 6)
	var late []*fwaiter
	for i := 0; i < nAfter; i++ {
		kind := []int{fkWait, fkLive, fkPreCancelled}[rnd.Weighted([]int{4, 2, 1})]
		late = append(late, newWaiter(kind, "after"))
	}
	var lateWG sync.WaitGroup
	lateWG.Add(1)
	go func() {
		defer lateWG.Done()
		for _, w := range late {
			run(w)
		}
	}()
	if !await(&lateWG, "waiter-stuck", "a Wait / WaitContext call on a filled Future never returned: all goroutines parked") {
		return false
	}

	// Judge every waiter.
	for _, w := range all {
		r.Eval(1)
		cell := w.Phase + " Fill: "
		switch {
		case w.Panic != "":
			c.Violation("wait-panic", fmt.Sprintf("Future[%s]: %s (%s Fill) panicked: %s", tname, w.Kind, w.Phase, w.Panic), witness(nil))
			return true
		case w.gotVal:
			if w.Ret < fillCall {
				c.Violation("value-before-fill", fmt.Sprintf("Future[%s]: %s returned %s at tick %d, before Fill was called (tick %d)", tname, w.Kind, w.Value, w.Ret, fillCall), witness(nil))
				return true
			}
			if !w.valOK {
				c.Violation("wrong-value", fmt.Sprintf("Future[%s]: %s (%s Fill) returned %q, the Future was filled with %q", tname, w.Kind, w.Phase, w.Value, fmt.Sprint(x)), witness(nil))
				return true
			}
			cell += "got the value"
		default:
			if w.kind == fkWait || w.kind == fkLive || !w.errOK {
				c.Violation("spurious-error", fmt.Sprintf("Future[%s]: %s (%s Fill) returned error %q which is not its context's error", tname, w.Kind, w.Phase, w.Err), witness(nil))
				return true
			}
			cell += "gave up with ctx.Err()"
			if w.Phase == "after" {
				r.Count("future", "already-cancelled context on a filled Future: ctx.Err() (accepted, either is)", 1)
			}
		}
		r.Count("future", cell, 1)
		r.Count("future-waiters", w.Kind+" / "+w.Phase, 1)
	}

	// A second Fill panics (documented) and is refused: every Wait / WaitContext, before and after
	// it, returns the first value (the Future "delivers the single value it was filled with ... and
	// never changes afterwards"). Nobody is reading while the refused Fill runs.
	r.Eval(1)
	p2 := vkit.Try(func() { f.Fill(y) })
	if p2 == nil {
		c.Violation("second-fill-no-panic", fmt.Sprintf("Future[%s]: a second Fill returned normally; documented: panics if already filled", tname), witness(nil))
		return true
	}
	r.Count("future", "second Fill panicked", 1)
	for i := 0; i < 3; i++ {
		var after T
		var err error
		how := "Wait"
		p := vkit.Try(func() {
			if i == 1 {
				how = "WaitContext"
				after, err = f.WaitContext(context.Background())
			} else {
				after = f.Wait()
			}
		})
		r.Eval(1)
		if p != nil || err != nil {
			c.Violation("wait-after-refused-fill", fmt.Sprintf("Future[%s]: %s after a refused second Fill failed: panic=%v err=%v", tname, how, p, err), witness(nil))
			return true
		}
		if after != x {
			c.Violation("future-value-changed-by-refused-fill", fmt.Sprintf("Future[%s]: filled with %v (which every earlier waiter received); a second Fill(%v) panicked as documented, yet %s now returns %v",
				tname, x, y, how, after), witness(map[string]any{"second_fill_value": fmt.Sprint(y), "returned_afterwards": fmt.Sprint(after)}))
			return true
		}
	}
	r.Count("future", "value unchanged after the refused second Fill", 1)

	r.Count("future", "scenarios", 1)
	before, later := 0, 0
	var pat strings.Builder
	for _, w := range all {
		if w.Phase == "before" {
			before++
		} else {
			later++
		}
		fmt.Fprintf(&pat, "%d%c%v;", w.kind, w.Phase[0], w.gotVal)
	}
	if before > 0 && later > 0 {
		r.Distinct("f:" + tname + ":" + pat.String())
	}
	if r.WantSample() && c.Index == 5 {
		r.Sample(map[string]any{"kind": "future scenario", "scenario": witness(nil)})
	}
	return true
}
