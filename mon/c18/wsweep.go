package main

import (
	"fmt"
	"runtime"
	"sync"
	"sync/atomic"
	"time"

	"github.com/bradenaw/juniper/xsync"

	"verif/vkit"
)

// Three-party phase sweep on Watchable. Three persistent goroutines are released together once per
// round through an atomic round counter (no goroutine is created per round); each enters its one
// call after its own swept spin (different moduli per party, so the relative phases of the three
// calls walk through a grid). A fresh Watchable per round. After all three calls have RETURNED the
// results are judged on the spot, without waiting for anything:
//
//	a Value that returned a value which has since been replaced by a Set that has returned
//	must have returned a channel that is closed now; a Value that returned the value that is
//	current now must have returned a channel that is open.
//
// Variants: "VVS" two Values and one Set on a Watchable that holds a value; "VVS-unset" the same on
// a Watchable that was never Set (Value racing the first Set: zero or the new value); "VSS" one
// Value and two Sets; "SSS" three first Sets on a never-Set Watchable (every other round an observer
// has taken Value() before): no panic, the quiescent Value() is one of the three, every channel
// handed out before is closed, and the survivor's channel is closed by one more Set.

const sweepBatch = 10000

type sweepRes struct {
	v  int64
	ch chan struct{}
}

func watchableSweep(r *vkit.Report) {
	perVariant := map[string]int{"VVS": scale4(r, 12, 30, 50, 60), "VVS-unset": scale4(r, 4, 6, 20, 20), "VSS": scale4(r, 4, 6, 20, 20), "SSS": scale4(r, 4, 40, 30, 120)}
	order := []string{"VVS", "VVS-unset", "VSS", "SSS"}
	if runtime.GOMAXPROCS(0) < 4 {
		// without three processors the parties cannot be released together: a short run only
		for k := range perVariant {
			perVariant[k] = (perVariant[k] + 9) / 10
		}
		r.Count("watchable-sweep", "runs with GOMAXPROCS < 4 (parties yield instead of spinning, a tenth of the rounds)", 1)
	}
	var plan []string
	for _, v := range order {
		for i := 0; i < perVariant[v]; i++ {
			plan = append(plan, v)
		}
	}
	xsync.VerifSetHook(nil)
	r.Cases("w-sweep", len(plan), 1, func(c *vkit.Case) { sweepCase(c, plan[c.Index]) })
	r.Floor("three-party sweep rounds", r.Table("watchable-sweep", "rounds"), int64(len(plan)*sweepBatch))
	if runtime.GOMAXPROCS(0) >= 4 {
		r.Floor("sweep rounds in which the Values returned different values (the calls really straddled the Set)", r.Table("watchable-sweep", "VVS: one Value saw the old value, the other the new one"), 50)
	}
}

func sweepCase(c *vkit.Case, variant string) {
	r := c.R
	rnd := c.Rand
	primes := []int64{7, 11, 13, 17, 19, 23, 29, 31}
	perm := rnd.Perm(len(primes))
	mod := [3]int64{primes[perm[0]], primes[perm[1]], primes[perm[2]]}
	scale := [3]int64{int64(rnd.Range(1, 10)), int64(rnd.Range(1, 10)), int64(rnd.Range(1, 10))}
	div := [3]int64{1, mod[0], mod[0] * mod[1]}
	yield := runtime.GOMAXPROCS(0) < 4

	var (
		wp    atomic.Pointer[xsync.Watchable[int64]]
		round atomic.Int64
		done  atomic.Int64
		stop  atomic.Bool
		res   [2]sweepRes
		pan   [3]atomic.Pointer[vkit.Panic]
		sink  atomic.Int64
		wg    sync.WaitGroup
	)
	spin := func(n int64) {
		x := int64(0)
		for i := int64(0); i < n; i++ {
			x += i
		}
		sink.Add(x)
	}
	offset := func(id int, rd int64) int64 { return ((rd / div[id]) % mod[id]) * scale[id] }
	base := int64(c.Index+1) * 10 * sweepBatch
	vals := func(rd int64) (old, n1, n2 int64) { return base + 4*rd + 1, base + 4*rd + 2, base + 4*rd + 3 }
	party := func(id int, f func(rd int64, w *xsync.Watchable[int64])) {
		defer wg.Done()
		last := int64(0)
		for {
			var rd int64
			for idle := 0; ; idle++ {
				if stop.Load() {
					return
				}
				if rd = round.Load(); rd != last {
					break
				}
				if yield || idle > 5000 {
					runtime.Gosched()
				}
			}
			last = rd
			w := wp.Load()
			spin(offset(id, rd))
			if p := vkit.Try(func() { f(rd, w) }); p != nil {
				pan[id].Store(p)
			}
			done.Add(1)
		}
	}
	valueParty := func(slot int) func(rd int64, w *xsync.Watchable[int64]) {
		return func(rd int64, w *xsync.Watchable[int64]) { res[slot].v, res[slot].ch = w.Value() }
	}
	setParty := func(which int) func(rd int64, w *xsync.Watchable[int64]) {
		return func(rd int64, w *xsync.Watchable[int64]) {
			_, n1, n2 := vals(rd)
			switch which {
			case 1:
				w.Set(n1)
			case 2:
				w.Set(n2)
			default:
				w.Set(base + 4*rd) // third value of the round (variant SSS)
			}
		}
	}
	wg.Add(3)
	if variant == "SSS" {
		go party(0, setParty(3))
	} else {
		go party(0, valueParty(0))
	}
	if variant == "VSS" || variant == "SSS" {
		go party(1, setParty(2))
	} else {
		go party(1, valueParty(1))
	}
	go party(2, setParty(1))
	defer func() { stop.Store(true); wg.Wait() }()

	nValues := 2
	if variant == "VSS" {
		nValues = 1
	}
	if variant == "SSS" {
		nValues = 0
	}
	counts := make(map[string]int)
	mixed := make(map[[3]int64]struct{})
	for rd := int64(1); rd <= sweepBatch; rd++ {
		old, n1, n2 := vals(rd)
		nw := new(xsync.Watchable[int64])
		n3 := base + 4*rd
		observed := false
		switch variant {
		case "VVS-unset":
			old = 0
		case "SSS":
			// three first Sets on a fresh Watchable; in every other round an observer has taken
			// Value() before (so there is a channel that has to be closed)
			old = 0
			if rd%2 == 0 {
				observed = true
				if p := vkit.Try(func() { res[0].v, res[0].ch = nw.Value() }); p != nil {
					c.Violation("sweep-panic", fmt.Sprintf("three-party sweep SSS, round %d: Value on a fresh Watchable panicked: %s", rd, p.Msg), nil)
					return
				}
			}
		default:
			nw.Set(old)
		}
		wp.Store(nw)
		done.Store(0)
		round.Store(rd)
		var t0 time.Time
		for it := 1; done.Load() != 3; it++ {
			runtime.Gosched()
			if it%128 != 0 {
				continue
			}
			// a round is microseconds; if it has not completed after about a millisecond the
			// machine is oversubscribed and a party has lost its processor: sleep instead of
			// spinning so that it gets one (no verdict depends on this)
			if t0.IsZero() {
				t0 = time.Now()
			} else if time.Since(t0) > time.Millisecond {
				time.Sleep(20 * time.Microsecond)
			}
		}
		witness := func() map[string]any {
			m := map[string]any{"variant": variant, "round": rd, "spin_before_call": []int64{offset(0, rd), offset(1, rd), offset(2, rd)},
				"old": old, "set_values": []int64{n1, n2, n3}[:3-nValues]}
			if observed {
				m["observer_before_the_round"] = map[string]any{"returned": res[0].v, "channel_closed": isClosed(res[0].ch)}
			}
			for i := 0; i < nValues; i++ {
				m[fmt.Sprintf("value_%d", i)] = map[string]any{"returned": res[i].v, "channel_closed": isClosed(res[i].ch)}
			}
			return m
		}
		for id := range pan {
			if p := pan[id].Load(); p != nil {
				c.Violation("sweep-panic", fmt.Sprintf("three-party sweep %s, round %d: party %d panicked: %s [%s]", variant, rd, id, p.Msg, p.JuniperFrame()), witness())
				return
			}
		}
		// what is current now that every Set has returned
		current := n1
		if variant == "VSS" {
			var ch chan struct{}
			if p := vkit.Try(func() { current, ch = nw.Value() }); p != nil {
				c.Violation("sweep-panic", fmt.Sprintf("three-party sweep %s, round %d: Value panicked: %s", variant, rd, p.Msg), witness())
				return
			}
			r.Eval(1)
			if current != n1 && current != n2 {
				c.Violation("sweep-value", fmt.Sprintf("three-party sweep VSS, round %d: after Set(%d) and Set(%d) returned, Value returns %d", rd, n1, n2, current), witness())
				return
			}
			if isClosed(ch) {
				c.Violation("channel-closed-without-later-set", fmt.Sprintf("three-party sweep VSS, round %d: the channel returned with the current value %d is closed", rd, current), witness())
				return
			}
		}
		if variant == "SSS" {
			var ch chan struct{}
			if p := vkit.Try(func() { current, ch = nw.Value() }); p != nil {
				c.Violation("sweep-panic", fmt.Sprintf("three-party sweep SSS, round %d: Value panicked: %s", rd, p.Msg), witness())
				return
			}
			r.Eval(3)
			if current != n1 && current != n2 && current != n3 {
				c.Violation("sweep-value", fmt.Sprintf("three-party sweep SSS, round %d: after Set(%d), Set(%d) and Set(%d) returned, Value returns %d", rd, n1, n2, n3, current), witness())
				return
			}
			if isClosed(ch) {
				c.Violation("channel-closed-without-later-set", fmt.Sprintf("three-party sweep SSS, round %d: the channel returned with the current value %d is closed", rd, current), witness())
				return
			}
			if observed && (res[0].v != 0 || !isClosed(res[0].ch)) {
				c.Violation("channel-open-after-later-set", fmt.Sprintf("three-party sweep SSS, round %d (spins %d/%d/%d): an observer got (%d, channel) from the fresh Watchable; after three Sets have returned that channel is closed=%v",
					rd, offset(0, rd), offset(1, rd), offset(2, rd), res[0].v, isClosed(res[0].ch)), witness())
				return
			}
			// one more Set, from here: the channel of the surviving value must be closed by it
			if p := vkit.Try(func() { nw.Set(-rd) }); p != nil {
				c.Violation("sweep-panic", fmt.Sprintf("three-party sweep SSS, round %d: a later Set panicked: %s [%s]", rd, p.Msg, p.JuniperFrame()), witness())
				return
			}
			if !isClosed(ch) {
				c.Violation("channel-open-after-later-set", fmt.Sprintf("three-party sweep SSS, round %d (spins %d/%d/%d): the channel returned with value %d (the survivor of three concurrent first Sets) is still open after a later Set has returned",
					rd, offset(0, rd), offset(1, rd), offset(2, rd), current), witness())
				return
			}
			counts[fmt.Sprintf("SSS: party %d's Set survived", map[int64]int{n1: 2, n2: 1, n3: 0}[current])]++
			if observed {
				counts["SSS: rounds with an observer's channel from before the first Set"]++
			}
			continue
		}
		sawOld, sawNew := 0, 0
		for i := 0; i < nValues; i++ {
			v, ch := res[i].v, res[i].ch
			r.Eval(1)
			legal := v == old || v == n1 || (variant == "VSS" && v == n2)
			if !legal {
				c.Violation("sweep-value", fmt.Sprintf("three-party sweep %s, round %d: Value returned %d, which is neither the old value %d nor a value Set in this round", variant, rd, v, old), witness())
				return
			}
			closed := isClosed(ch)
			if v != current && !closed {
				c.Violation("channel-open-after-later-set", fmt.Sprintf("three-party sweep %s, round %d (spins %d/%d/%d): Value returned the old value %d with a channel that is still open after the later Set(%d) has returned: an observer waiting on it never wakes up",
					variant, rd, offset(0, rd), offset(1, rd), offset(2, rd), v, current), witness())
				return
			}
			if v == current && closed {
				c.Violation("channel-closed-without-later-set", fmt.Sprintf("three-party sweep %s, round %d: Value returned the current value %d with a closed channel", variant, rd, v), witness())
				return
			}
			if v == current {
				sawNew++
			} else {
				sawOld++
			}
		}
		switch {
		case sawOld > 0 && sawNew > 0:
			counts[variant+": one Value saw the old value, the other the new one"]++
			mixed[[3]int64{offset(0, rd), offset(1, rd), offset(2, rd)}] = struct{}{}
		case sawOld > 0:
			counts[variant+": every Value saw a value that was replaced afterwards"]++
		default:
			counts[variant+": every Value saw the current value"]++
		}
	}
	for k, v := range counts {
		r.Count("watchable-sweep", k, v)
	}
	for t := range mixed {
		r.Distinct(fmt.Sprintf("ws:%s:%d:%d:%d:%d", variant, c.Index, t[0], t[1], t[2]))
	}
	r.Count("watchable-sweep", "rounds", sweepBatch)
	r.Count("watchable-sweep", "rounds "+variant, sweepBatch)
}
